package v1alpha1

// C20 — API version conversion (DESIGN.md §6 C20).

import (
	"fmt"
	"time"

	"github.com/openkruise/rollouts/api/v1beta1"
	"github.com/openkruise/rollouts/pkg/verifrt"
	corev1 "k8s.io/api/core/v1"
	metav1 "k8s.io/apimachinery/pkg/apis/meta/v1"
	"k8s.io/apimachinery/pkg/util/intstr"
	gatewayv1beta1 "sigs.k8s.io/gateway-api/apis/v1beta1"
)

var c20Styles = []string{"", "partition", "Partition", "canary", "Canary", "bluegreen", "blueGreen", "something-else"}

func c20IntOrStr(name string) *intstr.IntOrString {
	switch verifrt.IntRange(name+".kind", 0, 2) {
	case 0:
		return nil
	case 1:
		v := intstr.FromInt(int(verifrt.Int32(name + ".int")))
		return &v
	}
	v := intstr.FromString(fmt.Sprintf("%d%%", verifrt.IntRange(name+".pct", 0, 100)))
	return &v
}

func c20Headers(name string, n int) []gatewayv1beta1.HTTPHeaderMatch {
	var hs []gatewayv1beta1.HTTPHeaderMatch
	for i := 0; i < n; i++ {
		hs = append(hs, gatewayv1beta1.HTTPHeaderMatch{Name: gatewayv1beta1.HTTPHeaderName(verifrt.String(name + ".hname")), Value: verifrt.String(name + ".hval")})
	}
	return hs
}

// Factor groups: the shape space of a Rollout is the product of independent optional blocks; a harness
// varies the groups in its mask over all their shapes and keeps the other groups at one fixed, maximal
// shape (all leaves stay symbolic). vBlocks: workloadRef/canary/canaryStatus/annotations nil-ness.
const (
	vBlocks = 1 << iota
	vAnno
	vSteps
	vTR
	vMeta
)

func c20Choose(vary bool, name string) bool {
	if !vary {
		return true
	}
	return verifrt.Bool(name)
}

func c20Count(vary bool, name string, max, fixed int) int {
	if !vary {
		return fixed
	}
	return verifrt.IntRange(name, 0, max)
}

// c20AlphaRollout builds a schema-admitted v1alpha1 Rollout; mask selects which factor groups vary.
func c20AlphaRollout(mask int) *Rollout {
	full := mask&vBlocks != 0
	r := &Rollout{}
	r.Name = verifrt.String("name")
	r.Namespace = verifrt.String("ns")
	if c20Choose(mask&(vAnno|vBlocks) != 0, "hasAnnotations") {
		r.Annotations = map[string]string{}
		if c20Choose(mask&vAnno != 0, "hasStyle") {
			si := 1
			if mask&vAnno != 0 {
				si = verifrt.IntRange("style", 0, len(c20Styles)-1)
			}
			r.Annotations[RolloutStyleAnnotation] = c20Styles[si]
		}
		if c20Choose(mask&vAnno != 0, "hasTRAnno") {
			r.Annotations[TrafficRoutingAnnotation] = verifrt.String("trAnno")
		}
	}
	if !full || verifrt.Bool("hasWorkloadRef") {
		r.Spec.ObjectRef.WorkloadRef = &WorkloadRef{APIVersion: verifrt.String("wr.apiVersion"), Kind: verifrt.String("wr.kind"), Name: verifrt.String("wr.name")}
	}
	r.Spec.Disabled = verifrt.Bool("disabled")
	r.Spec.Strategy.Paused = verifrt.Bool("paused")
	if !full || verifrt.Bool("hasCanary") {
		c := &CanaryStrategy{}
		if mask&(vMeta|vBlocks) != 0 {
			c.FailureThreshold = c20IntOrStr("failureThreshold")
		}
		vs := mask&vSteps != 0
		nSteps := c20Count(vs, "nSteps", verifrt.Bound("steps", 2, 2), 1)
		for i := 0; i < nSteps; i++ {
			st := CanaryStep{}
			// quick tier: the second step has the fixed maximal shape; thorough: both vary
			vs := vs && (i == 0 || verifrt.Bound("varySecondStep", 0, 1) == 1)
			if c20Choose(vs, "step.hasWeight") {
				w := verifrt.Int32("step.weight")
				st.Weight = &w
			}
			if vs {
				st.Replicas = c20IntOrStr("step.replicas")
			} else if verifrt.Bool("step.hasReplicas") {
				v := intstr.FromInt(int(verifrt.Int32("step.replicas.int")))
				st.Replicas = &v
			}
			if c20Choose(vs, "step.hasPause") {
				d := verifrt.Int32("step.pause")
				st.Pause.Duration = &d
			}
			nm := c20Count(vs, "step.nMatches", 1, 1)
			for j := 0; j < nm; j++ {
				st.Matches = append(st.Matches, HttpRouteMatch{Headers: c20Headers("step.match", c20Count(vs, "step.nHeaders", 2, 1))})
			}
			c.Steps = append(c.Steps, st)
		}
		vt := mask&vTR != 0
		nTR := c20Count(vt, "nTR", verifrt.Bound("trafficRoutings", 1, 2), 1)
		for i := 0; i < nTR; i++ {
			tr := TrafficRoutingRef{Service: verifrt.String("tr.service"), GracePeriodSeconds: verifrt.Int32("tr.grace")}
			if c20Choose(vt, "tr.hasIngress") {
				tr.Ingress = &IngressTrafficRouting{ClassType: verifrt.String("tr.ing.class"), Name: verifrt.String("tr.ing.name")}
			}
			if c20Choose(vt, "tr.hasGateway") {
				tr.Gateway = &GatewayTrafficRouting{}
				if c20Choose(vt, "tr.gw.hasRoute") {
					n := verifrt.String("tr.gw.route")
					tr.Gateway.HTTPRouteName = &n
				}
			}
			nc := c20Count(vt, "tr.nCustom", verifrt.Bound("customRefs", 1, 2), 1)
			for j := 0; j < nc; j++ {
				tr.CustomNetworkRefs = append(tr.CustomNetworkRefs, CustomNetworkRef{APIVersion: verifrt.String("tr.c.api"), Kind: verifrt.String("tr.c.kind"), Name: verifrt.String("tr.c.name")})
			}
			c.TrafficRoutings = append(c.TrafficRoutings, tr)
		}
		vm := mask&vMeta != 0
		if c20Choose(vm, "hasPatchMeta") {
			c.PatchPodTemplateMetadata = &PatchPodTemplateMetadata{}
			if c20Choose(vm, "pm.hasLabels") {
				c.PatchPodTemplateMetadata.Labels = map[string]string{verifrt.String("pm.lk"): verifrt.String("pm.lv")}
			}
			if c20Choose(vm, "pm.hasAnnos") {
				c.PatchPodTemplateMetadata.Annotations = map[string]string{verifrt.String("pm.ak"): verifrt.String("pm.av")}
			}
		}
		r.Spec.Strategy.Canary = c
	}
	r.Status.ObservedGeneration = verifrt.Int64("st.observedGeneration")
	r.Status.Phase = RolloutPhase(verifrt.String("st.phase"))
	r.Status.Message = verifrt.String("st.message")
	if verifrt.Bool("st.hasCondition") {
		r.Status.Conditions = []RolloutCondition{{Type: RolloutConditionType(verifrt.String("st.cond.type")), Status: "True",
			Reason: verifrt.String("st.cond.reason"), Message: verifrt.String("st.cond.message"),
			LastUpdateTime: c20Time(45), LastTransitionTime: c20Time(0)}}
	}
	if c20Choose(mask&(vBlocks|vMeta) != 0, "hasCanaryStatus") {
		r.Status.CanaryStatus = &CanaryStatus{
			ObservedWorkloadGeneration: verifrt.Int64("cs.owg"),
			ObservedRolloutID:          verifrt.String("cs.rid"),
			RolloutHash:                verifrt.String("cs.hash"),
			StableRevision:             verifrt.String("cs.stable"),
			CanaryRevision:             verifrt.String("cs.canary"),
			PodTemplateHash:            verifrt.String("cs.pth"),
			CanaryReplicas:             verifrt.Int32("cs.replicas"),
			CanaryReadyReplicas:        verifrt.Int32("cs.ready"),
			NextStepIndex:              verifrt.Int32("cs.next"),
			CurrentStepIndex:           verifrt.Int32("cs.cur"),
			CurrentStepState:           CanaryStepState(verifrt.String("cs.state")),
			Message:                    verifrt.String("cs.msg"),
			FinalisingStep:             FinalizeStateType(verifrt.String("cs.fin")),
		}
	}
	return r
}

// VerifC20_RolloutAlphaNoCrash: ConvertTo never panics or fails on any schema-admitted v1alpha1 Rollout
// (the CRD schema requires neither objectRef.workloadRef nor strategy.canary).
func VerifC20_RolloutAlphaNoCrash() {
	src := c20AlphaRollout(vBlocks)
	hub := &v1beta1.Rollout{}
	var err error
	panicked := verifrt.NoPanic(func() { err = src.ConvertTo(hub) })
	verifrt.Assert(!panicked, "C20.rollout.convertTo.nopanic")
	verifrt.Assert(err == nil, "C20.rollout.convertTo.noerror")
	if panicked || err != nil {
		return
	}
	back := &Rollout{}
	panicked = verifrt.NoPanic(func() { err = back.ConvertFrom(hub) })
	verifrt.Assert(!panicked, "C20.rollout.convertFrom.nopanic")
	verifrt.Assert(err == nil, "C20.rollout.convertFrom.noerror")
	verifrt.Cover("roundtrip-done")
}

func c20EffReplicas(s CanaryStep) (kind int, n int32, str string) {
	if s.Replicas != nil {
		if s.Replicas.Type == intstr.Int {
			return 1, s.Replicas.IntVal, ""
		}
		return 2, 0, s.Replicas.StrVal
	}
	if s.Weight != nil {
		return 2, 0, fmt.Sprintf("%d%%", *s.Weight)
	}
	return 0, 0, ""
}

func c20IsPartition(r *Rollout) bool {
	s := r.Annotations[RolloutStyleAnnotation]
	return s == "partition" || s == "Partition"
}

// alpha -> beta -> alpha keeps the meaning; one harness per factor group.
func VerifC20_RolloutAlphaRoundTrip_Steps() { c20RolloutAlphaRoundTrip(vSteps) }
func VerifC20_RolloutAlphaRoundTrip_Routing() { c20RolloutAlphaRoundTrip(vTR) }
func VerifC20_RolloutAlphaRoundTrip_AnnoMeta() { c20RolloutAlphaRoundTrip(vAnno | vMeta) }

func c20RolloutAlphaRoundTrip(mask int) {
	src := c20AlphaRollout(mask)
	hub := &v1beta1.Rollout{}
	err := src.ConvertTo(hub)
	verifrt.Assert(err == nil, "C20.rt.convertTo.noerror")
	back := &Rollout{}
	err = back.ConvertFrom(hub)
	verifrt.Assert(err == nil, "C20.rt.convertFrom.noerror")
	verifrt.Assert(back.Name == src.Name && back.Namespace == src.Namespace, "C20.rt.meta")
	// workload reference
	verifrt.Assert(back.Spec.ObjectRef.WorkloadRef != nil, "C20.rt.workloadRef.present")
	if back.Spec.ObjectRef.WorkloadRef == nil {
		return
	}
	a, b := src.Spec.ObjectRef.WorkloadRef, back.Spec.ObjectRef.WorkloadRef
	verifrt.Assert(a.APIVersion == b.APIVersion && a.Kind == b.Kind && a.Name == b.Name, "C20.rt.workloadRef.equal")
	verifrt.Assert(src.Spec.Disabled == back.Spec.Disabled && src.Spec.Strategy.Paused == back.Spec.Strategy.Paused, "C20.rt.flags")
	verifrt.Assert(back.Spec.Strategy.Canary != nil, "C20.rt.canary.present")
	if back.Spec.Strategy.Canary == nil {
		return
	}
	sc, bc := src.Spec.Strategy.Canary, back.Spec.Strategy.Canary
	// style
	verifrt.Assert(c20IsPartition(src) == c20IsPartition(back), "C20.rt.style")
	verifrt.Assert(src.Annotations[TrafficRoutingAnnotation] == back.Annotations[TrafficRoutingAnnotation], "C20.rt.trafficRoutingRef")
	// failure threshold
	verifrt.Assert((sc.FailureThreshold == nil) == (bc.FailureThreshold == nil), "C20.rt.failureThreshold.presence")
	if sc.FailureThreshold != nil && bc.FailureThreshold != nil {
		verifrt.Assert(*sc.FailureThreshold == *bc.FailureThreshold, "C20.rt.failureThreshold.value")
	}
	// steps
	verifrt.Assert(len(sc.Steps) == len(bc.Steps), "C20.rt.steps.len")
	if len(sc.Steps) != len(bc.Steps) {
		return
	}
	for i := range sc.Steps {
		s, t := sc.Steps[i], bc.Steps[i]
		k1, n1, p1 := c20EffReplicas(s)
		k2, n2, p2 := c20EffReplicas(t)
		verifrt.Assert(k1 == k2 && n1 == n2 && p1 == p2, "C20.rt.step.replicas")
		verifrt.Assert((s.Weight == nil) == (t.Weight == nil), "C20.rt.step.weight.presence")
		if s.Weight != nil && t.Weight != nil {
			verifrt.Assert(*s.Weight == *t.Weight, "C20.rt.step.weight.value")
		}
		verifrt.Assert((s.Pause.Duration == nil) == (t.Pause.Duration == nil), "C20.rt.step.pause.presence")
		if s.Pause.Duration != nil && t.Pause.Duration != nil {
			verifrt.Assert(*s.Pause.Duration == *t.Pause.Duration, "C20.rt.step.pause.value")
		}
		verifrt.Assert(len(s.Matches) == len(t.Matches), "C20.rt.step.matches.len")
		if len(s.Matches) == len(t.Matches) {
			for j := range s.Matches {
				verifrt.Assert(len(s.Matches[j].Headers) == len(t.Matches[j].Headers), "C20.rt.step.headers.len")
				if len(s.Matches[j].Headers) == len(t.Matches[j].Headers) {
					for k := range s.Matches[j].Headers {
						h1, h2 := s.Matches[j].Headers[k], t.Matches[j].Headers[k]
						verifrt.Assert(h1.Name == h2.Name && h1.Value == h2.Value, "C20.rt.step.header.equal")
					}
				}
			}
		}
	}
	// traffic routing references
	verifrt.Assert(len(sc.TrafficRoutings) == len(bc.TrafficRoutings), "C20.rt.tr.len")
	if len(sc.TrafficRoutings) == len(bc.TrafficRoutings) {
		for i := range sc.TrafficRoutings {
			x, y := sc.TrafficRoutings[i], bc.TrafficRoutings[i]
			verifrt.Assert(x.Service == y.Service && x.GracePeriodSeconds == y.GracePeriodSeconds, "C20.rt.tr.service")
			verifrt.Assert((x.Ingress == nil) == (y.Ingress == nil), "C20.rt.tr.ingress.presence")
			if x.Ingress != nil && y.Ingress != nil {
				verifrt.Assert(*x.Ingress == *y.Ingress, "C20.rt.tr.ingress.value")
			}
			verifrt.Assert((x.Gateway == nil) == (y.Gateway == nil), "C20.rt.tr.gateway.presence")
			if x.Gateway != nil && y.Gateway != nil {
				verifrt.Assert((x.Gateway.HTTPRouteName == nil) == (y.Gateway.HTTPRouteName == nil), "C20.rt.tr.gateway.route.presence")
				if x.Gateway.HTTPRouteName != nil && y.Gateway.HTTPRouteName != nil {
					verifrt.Assert(*x.Gateway.HTTPRouteName == *y.Gateway.HTTPRouteName, "C20.rt.tr.gateway.route.value")
				}
			}
			verifrt.Assert(len(x.CustomNetworkRefs) == len(y.CustomNetworkRefs), "C20.rt.tr.custom.len")
			if len(x.CustomNetworkRefs) == len(y.CustomNetworkRefs) {
				for j := range x.CustomNetworkRefs {
					verifrt.Assert(x.CustomNetworkRefs[j] == y.CustomNetworkRefs[j], "C20.rt.tr.custom.value")
				}
			}
		}
	}
	// status cursor
	verifrt.Assert(src.Status.ObservedGeneration == back.Status.ObservedGeneration && src.Status.Phase == back.Status.Phase && src.Status.Message == back.Status.Message, "C20.rt.status.top")
	verifrt.Assert(len(src.Status.Conditions) == len(back.Status.Conditions), "C20.rt.status.conditions.count")
	if len(src.Status.Conditions) == 1 && len(back.Status.Conditions) == 1 {
		a, b := src.Status.Conditions[0], back.Status.Conditions[0]
		verifrt.Assert(verifrt.And(a.Type == b.Type, a.Status == b.Status, a.Reason == b.Reason, a.Message == b.Message), "C20.rt.status.conditions.value")
		verifrt.Assert(a.LastUpdateTime.Equal(&b.LastUpdateTime) && a.LastTransitionTime.Equal(&b.LastTransitionTime), "C20.rt.status.conditions.times")
	}
	verifrt.Assert((src.Status.CanaryStatus == nil) == (back.Status.CanaryStatus == nil), "C20.rt.status.canary.presence")
	if src.Status.CanaryStatus != nil && back.Status.CanaryStatus != nil {
		verifrt.Assert(*src.Status.CanaryStatus == *back.Status.CanaryStatus, "C20.rt.status.canary.value")
	}
	verifrt.Cover("roundtrip-done")
}

// ---------------- v1beta1 Rollout -> v1alpha1 -> v1beta1 ----------------

func c20BetaRollout(varyBlocks bool, mask int) *v1beta1.Rollout {
	r := &v1beta1.Rollout{}
	r.Name = verifrt.String("name")
	if c20Choose(varyBlocks, "hasAnnotations") {
		k := verifrt.String("anno.k")
		// the two annotation keys v1alpha1 reserves to carry style / traffic-routing reference are not free user annotations
		verifrt.Assume(k != RolloutStyleAnnotation && k != TrafficRoutingAnnotation)
		r.Annotations = map[string]string{k: verifrt.String("anno.v")}
		// a style annotation left over from an earlier v1alpha1 write; v1beta1 ignores it (the style is
		// spec.strategy.canary.enableExtraWorkloadForCanary), so it must not change the meaning on the way back
		if verifrt.Bool("hasStaleStyle") {
			r.Annotations[RolloutStyleAnnotation] = c20Styles[verifrt.IntRange("staleStyle", 0, len(c20Styles)-1)]
		}
	}
	r.Spec.WorkloadRef = v1beta1.ObjectRef{APIVersion: verifrt.String("wr.apiVersion"), Kind: verifrt.String("wr.kind"), Name: verifrt.String("wr.name")}
	r.Spec.Disabled = verifrt.Bool("disabled")
	r.Spec.Strategy.Paused = verifrt.Bool("paused")
	if varyBlocks && verifrt.Bool("hasBlueGreen") {
		r.Spec.Strategy.BlueGreen = &v1beta1.BlueGreenStrategy{}
	}
	if c20Choose(varyBlocks, "hasCanary") {
		c := &v1beta1.CanaryStrategy{}
		c.EnableExtraWorkloadForCanary = verifrt.Bool("enableExtra")
		c.TrafficRoutingRef = verifrt.String("trRef")
		if mask&vMeta != 0 {
			c.FailureThreshold = c20IntOrStr("failureThreshold")
		}
		vs := mask&vSteps != 0
		nSteps := c20Count(vs, "nSteps", 2, 1)
		for i := 0; i < nSteps; i++ {
			st := v1beta1.CanaryStep{}
			vs := vs && (i == 0 || verifrt.Bound("varySecondStep", 0, 1) == 1)
			if c20Choose(vs, "step.hasTraffic") {
				t := fmt.Sprintf("%d%%", verifrt.IntRange("step.traffic", 0, 100))
				st.Traffic = &t
			}
			if vs {
				st.Replicas = c20IntOrStr("step.replicas")
			} else {
				v := intstr.FromString(fmt.Sprintf("%d%%", verifrt.IntRange("step.replicas.pct", 0, 100)))
				st.Replicas = &v
			}
			if c20Choose(vs, "step.hasPause") {
				d := verifrt.Int32("step.pause")
				st.Pause.Duration = &d
			}
			nm := c20Count(vs, "step.nMatches", 1, 1)
			for j := 0; j < nm; j++ {
				st.Matches = append(st.Matches, v1beta1.HttpRouteMatch{Headers: c20Headers("step.match", c20Count(vs, "step.nHeaders", 2, 1))})
			}
			c.Steps = append(c.Steps, st)
		}
		vt := mask&vTR != 0
		nTR := c20Count(vt, "nTR", 1, 1)
		for i := 0; i < nTR; i++ {
			tr := v1beta1.TrafficRoutingRef{Service: verifrt.String("tr.service"), GracePeriodSeconds: verifrt.Int32("tr.grace")}
			if c20Choose(vt, "tr.hasIngress") {
				tr.Ingress = &v1beta1.IngressTrafficRouting{ClassType: verifrt.String("tr.ing.class"), Name: verifrt.String("tr.ing.name")}
			}
			if c20Choose(vt, "tr.hasGateway") {
				tr.Gateway = &v1beta1.GatewayTrafficRouting{}
				if c20Choose(vt, "tr.gw.hasRoute") {
					n := verifrt.String("tr.gw.route")
					tr.Gateway.HTTPRouteName = &n
				}
			}
			nc := c20Count(vt, "tr.nCustom", 1, 1)
			for j := 0; j < nc; j++ {
				tr.CustomNetworkRefs = append(tr.CustomNetworkRefs, v1beta1.ObjectRef{APIVersion: verifrt.String("tr.c.api"), Kind: verifrt.String("tr.c.kind"), Name: verifrt.String("tr.c.name")})
			}
			c.TrafficRoutings = append(c.TrafficRoutings, tr)
		}
		vm := mask&vMeta != 0
		if c20Choose(vm, "hasPatchMeta") {
			c.PatchPodTemplateMetadata = &v1beta1.PatchPodTemplateMetadata{}
			if c20Choose(vm, "pm.hasLabels") {
				c.PatchPodTemplateMetadata.Labels = map[string]string{verifrt.String("pm.lk"): verifrt.String("pm.lv")}
			}
			if c20Choose(vm, "pm.hasAnnos") {
				c.PatchPodTemplateMetadata.Annotations = map[string]string{verifrt.String("pm.ak"): verifrt.String("pm.av")}
			}
		}
		r.Spec.Strategy.Canary = c
	}
	r.Status.ObservedGeneration = verifrt.Int64("st.observedGeneration")
	r.Status.Phase = v1beta1.RolloutPhase(verifrt.String("st.phase"))
	r.Status.Message = verifrt.String("st.message")
	if verifrt.Bool("st.hasCondition") {
		r.Status.Conditions = []v1beta1.RolloutCondition{{Type: v1beta1.RolloutConditionType(verifrt.String("st.cond.type")), Status: "True",
			Reason: verifrt.String("st.cond.reason"), Message: verifrt.String("st.cond.message"),
			LastUpdateTime: c20Time(45), LastTransitionTime: c20Time(0)}}
	}
	if c20Choose(varyBlocks || mask&vMeta != 0, "hasCanaryStatus") {
		r.Status.CanaryStatus = &v1beta1.CanaryStatus{}
		cs := r.Status.CanaryStatus
		cs.ObservedWorkloadGeneration = verifrt.Int64("cs.owg")
		cs.ObservedRolloutID = verifrt.String("cs.rid")
		cs.RolloutHash = verifrt.String("cs.hash")
		cs.StableRevision = verifrt.String("cs.stable")
		cs.PodTemplateHash = verifrt.String("cs.pth")
		cs.CurrentStepIndex = verifrt.Int32("cs.cur")
		cs.NextStepIndex = verifrt.Int32("cs.next")
		cs.CurrentStepState = v1beta1.CanaryStepState(verifrt.String("cs.state"))
		cs.FinalisingStep = v1beta1.FinalisingStepType(verifrt.String("cs.fin"))
		cs.Message = verifrt.String("cs.msg")
		cs.CanaryRevision = verifrt.String("cs.canary")
		cs.CanaryReplicas = verifrt.Int32("cs.replicas")
		cs.CanaryReadyReplicas = verifrt.Int32("cs.ready")
	}
	return r
}

// VerifC20_RolloutBetaNoCrash: ConvertFrom never panics or fails on any schema-admitted v1beta1 Rollout
// (strategy: {} — neither canary nor blueGreen — is admitted by the CRD schema).
func VerifC20_RolloutBetaNoCrash() {
	hub := c20BetaRollout(true, 0)
	dst := &Rollout{}
	var err error
	panicked := verifrt.NoPanic(func() { err = dst.ConvertFrom(hub) })
	verifrt.Assert(!panicked, "C20.rollout.convertFrom.beta.nopanic")
	verifrt.Assert(err == nil, "C20.rollout.convertFrom.beta.noerror")
	verifrt.Cover("done")
}

func VerifC20_RolloutBetaRoundTrip_Steps() { c20RolloutBetaRoundTrip(vSteps) }
func VerifC20_RolloutBetaRoundTrip_Routing() { c20RolloutBetaRoundTrip(vTR) }
func VerifC20_RolloutBetaRoundTrip_Meta() { c20RolloutBetaRoundTrip(vMeta) }

// beta(canary strategy, alpha-expressible fields) -> alpha -> beta is the identity on those fields.
func c20RolloutBetaRoundTrip(mask int) {
	src := c20BetaRollout(false, mask)
	mid := &Rollout{}
	err := mid.ConvertFrom(src)
	verifrt.Assert(err == nil, "C20.brt.convertFrom.noerror")
	back := &v1beta1.Rollout{}
	err = mid.ConvertTo(back)
	verifrt.Assert(err == nil, "C20.brt.convertTo.noerror")
	verifrt.Assert(back.Name == src.Name, "C20.brt.meta")
	verifrt.Assert(back.Spec.WorkloadRef == src.Spec.WorkloadRef, "C20.brt.workloadRef")
	verifrt.Assert(back.Spec.Disabled == src.Spec.Disabled && back.Spec.Strategy.Paused == src.Spec.Strategy.Paused, "C20.brt.flags")
	verifrt.Assert(back.Spec.Strategy.Canary != nil && back.Spec.Strategy.BlueGreen == nil, "C20.brt.strategy.kind")
	if back.Spec.Strategy.Canary == nil {
		return
	}
	sc, bc := src.Spec.Strategy.Canary, back.Spec.Strategy.Canary
	verifrt.Assert(sc.EnableExtraWorkloadForCanary == bc.EnableExtraWorkloadForCanary, "C20.brt.style")
	verifrt.Assert(sc.TrafficRoutingRef == bc.TrafficRoutingRef, "C20.brt.trafficRoutingRef")
	verifrt.Assert((sc.FailureThreshold == nil) == (bc.FailureThreshold == nil), "C20.brt.failureThreshold.presence")
	if sc.FailureThreshold != nil && bc.FailureThreshold != nil {
		verifrt.Assert(*sc.FailureThreshold == *bc.FailureThreshold, "C20.brt.failureThreshold.value")
	}
	verifrt.Assert(len(sc.Steps) == len(bc.Steps), "C20.brt.steps.len")
	if len(sc.Steps) == len(bc.Steps) {
		for i := range sc.Steps {
			s, t := sc.Steps[i], bc.Steps[i]
			verifrt.Assert((s.Traffic == nil) == (t.Traffic == nil), "C20.brt.step.traffic.presence")
			if s.Traffic != nil && t.Traffic != nil {
				verifrt.Assert(*s.Traffic == *t.Traffic, "C20.brt.step.traffic.value")
			}
			// replicas: identical when set; when unset alpha derives it from the weight (documented)
			if s.Replicas != nil {
				verifrt.Assert(t.Replicas != nil, "C20.brt.step.replicas.presence")
				if t.Replicas != nil {
					verifrt.Assert(*s.Replicas == *t.Replicas, "C20.brt.step.replicas.value")
				}
			}
			verifrt.Assert((s.Pause.Duration == nil) == (t.Pause.Duration == nil), "C20.brt.step.pause.presence")
			if s.Pause.Duration != nil && t.Pause.Duration != nil {
				verifrt.Assert(*s.Pause.Duration == *t.Pause.Duration, "C20.brt.step.pause.value")
			}
			verifrt.Assert(len(s.Matches) == len(t.Matches), "C20.brt.step.matches.len")
			if len(s.Matches) == len(t.Matches) {
				for j := range s.Matches {
					verifrt.Assert(len(s.Matches[j].Headers) == len(t.Matches[j].Headers), "C20.brt.step.headers.len")
					if len(s.Matches[j].Headers) == len(t.Matches[j].Headers) {
						for k := range s.Matches[j].Headers {
							h1, h2 := s.Matches[j].Headers[k], t.Matches[j].Headers[k]
							verifrt.Assert(h1.Name == h2.Name && h1.Value == h2.Value, "C20.brt.step.header.equal")
						}
					}
				}
			}
		}
	}
	verifrt.Assert(len(sc.TrafficRoutings) == len(bc.TrafficRoutings), "C20.brt.tr.len")
	if len(sc.TrafficRoutings) == len(bc.TrafficRoutings) {
		for i := range sc.TrafficRoutings {
			x, y := sc.TrafficRoutings[i], bc.TrafficRoutings[i]
			verifrt.Assert(x.Service == y.Service && x.GracePeriodSeconds == y.GracePeriodSeconds, "C20.brt.tr.service")
			verifrt.Assert((x.Ingress == nil) == (y.Ingress == nil), "C20.brt.tr.ingress.presence")
			if x.Ingress != nil && y.Ingress != nil {
				verifrt.Assert(*x.Ingress == *y.Ingress, "C20.brt.tr.ingress.value")
			}
			verifrt.Assert((x.Gateway == nil) == (y.Gateway == nil), "C20.brt.tr.gateway.presence")
			if x.Gateway != nil && y.Gateway != nil {
				verifrt.Assert((x.Gateway.HTTPRouteName == nil) == (y.Gateway.HTTPRouteName == nil), "C20.brt.tr.gateway.route.presence")
				if x.Gateway.HTTPRouteName != nil && y.Gateway.HTTPRouteName != nil {
					verifrt.Assert(*x.Gateway.HTTPRouteName == *y.Gateway.HTTPRouteName, "C20.brt.tr.gateway.route.value")
				}
			}
			verifrt.Assert(len(x.CustomNetworkRefs) == len(y.CustomNetworkRefs), "C20.brt.tr.custom.len")
			if len(x.CustomNetworkRefs) == len(y.CustomNetworkRefs) {
				for j := range x.CustomNetworkRefs {
					verifrt.Assert(x.CustomNetworkRefs[j] == y.CustomNetworkRefs[j], "C20.brt.tr.custom.value")
				}
			}
		}
	}
	verifrt.Assert((sc.PatchPodTemplateMetadata == nil) == (bc.PatchPodTemplateMetadata == nil), "C20.brt.patchMeta.presence")
	if sc.PatchPodTemplateMetadata != nil && bc.PatchPodTemplateMetadata != nil {
		for k, v := range sc.PatchPodTemplateMetadata.Labels {
			verifrt.Assert(bc.PatchPodTemplateMetadata.Labels[k] == v, "C20.brt.patchMeta.label")
		}
		for k, v := range sc.PatchPodTemplateMetadata.Annotations {
			verifrt.Assert(bc.PatchPodTemplateMetadata.Annotations[k] == v, "C20.brt.patchMeta.annotation")
		}
		verifrt.Assert(len(bc.PatchPodTemplateMetadata.Labels) == len(sc.PatchPodTemplateMetadata.Labels) && len(bc.PatchPodTemplateMetadata.Annotations) == len(sc.PatchPodTemplateMetadata.Annotations), "C20.brt.patchMeta.noextra")
	}
	verifrt.Assert(src.Status.ObservedGeneration == back.Status.ObservedGeneration && src.Status.Phase == back.Status.Phase && src.Status.Message == back.Status.Message, "C20.brt.status.top")
	verifrt.Assert(len(src.Status.Conditions) == len(back.Status.Conditions), "C20.brt.status.conditions.count")
	if len(src.Status.Conditions) == 1 && len(back.Status.Conditions) == 1 {
		a, b := src.Status.Conditions[0], back.Status.Conditions[0]
		verifrt.Assert(verifrt.And(a.Type == b.Type, a.Status == b.Status, a.Reason == b.Reason, a.Message == b.Message), "C20.brt.status.conditions.value")
		verifrt.Assert(a.LastUpdateTime.Equal(&b.LastUpdateTime) && a.LastTransitionTime.Equal(&b.LastTransitionTime), "C20.brt.status.conditions.times")
	}
	verifrt.Assert((src.Status.CanaryStatus == nil) == (back.Status.CanaryStatus == nil), "C20.brt.status.canary.presence")
	if src.Status.CanaryStatus != nil && back.Status.CanaryStatus != nil {
		verifrt.Assert(*src.Status.CanaryStatus == *back.Status.CanaryStatus, "C20.brt.status.canary.value")
	}
	verifrt.Cover("roundtrip-done")
}

// ---------------- BatchRelease ----------------

func c20AlphaBatchRelease(varyBlocks bool) *BatchRelease {
	b := &BatchRelease{}
	b.Name = verifrt.String("name")
	if c20Choose(varyBlocks, "hasAnnotations") {
		b.Annotations = map[string]string{}
		if verifrt.Bool("hasStyle") {
			b.Annotations[RolloutStyleAnnotation] = c20Styles[verifrt.IntRange("style", 0, len(c20Styles)-1)]
		}
	}
	if c20Choose(varyBlocks, "hasWorkloadRef") {
		b.Spec.TargetRef.WorkloadRef = &WorkloadRef{APIVersion: verifrt.String("wr.apiVersion"), Kind: verifrt.String("wr.kind"), Name: verifrt.String("wr.name")}
	}
	p := &b.Spec.ReleasePlan
	nb := verifrt.IntRange("nBatches", 0, 2)
	for i := 0; i < nb; i++ {
		v := c20IntOrStr("batch")
		if v == nil {
			p.Batches = append(p.Batches, ReleaseBatch{})
		} else {
			p.Batches = append(p.Batches, ReleaseBatch{CanaryReplicas: *v})
		}
	}
	if verifrt.Bool("hasPartition") {
		bp := verifrt.Int32("partition")
		p.BatchPartition = &bp
	}
	p.RolloutID = verifrt.String("rolloutID")
	p.FailureThreshold = c20IntOrStr("failureThreshold")
	p.FinalizingPolicy = FinalizingPolicyType(verifrt.String("finalizingPolicy"))
	p.EnableExtraWorkloadForCanary = verifrt.Bool("enableExtra")
	if verifrt.Bool("hasPatchMeta") {
		p.PatchPodTemplateMetadata = &PatchPodTemplateMetadata{Labels: map[string]string{verifrt.String("pm.lk"): verifrt.String("pm.lv")}}
	}
	st := &b.Status
	st.StableRevision = verifrt.String("st.stable")
	st.UpdateRevision = verifrt.String("st.update")
	st.ObservedGeneration = verifrt.Int64("st.og")
	st.ObservedRolloutID = verifrt.String("st.rid")
	st.ObservedWorkloadReplicas = verifrt.Int32("st.owr")
	st.ObservedReleasePlanHash = verifrt.String("st.hash")
	st.Phase = RolloutPhase(verifrt.String("st.phase"))
	if verifrt.Bool("st.hasCollision") {
		c := verifrt.Int32("st.collision")
		st.CollisionCount = &c
	}
	st.CanaryStatus.CurrentBatchState = BatchReleaseBatchStateType(verifrt.String("st.batchState"))
	st.CanaryStatus.CurrentBatch = verifrt.Int32("st.currentBatch")
	st.CanaryStatus.UpdatedReplicas = verifrt.Int32("st.updated")
	st.CanaryStatus.UpdatedReadyReplicas = verifrt.Int32("st.updatedReady")
	if verifrt.Bool("st.hasNoNeed") {
		n := verifrt.Int32("st.noNeed")
		st.CanaryStatus.NoNeedUpdateReplicas = &n
	}
	return b
}

// VerifC20_BatchReleaseAlphaNoCrash: the schema admits targetReference: {}.
func VerifC20_BatchReleaseAlphaNoCrash() {
	src := c20AlphaBatchRelease(true)
	hub := &v1beta1.BatchRelease{}
	var err error
	panicked := verifrt.NoPanic(func() { err = src.ConvertTo(hub) })
	verifrt.Assert(!panicked, "C20.br.convertTo.nopanic")
	verifrt.Assert(err == nil, "C20.br.convertTo.noerror")
	if panicked {
		return
	}
	back := &BatchRelease{}
	panicked = verifrt.NoPanic(func() { err = back.ConvertFrom(hub) })
	verifrt.Assert(!panicked, "C20.br.convertFrom.nopanic")
	verifrt.Assert(err == nil, "C20.br.convertFrom.noerror")
	verifrt.Cover("done")
}

func c20StyleClass(s string) int {
	switch s {
	case "partition", "Partition":
		return 1
	case "canary", "Canary":
		return 2
	case "bluegreen", "blueGreen":
		return 3
	}
	return 0
}

// VerifC20_BatchReleaseAlphaRoundTrip: alpha -> beta -> alpha keeps the meaning.
func VerifC20_BatchReleaseAlphaRoundTrip() {
	src := c20AlphaBatchRelease(false)
	hub := &v1beta1.BatchRelease{}
	err := src.ConvertTo(hub)
	verifrt.Assert(err == nil, "C20.br.rt.convertTo.noerror")
	back := &BatchRelease{}
	err = back.ConvertFrom(hub)
	verifrt.Assert(err == nil, "C20.br.rt.convertFrom.noerror")
	verifrt.Assert(back.Name == src.Name, "C20.br.rt.meta")
	verifrt.Assert(back.Spec.TargetRef.WorkloadRef != nil, "C20.br.rt.workloadRef.presence")
	if back.Spec.TargetRef.WorkloadRef != nil {
		verifrt.Assert(*back.Spec.TargetRef.WorkloadRef == *src.Spec.TargetRef.WorkloadRef, "C20.br.rt.workloadRef.value")
	}
	sp, bp := src.Spec.ReleasePlan, back.Spec.ReleasePlan
	verifrt.Assert(len(sp.Batches) == len(bp.Batches), "C20.br.rt.batches.len")
	if len(sp.Batches) == len(bp.Batches) {
		for i := range sp.Batches {
			verifrt.Assert(sp.Batches[i].CanaryReplicas == bp.Batches[i].CanaryReplicas, "C20.br.rt.batches.value")
		}
	}
	verifrt.Assert((sp.BatchPartition == nil) == (bp.BatchPartition == nil), "C20.br.rt.partition.presence")
	if sp.BatchPartition != nil && bp.BatchPartition != nil {
		verifrt.Assert(*sp.BatchPartition == *bp.BatchPartition, "C20.br.rt.partition.value")
	}
	verifrt.Assert(sp.RolloutID == bp.RolloutID && sp.FinalizingPolicy == bp.FinalizingPolicy && sp.EnableExtraWorkloadForCanary == bp.EnableExtraWorkloadForCanary, "C20.br.rt.plan.scalars")
	verifrt.Assert((sp.FailureThreshold == nil) == (bp.FailureThreshold == nil), "C20.br.rt.failureThreshold.presence")
	if sp.FailureThreshold != nil && bp.FailureThreshold != nil {
		verifrt.Assert(*sp.FailureThreshold == *bp.FailureThreshold, "C20.br.rt.failureThreshold.value")
	}
	// style carried in the rolling-style annotation
	verifrt.Assert(c20StyleClass(src.Annotations[RolloutStyleAnnotation]) == c20StyleClass(back.Annotations[RolloutStyleAnnotation]), "C20.br.rt.style")
	verifrt.Assert(src.Status.StableRevision == back.Status.StableRevision && src.Status.UpdateRevision == back.Status.UpdateRevision &&
		src.Status.ObservedGeneration == back.Status.ObservedGeneration && src.Status.ObservedRolloutID == back.Status.ObservedRolloutID &&
		src.Status.ObservedWorkloadReplicas == back.Status.ObservedWorkloadReplicas && src.Status.ObservedReleasePlanHash == back.Status.ObservedReleasePlanHash &&
		src.Status.Phase == back.Status.Phase, "C20.br.rt.status.top")
	a, b := src.Status.CanaryStatus, back.Status.CanaryStatus
	verifrt.Assert(a.CurrentBatchState == b.CurrentBatchState && a.CurrentBatch == b.CurrentBatch && a.UpdatedReplicas == b.UpdatedReplicas && a.UpdatedReadyReplicas == b.UpdatedReadyReplicas, "C20.br.rt.status.cursor")
	verifrt.Assert((a.NoNeedUpdateReplicas == nil) == (b.NoNeedUpdateReplicas == nil), "C20.br.rt.status.noNeed.presence")
	if a.NoNeedUpdateReplicas != nil && b.NoNeedUpdateReplicas != nil {
		verifrt.Assert(*a.NoNeedUpdateReplicas == *b.NoNeedUpdateReplicas, "C20.br.rt.status.noNeed.value")
	}
	verifrt.Cover("roundtrip-done")
}

// VerifC20_BatchReleaseBetaRoundTrip: a stored v1beta1 BatchRelease read and written back through the v1alpha1 view
// (beta -> alpha -> beta) keeps its meaning, whatever its metadata looks like: annotations absent, empty, holding
// other keys, or holding a stale rolling-style annotation (the style travels in that annotation on the alpha side).
func VerifC20_BatchReleaseBetaRoundTrip() {
	src := &v1beta1.BatchRelease{}
	src.Name = verifrt.String("name")
	switch verifrt.IntRange("annotations", 0, 3) {
	case 1:
		src.Annotations = map[string]string{}
	case 2:
		src.Annotations = map[string]string{"team": verifrt.String("anno.v")}
	case 3:
		src.Annotations = map[string]string{RolloutStyleAnnotation: c20Styles[verifrt.IntRange("staleStyle", 0, len(c20Styles)-1)]}
	}
	src.Spec.WorkloadRef = v1beta1.ObjectRef{APIVersion: verifrt.String("wr.apiVersion"), Kind: verifrt.String("wr.kind"), Name: verifrt.String("wr.name")}
	p := &src.Spec.ReleasePlan
	p.RollingStyle = []v1beta1.RollingStyleType{"", v1beta1.PartitionRollingStyle, v1beta1.CanaryRollingStyle, v1beta1.BlueGreenRollingStyle}[verifrt.IntRange("rollingStyle", 0, 3)]
	nb := verifrt.IntRange("nBatches", 0, 2)
	for i := 0; i < nb; i++ {
		v := c20IntOrStr("batch")
		if v == nil {
			p.Batches = append(p.Batches, v1beta1.ReleaseBatch{})
		} else {
			p.Batches = append(p.Batches, v1beta1.ReleaseBatch{CanaryReplicas: *v})
		}
	}
	if verifrt.Bool("hasPartition") {
		bp := verifrt.Int32("partition")
		p.BatchPartition = &bp
	}
	p.RolloutID = verifrt.String("rolloutID")
	p.FailureThreshold = c20IntOrStr("failureThreshold")
	p.FinalizingPolicy = v1beta1.FinalizingPolicyType(verifrt.String("finalizingPolicy"))
	p.EnableExtraWorkloadForCanary = verifrt.Bool("enableExtra")
	if verifrt.Bool("hasPatchMeta") {
		p.PatchPodTemplateMetadata = &v1beta1.PatchPodTemplateMetadata{Labels: map[string]string{verifrt.String("pm.lk"): verifrt.String("pm.lv")}, Annotations: map[string]string{verifrt.String("pm.ak"): verifrt.String("pm.av")}}
	}
	st := &src.Status
	st.StableRevision, st.UpdateRevision = verifrt.String("st.stable"), verifrt.String("st.update")
	st.ObservedGeneration, st.ObservedRolloutID = verifrt.Int64("st.og"), verifrt.String("st.rid")
	st.ObservedWorkloadReplicas, st.ObservedReleasePlanHash = verifrt.Int32("st.owr"), verifrt.String("st.hash")
	st.Phase = v1beta1.RolloutPhase(verifrt.String("st.phase"))
	if verifrt.Bool("st.hasCollision") {
		c := verifrt.Int32("st.collision")
		st.CollisionCount = &c
	}
	if verifrt.Bool("st.hasCondition") {
		st.Conditions = []v1beta1.RolloutCondition{{Type: v1beta1.RolloutConditionType(verifrt.String("cond.type")), Status: corev1.ConditionStatus(verifrt.String("cond.status")), Reason: verifrt.String("cond.reason"), Message: verifrt.String("cond.message"), LastUpdateTime: c20Time(45), LastTransitionTime: c20Time(0)}}
	}
	st.CanaryStatus.CurrentBatchState = v1beta1.BatchReleaseBatchStateType(verifrt.String("st.batchState"))
	st.CanaryStatus.CurrentBatch = verifrt.Int32("st.currentBatch")
	st.CanaryStatus.UpdatedReplicas, st.CanaryStatus.UpdatedReadyReplicas = verifrt.Int32("st.updated"), verifrt.Int32("st.updatedReady")
	if verifrt.Bool("st.hasNoNeed") {
		n := verifrt.Int32("st.noNeed")
		st.CanaryStatus.NoNeedUpdateReplicas = &n
	}

	mid := &BatchRelease{}
	err := mid.ConvertFrom(src.DeepCopy())
	verifrt.Assert(err == nil, "C20.br.brt.convertFrom.noerror")
	back := &v1beta1.BatchRelease{}
	err = mid.ConvertTo(back)
	verifrt.Assert(err == nil, "C20.br.brt.convertTo.noerror")

	verifrt.Assert(back.Name == src.Name, "C20.br.brt.meta")
	verifrt.Assert(back.Spec.WorkloadRef == src.Spec.WorkloadRef, "C20.br.brt.workloadRef")
	sp, bp := src.Spec.ReleasePlan, back.Spec.ReleasePlan
	verifrt.Assert(bp.RollingStyle == sp.RollingStyle, "C20.br.brt.rollingStyle")
	for k, v := range src.Annotations {
		if k != RolloutStyleAnnotation {
			verifrt.Assert(back.Annotations[k] == v, "C20.br.brt.userAnnotationsKept")
		}
	}
	verifrt.Assert(len(sp.Batches) == len(bp.Batches), "C20.br.brt.batches.len")
	if len(sp.Batches) == len(bp.Batches) {
		for i := range sp.Batches {
			verifrt.Assert(sp.Batches[i].CanaryReplicas == bp.Batches[i].CanaryReplicas, "C20.br.brt.batches.value")
		}
	}
	verifrt.Assert((sp.BatchPartition == nil) == (bp.BatchPartition == nil), "C20.br.brt.partition.presence")
	if sp.BatchPartition != nil && bp.BatchPartition != nil {
		verifrt.Assert(*sp.BatchPartition == *bp.BatchPartition, "C20.br.brt.partition.value")
	}
	verifrt.Assert(sp.RolloutID == bp.RolloutID && sp.FinalizingPolicy == bp.FinalizingPolicy && sp.EnableExtraWorkloadForCanary == bp.EnableExtraWorkloadForCanary, "C20.br.brt.plan.scalars")
	verifrt.Assert((sp.FailureThreshold == nil) == (bp.FailureThreshold == nil), "C20.br.brt.failureThreshold.presence")
	if sp.FailureThreshold != nil && bp.FailureThreshold != nil {
		verifrt.Assert(*sp.FailureThreshold == *bp.FailureThreshold, "C20.br.brt.failureThreshold.value")
	}
	verifrt.Assert((sp.PatchPodTemplateMetadata == nil) == (bp.PatchPodTemplateMetadata == nil), "C20.br.brt.patchMeta.presence")
	if sp.PatchPodTemplateMetadata != nil && bp.PatchPodTemplateMetadata != nil {
		for k, v := range sp.PatchPodTemplateMetadata.Labels {
			verifrt.Assert(bp.PatchPodTemplateMetadata.Labels[k] == v, "C20.br.brt.patchMeta.label")
		}
		for k, v := range sp.PatchPodTemplateMetadata.Annotations {
			verifrt.Assert(bp.PatchPodTemplateMetadata.Annotations[k] == v, "C20.br.brt.patchMeta.annotation")
		}
		verifrt.Assert(len(bp.PatchPodTemplateMetadata.Labels) == len(sp.PatchPodTemplateMetadata.Labels) && len(bp.PatchPodTemplateMetadata.Annotations) == len(sp.PatchPodTemplateMetadata.Annotations), "C20.br.brt.patchMeta.noextra")
	}
	ss, bs := src.Status, back.Status
	verifrt.Assert(ss.StableRevision == bs.StableRevision && ss.UpdateRevision == bs.UpdateRevision && ss.ObservedGeneration == bs.ObservedGeneration &&
		ss.ObservedRolloutID == bs.ObservedRolloutID && ss.ObservedWorkloadReplicas == bs.ObservedWorkloadReplicas &&
		ss.ObservedReleasePlanHash == bs.ObservedReleasePlanHash && ss.Phase == bs.Phase, "C20.br.brt.status.top")
	verifrt.Assert((ss.CollisionCount == nil) == (bs.CollisionCount == nil), "C20.br.brt.status.collision.presence")
	if ss.CollisionCount != nil && bs.CollisionCount != nil {
		verifrt.Assert(*ss.CollisionCount == *bs.CollisionCount, "C20.br.brt.status.collision.value")
	}
	verifrt.Assert(len(ss.Conditions) == len(bs.Conditions), "C20.br.brt.status.conditions.len")
	if len(ss.Conditions) == 1 && len(bs.Conditions) == 1 {
		a, b := ss.Conditions[0], bs.Conditions[0]
		verifrt.Assert(a.Type == b.Type && a.Status == b.Status && a.Reason == b.Reason && a.Message == b.Message, "C20.br.brt.status.conditions.value")
		verifrt.Assert(a.LastUpdateTime.Equal(&b.LastUpdateTime) && a.LastTransitionTime.Equal(&b.LastTransitionTime), "C20.br.brt.status.conditions.times")
	}
	a, b := ss.CanaryStatus, bs.CanaryStatus
	verifrt.Assert(a.CurrentBatchState == b.CurrentBatchState && a.CurrentBatch == b.CurrentBatch && a.UpdatedReplicas == b.UpdatedReplicas && a.UpdatedReadyReplicas == b.UpdatedReadyReplicas, "C20.br.brt.status.cursor")
	verifrt.Assert((a.NoNeedUpdateReplicas == nil) == (b.NoNeedUpdateReplicas == nil), "C20.br.brt.status.noNeed.presence")
	if a.NoNeedUpdateReplicas != nil && b.NoNeedUpdateReplicas != nil {
		verifrt.Assert(*a.NoNeedUpdateReplicas == *b.NoNeedUpdateReplicas, "C20.br.brt.status.noNeed.value")
	}
	verifrt.Cover("br-beta-roundtrip-done")
}

// c20Time: a timestamp `minutes` after a fixed instant of the (symbolic) clock; distinct arguments give distinct times.
var c20Epoch = time.Now()

func c20Time(minutes int) metav1.Time {
	return metav1.NewTime(c20Epoch.Add(time.Duration(minutes) * time.Minute))
}
