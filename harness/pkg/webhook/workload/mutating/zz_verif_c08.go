package mutating

// C08 — no unsupervised release: admission holds back every relevant change and nothing else (DESIGN.md §6 C08).

import (
	"k8s.io/apimachinery/pkg/apis/meta/v1/unstructured"
	"math"

	kruiseappsv1alpha1 "github.com/openkruise/kruise-api/apps/v1alpha1"
	appsv1alpha1 "github.com/openkruise/rollouts/api/v1alpha1"
	appsv1beta1 "github.com/openkruise/rollouts/api/v1beta1"
	"github.com/openkruise/rollouts/pkg/util"
	"github.com/openkruise/rollouts/pkg/verifrt"
	"github.com/openkruise/rollouts/pkg/verifrt/symclient"
	apps "k8s.io/api/apps/v1"
	metav1 "k8s.io/apimachinery/pkg/apis/meta/v1"
	"k8s.io/apimachinery/pkg/util/intstr"
	"sigs.k8s.io/controller-runtime/pkg/client"
)

type c08Rollouts struct {
	list        []appsv1beta1.Rollout
	activeMatch *appsv1beta1.Rollout // the (unique) active Rollout that references the workload, if any
}

// c08MakeRollouts: 0..2 Rollouts in the namespace; at most one active one references the workload (the validating
// webhook refuses a second Rollout for the same workload, C09).
func c08MakeRollouts(apiVersion, kind string) *c08Rollouts {
	return c08MakeRolloutsN(apiVersion, kind, verifrt.Bound("rollouts", 1, 2))
}

func c08MakeRolloutsN(apiVersion, kind string, maxN int) *c08Rollouts {
	out := &c08Rollouts{}
	n := verifrt.Concrete(verifrt.IntRange("nRollouts", 0, maxN))
	for i := 0; i < n; i++ {
		r := appsv1beta1.Rollout{ObjectMeta: metav1.ObjectMeta{Namespace: "ns", Name: "ro-" + string(rune('a'+i))}}
		matches := verifrt.Bool("ro.matches")
		if matches {
			r.Spec.WorkloadRef = appsv1beta1.ObjectRef{APIVersion: apiVersion, Kind: kind, Name: "w"}
		} else {
			switch verifrt.IntRange("ro.mismatch", 0, 2) {
			case 0:
				r.Spec.WorkloadRef = appsv1beta1.ObjectRef{APIVersion: apiVersion, Kind: kind, Name: "other"}
			case 1:
				r.Spec.WorkloadRef = appsv1beta1.ObjectRef{APIVersion: apiVersion, Kind: "SomethingElse", Name: "w"}
			default:
				r.Spec.WorkloadRef = appsv1beta1.ObjectRef{APIVersion: "example.com/v1", Kind: kind, Name: "w"}
			}
		}
		deleting := verifrt.Bool("ro.deleting")
		if deleting {
			now := metav1.Now()
			r.DeletionTimestamp = &now
		}
		disabled := verifrt.Bool("ro.disabled")
		if disabled {
			r.Status.Phase = appsv1beta1.RolloutPhaseDisabled
		}
		empty := verifrt.Bool("ro.emptyStrategy")
		if !empty {
			v := intstr.FromInt(1)
			r.Spec.Strategy.Canary = &appsv1beta1.CanaryStrategy{Steps: []appsv1beta1.CanaryStep{{Replicas: &v}}}
			if verifrt.Bool("ro.hasTraffic") {
				r.Spec.Strategy.Canary.TrafficRoutings = []appsv1beta1.TrafficRoutingRef{{Service: "svc", Ingress: &appsv1beta1.IngressTrafficRouting{Name: "ing"}}}
			}
		}
		out.list = append(out.list, r)
		if matches && !deleting && !disabled {
			verifrt.Assume(out.activeMatch == nil)
			out.activeMatch = &out.list[len(out.list)-1]
		}
	}
	// re-point after possible slice growth
	out.activeMatch = nil
	for i := range out.list {
		r := &out.list[i]
		if r.Spec.WorkloadRef.Name == "w" && r.Spec.WorkloadRef.Kind == kind && r.Spec.WorkloadRef.APIVersion == apiVersion && r.DeletionTimestamp == nil && r.Status.Phase != appsv1beta1.RolloutPhaseDisabled {
			out.activeMatch = r
		}
	}
	return out
}

func (rs *c08Rollouts) client() *symclient.Client {
	cli := &symclient.Client{}
	cli.ListFn = func(list client.ObjectList, opts []client.ListOption) error {
		if l, ok := list.(*appsv1beta1.RolloutList); ok {
			l.Items = rs.list
		}
		return nil
	}
	return cli
}

// release change: rollout-id changed, or (no rollout-id) the pod template changed
func c08Annotations(name string) (map[string]string, map[string]string, bool, bool) {
	oldA, newA := map[string]string{}, map[string]string{}
	oldID, newID := "", ""
	ids := []string{"", "id-1", "id-2"}
	oldID = ids[verifrt.IntRange(name+".old.rolloutID", 0, 2)]
	newID = ids[verifrt.IntRange(name+".new.rolloutID", 0, 2)]
	if oldID != "" {
		oldA[appsv1beta1.RolloutIDLabel] = oldID
	}
	if newID != "" {
		newA[appsv1beta1.RolloutIDLabel] = newID
	}
	return oldA, newA, newID != "", oldID != newID
}

// VerifC08_FetchMatchedRollout: among up to three Rollouts of the namespace (matching or not, active, disabled or
// being deleted, in any list order) the look-up returns exactly the active Rollout that references the workload.
func VerifC08_FetchMatchedRollout() {
	rs := c08MakeRolloutsN("apps.kruise.io/v1alpha1", "CloneSet", verifrt.Bound("lookup.rollouts", 2, 3))
	h := &WorkloadHandler{Client: rs.client()}
	obj := &kruiseappsv1alpha1.CloneSet{TypeMeta: metav1.TypeMeta{APIVersion: "apps.kruise.io/v1alpha1", Kind: "CloneSet"},
		ObjectMeta: metav1.ObjectMeta{Namespace: "ns", Name: "w"}}
	got, err := h.fetchMatchedRollout(obj)
	verifrt.Assert(err == nil, "C08.lookup.noError")
	if rs.activeMatch == nil {
		verifrt.Assert(got == nil, "C08.lookup.noneWhenNoActiveRolloutMatches")
	} else {
		verifrt.Assert(got != nil && got.Name == rs.activeMatch.Name, "C08.lookup.findsTheActiveMatchingRollout")
	}
}

// VerifC08_UnifiedFetchMatchedRollout: the look-up of the StatefulSet-like handler: the active Rollout that references
// the workload is found whichever served API version of the workload's group its workloadRef is written in (a Rollout
// may say apps.kruise.io/v1alpha1 while the update arrives as v1beta1), and nothing else is.
func VerifC08_UnifiedFetchMatchedRollout() {
	rs := c08MakeRolloutsN("apps.kruise.io/v1beta1", "StatefulSet", 2)
	for i := range rs.list {
		ref := &rs.list[i].Spec.WorkloadRef
		if ref.APIVersion == "apps.kruise.io/v1beta1" && verifrt.Bool("ro.refWrittenInOtherServedVersion") {
			ref.APIVersion = "apps.kruise.io/v1alpha1"
		}
	}
	h := &UnifiedWorkloadHandler{Client: rs.client()}
	obj := &unstructured.Unstructured{Object: map[string]interface{}{"apiVersion": "apps.kruise.io/v1beta1", "kind": "StatefulSet",
		"metadata": map[string]interface{}{"namespace": "ns", "name": "w"}}}
	got, err := h.fetchMatchedRollout(obj)
	verifrt.Assert(err == nil, "C08.unified.lookup.noError")
	if rs.activeMatch == nil {
		verifrt.Assert(got == nil, "C08.unified.lookup.noneWhenNoActiveRolloutMatches")
	} else {
		verifrt.Assert(got != nil && got.Name == rs.activeMatch.Name, "C08.unified.lookup.findsTheActiveMatchingRollout")
	}
}

func VerifC08_CloneSet() {
	oldA, newA, hasID, idChanged := c08Annotations("cs")
	oldObj := &kruiseappsv1alpha1.CloneSet{TypeMeta: metav1.TypeMeta{APIVersion: "apps.kruise.io/v1alpha1", Kind: "CloneSet"}, ObjectMeta: metav1.ObjectMeta{Namespace: "ns", Name: "w", Annotations: oldA}}
	newObj := oldObj.DeepCopy()
	newObj.Annotations = newA
	if verifrt.Bool("cs.nilAnnotations") && len(newA) == 0 {
		newObj.Annotations = nil
	}
	oldObj.Spec.Template.Labels = map[string]string{"app": "w", "ver": "v1"}
	newObj.Spec.Template.Labels = map[string]string{"app": "w", "ver": []string{"v1", "v2"}[verifrt.IntRange("cs.new.templateVersion", 0, 1)]}
	templateChanged := newObj.Spec.Template.Labels["ver"] != "v1"
	replicasZero := false
	if verifrt.Bool("cs.hasReplicas") {
		R := int32(verifrt.IntRange("cs.replicas", 0, 100))
		newObj.Spec.Replicas = &R
		replicasZero = R == 0
	}
	newObj.Status.Replicas = int32(verifrt.IntRange("cs.status.replicas", 0, 100))
	newObj.Status.UpdatedReplicas = int32(verifrt.IntRange("cs.status.updated", 0, 100))
	if verifrt.Bool("cs.hasPartition") {
		p := intstr.FromInt(verifrt.IntRange("cs.partition", 0, 100))
		newObj.Spec.UpdateStrategy.Partition = &p
	}
	// the CloneSet may already be in a release (continuous release, rollback, new rollout-id): a release change is
	// held back all the same
	if verifrt.Bool("cs.alreadyInProgress") {
		if newObj.Annotations == nil {
			newObj.Annotations = map[string]string{}
		}
		oldObj.Annotations[util.InRolloutProgressingAnnotation] = `{"rolloutName":"ro-a"}`
		newObj.Annotations[util.InRolloutProgressingAnnotation] = `{"rolloutName":"ro-a"}`
	}
	before := newObj.DeepCopy()
	rs := c08MakeRollouts("apps.kruise.io/v1alpha1", "CloneSet")
	h := &WorkloadHandler{Client: rs.client()}
	var changed bool
	var err error
	panicked := verifrt.NoPanic(func() { changed, err = h.handleCloneSet(newObj, oldObj) })
	verifrt.Assert(!panicked && err == nil, "C08.cloneset.nopanic")
	if panicked {
		return
	}
	releaseChange := (hasID && idChanged) || (!hasID && templateChanged)
	m := rs.activeMatch
	singleRevision := newObj.Status.Replicas == newObj.Status.UpdatedReplicas
	mustHold := releaseChange && !replicasZero && m != nil && !m.Spec.Strategy.IsEmptyRelease() && (!m.Spec.Strategy.HasTrafficRoutings() || singleRevision)
	if mustHold {
		verifrt.Cover("held")
		verifrt.Assert(changed, "C08.cloneset.heldBackWhenRequired")
		p := newObj.Spec.UpdateStrategy.Partition
		verifrt.Assert(p != nil && p.Type == intstr.String && p.StrVal == "100%", "C08.cloneset.fullPartition")
		state, ok := verifrt.JSONGet(newObj.Annotations[util.InRolloutProgressingAnnotation], "rolloutName")
		verifrt.Assert(ok && state == m.Name, "C08.cloneset.markedInProgressForThatRollout")
	} else {
		verifrt.Cover("admitted-unchanged")
		verifrt.Assert(!changed, "C08.cloneset.notChangedWhenNotRequired")
		verifrt.Assert(newObj.Annotations[util.InRolloutProgressingAnnotation] == before.Annotations[util.InRolloutProgressingAnnotation], "C08.cloneset.frame.annotation")
		verifrt.Assert((newObj.Spec.UpdateStrategy.Partition == nil) == (before.Spec.UpdateStrategy.Partition == nil), "C08.cloneset.frame.partitionPresence")
		if newObj.Spec.UpdateStrategy.Partition != nil && before.Spec.UpdateStrategy.Partition != nil {
			verifrt.Assert(*newObj.Spec.UpdateStrategy.Partition == *before.Spec.UpdateStrategy.Partition, "C08.cloneset.frame.partition")
		}
		verifrt.Assert(newObj.Spec.UpdateStrategy.Paused == before.Spec.UpdateStrategy.Paused, "C08.cloneset.frame.paused")
	}
}

func VerifC08_DaemonSet() {
	oldA, newA, hasID, idChanged := c08Annotations("ds")
	oldObj := &kruiseappsv1alpha1.DaemonSet{TypeMeta: metav1.TypeMeta{APIVersion: "apps.kruise.io/v1alpha1", Kind: "DaemonSet"}, ObjectMeta: metav1.ObjectMeta{Namespace: "ns", Name: "w", Annotations: oldA}}
	newObj := oldObj.DeepCopy()
	newObj.Annotations = newA
	oldObj.Spec.Template.Labels = map[string]string{"app": "w", "ver": "v1"}
	newObj.Spec.Template.Labels = map[string]string{"app": "w", "ver": []string{"v1", "v2"}[verifrt.IntRange("ds.new.templateVersion", 0, 1)]}
	templateChanged := newObj.Spec.Template.Labels["ver"] != "v1"
	// updateStrategy.rollingUpdate is optional in the Advanced DaemonSet schema
	if verifrt.Bool("ds.hasRollingUpdate") {
		newObj.Spec.UpdateStrategy.RollingUpdate = &kruiseappsv1alpha1.RollingUpdateDaemonSet{}
		if verifrt.Bool("ds.hasPartition") {
			p := int32(verifrt.IntRange("ds.partition", 0, 100))
			newObj.Spec.UpdateStrategy.RollingUpdate.Partition = &p
		}
	}
	rs := c08MakeRollouts("apps.kruise.io/v1alpha1", "DaemonSet")
	h := &WorkloadHandler{Client: rs.client()}
	var changed bool
	var err error
	panicked := verifrt.NoPanic(func() { changed, err = h.handleDaemonSet(newObj, oldObj) })
	verifrt.Assert(!panicked && err == nil, "C08.daemonset.nopanic")
	if panicked {
		return
	}
	releaseChange := (hasID && idChanged) || (!hasID && templateChanged)
	m := rs.activeMatch
	mustHold := releaseChange && m != nil && !m.Spec.Strategy.IsEmptyRelease()
	if mustHold {
		verifrt.Cover("held")
		verifrt.Assert(changed, "C08.daemonset.heldBackWhenRequired")
		ru := newObj.Spec.UpdateStrategy.RollingUpdate
		verifrt.Assert(ru != nil && ru.Partition != nil && *ru.Partition == math.MaxInt16, "C08.daemonset.fullPartition")
		state, ok := verifrt.JSONGet(newObj.Annotations[util.InRolloutProgressingAnnotation], "rolloutName")
		verifrt.Assert(ok && state == m.Name, "C08.daemonset.markedInProgressForThatRollout")
	} else {
		verifrt.Cover("admitted-unchanged")
		verifrt.Assert(!changed && newObj.Annotations[util.InRolloutProgressingAnnotation] == "", "C08.daemonset.notChangedWhenNotRequired")
	}
}

// VerifC08_DeploymentEnter: a Deployment with a release change and a matching active Rollout is paused and marked.
func VerifC08_DeploymentEnter() {
	oldA, newA, hasID, idChanged := c08Annotations("d")
	oldObj := &apps.Deployment{TypeMeta: metav1.TypeMeta{APIVersion: "apps/v1", Kind: "Deployment"}, ObjectMeta: metav1.ObjectMeta{Namespace: "ns", Name: "w", UID: "d-uid", Annotations: oldA}}
	oldObj.Spec.Selector = &metav1.LabelSelector{MatchLabels: map[string]string{"app": "w"}}
	newObj := oldObj.DeepCopy()
	newObj.Annotations = newA
	oldObj.Spec.Template.Labels = map[string]string{"app": "w", "ver": "v1"}
	newObj.Spec.Template.Labels = map[string]string{"app": "w", "ver": []string{"v1", "v2"}[verifrt.IntRange("d.new.templateVersion", 0, 1)]}
	templateChanged := newObj.Spec.Template.Labels["ver"] != "v1"
	replicasZero := false
	if verifrt.Bool("d.hasReplicas") {
		R := int32(verifrt.IntRange("d.replicas", 0, 100))
		newObj.Spec.Replicas = &R
		replicasZero = R == 0
	}
	newObj.Spec.Paused = verifrt.Bool("d.new.paused")
	nRS := verifrt.Concrete(verifrt.IntRange("nReplicaSets", 0, 2))
	var rss []*apps.ReplicaSet
	for i := 0; i < nRS; i++ {
		one := int32(1)
		rs := &apps.ReplicaSet{ObjectMeta: metav1.ObjectMeta{Namespace: "ns", Name: "rs-" + string(rune('a'+i)), Labels: map[string]string{apps.DefaultDeploymentUniqueLabelKey: "hash-" + string(rune('a'+i))}}}
		rs.Spec.Replicas = &one
		rs.Spec.Template.Labels = map[string]string{"app": "w", "ver": "v1"}
		rss = append(rss, rs)
	}
	verifrt.Stub("(*github.com/openkruise/rollouts/pkg/util.ControllerFinder).GetReplicaSetsForDeployment", func(f *util.ControllerFinder, obj *apps.Deployment) ([]*apps.ReplicaSet, error) {
		return rss, nil
	})
	rs := c08MakeRollouts("apps/v1", "Deployment")
	cli := rs.client()
	h := &WorkloadHandler{Client: cli, Finder: util.NewControllerFinder(cli)}
	before := newObj.DeepCopy()
	var changed bool
	var err error
	panicked := verifrt.NoPanic(func() { changed, err = h.handleDeployment(newObj, oldObj) })
	verifrt.Assert(!panicked && err == nil, "C08.deployment.nopanic")
	if panicked {
		return
	}
	releaseChange := (hasID && idChanged) || (!hasID && templateChanged)
	m := rs.activeMatch
	mustHold := releaseChange && !replicasZero && m != nil && !m.Spec.Strategy.IsEmptyRelease() && nRS > 0 && (!m.Spec.Strategy.HasTrafficRoutings() || nRS == 1)
	if mustHold {
		verifrt.Cover("held")
		verifrt.Assert(changed && newObj.Spec.Paused, "C08.deployment.pausedWhenRequired")
		state, ok := verifrt.JSONGet(newObj.Annotations[util.InRolloutProgressingAnnotation], "rolloutName")
		verifrt.Assert(ok && state == m.Name, "C08.deployment.markedInProgressForThatRollout")
	} else {
		verifrt.Cover("admitted-unchanged")
		verifrt.Assert(!changed, "C08.deployment.notChangedWhenNotRequired")
		verifrt.Assert(newObj.Spec.Paused == before.Spec.Paused && newObj.Annotations[util.InRolloutProgressingAnnotation] == "", "C08.deployment.frame")
		verifrt.Assert(newObj.Labels[appsv1alpha1.DeploymentStableRevisionLabel] == "", "C08.deployment.frame.labels")
	}
}

// VerifC08_DeploymentInProgress: while a canary- or partition-style release is in progress an edit that un-pauses the
// Deployment is corrected.
func VerifC08_DeploymentInProgress() {
	oldObj := &apps.Deployment{TypeMeta: metav1.TypeMeta{APIVersion: "apps/v1", Kind: "Deployment"}, ObjectMeta: metav1.ObjectMeta{Namespace: "ns", Name: "w", Annotations: map[string]string{}}}
	oldObj.Annotations[util.InRolloutProgressingAnnotation] = `{"rolloutName":"ro-a"}`
	oldObj.Spec.Paused = true
	oldObj.Spec.Strategy.Type = apps.RollingUpdateDeploymentStrategyType
	// style: 0 canary (default branch), 1 partition style, 2 blue-green
	style := verifrt.IntRange("style", 0, 2)
	partitionStyle := style == 1
	// the advanced controller may already be held back (an earlier release change of this release paused it)
	alreadyHeld := false
	if partitionStyle {
		alreadyHeld = verifrt.Bool("strategy.alreadyPaused")
		st := appsv1alpha1.DeploymentStrategy{RollingStyle: appsv1alpha1.PartitionRollingStyle, Paused: alreadyHeld, Partition: intstr.FromInt(verifrt.IntRange("partition", 0, 100))}
		oldObj.Annotations[appsv1alpha1.DeploymentStrategyAnnotation] = util.DumpJSON(&st)
		oldObj.Spec.Strategy.Type = apps.RecreateDeploymentStrategyType
	}
	if style == 2 {
		oldObj.Annotations[appsv1beta1.OriginalDeploymentStrategyAnnotation] = `{"maxSurge":"25%","maxUnavailable":"25%"}`
		oldObj.Spec.Paused = false
	}
	oldA, newA, hasID, idChanged := c08Annotations("dep")
	for k, v := range oldA {
		oldObj.Annotations[k] = v
	}
	oldObj.Spec.Template.Labels = map[string]string{"app": "w", "ver": "v2"}
	newObj := oldObj.DeepCopy()
	delete(newObj.Annotations, appsv1beta1.RolloutIDLabel)
	for k, v := range newA {
		newObj.Annotations[k] = v
	}
	templateChanged := verifrt.Bool("new.templateChanged")
	if templateChanged {
		newObj.Spec.Template.Labels["ver"] = "v3"
	}
	// a release change while the release is in progress (continuous release / rollback): the rollout-id changed, or
	// without rollout-id the pod template changed
	releaseChange := (hasID && idChanged) || (!hasID && templateChanged)
	if style != 2 {
		newObj.Spec.Paused = verifrt.Bool("new.paused")
	}
	if verifrt.Bool("new.strategyRolling") {
		newObj.Spec.Strategy.Type = apps.RollingUpdateDeploymentStrategyType
	} else {
		newObj.Spec.Strategy.Type = apps.RecreateDeploymentStrategyType
	}
	cli := &symclient.Client{}
	h := &WorkloadHandler{Client: cli, Finder: util.NewControllerFinder(cli)}
	var err error
	panicked := verifrt.NoPanic(func() { _, err = h.handleDeployment(newObj, oldObj) })
	verifrt.Assert(!panicked && err == nil, "C08.deployment.inprogress.nopanic")
	if panicked {
		return
	}
	switch style {
	case 1:
		verifrt.Assert(newObj.Spec.Paused, "C08.deployment.inprogress.unpauseCorrected")
		verifrt.Assert(newObj.Spec.Strategy.Type == apps.RecreateDeploymentStrategyType, "C08.deployment.inprogress.nativeControllerStaysDisabled")
		// the advanced deployment controller is held back through the strategy annotation: a release change pauses it
		got := util.GetDeploymentStrategy(newObj)
		if releaseChange {
			verifrt.Assert(got.Paused, "C08.deployment.inprogress.partitionStyleReleaseChangeHeldBack")
		} else {
			verifrt.Assert(got.Paused == alreadyHeld, "C08.deployment.inprogress.partitionStyleHoldUnchangedWithoutReleaseChange")
		}
		verifrt.Assert(got.Partition == util.GetDeploymentStrategy(oldObj).Partition, "C08.deployment.inprogress.partitionKept")
	case 2:
		verifrt.Assert(newObj.Spec.Strategy.Type == apps.RollingUpdateDeploymentStrategyType, "C08.deployment.inprogress.blueGreenStaysRollingUpdate")
		if releaseChange {
			verifrt.Assert(newObj.Spec.Paused, "C08.deployment.inprogress.blueGreenReleaseChangeHeldBack")
		}
	default:
		verifrt.Assert(newObj.Spec.Paused, "C08.deployment.inprogress.unpauseCorrected")
		verifrt.Assert(newObj.Spec.Strategy.Type == apps.RollingUpdateDeploymentStrategyType, "C08.deployment.inprogress.strategyNotRecreate")
	}
	verifrt.Cover("done")
}

// VerifC08_StatefulSetLikeWorkload: the handler of StatefulSet-like workloads (native / Advanced StatefulSet, custom
// workloads, always handled as unstructured objects): a release change (template, or rollout-id) of a workload with
// replicas that an active Rollout references is held back — partition forced up, marked in progress — whichever way
// the RollingUpdate strategy is spelled (explicit type, or the field left to its default); OnDelete workloads and
// everything else are admitted unchanged.
func VerifC08_StatefulSetLikeWorkload() {
	mk := func(ver string, strategy int, replicas int64) *unstructured.Unstructured {
		spec := map[string]interface{}{
			"replicas": replicas,
			"template": map[string]interface{}{"metadata": map[string]interface{}{"labels": map[string]interface{}{"app": "w", "ver": ver}}},
		}
		switch strategy {
		case 1:
			spec["updateStrategy"] = map[string]interface{}{"type": "RollingUpdate"}
		case 2:
			spec["updateStrategy"] = map[string]interface{}{"rollingUpdate": map[string]interface{}{"partition": int64(0)}}
		case 3:
			spec["updateStrategy"] = map[string]interface{}{"type": "OnDelete"}
		}
		return &unstructured.Unstructured{Object: map[string]interface{}{"apiVersion": "apps.kruise.io/v1beta1", "kind": "StatefulSet",
			"metadata": map[string]interface{}{"namespace": "ns", "name": "w"}, "spec": spec}}
	}
	strategy := verifrt.IntRange("sts.strategySpelling", 0, 3) // 0 no updateStrategy at all
	replicas := int64(verifrt.IntRange("sts.replicas", 0, 10))
	oldObj := mk("v1", strategy, replicas)
	templateChanged := verifrt.Bool("sts.templateChanged")
	newVer := "v1"
	if templateChanged {
		newVer = "v2"
	}
	newObj := mk(newVer, strategy, replicas)
	// the rollout-id is carried in the workload's *annotations*; a label of the same name decides nothing
	ids := []string{"", "1", "2"}
	oldID, newID := ids[verifrt.IntRange("sts.oldRolloutID", 0, 2)], ids[verifrt.IntRange("sts.newRolloutID", 0, 2)]
	if oldID != "" {
		oldObj.SetAnnotations(map[string]string{appsv1beta1.RolloutIDLabel: oldID})
	}
	if newID != "" {
		newObj.SetAnnotations(map[string]string{appsv1beta1.RolloutIDLabel: newID})
	}
	if verifrt.Bool("sts.hasRolloutIDLabel") {
		oldObj.SetLabels(map[string]string{appsv1beta1.RolloutIDLabel: ids[verifrt.IntRange("sts.oldRolloutIDLabel", 1, 2)]})
		newObj.SetLabels(map[string]string{appsv1beta1.RolloutIDLabel: ids[verifrt.IntRange("sts.newRolloutIDLabel", 1, 2)]})
	}
	// with a rollout-id the id names the release (a new id is a release, the same id is not, whatever the template);
	// without one the pod template does
	releaseChange := templateChanged
	if newID != "" {
		releaseChange = oldID != newID
	}
	rs := c08MakeRolloutsN("apps.kruise.io/v1beta1", "StatefulSet", 1)
	h := &UnifiedWorkloadHandler{Client: rs.client()}
	var changed bool
	var err error
	panicked := verifrt.NoPanic(func() { changed, err = h.handleStatefulSetLikeWorkload(newObj, oldObj) })
	verifrt.Assert(!panicked && err == nil, "C08.statefulsetlike.nopanic")
	if panicked {
		return
	}
	m := rs.activeMatch
	rolling := strategy != 3
	mustHold := releaseChange && replicas > 0 && rolling && m != nil && !m.Spec.Strategy.IsEmptyRelease()
	if mustHold {
		verifrt.Cover("held")
		verifrt.Assert(changed, "C08.statefulsetlike.heldBackWhenRequired")
		verifrt.Assert(util.GetStatefulSetPartition(newObj) > 1000, "C08.statefulsetlike.fullPartition")
		state, ok := verifrt.JSONGet(newObj.GetAnnotations()[util.InRolloutProgressingAnnotation], "rolloutName")
		verifrt.Assert(ok && state == m.Name, "C08.statefulsetlike.markedInProgressForThatRollout")
	} else {
		verifrt.Cover("admitted-unchanged")
		verifrt.Assert(!changed, "C08.statefulsetlike.notChangedWhenNotRequired")
	}
}
