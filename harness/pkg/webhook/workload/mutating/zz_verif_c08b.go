package mutating

// C08 — the admission entry point of the handler for "other" workload kinds (native and Advanced StatefulSets, custom
// StatefulSet-like CRDs): which updates reach handleStatefulSetLikeWorkload at all.  An update that is let through
// before that function runs is admitted unchanged — no partition raise, no in-progress marker — however the release
// change looks.  The gate must let through exactly: non-UPDATE operations and sub-resources, objects outside the
// webhook rules, the kinds that have their own handler (CloneSet, Advanced DaemonSet, Deployment), and objects that
// are neither of kind StatefulSet nor labelled as StatefulSet-like.

import (
	"context"
	"fmt"

	kruiseappsv1alpha1 "github.com/openkruise/kruise-api/apps/v1alpha1"
	"github.com/openkruise/rollouts/pkg/util"
	"github.com/openkruise/rollouts/pkg/verifrt"
	"github.com/openkruise/rollouts/pkg/verifrt/symclient"
	admissionv1 "k8s.io/api/admission/v1"
	apps "k8s.io/api/apps/v1"
	metav1 "k8s.io/apimachinery/pkg/apis/meta/v1"
	"k8s.io/apimachinery/pkg/apis/meta/v1/unstructured"
	"k8s.io/apimachinery/pkg/runtime"
	"sigs.k8s.io/controller-runtime/pkg/webhook/admission"
)

func VerifC08_UnifiedHandleGate() {
	kinds := []metav1.GroupVersionKind{
		{Group: "apps", Version: "v1", Kind: "StatefulSet"},
		{Group: "apps.kruise.io", Version: "v1beta1", Kind: "StatefulSet"},
		{Group: "demo.verif.io", Version: "v1", Kind: "GameStatefulSet"},
		{Group: "apps.kruise.io", Version: "v1alpha1", Kind: "CloneSet"},
		{Group: "apps.kruise.io", Version: "v1alpha1", Kind: "DaemonSet"},
		{Group: "apps", Version: "v1", Kind: "Deployment"},
		{Group: "demo.verif.io", Version: "v1", Kind: "Deployment"},
	}
	k := verifrt.IntRange("req.kind", 0, len(kinds)-1)
	gvk := kinds[k]
	labelled := verifrt.Bool("obj.labelledStatefulSetLike")
	meta := fmt.Sprintf(`"metadata":{"namespace":"ns","name":"w"}`)
	if labelled {
		meta = fmt.Sprintf(`"metadata":{"namespace":"ns","name":"w","labels":{"%s":"statefulset"}}`, util.WorkloadTypeLabel)
	}
	api := gvk.Group + "/" + gvk.Version
	raw := fmt.Sprintf(`{"apiVersion":"%s","kind":"%s",%s,"spec":{"replicas":3}}`, api, gvk.Kind, meta)
	op := []admissionv1.Operation{admissionv1.Update, admissionv1.Create, admissionv1.Delete}[verifrt.IntRange("req.operation", 0, 2)]
	sub := ""
	if verifrt.Bool("req.subResource") {
		sub = "status"
	}
	inRules := verifrt.Bool("webhook.rulesMatch")
	verifrt.Stub("(*github.com/openkruise/rollouts/pkg/webhook/workload/mutating.UnifiedWorkloadHandler).checkWorkloadRules", func(h *UnifiedWorkloadHandler, ctx context.Context, req admission.Request) (bool, error) {
		return inRules, nil
	})
	reached := 0
	verifrt.Stub("(*github.com/openkruise/rollouts/pkg/webhook/workload/mutating.UnifiedWorkloadHandler).handleStatefulSetLikeWorkload", func(h *UnifiedWorkloadHandler, newObj, oldObj *unstructured.Unstructured) (bool, error) {
		reached++
		verifrt.Assert(newObj.GetName() == "w" && newObj.GetNamespace() == "ns" && oldObj.GetName() == "w", "C08.unified.gate.handlerGetsTheRequestObjects")
		return false, nil
	})
	h := &UnifiedWorkloadHandler{Client: &symclient.Client{}}
	if !verifrt.Symbolic() {
		d, err := admission.NewDecoder(runtime.NewScheme())
		if err != nil {
			panic(err)
		}
		h.Decoder = d
	}
	req := admission.Request{AdmissionRequest: admissionv1.AdmissionRequest{
		Operation: op, SubResource: sub, Kind: gvk,
		Object:    runtime.RawExtension{Raw: []byte(raw)},
		OldObject: runtime.RawExtension{Raw: []byte(raw)},
	}}
	resp := h.Handle(context.TODO(), req)
	verifrt.Assert(resp.Allowed, "C08.unified.gate.neverDenies")
	ownHandler := (gvk.Group == "apps.kruise.io" && (gvk.Kind == "CloneSet" || gvk.Kind == "DaemonSet")) || (gvk.Group == "apps" && gvk.Kind == "Deployment")
	want := op == admissionv1.Update && sub == "" && inRules && !ownHandler && (gvk.Kind == "StatefulSet" || labelled)
	if want {
		verifrt.Cover("reached")
		verifrt.Assert(reached == 1, "C08.unified.gate.statefulSetLikeUpdateReachesTheHandler")
	} else {
		verifrt.Cover("passed")
		verifrt.Assert(reached == 0, "C08.unified.gate.othersAreLeftAlone")
	}
}

// VerifC08_HandleHandsTheRequestObjectsToTheKindHandler: the admission entry point of the typed kinds (CloneSet,
// Advanced DaemonSet, Deployment).  Whether an update is a release change is decided by comparing the object as it
// was with the object as it is to become; the entry point must hand each kind's handler exactly those two — the
// request's oldObject as "old", the request's object as "new" — and must reach the handler for every UPDATE of a kind
// it owns that the webhook rules select.
func VerifC08_HandleHandsTheRequestObjectsToTheKindHandler() {
	kind := verifrt.IntRange("req.kind", 0, 2)
	gvks := []metav1.GroupVersionKind{
		{Group: "apps.kruise.io", Version: "v1alpha1", Kind: "CloneSet"},
		{Group: "apps.kruise.io", Version: "v1alpha1", Kind: "DaemonSet"},
		{Group: "apps", Version: "v1", Kind: "Deployment"},
	}
	gvk := gvks[kind]
	doc := func(rev string) string {
		return fmt.Sprintf(`{"apiVersion":"%s/%s","kind":"%s","metadata":{"namespace":"ns","name":"w","labels":{"rev":"%s"}},"spec":{}}`, gvk.Group, gvk.Version, gvk.Kind, rev)
	}
	verifrt.Stub("(*github.com/openkruise/rollouts/pkg/webhook/workload/mutating.WorkloadHandler).checkWorkloadRules", func(h *WorkloadHandler, ctx context.Context, req admission.Request) (bool, error) {
		return true, nil
	})
	var gotNew, gotOld []string
	verifrt.Stub("(*github.com/openkruise/rollouts/pkg/webhook/workload/mutating.WorkloadHandler).handleCloneSet", func(h *WorkloadHandler, newObj, oldObj *kruiseappsv1alpha1.CloneSet) (bool, error) {
		gotNew, gotOld = append(gotNew, "CloneSet:"+newObj.Labels["rev"]), append(gotOld, "CloneSet:"+oldObj.Labels["rev"])
		return false, nil
	})
	verifrt.Stub("(*github.com/openkruise/rollouts/pkg/webhook/workload/mutating.WorkloadHandler).handleDaemonSet", func(h *WorkloadHandler, newObj, oldObj *kruiseappsv1alpha1.DaemonSet) (bool, error) {
		gotNew, gotOld = append(gotNew, "DaemonSet:"+newObj.Labels["rev"]), append(gotOld, "DaemonSet:"+oldObj.Labels["rev"])
		return false, nil
	})
	verifrt.Stub("(*github.com/openkruise/rollouts/pkg/webhook/workload/mutating.WorkloadHandler).handleDeployment", func(h *WorkloadHandler, newObj, oldObj *apps.Deployment) (bool, error) {
		gotNew, gotOld = append(gotNew, "Deployment:"+newObj.Labels["rev"]), append(gotOld, "Deployment:"+oldObj.Labels["rev"])
		return false, nil
	})
	h := &WorkloadHandler{Client: &symclient.Client{}}
	if !verifrt.Symbolic() {
		d, err := admission.NewDecoder(runtime.NewScheme())
		if err != nil {
			panic(err)
		}
		h.Decoder = d
	}
	req := admission.Request{AdmissionRequest: admissionv1.AdmissionRequest{
		Operation: admissionv1.Update, Kind: gvk,
		Object:    runtime.RawExtension{Raw: []byte(doc("new"))},
		OldObject: runtime.RawExtension{Raw: []byte(doc("old"))},
	}}
	resp := h.Handle(context.TODO(), req)
	verifrt.Assert(resp.Allowed, "C08.handle.allowed")
	verifrt.Assert(len(gotNew) == 1, "C08.handle.theKindsHandlerRunsOnce")
	if len(gotNew) == 1 {
		verifrt.Assert(gotNew[0] == gvk.Kind+":new", "C08.handle.newObjectIsTheRequestsObject")
		verifrt.Assert(gotOld[0] == gvk.Kind+":old", "C08.handle.oldObjectIsTheRequestsOldObject")
	}
}
