package mutating

// C08 — the admission entry point of the handler for "other" workload kinds (native and Advanced StatefulSets, custom
// StatefulSet-like CRDs): which updates reach handleStatefulSetLikeWorkload at all.  An update that is let through
// before that function runs is admitted unchanged — no partition raise, no in-progress marker — however the release
// change looks.  The gate must let through exactly: non-UPDATE operations and sub-resources, objects outside the
// webhook rules, the kinds that have their own handler (CloneSet, Advanced DaemonSet, Deployment), and objects that
// are neither of kind StatefulSet nor labelled as StatefulSet-like.

import (
	"context"
	"fmt"

	"github.com/openkruise/rollouts/pkg/util"
	"github.com/openkruise/rollouts/pkg/verifrt"
	"github.com/openkruise/rollouts/pkg/verifrt/symclient"
	admissionv1 "k8s.io/api/admission/v1"
	metav1 "k8s.io/apimachinery/pkg/apis/meta/v1"
	"k8s.io/apimachinery/pkg/apis/meta/v1/unstructured"
	"k8s.io/apimachinery/pkg/runtime"
	"sigs.k8s.io/controller-runtime/pkg/webhook/admission"
)

func VerifC08_UnifiedHandleGate() {
	kinds := []metav1.GroupVersionKind{
		{Group: "apps", Version: "v1", Kind: "StatefulSet"},
		{Group: "apps.kruise.io", Version: "v1beta1", Kind: "StatefulSet"},
		{Group: "demo.verif.io", Version: "v1", Kind: "GameStatefulSet"},
		{Group: "apps.kruise.io", Version: "v1alpha1", Kind: "CloneSet"},
		{Group: "apps.kruise.io", Version: "v1alpha1", Kind: "DaemonSet"},
		{Group: "apps", Version: "v1", Kind: "Deployment"},
		{Group: "demo.verif.io", Version: "v1", Kind: "Deployment"},
	}
	k := verifrt.IntRange("req.kind", 0, len(kinds)-1)
	gvk := kinds[k]
	labelled := verifrt.Bool("obj.labelledStatefulSetLike")
	meta := fmt.Sprintf(`"metadata":{"namespace":"ns","name":"w"}`)
	if labelled {
		meta = fmt.Sprintf(`"metadata":{"namespace":"ns","name":"w","labels":{"%s":"statefulset"}}`, util.WorkloadTypeLabel)
	}
	api := gvk.Group + "/" + gvk.Version
	raw := fmt.Sprintf(`{"apiVersion":"%s","kind":"%s",%s,"spec":{"replicas":3}}`, api, gvk.Kind, meta)
	op := []admissionv1.Operation{admissionv1.Update, admissionv1.Create, admissionv1.Delete}[verifrt.IntRange("req.operation", 0, 2)]
	sub := ""
	if verifrt.Bool("req.subResource") {
		sub = "status"
	}
	inRules := verifrt.Bool("webhook.rulesMatch")
	verifrt.Stub("(*github.com/openkruise/rollouts/pkg/webhook/workload/mutating.UnifiedWorkloadHandler).checkWorkloadRules", func(h *UnifiedWorkloadHandler, ctx context.Context, req admission.Request) (bool, error) {
		return inRules, nil
	})
	reached := 0
	verifrt.Stub("(*github.com/openkruise/rollouts/pkg/webhook/workload/mutating.UnifiedWorkloadHandler).handleStatefulSetLikeWorkload", func(h *UnifiedWorkloadHandler, newObj, oldObj *unstructured.Unstructured) (bool, error) {
		reached++
		verifrt.Assert(newObj.GetName() == "w" && newObj.GetNamespace() == "ns" && oldObj.GetName() == "w", "C08.unified.gate.handlerGetsTheRequestObjects")
		return false, nil
	})
	h := &UnifiedWorkloadHandler{Client: &symclient.Client{}}
	if !verifrt.Symbolic() {
		d, err := admission.NewDecoder(runtime.NewScheme())
		if err != nil {
			panic(err)
		}
		h.Decoder = d
	}
	req := admission.Request{AdmissionRequest: admissionv1.AdmissionRequest{
		Operation: op, SubResource: sub, Kind: gvk,
		Object:    runtime.RawExtension{Raw: []byte(raw)},
		OldObject: runtime.RawExtension{Raw: []byte(raw)},
	}}
	resp := h.Handle(context.TODO(), req)
	verifrt.Assert(resp.Allowed, "C08.unified.gate.neverDenies")
	ownHandler := (gvk.Group == "apps.kruise.io" && (gvk.Kind == "CloneSet" || gvk.Kind == "DaemonSet")) || (gvk.Group == "apps" && gvk.Kind == "Deployment")
	want := op == admissionv1.Update && sub == "" && inRules && !ownHandler && (gvk.Kind == "StatefulSet" || labelled)
	if want {
		verifrt.Cover("reached")
		verifrt.Assert(reached == 1, "C08.unified.gate.statefulSetLikeUpdateReachesTheHandler")
	} else {
		verifrt.Cover("passed")
		verifrt.Assert(reached == 0, "C08.unified.gate.othersAreLeftAlone")
	}
}
