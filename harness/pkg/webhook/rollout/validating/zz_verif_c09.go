package validating

// C09 stage 1 — what the validating webhook promises about every Rollout it accepts (the controller step functions
// are checked against exactly these promises in pkg/controller/rollout/zz_verif_c09.go).

import (
	"strings"

	"context"
	"fmt"

	appsv1alpha1 "github.com/openkruise/rollouts/api/v1alpha1"
	appsv1beta1 "github.com/openkruise/rollouts/api/v1beta1"
	"github.com/openkruise/rollouts/pkg/util"
	"github.com/openkruise/rollouts/pkg/verifrt"
	"github.com/openkruise/rollouts/pkg/verifrt/symclient"
	admissionv1 "k8s.io/api/admission/v1"
	metav1 "k8s.io/apimachinery/pkg/apis/meta/v1"
	"k8s.io/apimachinery/pkg/runtime"
	"k8s.io/apimachinery/pkg/util/intstr"
	"k8s.io/apimachinery/pkg/util/validation/field"
	"sigs.k8s.io/controller-runtime/pkg/client"
	"sigs.k8s.io/controller-runtime/pkg/webhook/admission"
)

func c09Replicas(name string, rich bool) *intstr.IntOrString {
	hi := 3
	if !rich {
		hi = 2
	}
	k := verifrt.IntRange(name+".kind", 0, hi)
	if !rich {
		verifrt.Assume(k != 0)
	}
	switch k {
	case 0:
		return nil
	case 1:
		v := intstr.FromInt(int(verifrt.Int32(name + ".int")))
		return &v
	case 2:
		v := intstr.FromString(fmt.Sprintf("%d%%", verifrt.IntRange(name+".percent", -5, 250)))
		return &v
	}
	v := intstr.FromString(c09Raw[verifrt.IntRange(name+".raw", 0, len(c09Raw)-1)])
	return &v
}

// malformed / edge-case strings a user can put where a percentage is expected
var c09Raw = []string{"", "abc", "50", "%", "5 0%", "0x10%", "1e2%", "+5%", " 5%", "5%%", "-0%", "007%", "99999999999999999999%"}

func c09Steps(name string) []appsv1beta1.CanaryStep {
	n := verifrt.Concrete(verifrt.IntRange(name+".n", 0, 2))
	var steps []appsv1beta1.CanaryStep
	for i := 0; i < n; i++ {
		// a single step varies over every shape (nil / int / percent / malformed strings, every traffic form);
		// with two steps the interest is their order: replicas int or percent, no traffic
		rich := n == 1
		st := appsv1beta1.CanaryStep{Replicas: c09Replicas(name+".replicas", rich)}
		if !rich {
			steps = append(steps, st)
			continue
		}
		switch verifrt.IntRange(name+".trafficKind", 0, 3) {
		case 1:
			t := fmt.Sprintf("%d%%", verifrt.IntRange(name+".traffic", -5, 250))
			st.Traffic = &t
		case 2:
			t := c09Raw[verifrt.IntRange(name+".trafficRaw", 0, len(c09Raw)-1)]
			st.Traffic = &t
		case 3:
			st.Matches = []appsv1beta1.HttpRouteMatch{{}}
		}
		steps = append(steps, st)
	}
	return steps
}

func c09TrafficRoutings(name string) []appsv1beta1.TrafficRoutingRef {
	n := verifrt.Concrete(verifrt.IntRange(name+".n", 0, 2))
	var out []appsv1beta1.TrafficRoutingRef
	for i := 0; i < n; i++ {
		tr := appsv1beta1.TrafficRoutingRef{Service: verifrt.String(name + ".service"), GracePeriodSeconds: verifrt.Int32(name + ".grace")}
		switch verifrt.IntRange(name+".kind", 0, 2) {
		case 1:
			tr.Ingress = &appsv1beta1.IngressTrafficRouting{Name: verifrt.String(name + ".ingress")}
		case 2:
			tr.Gateway = &appsv1beta1.GatewayTrafficRouting{}
			if verifrt.Bool(name + ".hasRoute") {
				s := verifrt.String(name + ".route")
				tr.Gateway.HTTPRouteName = &s
			}
		}
		out = append(out, tr)
	}
	return out
}

var c09Refs = []appsv1beta1.ObjectRef{
	{APIVersion: "apps/v1", Kind: "Deployment", Name: "w"},
	{APIVersion: "apps.kruise.io/v1alpha1", Kind: "CloneSet", Name: "w"},
	{APIVersion: "apps/v1", Kind: "StatefulSet", Name: "w"},
	{APIVersion: "v1", Kind: "ConfigMap", Name: "w"},
}

func c09FixedSteps() []appsv1beta1.CanaryStep {
	v := intstr.FromString(fmt.Sprintf("%d%%", verifrt.IntRange("fixed.percent", -5, 250)))
	return []appsv1beta1.CanaryStep{{Replicas: &v}}
}

// mode 0: which strategies are present (contents minimal); 1: canary, steps vary; 2: canary, routings vary;
// 3: blue-green, steps vary; 4: blue-green, routings vary
func c09Rollout(mode int) *appsv1beta1.Rollout {
	r := &appsv1beta1.Rollout{ObjectMeta: metav1.ObjectMeta{Namespace: "ns", Name: "ro"}}
	r.Spec.WorkloadRef = c09Refs[verifrt.IntRange("workloadRef", 0, len(c09Refs)-1)]
	switch mode {
	case 0:
		if verifrt.Bool("hasCanary") {
			r.Spec.Strategy.Canary = &appsv1beta1.CanaryStrategy{Steps: c09FixedSteps()}
		}
		if verifrt.Bool("hasBlueGreen") {
			r.Spec.Strategy.BlueGreen = &appsv1beta1.BlueGreenStrategy{Steps: c09FixedSteps()}
		}
	case 1:
		r.Spec.Strategy.Canary = &appsv1beta1.CanaryStrategy{Steps: c09Steps("steps"), EnableExtraWorkloadForCanary: verifrt.Bool("enableExtra")}
	case 2:
		r.Spec.Strategy.Canary = &appsv1beta1.CanaryStrategy{Steps: c09FixedSteps(), TrafficRoutings: c09TrafficRoutings("tr")}
	case 3:
		r.Spec.Strategy.BlueGreen = &appsv1beta1.BlueGreenStrategy{Steps: c09Steps("steps")}
	case 4:
		r.Spec.Strategy.BlueGreen = &appsv1beta1.BlueGreenStrategy{Steps: c09FixedSteps(), TrafficRoutings: c09TrafficRoutings("tr")}
	}
	return r
}

func c09Pct(v *intstr.IntOrString) (int, bool) {
	// reference parse of "p%"
	n, err := intstr.GetScaledValueFromIntOrPercent(v, 100, true)
	return n, err == nil
}

// VerifC09_AcceptedSpecPromises: every spec validateRolloutSpec accepts has exactly one strategy, a non-empty list of
// steps with parseable positive replicas, non-decreasing comparable neighbours, sane traffic and at most one routing.
func VerifC09_AcceptedSpecPromises_Strategies()        { c09Accepted(0) }
func VerifC09_AcceptedSpecPromises_CanarySteps()       { c09Accepted(1) }
func VerifC09_AcceptedSpecPromises_CanaryRoutings()    { c09Accepted(2) }
func VerifC09_AcceptedSpecPromises_BlueGreenSteps()    { c09Accepted(3) }
func VerifC09_AcceptedSpecPromises_BlueGreenRoutings() { c09Accepted(4) }

func c09Accepted(mode int) {
	r := c09Rollout(mode)
	var errs field.ErrorList
	panicked := verifrt.NoPanic(func() { errs = validateRolloutSpec(GetContextFromv1beta1Rollout(r), r, field.NewPath("Spec")) })
	verifrt.Assert(!panicked, "C09.validate.nopanic")
	if panicked || len(errs) != 0 {
		return
	}
	verifrt.Cover("accepted")
	s := r.Spec.Strategy
	verifrt.Assert((s.Canary != nil) != (s.BlueGreen != nil), "C09.accepted.exactlyOneStrategy")
	verifrt.Assert(r.Spec.WorkloadRef.Kind != "ConfigMap", "C09.accepted.supportedWorkload")
	if s.BlueGreen != nil {
		verifrt.Assert(r.Spec.WorkloadRef.Kind == "Deployment" || r.Spec.WorkloadRef.Kind == "CloneSet", "C09.accepted.bluegreenWorkload")
	}
	steps := s.GetSteps()
	verifrt.Assert(len(steps) > 0, "C09.accepted.stepsNonEmpty")
	for i := range steps {
		verifrt.Assert(steps[i].Replicas != nil, "C09.accepted.replicasSet")
		if steps[i].Replicas == nil {
			return
		}
		n, ok := c09Pct(steps[i].Replicas)
		verifrt.Assert(ok && n > 0, "C09.accepted.replicasPositive")
		if steps[i].Replicas.Type == intstr.String {
			verifrt.Assert(n <= 100, "C09.accepted.percentAtMost100")
		}
		if steps[i].Traffic != nil {
			is := intstr.FromString(*steps[i].Traffic)
			w, okw := c09Pct(&is)
			verifrt.Assert(okw && w >= 0 && w <= 100, "C09.accepted.trafficIsPercentage")
			if s.Canary != nil {
				verifrt.Assert(w > 0, "C09.accepted.canaryTrafficPositive")
			}
		}
		if i > 0 && (steps[i-1].Replicas.Type == intstr.String) == (steps[i].Replicas.Type == intstr.String) {
			p, _ := c09Pct(steps[i-1].Replicas)
			verifrt.Assert(p <= n, "C09.accepted.nonDecreasing")
		}
	}
	trs := s.GetTrafficRouting()
	_ = trs
	var all []appsv1beta1.TrafficRoutingRef
	if s.Canary != nil {
		all = s.Canary.TrafficRoutings
	} else {
		all = s.BlueGreen.TrafficRoutings
	}
	verifrt.Assert(len(all) <= 1, "C09.accepted.singleTrafficRouting")
	for i := range all {
		verifrt.Assert(all[i].Service != "" && all[i].GracePeriodSeconds >= 0, "C09.accepted.trafficService")
		verifrt.Assert(all[i].Ingress != nil || all[i].Gateway != nil || all[i].CustomNetworkRefs != nil, "C09.accepted.trafficProvider")
		// the providers dereference these without a check (gateway.go: *conf.HTTPRouteName; ingress.go: conf.Name as
		// the object key)
		if all[i].Gateway != nil {
			verifrt.Assert(all[i].Gateway.HTTPRouteName != nil && *all[i].Gateway.HTTPRouteName != "", "C09.accepted.gatewayRouteNamed")
		}
		if all[i].Ingress != nil {
			verifrt.Assert(all[i].Ingress.Name != "", "C09.accepted.ingressNamed")
		}
	}
}

func c09ValidRollout(name string) *appsv1beta1.Rollout {
	r := &appsv1beta1.Rollout{ObjectMeta: metav1.ObjectMeta{Namespace: "ns", Name: "ro"}}
	r.Spec.WorkloadRef = c09Refs[verifrt.IntRange(name+".workloadRef", 0, 1)]
	n := verifrt.Concrete(verifrt.IntRange(name+".nSteps", 1, 2))
	var steps []appsv1beta1.CanaryStep
	for i := 0; i < n; i++ {
		v := intstr.FromInt(i + 1)
		steps = append(steps, appsv1beta1.CanaryStep{Replicas: &v})
	}
	var trs []appsv1beta1.TrafficRoutingRef
	if verifrt.Bool(name + ".hasTR") {
		trs = []appsv1beta1.TrafficRoutingRef{{Service: verifrt.String(name + ".svc"), Ingress: &appsv1beta1.IngressTrafficRouting{Name: "ing"}}}
		verifrt.Assume(trs[0].Service != "")
	}
	if verifrt.Bool(name + ".blueGreen") {
		r.Spec.Strategy.BlueGreen = &appsv1beta1.BlueGreenStrategy{Steps: steps, TrafficRoutings: trs}
	} else {
		r.Spec.Strategy.Canary = &appsv1beta1.CanaryStrategy{Steps: steps, TrafficRoutings: trs, EnableExtraWorkloadForCanary: verifrt.Bool(name + ".enableExtra")}
	}
	return r
}

// VerifC09_UpdateImmutableWhileProgressing: while a release is Progressing/Terminating an accepted update changes
// neither the workload reference, nor the traffic routing, nor the style, nor the number of steps.
func VerifC09_UpdateImmutableWhileProgressing() {
	oldObj, newObj := c09ValidRollout("old"), c09ValidRollout("new")
	latest := oldObj.DeepCopy()
	phases := []appsv1beta1.RolloutPhase{appsv1beta1.RolloutPhaseProgressing, appsv1beta1.RolloutPhaseTerminating, appsv1beta1.RolloutPhaseHealthy, appsv1beta1.RolloutPhaseInitial}
	latest.Status.Phase = phases[verifrt.IntRange("phase", 0, len(phases)-1)]
	cli := &symclient.Client{Objects: []client.Object{latest}}
	h := &RolloutCreateUpdateHandler{Client: cli}
	errs := h.validateRolloutUpdate(oldObj, newObj)
	if len(errs) != 0 {
		return
	}
	verifrt.Cover("accepted")
	if latest.Status.Phase == appsv1beta1.RolloutPhaseProgressing || latest.Status.Phase == appsv1beta1.RolloutPhaseTerminating {
		verifrt.Cover("accepted-while-progressing")
		verifrt.Assert(oldObj.Spec.WorkloadRef == newObj.Spec.WorkloadRef, "C09.update.workloadRefImmutable")
		verifrt.Assert(len(oldObj.Spec.Strategy.GetSteps()) == len(newObj.Spec.Strategy.GetSteps()), "C09.update.stepCountImmutable")
		verifrt.Assert(oldObj.Spec.Strategy.GetRollingStyle() == newObj.Spec.Strategy.GetRollingStyle(), "C09.update.styleImmutable")
		ot, nt := oldObj.Spec.Strategy.GetTrafficRouting(), newObj.Spec.Strategy.GetTrafficRouting()
		verifrt.Assert(len(ot) == len(nt), "C09.update.trafficRoutingImmutable.count")
		if len(ot) == 1 && len(nt) == 1 {
			verifrt.Assert(ot[0].Service == nt[0].Service, "C09.update.trafficRoutingImmutable.service")
		}
	}
}

// VerifC09_OneRolloutPerWorkload: an accepted Rollout is the only one in its namespace for its workload.
func VerifC09_OneRolloutPerWorkload() {
	r := c09ValidRollout("new")
	other := c09ValidRollout("other")
	other.Name = verifrt.String("other.name")
	selfInList := verifrt.IntRange("self.inList", 0, 2)
	cli := &symclient.Client{}
	cli.ListFn = func(list client.ObjectList, opts []client.ListOption) error {
		l := list.(*appsv1beta1.RolloutList)
		// an UPDATE finds the Rollout's own stored copy in the list too, before or after the other one
		switch selfInList {
		case 1:
			l.Items = []appsv1beta1.Rollout{*r.DeepCopy(), *other}
		case 2:
			l.Items = []appsv1beta1.Rollout{*other, *r.DeepCopy()}
		default:
			l.Items = []appsv1beta1.Rollout{*other}
		}
		return nil
	}
	h := &RolloutCreateUpdateHandler{Client: cli}
	errs := h.validateRolloutConflict(r, field.NewPath("Conflict Checker"))
	if len(errs) != 0 {
		return
	}
	verifrt.Cover("accepted")
	verifrt.Assert(other.Name == r.Name || other.Spec.WorkloadRef != r.Spec.WorkloadRef, "C09.conflict.oneRolloutPerWorkload")
}

// VerifC09_V1alpha1OneRolloutPerWorkload: the same promise when the Rollout arrives as v1alpha1.
func VerifC09_V1alpha1OneRolloutPerWorkload() {
	refs := []appsv1alpha1.WorkloadRef{{APIVersion: "apps/v1", Kind: "Deployment", Name: "web"}, {APIVersion: "apps.kruise.io/v1alpha1", Kind: "CloneSet", Name: "web"}}
	mk := func(tag, name string) *appsv1alpha1.Rollout {
		r := &appsv1alpha1.Rollout{ObjectMeta: metav1.ObjectMeta{Namespace: "ns", Name: name}}
		ref := refs[verifrt.IntRange(tag+".workloadRef", 0, 1)]
		r.Spec.ObjectRef.WorkloadRef = &ref
		return r
	}
	r := mk("new", "ro")
	other := mk("other", verifrt.String("other.name"))
	selfInList := verifrt.IntRange("self.inList", 0, 2)
	cli := &symclient.Client{}
	cli.ListFn = func(list client.ObjectList, opts []client.ListOption) error {
		l := list.(*appsv1alpha1.RolloutList)
		switch selfInList {
		case 1:
			l.Items = []appsv1alpha1.Rollout{*r.DeepCopy(), *other}
		case 2:
			l.Items = []appsv1alpha1.Rollout{*other, *r.DeepCopy()}
		default:
			l.Items = []appsv1alpha1.Rollout{*other}
		}
		return nil
	}
	h := &RolloutCreateUpdateHandler{Client: cli}
	errs := h.validateV1alpha1RolloutConflict(r, field.NewPath("Conflict Checker"))
	if len(errs) != 0 {
		return
	}
	verifrt.Cover("accepted")
	verifrt.Assert(other.Name == r.Name || *other.Spec.ObjectRef.WorkloadRef != *r.Spec.ObjectRef.WorkloadRef, "C09.conflict.v1alpha1.oneRolloutPerWorkload")
}

func c09Decoder() *admission.Decoder {
	scheme := runtime.NewScheme()
	_ = appsv1beta1.AddToScheme(scheme)
	_ = appsv1alpha1.AddToScheme(scheme)
	d, err := admission.NewDecoder(scheme)
	if err != nil {
		panic(err)
	}
	return d
}

// VerifC09_HandleUpdateImmutableWhileProgressing: the same promise through the real admission entry point: an UPDATE
// request (v1beta1) whose old and new objects differ in a frozen field is denied while the stored Rollout is
// Progressing/Terminating — old and new are taken from the request's oldObject / object.
func VerifC09_HandleUpdateImmutableWhileProgressing() {
	oldObj, newObj := c09ValidRollout("old"), c09ValidRollout("new")
	oldObj.TypeMeta = metav1.TypeMeta{APIVersion: "rollouts.kruise.io/v1beta1", Kind: "Rollout"}
	newObj.TypeMeta = oldObj.TypeMeta
	latest := oldObj.DeepCopy()
	phases := []appsv1beta1.RolloutPhase{appsv1beta1.RolloutPhaseProgressing, appsv1beta1.RolloutPhaseTerminating, appsv1beta1.RolloutPhaseHealthy}
	latest.Status.Phase = phases[verifrt.IntRange("phase", 0, len(phases)-1)]
	cli := &symclient.Client{Objects: []client.Object{latest}}
	h := &RolloutCreateUpdateHandler{Client: cli}
	if !verifrt.Symbolic() {
		h.Decoder = c09Decoder()
	}
	req := admission.Request{AdmissionRequest: admissionv1.AdmissionRequest{
		Operation: admissionv1.Update,
		Kind:      metav1.GroupVersionKind{Group: "rollouts.kruise.io", Version: "v1beta1", Kind: "Rollout"},
		Object:    runtime.RawExtension{Raw: []byte(util.DumpJSON(newObj))},
		OldObject: runtime.RawExtension{Raw: []byte(util.DumpJSON(oldObj))},
	}}
	resp := h.Handle(context.TODO(), req)
	if !resp.Allowed {
		verifrt.Cover("denied")
		return
	}
	verifrt.Cover("allowed")
	if latest.Status.Phase == appsv1beta1.RolloutPhaseProgressing || latest.Status.Phase == appsv1beta1.RolloutPhaseTerminating {
		verifrt.Cover("allowed-while-progressing")
		verifrt.Assert(oldObj.Spec.WorkloadRef == newObj.Spec.WorkloadRef, "C09.handle.update.workloadRefImmutable")
		verifrt.Assert(len(oldObj.Spec.Strategy.GetSteps()) == len(newObj.Spec.Strategy.GetSteps()), "C09.handle.update.stepCountImmutable")
		verifrt.Assert(oldObj.Spec.Strategy.GetRollingStyle() == newObj.Spec.Strategy.GetRollingStyle(), "C09.handle.update.styleImmutable")
		ot, nt := oldObj.Spec.Strategy.GetTrafficRouting(), newObj.Spec.Strategy.GetTrafficRouting()
		verifrt.Assert(len(ot) == len(nt), "C09.handle.update.trafficRoutingImmutable.count")
		if len(ot) == 1 && len(nt) == 1 {
			verifrt.Assert(ot[0].Service == nt[0].Service, "C09.handle.update.trafficRoutingImmutable.service")
		}
	}
}

// VerifC09_AcceptedV1alpha1SpecPromises: a Rollout submitted through v1alpha1 is validated by its own code path and
// then stored as v1beta1 without passing the v1beta1 validation.  What the controllers rely on must therefore already
// follow from the v1alpha1 acceptance: after conversion every step carries replicas (the controllers dereference
// step.Replicas), there is at least one step, and a weight is within 1..100.
func VerifC09_AcceptedV1alpha1SpecPromises() {
	r := &appsv1alpha1.Rollout{ObjectMeta: metav1.ObjectMeta{Namespace: "ns", Name: "ro"}}
	r.Spec.ObjectRef.WorkloadRef = &appsv1alpha1.WorkloadRef{APIVersion: "apps/v1", Kind: "Deployment", Name: "w"}
	if verifrt.Bool("partitionStyle") {
		r.Annotations = map[string]string{appsv1alpha1.RolloutStyleAnnotation: "partition"}
	}
	canary := &appsv1alpha1.CanaryStrategy{}
	n := verifrt.Concrete(verifrt.IntRange("nSteps", 0, 2))
	for i := 0; i < n; i++ {
		st := appsv1alpha1.CanaryStep{}
		if verifrt.Bool("step.hasWeight") {
			w := verifrt.Int32("step.weight")
			st.Weight = &w
		}
		if verifrt.Bool("step.hasReplicas") {
			st.Replicas = c09Replicas("step.replicas", true)
		}
		if verifrt.Bool("step.hasMatches") {
			st.Matches = []appsv1alpha1.HttpRouteMatch{{}}
		}
		canary.Steps = append(canary.Steps, st)
	}
	if verifrt.Bool("hasTrafficRouting") {
		canary.TrafficRoutings = []appsv1alpha1.TrafficRoutingRef{{Service: "svc", Ingress: &appsv1alpha1.IngressTrafficRouting{Name: "ing"}}}
	}
	r.Spec.Strategy.Canary = canary
	var errs field.ErrorList
	panicked := verifrt.NoPanic(func() {
		errs = validateV1alpha1RolloutSpec(GetContextFromv1alpha1Rollout(r), r, field.NewPath("Spec"))
	})
	verifrt.Assert(!panicked, "C09.v1alpha1.validation.nopanic")
	if panicked || len(errs) != 0 {
		verifrt.Cover("rejected")
		return
	}
	verifrt.Cover("accepted")
	hub := &appsv1beta1.Rollout{}
	var cerr error
	panicked = verifrt.NoPanic(func() { cerr = r.ConvertTo(hub) })
	verifrt.Assert(!panicked && cerr == nil, "C09.v1alpha1.accepted.converts")
	if panicked || cerr != nil || hub.Spec.Strategy.Canary == nil {
		return
	}
	steps := hub.Spec.Strategy.Canary.Steps
	verifrt.Assert(len(steps) >= 1, "C09.v1alpha1.accepted.hasSteps")
	for i := range steps {
		verifrt.Assert(steps[i].Replicas != nil, "C09.v1alpha1.accepted.everyStepHasReplicas")
	}
}

// VerifC09_V1alpha1UpdateImmutableWhileProgressing: the v1alpha1 twin of the update rule.  While the stored Rollout is
// Progressing or Terminating, an accepted UPDATE leaves the workload reference, the traffic routings and the rolling
// style as they were — where the style of a v1alpha1 object is what its rolling-style annotation *means*: absent,
// empty and "canary" (any case) all mean the canary style for a Deployment, "partition" the partition style.  Dropping
// the annotation from a partition-style Rollout is a style change like any other (the conversion would store
// EnableExtraWorkloadForCanary = true in the middle of a partition release).
func VerifC09_V1alpha1UpdateImmutableWhileProgressing() {
	mk := func(tag string) *appsv1alpha1.Rollout {
		r := &appsv1alpha1.Rollout{ObjectMeta: metav1.ObjectMeta{Namespace: "ns", Name: "ro"}}
		r.Spec.ObjectRef.WorkloadRef = &appsv1alpha1.WorkloadRef{APIVersion: "apps/v1", Kind: "Deployment", Name: []string{"w", "w2"}[verifrt.IntRange(tag+".workload", 0, 1)]}
		switch verifrt.IntRange(tag+".style", 0, 4) {
		case 1:
			r.Annotations = map[string]string{}
		case 2:
			r.Annotations = map[string]string{appsv1alpha1.RolloutStyleAnnotation: "partition"}
		case 3:
			r.Annotations = map[string]string{appsv1alpha1.RolloutStyleAnnotation: "Partition"}
		case 4:
			r.Annotations = map[string]string{appsv1alpha1.RolloutStyleAnnotation: "canary"}
		}
		w := int32(20)
		canary := &appsv1alpha1.CanaryStrategy{Steps: []appsv1alpha1.CanaryStep{{TrafficRoutingStrategy: appsv1alpha1.TrafficRoutingStrategy{Weight: &w}}}}
		canary.TrafficRoutings = []appsv1alpha1.TrafficRoutingRef{{Service: []string{"svc", "svc2"}[verifrt.IntRange(tag+".service", 0, 1)], Ingress: &appsv1alpha1.IngressTrafficRouting{Name: "ing"}}}
		r.Spec.Strategy.Canary = canary
		return r
	}
	oldObj, newObj := mk("old"), mk("new")
	latest := oldObj.DeepCopy()
	phases := []appsv1alpha1.RolloutPhase{appsv1alpha1.RolloutPhaseProgressing, appsv1alpha1.RolloutPhaseTerminating, appsv1alpha1.RolloutPhaseHealthy}
	latest.Status.Phase = phases[verifrt.IntRange("phase", 0, len(phases)-1)]
	cli := &symclient.Client{Objects: []client.Object{latest}}
	h := &RolloutCreateUpdateHandler{Client: cli}
	errs := h.validateV1alpha1RolloutUpdate(oldObj, newObj)
	if len(errs) != 0 {
		verifrt.Cover("denied")
		return
	}
	verifrt.Cover("allowed")
	if latest.Status.Phase == appsv1alpha1.RolloutPhaseHealthy {
		return
	}
	verifrt.Cover("allowed-while-progressing")
	partition := func(r *appsv1alpha1.Rollout) bool {
		return strings.EqualFold(r.Annotations[appsv1alpha1.RolloutStyleAnnotation], "partition")
	}
	verifrt.Assert(oldObj.Spec.ObjectRef.WorkloadRef.Name == newObj.Spec.ObjectRef.WorkloadRef.Name, "C09.v1alpha1.update.workloadRefImmutable")
	verifrt.Assert(oldObj.Spec.Strategy.Canary.TrafficRoutings[0].Service == newObj.Spec.Strategy.Canary.TrafficRoutings[0].Service, "C09.v1alpha1.update.trafficRoutingsImmutable")
	verifrt.Assert(partition(oldObj) == partition(newObj), "C09.v1alpha1.update.rollingStyleImmutable")
}
