package trafficrouting

// Manager-level obligations: C03 (routes only after both Services select the right revisions and the grace period
// elapsed), C04 (FinalisingTrafficRouting order), C05 (Service selector round trip), C19 (grace keys are per rollout).

import (
	"context"
	"fmt"
	"strings"
	"time"

	"github.com/openkruise/rollouts/api/v1beta1"
	"github.com/openkruise/rollouts/pkg/trafficrouting/network"
	custom "github.com/openkruise/rollouts/pkg/trafficrouting/network/customNetworkProvider"
	"github.com/openkruise/rollouts/pkg/trafficrouting/network/gateway"
	"github.com/openkruise/rollouts/pkg/trafficrouting/network/ingress"
	"github.com/openkruise/rollouts/pkg/util/grace"
	"github.com/openkruise/rollouts/pkg/verifrt"
	"github.com/openkruise/rollouts/pkg/verifrt/symclient"
	corev1 "k8s.io/api/core/v1"
	metav1 "k8s.io/apimachinery/pkg/apis/meta/v1"
	"k8s.io/apimachinery/pkg/types"
	"sigs.k8s.io/controller-runtime/pkg/client"
)

const (
	mStubNewProvider = "github.com/openkruise/rollouts/pkg/trafficrouting.newNetworkProvider"
	mKey             = "pod-template-hash"
)

var mErr = fmt.Errorf("injected provider error")

type mProvider struct {
	events *[]string
	ensureDone, ensureErr     bool
	finaliseModified, finaliseErr bool
}

func (p *mProvider) Initialize(ctx context.Context) error { return nil }
func (p *mProvider) EnsureRoutes(ctx context.Context, s *v1beta1.TrafficRoutingStrategy) (bool, error) {
	*p.events = append(*p.events, "provider.EnsureRoutes")
	if p.ensureErr {
		return false, mErr
	}
	return p.ensureDone, nil
}
func (p *mProvider) Finalise(ctx context.Context) (bool, error) {
	*p.events = append(*p.events, "provider.Finalise")
	if p.finaliseErr {
		return false, mErr
	}
	return p.finaliseModified, nil
}

type mWorld struct {
	cli    *symclient.Client
	events []string
	stable *corev1.Service
	canary *corev1.Service // nil if absent
	prov   *mProvider
	ctx    *TrafficRoutingContext
}

func mIndex(ev []string, name string) int {
	for i, x := range ev {
		if x == name {
			return i
		}
	}
	return -1
}

func mSetup(allowNilSelector bool) *mWorld {
	w := &mWorld{}
	w.stable = &corev1.Service{ObjectMeta: metav1.ObjectMeta{Namespace: "ns", Name: "svc", UID: "svc-uid"}}
	if !allowNilSelector || verifrt.Bool("stable.hasSelector") {
		w.stable.Spec.Selector = map[string]string{"app": "w"}
		switch verifrt.IntRange("stable.revisionSelector", 0, 2) {
		case 1:
			w.stable.Spec.Selector[mKey] = "rev-stable"
		case 2:
			w.stable.Spec.Selector[mKey] = "rev-other"
		}
	}
	objs := []client.Object{w.stable}
	if verifrt.Bool("canary.exists") {
		w.canary = &corev1.Service{ObjectMeta: metav1.ObjectMeta{Namespace: "ns", Name: "svc-canary", UID: "csvc-uid"}}
		w.canary.Spec.Selector = map[string]string{"app": "w"}
		switch verifrt.IntRange("canary.revisionSelector", 0, 2) {
		case 1:
			w.canary.Spec.Selector[mKey] = "rev-canary"
		case 2:
			w.canary.Spec.Selector[mKey] = "rev-other"
		}
		objs = append(objs, w.canary)
	}
	w.cli = &symclient.Client{Objects: objs}
	w.cli.ApplyFn = func(wr symclient.Write) {
		w.events = append(w.events, wr.Verb+":"+wr.Kind+":"+wr.Obj.GetName())
	}
	w.prov = &mProvider{events: &w.events, ensureDone: verifrt.Bool("prov.ensureDone"), ensureErr: verifrt.Bool("prov.ensureErr"),
		finaliseModified: verifrt.Bool("prov.finaliseModified"), finaliseErr: verifrt.Bool("prov.finaliseErr")}
	verifrt.Stub(mStubNewProvider, func(c client.Client, con *TrafficRoutingContext, sService, cService string) (network.NetworkProvider, error) {
		return w.prov, nil
	})
	weight := "20%"
	w.ctx = &TrafficRoutingContext{Key: "Rollout(ns/ro)", Namespace: "ns", RevisionLabelKey: mKey,
		ObjectRef:      []v1beta1.TrafficRoutingRef{{Service: "svc", Ingress: &v1beta1.IngressTrafficRouting{Name: "ing"}, GracePeriodSeconds: int32(verifrt.IntRange("graceSeconds", 0, 10))}},
		Strategy:       v1beta1.TrafficRoutingStrategy{Traffic: &weight},
		OwnerRef:       metav1.OwnerReference{UID: "ro-uid", Name: "ro"},
		StableRevision: "rev-stable", CanaryRevision: "rev-canary",
	}
	if verifrt.Bool("ctx.hasLastUpdate") {
		w.ctx.LastUpdateTime = &metav1.Time{Time: time.Now().Add(-time.Duration(verifrt.IntRange("ctx.lastUpdateAgo", 0, 100)) * time.Second)}
	}
	return w
}

// VerifC03_DoTrafficRouting: the provider is asked to write routes only when both Services already select the right
// revisions (nothing had to be patched in this call) and the grace period since the last change has elapsed; the step
// is reported routed only if the provider verified it in this very call.
func VerifC03_DoTrafficRouting() {
	w := mSetup(false)
	if verifrt.Bool("ctx.emptyRevisions") {
		w.ctx.CanaryRevision = ""
	}
	// the stable revision is not known yet (an Advanced DaemonSet, a workload whose controller has not reported its
	// current revision): the stable Service cannot be pinned, so no route may be written either
	if verifrt.Bool("ctx.emptyStableRevision") {
		w.ctx.StableRevision = ""
	}
	m := NewTrafficRoutingManager(w.cli)
	graceS := int(w.ctx.ObjectRef[0].GracePeriodSeconds)
	if graceS <= 0 {
		graceS = 3
	}
	lastUpdate := w.ctx.LastUpdateTime
	stableOK := w.stable.Spec.Selector[mKey] == "rev-stable"
	canaryOK := w.canary != nil && w.canary.Spec.Selector[mKey] == "rev-canary"
	done, err := m.DoTrafficRouting(w.ctx)
	// evaluated after the call: if the grace period had not elapsed by now it had not when the call looked either
	elapsed := lastUpdate == nil || !lastUpdate.Add(time.Duration(graceS)*time.Second).After(time.Now())
	e := mIndex(w.events, "provider.EnsureRoutes")
	if e >= 0 {
		verifrt.Cover("routes-written")
		verifrt.Assert(stableOK && canaryOK, "C03.routesOnlyAfterServicesSelectTheRightRevisions")
		verifrt.Assert(elapsed, "C03.routesOnlyAfterGracePeriod")
		verifrt.Assert(len(w.cli.Log) == 0, "C03.noServiceWriteInTheRoutingCall")
		verifrt.Assert(w.ctx.CanaryRevision != "", "C03.routesNeedAKnownCanaryRevision")
		verifrt.Assert(w.ctx.StableRevision != "", "C03.routesNeedAKnownStableRevision")
	}
	if done {
		verifrt.Cover("routed")
		verifrt.Assert(err == nil && e >= 0 && w.prov.ensureDone && !w.prov.ensureErr, "C03.routedOnlyIfProviderVerified")
	}
	// C04: a canary Service that is created selects the new revision from the start
	for _, wr := range w.cli.Writes("create", "Service") {
		svc := wr.Obj.(*corev1.Service)
		verifrt.Assert(svc.Name == "svc-canary" && svc.Spec.Selector[mKey] == "rev-canary" && svc.Spec.Selector["app"] == "w", "C04.canaryServiceSelectsNewRevision")
		verifrt.Assert(len(svc.OwnerReferences) == 1 && svc.OwnerReferences[0].UID == "ro-uid", "C05.canaryServiceOwnedByRollout")
	}
}

// VerifC09_CanaryServiceFromSelectorlessService: a Rollout may reference a Service without selector; no crash.
func VerifC09_CanaryServiceFromSelectorlessService() {
	w := mSetup(true)
	m := NewTrafficRoutingManager(w.cli)
	panicked := verifrt.NoPanic(func() { _, _ = m.DoTrafficRouting(w.ctx) })
	verifrt.Assert(!panicked, "C09.doTrafficRouting.selectorlessService.nopanic")
	verifrt.Cover("done")
}

// VerifC04_FinalisingTrafficRouting: stable Service un-pinned, then routes withdrawn, then canary Service removed;
// each step only after the previous one is complete, and "done" only when all three are.
func VerifC04_FinalisingTrafficRouting() {
	w := mSetup(false)
	// clean-up is independent of what the *current* step configures: routes of earlier steps must be withdrawn even
	// when the current step carries neither weight nor matches
	if verifrt.Bool("ctx.currentStepWithoutTraffic") {
		w.ctx.Strategy = v1beta1.TrafficRoutingStrategy{}
	}
	// in-memory grace expectations left by earlier reconciles (lost on restart: both cases)
	for _, ka := range [][2]string{{"svc-uid", "restoreService"}, {"ro-uid", "restoreGateway"}, {"ns/svc-canary", "removeCanaryService"}} {
		if verifrt.Bool("grace.pending." + ka[1]) {
			grace.DefaultGraceExpectations.Expect(ka[0], grace.Action(ka[1]))
		}
	}
	m := NewTrafficRoutingManager(w.cli)
	pinned := w.stable.Spec.Selector[mKey] != ""
	done, err := m.FinalisingTrafficRouting(w.ctx)
	un := mIndex(w.events, "patch:Service:svc")
	fin := mIndex(w.events, "provider.Finalise")
	del := mIndex(w.events, "delete:Service:svc-canary")
	// with gracePeriodSeconds: 0 the user asked not to wait between the steps: they may follow each other in one call
	noGrace := w.ctx.ObjectRef[0].GracePeriodSeconds == 0
	if fin >= 0 {
		verifrt.Assert((!pinned && un < 0) || (noGrace && un >= 0 && un < fin), "C04.routesRestoredOnlyAfterStableServiceUnpinned")
	}
	if del >= 0 {
		verifrt.Cover("canary-service-deleted")
		verifrt.Assert(fin >= 0 && fin < del && !w.prov.finaliseErr && (!w.prov.finaliseModified || noGrace), "C04.canaryServiceRemovedOnlyAfterRoutesWithdrawn")
	}
	if done {
		verifrt.Cover("finalised")
		verifrt.Assert(err == nil && fin >= 0 && !w.prov.finaliseErr, "C04.finalisedOnlyWhenAllThreeDone.routes")
		if !noGrace {
			verifrt.Assert(!pinned && !w.prov.finaliseModified && w.canary == nil, "C04.finalisedOnlyWhenAllThreeDone")
		} else {
			verifrt.Assert(w.canary == nil || del >= 0, "C04.finalisedOnlyWhenCanaryServiceGone")
		}
	}
	if pinned && err == nil {
		verifrt.Assert(un >= 0 && (!done || noGrace), "C04.pinnedStableServiceIsUnpinnedFirst")
	}
	// C07: "not done yet, come again" tells the caller how long: the callers turn exactly this into their requeue
	if err == nil && !done {
		verifrt.Cover("not-done")
		verifrt.Assert(w.ctx.RecheckDuration > 0, "C07.manager.notDoneComesWithAWait")
	}
}

func VerifC07_FinalisingNotDoneComesWithAWait() { VerifC04_FinalisingTrafficRouting() }

// C05: the clean-up withdraws the routes of *earlier* steps — what the current step configures (nothing, for a plain
// batch step) does not decide whether the providers are asked to restore (C04.finalisedOnlyWhenAllThreeDone.routes
// with ctx.currentStepWithoutTraffic, same relation).
func VerifC05_CleanupWithdrawsRoutesWhateverTheCurrentStep() { VerifC04_FinalisingTrafficRouting() }

// VerifC05_StableServiceSelectorRoundTrip: pinning and un-pinning the stable Service leaves its selector as the user
// wrote it (only the revision key is added and removed again).
func VerifC05_StableServiceSelectorRoundTrip() {
	w := mSetup(false)
	userKey := verifrt.String("user.selectorKey")
	verifrt.Assume(userKey != mKey && userKey != "app")
	w.stable.Spec.Selector = map[string]string{"app": "w", userKey: verifrt.String("user.selectorValue")}
	w.ctx.ObjectRef[0].GracePeriodSeconds = 0
	m := NewTrafficRoutingManager(w.cli)
	w.cli.ApplyFn = func(wr symclient.Write) {
		if wr.Verb != "patch" || wr.Kind != "Service" || wr.Obj.GetName() != "svc" {
			return
		}
		v, ok := verifrt.JSONGet(wr.Body, "spec", "selector", mKey)
		verifrt.Assert(ok, "C05.servicePatchTouchesOnlyTheRevisionKey")
		if v == "null" {
			delete(w.stable.Spec.Selector, mKey)
		} else {
			w.stable.Spec.Selector[mKey] = v
		}
	}
	retry, err := m.PatchStableService(w.ctx)
	verifrt.Assert(err == nil && !retry, "C05.patchStableService.done")
	verifrt.Assert(w.stable.Spec.Selector[mKey] == "rev-stable", "C03.stableServicePinnedToStableRevision")
	retry, err = m.RestoreStableService(w.ctx)
	verifrt.Assert(err == nil && !retry, "C05.restoreStableService.done")
	_, has := w.stable.Spec.Selector[mKey]
	verifrt.Assert(!has && len(w.stable.Spec.Selector) == 2 && w.stable.Spec.Selector["app"] == "w", "C05.stableServiceSelectorRestored")
}

// VerifC19_GraceKeysArePerRollout: two rollouts with different owners and different (namespace, Service) pairs never
// share a (key, action) pair of the process-wide grace expectations.
func VerifC19_GraceKeysArePerRollout() {
	type call struct{ key, action string }
	var calls []call
	verifrt.Stub("github.com/openkruise/rollouts/pkg/util/grace.RunWithGraceSeconds", func(key, action string, graceSeconds int32, f func() (bool, error)) (bool, time.Duration, error) {
		calls = append(calls, call{key, action})
		return false, 0, nil
	})
	run := func(tag string) []call {
		calls = nil
		// namespaces and Service names from small sets of similar names (shared names across namespaces, a Service
		// called like another one's canary Service); UIDs arbitrary (A1: UUIDs contain no '/', objects have distinct UIDs)
		ns := []string{"ns1", "ns2"}[verifrt.IntRange(tag+".namespace", 0, 1)]
		svc := []string{"web", "web-canary", "api"}[verifrt.IntRange(tag+".service", 0, 2)]
		uid := verifrt.String(tag + ".ownerUID")
		svcUID := verifrt.String(tag + ".serviceUID")
		verifrt.Assume(uid != "" && svcUID != "" && !strings.Contains(uid, "/") && !strings.Contains(svcUID, "/") && uid != svcUID)
		stable := &corev1.Service{ObjectMeta: metav1.ObjectMeta{Namespace: ns, Name: svc, UID: types.UID(svcUID)}}
		stable.Spec.Selector = map[string]string{"app": "w", mKey: "x"}
		cli := &symclient.Client{Objects: []client.Object{stable}}
		prov := &mProvider{events: new([]string)}
		verifrt.Stub(mStubNewProvider, func(c client.Client, con *TrafficRoutingContext, sService, cService string) (network.NetworkProvider, error) {
			return prov, nil
		})
		ctx := &TrafficRoutingContext{Key: "k", Namespace: ns, RevisionLabelKey: mKey, StableRevision: "s", CanaryRevision: "c",
			ObjectRef: []v1beta1.TrafficRoutingRef{{Service: svc, Ingress: &v1beta1.IngressTrafficRouting{Name: "ing"}}},
			OwnerRef:  metav1.OwnerReference{UID: types.UID(uid), Name: "ro"}}
		m := NewTrafficRoutingManager(cli)
		m.PatchStableService(ctx)
		m.RestoreStableService(ctx)
		m.RestoreGateway(ctx)
		m.RemoveCanaryService(ctx)
		m.RouteAllTrafficToNewVersion(ctx)
		// identity of this rollout: owner UID, stable Service UID, (namespace, service)
		calls = append(calls, call{uid, "#owner"}, call{svcUID, "#svcuid"}, call{ns, "#ns"}, call{svc, "#svc"})
		return calls
	}
	a := run("a")
	b := run("b")
	ida, idb := a[len(a)-4:], b[len(b)-4:]
	distinct := ida[0].key != idb[0].key && ida[1].key != idb[1].key && ida[0].key != idb[1].key && ida[1].key != idb[0].key && (ida[2].key != idb[2].key || ida[3].key != idb[3].key)
	// namespaces and names are DNS-1123: no '/'
	if !distinct {
		return
	}
	verifrt.Cover("distinct-rollouts")
	for _, x := range a[:len(a)-4] {
		for _, y := range b[:len(b)-4] {
			verifrt.Assert(!(x.key == y.key && x.action == y.action), "C19.graceKeysDoNotCollideAcrossRollouts")
		}
	}
	verifrt.Assert(len(a) == 9 && len(b) == 9, "C19.everyHelperIsKeyed")
}

// VerifC03_PatchStableServicePinsBeforeTheFirstBatch: PatchStableService is what the Init sub-state waits on before
// the first batch is created.  It reports "done, no retry" only when the stable Service already selects the stable
// revision — whatever is or is not yet known about the canary revision (its pod-template-hash is still empty for a
// Deployment whose canary pods do not exist yet).
func VerifC03_PatchStableServicePinsBeforeTheFirstBatch() {
	w := mSetup(false)
	if verifrt.Bool("ctx.canaryRevisionNotKnownYet") {
		w.ctx.CanaryRevision = ""
	}
	m := NewTrafficRoutingManager(w.cli)
	retry, err := m.PatchStableService(w.ctx)
	if err != nil || retry {
		verifrt.Cover("C03.pin.retry")
		return
	}
	verifrt.Cover("C03.pin.done")
	pinnedBefore := w.stable.Spec.Selector[mKey] == "rev-stable"
	patched := false
	for _, wr := range w.cli.Writes("patch", "Service") {
		if wr.Obj.GetName() == "svc" {
			v, ok := verifrt.JSONGet(wr.Body, "spec", "selector", mKey)
			patched = patched || (ok && v == "rev-stable")
		}
	}
	verifrt.Assert(pinnedBefore || patched, "C03.pin.doneOnlyWhenStableServiceSelectsTheStableRevision")
}

// VerifC03_EveryConfiguredProviderIsDriven: a traffic-routing entry may name several gateways at once (an Ingress and
// a Gateway API route and custom resources — the webhook accepts any combination).  "Routed" is reported for the step
// as a whole, so the provider the manager drives must contain one provider for *each* configured kind, and report
// done only when every one of them is done.  A combination in which one kind is silently left out is a step reported
// routed while one of the user's gateways still carries the old split.
func VerifC03_EveryConfiguredProviderIsDriven() {
	hasIngress, hasGateway, hasCustom := verifrt.Bool("ref.ingress"), verifrt.Bool("ref.gateway"), verifrt.Bool("ref.custom")
	verifrt.Assume(hasIngress || hasGateway || hasCustom)
	ref := v1beta1.TrafficRoutingRef{Service: "svc"}
	if hasIngress {
		ref.Ingress = &v1beta1.IngressTrafficRouting{Name: "ing"}
	}
	if hasGateway {
		name := "route"
		ref.Gateway = &v1beta1.GatewayTrafficRouting{HTTPRouteName: &name}
	}
	if hasCustom {
		ref.CustomNetworkRefs = []v1beta1.ObjectRef{{APIVersion: "networking.istio.io/v1alpha3", Kind: "VirtualService", Name: "vs"}}
	}
	var events []string
	mk := func(kind string) *mProvider {
		return &mProvider{events: &events, ensureDone: verifrt.Bool(kind + ".ensureDone")}
	}
	pi, pg, pc := mk("ingress"), mk("gateway"), mk("custom")
	verifrt.Stub("github.com/openkruise/rollouts/pkg/trafficrouting/network/ingress.NewIngressTrafficRouting", func(c client.Client, conf ingress.Config) (network.NetworkProvider, error) {
		return pi, nil
	})
	verifrt.Stub("github.com/openkruise/rollouts/pkg/trafficrouting/network/gateway.NewGatewayTrafficRouting", func(c client.Client, conf gateway.Config) (network.NetworkProvider, error) {
		return pg, nil
	})
	verifrt.Stub("github.com/openkruise/rollouts/pkg/trafficrouting/network/customNetworkProvider.NewCustomController", func(c client.Client, conf custom.Config) (network.NetworkProvider, error) {
		return pc, nil
	})
	ctx := &TrafficRoutingContext{Key: "Rollout(ns/ro)", Namespace: "ns", ObjectRef: []v1beta1.TrafficRoutingRef{ref}}
	p, err := newNetworkProvider(&symclient.Client{}, ctx, "svc", "svc-canary")
	verifrt.Assert(err == nil && p != nil, "C03.providers.built")
	if err != nil || p == nil {
		return
	}
	contains := func(want *mProvider) bool {
		if single, ok := p.(*mProvider); ok {
			return single == want
		}
		if comp, ok := p.(network.CompositeController); ok {
			for _, x := range comp {
				if mp, ok := x.(*mProvider); ok && mp == want {
					return true
				}
			}
		}
		return false
	}
	verifrt.Assert(contains(pi) == hasIngress, "C03.providers.ingressDrivenIffConfigured")
	verifrt.Assert(contains(pg) == hasGateway, "C03.providers.gatewayDrivenIffConfigured")
	verifrt.Assert(contains(pc) == hasCustom, "C03.providers.customDrivenIffConfigured")
	weight := "20%"
	done, err := p.EnsureRoutes(context.TODO(), &v1beta1.TrafficRoutingStrategy{Traffic: &weight})
	allDone := (!hasIngress || pi.ensureDone) && (!hasGateway || pg.ensureDone) && (!hasCustom || pc.ensureDone)
	verifrt.Assert(err == nil && done == allDone, "C03.providers.routedOnlyWhenEveryGatewayIs")
}

// VerifC19_OnlyTheGeneratedCanaryServiceIsEverDeleted: the stable Service is the user's (and may be shared by several
// rollouts).  Whatever the configuration — canary Service generation disabled, traffic-routing-only mode, any grace
// state — the clean-up deletes at most the Service the rollout generated (<stable>-canary), and nothing when it
// generated none: with generation disabled the "canary Service" *is* the stable Service.
func VerifC19_OnlyTheGeneratedCanaryServiceIsEverDeleted() {
	w := mSetup(false)
	w.ctx.DisableGenerateCanaryService = verifrt.Bool("ctx.disableGenerateCanaryService")
	w.ctx.OnlyTrafficRouting = verifrt.Bool("ctx.onlyTrafficRouting")
	for _, ka := range [][2]string{{"svc-uid", "restoreService"}, {"ro-uid", "restoreGateway"}, {"ns/svc-canary", "removeCanaryService"}, {"ns/svc", "removeCanaryService"}} {
		if verifrt.Bool("grace.pending." + ka[0] + "." + ka[1]) {
			grace.DefaultGraceExpectations.Expect(ka[0], grace.Action(ka[1]))
		}
	}
	m := NewTrafficRoutingManager(w.cli)
	direct := verifrt.Bool("call.removeCanaryServiceDirectly")
	if direct {
		_, _ = m.RemoveCanaryService(w.ctx)
	} else {
		_, _ = m.FinalisingTrafficRouting(w.ctx)
	}
	generated := !w.ctx.DisableGenerateCanaryService && !w.ctx.OnlyTrafficRouting
	for _, ev := range w.events {
		if strings.HasPrefix(ev, "delete:Service:") {
			verifrt.Cover("deletes")
			verifrt.Assert(ev == "delete:Service:svc-canary", "C19.services.neverDeletesTheStableService")
			verifrt.Assert(generated, "C19.services.deletesOnlyWhatItGenerated")
		}
	}
}

// VerifC19_CanaryServiceNamesAreDistinct: the manager never checks who owns an existing canary Service — it patches,
// adopts and deletes by the derived name — so two rollouts with different stable Services (same namespace) are only
// isolated if the derived names differ: the derivation is injective, also for names as long as the API server admits
// (63 characters) that differ only in their last characters.
func VerifC19_CanaryServiceNamesAreDistinct() {
	long := "orders-backend-payments-gateway-production-eu-central-1-" // 56 characters
	names := []string{"svc", "svc-canary", "svc-canary-canary", long + "blue-01", long + "teal-01", long + "b", long}
	a := names[verifrt.IntRange("a.stableService", 0, len(names)-1)]
	b := names[verifrt.IntRange("b.stableService", 0, len(names)-1)]
	verifrt.Assume(a != b)
	ca, cb := getCanaryServiceName(a, false, false), getCanaryServiceName(b, false, false)
	verifrt.Assert(ca != cb, "C19.canaryService.namesOfDifferentStableServicesDiffer")
	verifrt.Assert(ca != a && cb != b, "C19.canaryService.isAnotherObjectThanTheStableService")
	// end-to-end rollouts keep the Services they are given
	verifrt.Assert(getCanaryServiceName(a, true, false) == a && getCanaryServiceName(a, false, true) == a, "C19.canaryService.userServicesAreTakenAsGiven")
}
