package ingress

// C14 — Canary Ingress reflects the current step only (DESIGN.md §6 C14).
//
// The shipped Lua scripts are inputs of the check: the engine executes their text symbolically (engine/lua.go), the
// native replay runs them through the real gopher-lua VM.

import (
	"context"
	"fmt"

	"github.com/openkruise/rollouts/api/v1beta1"
	"github.com/openkruise/rollouts/pkg/util/luamanager"
	"github.com/openkruise/rollouts/pkg/verifrt"
	"github.com/openkruise/rollouts/pkg/verifrt/symclient"
	corev1 "k8s.io/api/core/v1"
	netv1 "k8s.io/api/networking/v1"
	metav1 "k8s.io/apimachinery/pkg/apis/meta/v1"
	gatewayv1beta1 "sigs.k8s.io/gateway-api/apis/v1beta1"
)

const (
	c14Stable = "echo-stable"
	c14Canary = "echo-canary"
	c14Name   = "echo"
)

func c14Ctl(class string) *ingressController {
	return &ingressController{
		conf: Config{Key: "r", Namespace: "ns", StableService: c14Stable, CanaryService: c14Canary,
			TrafficConf: &v1beta1.IngressTrafficRouting{Name: c14Name, ClassType: class}},
		canaryIngressName: defaultCanaryIngressName(c14Name),
		luaManager:        &luamanager.LuaManager{},
		luaScript:         verifrt.RepoFile("lua_configuration/trafficrouting_ingress/" + class + ".lua"),
	}
}

// ---------------------------------------------------------------------------------------------------------------
// buildCanaryIngress
// ---------------------------------------------------------------------------------------------------------------

// backend kinds: 0 stable Service, 1 other Service, 2 Resource backend (no Service section)
func c14Backend(name string) (netv1.IngressBackend, int) {
	k := verifrt.IntRange(name+".kind", 0, 2)
	switch k {
	case 0:
		return netv1.IngressBackend{Service: &netv1.IngressServiceBackend{Name: c14Stable, Port: netv1.ServiceBackendPort{Number: 80}}}, k
	case 1:
		return netv1.IngressBackend{Service: &netv1.IngressServiceBackend{Name: "other-svc", Port: netv1.ServiceBackendPort{Number: 80}}}, k
	}
	return netv1.IngressBackend{Resource: &corev1.TypedLocalObjectReference{Kind: "Bucket", Name: "static"}}, k
}

type c14Want struct {
	host string
	path string
}

func c14StableIngress(maxRules, maxPaths int) (*netv1.Ingress, [][]c14Want) {
	ing := &netv1.Ingress{ObjectMeta: metav1.ObjectMeta{Name: c14Name, Namespace: "ns",
		Annotations: map[string]string{"user/a": verifrt.String("ing.ann")}}}
	var want [][]c14Want
	nr := verifrt.Concrete(verifrt.IntRange("ing.nRules", 0, maxRules))
	for i := 0; i < nr; i++ {
		rule := netv1.IngressRule{Host: verifrt.String("rule.host")}
		var w []c14Want
		if verifrt.Bool("rule.hasHTTP") {
			rule.HTTP = &netv1.HTTPIngressRuleValue{}
			np := verifrt.Concrete(verifrt.IntRange("rule.nPaths", 1, maxPaths))
			for j := 0; j < np; j++ {
				b, k := c14Backend("path.backend")
				p := verifrt.String("path.path")
				rule.HTTP.Paths = append(rule.HTTP.Paths, netv1.HTTPIngressPath{Path: p, Backend: b})
				if k == 0 {
					w = append(w, c14Want{host: rule.Host, path: p})
				}
			}
		}
		ing.Spec.Rules = append(ing.Spec.Rules, rule)
		if len(w) > 0 {
			want = append(want, w)
		}
	}
	return ing, want
}

// VerifC14_BuildCanaryIngress: for every stable Ingress with <= R rules x <= P paths (rules without an http section,
// Service backends to the stable / another Service, Resource backends), buildCanaryIngress does not panic and the
// canary Ingress holds exactly the stable-Service paths, re-targeted to the canary Service, in order.
func VerifC14_BuildCanaryIngress() {
	r := c14Ctl("nginx")
	ing, want := c14StableIngress(verifrt.Bound("c14.rules", 2, 3), verifrt.Bound("c14.paths", 2, 3))
	var out *netv1.Ingress
	panicked := verifrt.NoPanic(func() { out = r.buildCanaryIngress(ing) })
	verifrt.Assert(!panicked, "C14.build.noPanic")
	if panicked {
		return
	}
	verifrt.Assert(out.Name == c14Name+"-canary", "C14.build.name")
	verifrt.Assert(len(out.Spec.Rules) == len(want), "C14.build.ruleCount")
	if len(out.Spec.Rules) != len(want) {
		return
	}
	for i := range want {
		cr := out.Spec.Rules[i]
		ok := cr.HTTP != nil && len(cr.HTTP.Paths) == len(want[i])
		verifrt.Assert(ok, "C14.build.pathCount")
		if !ok {
			return
		}
		for j := range want[i] {
			p := cr.HTTP.Paths[j]
			verifrt.Assert(verifrt.And(cr.Host == want[i][j].host, p.Path == want[i][j].path), "C14.build.pathKept")
			verifrt.Assert(p.Backend.Service != nil && p.Backend.Service.Name == c14Canary, "C14.build.retargeted")
		}
	}
	verifrt.Cover("C14.build.done")
}

// ---------------------------------------------------------------------------------------------------------------
// Lua scripts: the annotations of a step do not depend on what earlier steps wrote
// ---------------------------------------------------------------------------------------------------------------

// the keys each built-in script may write (read off the scripts; the "canary" marker and "order" are constants)
func c14Managed(class string) []string {
	p := "nginx.ingress.kubernetes.io/"
	if class == "aliyun-alb" {
		p = "alb.ingress.kubernetes.io/"
	}
	keys := []string{p + "canary", p + "canary-by-cookie", p + "canary-by-header", p + "canary-by-header-pattern",
		p + "canary-by-header-value", p + "canary-weight"}
	if class == "aliyun-alb" {
		keys = append(keys, p+"order")
	}
	if class == "mse" {
		keys = append(keys, p+"canary-by-query", p+"canary-by-query-pattern", p+"canary-by-query-value",
			"mse.ingress.kubernetes.io/request-header-control-update")
	}
	return keys
}

func c14HeaderType(name string, lo int) *gatewayv1beta1.HeaderMatchType {
	switch verifrt.IntRange(name, lo, 2) {
	case 0:
		return nil
	case 1:
		t := gatewayv1beta1.HeaderMatchExact
		return &t
	}
	t := gatewayv1beta1.HeaderMatchRegularExpression
	return &t
}

func c14QueryType(name string, lo int) *gatewayv1beta1.QueryParamMatchType {
	switch verifrt.IntRange(name, lo, 2) {
	case 0:
		return nil
	case 1:
		t := gatewayv1beta1.QueryParamMatchExact
		return &t
	}
	t := gatewayv1beta1.QueryParamMatchRegularExpression
	return &t
}

type c14Step struct {
	weight   *int32
	matches  []v1beta1.HttpRouteMatch
	modifier *gatewayv1beta1.HTTPHeaderFilter
}

// c14GenStep: a step of the kinds the class supports: weight (nil or 0..100), <= M matches each with one header
// (name symbolic, so the cookie branch is covered; Exact / RegularExpression / — when typeLo is 0 — no type) and, for mse, optionally one
// query parameter and a requestHeaderModifier with 1..2 "set" entries.
func c14GenStep(class string, maxMatches int, typeLo int) c14Step {
	s := c14Step{}
	if verifrt.Bool("step.hasWeight") {
		w := int32(verifrt.IntRange("step.weight", 0, 100))
		s.weight = &w
	}
	nm := verifrt.Concrete(verifrt.IntRange("step.nMatches", 0, maxMatches))
	for i := 0; i < nm; i++ {
		m := v1beta1.HttpRouteMatch{}
		hasHeader := true
		if class == "mse" || class == "nginx" {
			hasHeader = verifrt.Bool("match.hasHeader")
		}
		if hasHeader {
			m.Headers = []gatewayv1beta1.HTTPHeaderMatch{{Type: c14HeaderType("match.htype", typeLo),
				Name: gatewayv1beta1.HTTPHeaderName(verifrt.String("match.hname")), Value: verifrt.String("match.hvalue")}}
		}
		if class == "mse" && verifrt.Bool("match.hasQuery") {
			m.QueryParams = []gatewayv1beta1.HTTPQueryParamMatch{{Type: c14QueryType("match.qtype", typeLo),
				Name: gatewayv1beta1.HTTPHeaderName(verifrt.String("match.qname")), Value: verifrt.String("match.qvalue")}}
		}
		s.matches = append(s.matches, m)
	}
	if class == "mse" && verifrt.Bool("step.hasModifier") {
		s.modifier = &gatewayv1beta1.HTTPHeaderFilter{}
		n := verifrt.Concrete(verifrt.IntRange("step.nSet", 1, 2))
		for i := 0; i < n; i++ {
			s.modifier.Set = append(s.modifier.Set, gatewayv1beta1.HTTPHeader{
				Name: gatewayv1beta1.HTTPHeaderName(verifrt.String("set.name")), Value: verifrt.String("set.value")})
		}
	}
	return s
}

func c14UserAnnotations(class string) map[string]string {
	a := map[string]string{"kubernetes.io/ingress.class": class}
	if verifrt.Bool("user.hasAnn") {
		a["user/team"] = verifrt.String("user.ann")
	}
	if class == "mse" && verifrt.Bool("user.hasSubset") {
		a["mse.ingress.kubernetes.io/service-subset"] = verifrt.String("user.subset")
	}
	return a
}

func c14Copy(m map[string]string) map[string]string {
	out := map[string]string{}
	for k, v := range m {
		out[k] = v
	}
	return out
}

func c14SameMap(a, b map[string]string, keys []string) bool {
	if len(a) != len(b) {
		return false
	}
	eq := true
	for _, k := range keys {
		va, oka := a[k]
		vb, okb := b[k]
		if oka != okb {
			return false
		}
		if oka {
			eq = verifrt.And(eq, va == vb)
		}
	}
	return eq
}

// c14Stateless: (inductive form) whatever the managed keys hold on the canary Ingress — present or absent, any value,
// i.e. whatever any sequence of earlier steps left — executing the script for step s gives the same annotations as
// executing it on the freshly created canary Ingress (user annotations only).
func c14Stateless(class string) {
	r := c14Ctl(class)
	user := c14UserAnnotations(class)
	fresh := c14Copy(user)
	stale := c14Copy(user)
	managed := c14Managed(class)
	which := verifrt.Concrete(verifrt.IntRange("stale.which", 0, len(managed)))
	for i, k := range managed {
		// one stale key at a time, or (which == len) all of them together
		if which == i || which == len(managed) {
			stale[k] = verifrt.String("stale.value")
		}
	}
	mm := verifrt.Bound("c14.matches", 2, 3)
	if class == "mse" {
		mm = verifrt.Bound("c14.mseMatches", 1, 2)
	}
	s := c14GenStep(class, mm, 0)
	a1, err1 := r.executeLuaForCanary(stale, s.weight, s.matches, s.modifier)
	a2, err2 := r.executeLuaForCanary(fresh, s.weight, s.matches, s.modifier)
	verifrt.Assert((err1 == nil) == (err2 == nil), "C14.lua."+class+".sameOutcome")
	if err1 != nil || err2 != nil {
		verifrt.Cover("C14.lua." + class + ".error")
		return
	}
	keys := append([]string{"kubernetes.io/ingress.class", "user/team", "mse.ingress.kubernetes.io/service-subset"}, managed...)
	verifrt.Assert(c14SameMap(a1, a2, keys), "C14.lua."+class+".historyIndependent")
	// user annotations survive, and a second application of the same step changes nothing
	v, ok := a1["kubernetes.io/ingress.class"]
	verifrt.Assert(ok && v == class, "C14.lua."+class+".userKept")
	a3, err3 := r.executeLuaForCanary(c14Copy(a1), s.weight, s.matches, s.modifier)
	verifrt.Assert(err3 == nil && c14SameMap(a1, a3, keys), "C14.lua."+class+".idempotent")
	verifrt.Cover("C14.lua." + class + ".done")
}

func VerifC14_LuaStateless_nginx()   { c14Stateless("nginx") }
func VerifC14_LuaStateless_alb()     { c14Stateless("aliyun-alb") }
func VerifC14_LuaStateless_higress() { c14Stateless("higress") }
func VerifC14_LuaStateless_mse()     { c14Stateless("mse") }

// c14TwoSteps: (history form, length 2) create; step s1; step s2  ==  create; step s2, through the real
// executeLuaForCanary chain EnsureRoutes uses (creation runs the script with weight 0 and no matches).
func c14TwoSteps(class string) {
	r := c14Ctl(class)
	user := map[string]string{"kubernetes.io/ingress.class": class, "user/team": verifrt.String("user.ann")}
	if class == "mse" {
		user["mse.ingress.kubernetes.io/service-subset"] = verifrt.String("user.subset")
	}
	zero := int32(0)
	base, err := r.executeLuaForCanary(c14Copy(user), &zero, nil, nil)
	if err != nil {
		verifrt.Cover("C14.seq." + class + ".createError")
		return
	}
	s1 := c14GenStep(class, 1, 1)
	s2 := c14GenStep(class, 1, 1)
	mid, err := r.executeLuaForCanary(c14Copy(base), s1.weight, s1.matches, s1.modifier)
	if err != nil {
		return
	}
	a1, err1 := r.executeLuaForCanary(mid, s2.weight, s2.matches, s2.modifier)
	a2, err2 := r.executeLuaForCanary(c14Copy(base), s2.weight, s2.matches, s2.modifier)
	if err1 != nil || err2 != nil {
		verifrt.Assert((err1 == nil) == (err2 == nil), "C14.seq."+class+".sameOutcome")
		return
	}
	keys := append([]string{"kubernetes.io/ingress.class", "user/team", "mse.ingress.kubernetes.io/service-subset"}, c14Managed(class)...)
	verifrt.Assert(c14SameMap(a1, a2, keys), "C14.seq."+class+".historyIndependent")
	verifrt.Cover("C14.seq." + class + ".done")
}

func VerifC14_LuaTwoSteps_nginx()   { c14TwoSteps("nginx") }
func VerifC14_LuaTwoSteps_alb()     { c14TwoSteps("aliyun-alb") }
func VerifC14_LuaTwoSteps_higress() { c14TwoSteps("higress") }
func VerifC14_LuaTwoSteps_mse()     { c14TwoSteps("mse") }

// ---------------------------------------------------------------------------------------------------------------
// EnsureRoutes / Finalise: only the canary Ingress is ever written; finalising deletes it
// ---------------------------------------------------------------------------------------------------------------

func c14OnlyCanaryWritten(c *symclient.Client, label string) {
	for _, w := range c.Log {
		verifrt.Assert(w.Kind == "Ingress" && w.Obj.GetName() == c14Name+"-canary" && w.Obj.GetNamespace() == "ns", label)
	}
}

// VerifC14_EnsureRoutesWrites: from any store state (canary Ingress absent / present with arbitrary managed
// annotations) one EnsureRoutes of an arbitrary step writes nothing but the canary Ingress: Create when absent
// (rules from the stable Ingress, annotations from the script at weight 0), a metadata merge patch when present and
// different, nothing when equal (then done=true).
func VerifC14_EnsureRoutesWrites() {
	class := "nginx"
	r := c14Ctl(class)
	c := &symclient.Client{}
	r.Client = c
	stable, want := c14StableIngress(1, 2)
	stable.Annotations = c14UserAnnotations(class)
	c.Objects = append(c.Objects, stable)
	hasCanary := verifrt.Bool("store.hasCanary")
	var canary *netv1.Ingress
	if hasCanary {
		canary = &netv1.Ingress{ObjectMeta: metav1.ObjectMeta{Name: c14Name + "-canary", Namespace: "ns", Annotations: c14UserAnnotations(class)}}
		canary.Annotations["nginx.ingress.kubernetes.io/canary"] = "true"
		if verifrt.Bool("store.hasWeight") {
			canary.Annotations["nginx.ingress.kubernetes.io/canary-weight"] = verifrt.String("store.weight")
		}
		if verifrt.Bool("store.hasHeader") {
			canary.Annotations["nginx.ingress.kubernetes.io/canary-by-header"] = verifrt.String("store.header")
		}
		c.Objects = append(c.Objects, canary)
	}
	s := c14GenStep(class, 1, 0)
	strategy := &v1beta1.TrafficRoutingStrategy{Matches: s.matches, RequestHeaderModifier: s.modifier}
	if s.weight != nil {
		t := fmt.Sprintf("%d%%", *s.weight)
		strategy.Traffic = &t
	}
	done, err := r.EnsureRoutes(context.TODO(), strategy)
	c14OnlyCanaryWritten(c, "C14.ensure.onlyCanaryWritten")
	if err != nil {
		verifrt.Assert(!done, "C14.ensure.errNotDone")
		return
	}
	if !hasCanary {
		if s.weight != nil && *s.weight == 0 {
			verifrt.Assert(done && len(c.Log) == 0, "C14.ensure.absentZeroWeightNoop")
			return
		}
		creates := c.Writes("create", "Ingress")
		verifrt.Assert(!done && len(creates) == 1 && len(c.Log) == 1, "C14.ensure.createsOnce")
		if len(creates) == 1 {
			created := creates[0].Obj.(*netv1.Ingress)
			verifrt.Assert(len(created.Spec.Rules) == len(want), "C14.ensure.createdRules")
			v, ok := created.Annotations["nginx.ingress.kubernetes.io/canary-weight"]
			verifrt.Assert(ok && v == "0", "C14.ensure.createdAtZero")
			_, has := created.Annotations["nginx.ingress.kubernetes.io/canary-by-header"]
			verifrt.Assert(!has, "C14.ensure.createdNoMatch")
		}
		return
	}
	if done {
		verifrt.Assert(len(c.Log) == 0, "C14.ensure.doneNoWrite")
	} else {
		verifrt.Assert(len(c.Log) == 1 && len(c.Writes("patch", "Ingress")) == 1, "C14.ensure.onePatch")
	}
	// "done" means the stored canary Ingress already carries exactly the annotations of this step — nothing of an
	// earlier step is left on it (a patch is issued whenever they differ in either direction)
	desired, lerr := r.executeLuaForCanary(c14Copy(canary.Annotations), s.weight, s.matches, s.modifier)
	if lerr == nil {
		keys := append([]string{"kubernetes.io/ingress.class", "user/team"}, c14Managed(class)...)
		verifrt.Assert(done == c14SameMap(canary.Annotations, desired, keys), "C14.ensure.doneIffStoredAnnotationsAreTheSteps")
	}
	verifrt.Cover("C14.ensure.done")
}

// VerifC14_Finalise: finalising deletes the canary Ingress (and only it) when it exists and is not already being
// deleted; it reports modified=true exactly when it issued the delete, and a later call with the object gone writes nothing.
func VerifC14_Finalise() {
	r := c14Ctl("nginx")
	c := &symclient.Client{}
	r.Client = c
	stable, _ := c14StableIngress(1, 1)
	c.Objects = append(c.Objects, stable)
	state := verifrt.IntRange("store.canary", 0, 2) // 0 absent, 1 present, 2 terminating
	if state > 0 {
		canary := &netv1.Ingress{ObjectMeta: metav1.ObjectMeta{Name: c14Name + "-canary", Namespace: "ns"}}
		if state == 2 {
			now := metav1.Now()
			canary.DeletionTimestamp = &now
		}
		// the owner the canary Ingress was created under: none, the owner finalising it now, or an earlier
		// incarnation of it (Rollout re-created under the same name, routing handed from a Rollout to a
		// TrafficRouting object) — the canary Ingress is named after the stable one and is withdrawn all the same
		// (seed C14-15: Finalise skipped a canary Ingress whose owner UID differed)
		switch verifrt.IntRange("store.canary.owner", 0, 2) {
		case 1:
			canary.OwnerReferences = []metav1.OwnerReference{r.conf.OwnerRef}
		case 2:
			o := r.conf.OwnerRef
			o.UID = "uid-of-an-earlier-owner"
			canary.OwnerReferences = []metav1.OwnerReference{o}
		}
		c.Objects = append(c.Objects, canary)
	}
	modified, err := r.Finalise(context.TODO())
	c14OnlyCanaryWritten(c, "C14.finalise.onlyCanaryWritten")
	verifrt.Assert(err == nil, "C14.finalise.noError")
	if state == 1 {
		verifrt.Assert(modified && len(c.Writes("delete", "Ingress")) == 1 && len(c.Log) == 1, "C14.finalise.deletes")
	} else {
		verifrt.Assert(!modified && len(c.Log) == 0, "C14.finalise.nothingToDo")
	}
	verifrt.Assert(c.Find("Ingress", "ns", c14Name) != nil, "C14.finalise.stableKept")
}

// VerifC05_IngressRoundTrip: create; step; Finalise leaves the stable Ingress as it was and no canary Ingress.
func VerifC05_IngressRoundTrip() {
	class := "nginx"
	r := c14Ctl(class)
	c := &symclient.Client{}
	c.ApplyFn = c.ApplyToStore
	r.Client = c
	stable, _ := c14StableIngress(1, 2)
	stable.Annotations = c14UserAnnotations(class)
	c.Objects = append(c.Objects, stable.DeepCopy())
	s := c14GenStep(class, 1, 1)
	strategy := &v1beta1.TrafficRoutingStrategy{Matches: s.matches}
	if s.weight != nil {
		t := fmt.Sprintf("%d%%", *s.weight)
		strategy.Traffic = &t
	}
	_, err := r.EnsureRoutes(context.TODO(), strategy)
	if err != nil {
		return
	}
	modified, err := r.Finalise(context.TODO())
	verifrt.Assert(err == nil, "C05.ingress.finalise.noError")
	created := len(c.Writes("create", "Ingress")) == 1
	verifrt.Assert(modified == created, "C05.ingress.finalise.modifiedIffCreated")
	verifrt.Assert(c.Find("Ingress", "ns", c14Name+"-canary") == nil, "C05.ingress.finalise.canaryGone")
	for _, w := range c.Log {
		verifrt.Assert(w.Obj.GetName() != c14Name, "C05.ingress.stableNeverWritten")
	}
	got := c.Find("Ingress", "ns", c14Name).(*netv1.Ingress)
	keys := []string{"kubernetes.io/ingress.class", "user/team"}
	verifrt.Assert(c14SameMap(got.Annotations, stable.Annotations, keys), "C05.ingress.stableAnnotationsKept")
	verifrt.Cover("C05.ingress.done")
}

// c03IngressShare: once a step is applied the canary annotations carry exactly the step's value: canary-weight is the
// step's weight (absent for a step without weight) and a header match is written with the step's name and value.
func c03IngressShare(class string) {
	r := c14Ctl(class)
	p := "nginx.ingress.kubernetes.io/"
	if class == "aliyun-alb" {
		p = "alb.ingress.kubernetes.io/"
	}
	s := c14GenStep(class, 1, 1)
	if len(s.matches) == 1 && len(s.matches[0].Headers) == 0 {
		return
	}
	out, err := r.executeLuaForCanary(c14UserAnnotations(class), s.weight, s.matches, nil)
	verifrt.Assert(err == nil, "C03.ingress."+class+".noError")
	if err != nil {
		return
	}
	w, has := out[p+"canary-weight"]
	if s.weight != nil {
		verifrt.Assert(has && w == fmt.Sprintf("%d", *s.weight), "C03.ingress."+class+".weightIsTheSteps")
	} else {
		verifrt.Assert(!has, "C03.ingress."+class+".noWeightWithoutWeightStep")
	}
	v, has := out[p+"canary"]
	verifrt.Assert(has && v == "true", "C03.ingress."+class+".markedCanary")
	if len(s.matches) == 1 {
		h := s.matches[0].Headers[0]
		if string(h.Name) == "canary-by-cookie" {
			c, has := out[p+"canary-by-cookie"]
			verifrt.Assert(has && c == h.Value, "C03.ingress."+class+".cookieIsTheSteps")
		} else {
			n, has := out[p+"canary-by-header"]
			verifrt.Assert(has && n == string(h.Name), "C03.ingress."+class+".headerNameIsTheSteps")
			key := p + "canary-by-header-value"
			if h.Type != nil && *h.Type == gatewayv1beta1.HeaderMatchRegularExpression {
				key = p + "canary-by-header-pattern"
			}
			hv, has := out[key]
			verifrt.Assert(has && hv == h.Value, "C03.ingress."+class+".headerValueIsTheSteps")
		}
	}
	verifrt.Cover("C03.ingress." + class + ".done")
}

func VerifC03_IngressStepShare_nginx()   { c03IngressShare("nginx") }
func VerifC03_IngressStepShare_alb()     { c03IngressShare("aliyun-alb") }
func VerifC03_IngressStepShare_higress() { c03IngressShare("higress") }
func VerifC03_IngressStepShare_mse()     { c03IngressShare("mse") }

// C03: the Ingress provider reports a step as routed ("done") only when the stored canary Ingress already carries
// exactly the step's annotations — a 0% step on an Ingress that still has the previous step's weight or match is not
// done (C14.ensure.doneIffStoredAnnotationsAreTheSteps of the same relation).
func VerifC03_IngressRoutedMeansTheStoredIngressCarriesTheStep() { VerifC14_EnsureRoutesWrites() }

// C04: the Ingress provider's Finalise really withdraws the canary Ingress (named after the *Ingress*, whatever the
// Services are called) before it lets the clean-up go on to delete the canary Service (same obligations as C14's).
func VerifC04_IngressFinaliseWithdrawsCanary() { VerifC14_Finalise() }

// VerifC14_EnsureRoutesRemovesWhatTheScriptRemoved: the update path sends the *difference* between the stored canary
// annotations and the script's result, removals included, whatever the key looks like.  With the shipped mse script —
// whose request-header-control-update key does not carry the "canary" prefix of the other managed keys — a step
// without a header modifier entered after one with a modifier must remove that annotation: done is not reported while
// the stored Ingress still carries it, and the patch that is sent deletes it.
func VerifC14_EnsureRoutesRemovesWhatTheScriptRemoved() {
	const staleKey = "mse.ingress.kubernetes.io/request-header-control-update"
	r := c14Ctl("mse")
	c := &symclient.Client{}
	r.Client = c
	stable, _ := c14StableIngress(1, 1)
	c.Objects = append(c.Objects, stable)
	canary := &netv1.Ingress{ObjectMeta: metav1.ObjectMeta{Name: c14Name + "-canary", Namespace: "ns", Annotations: map[string]string{
		"nginx.ingress.kubernetes.io/canary": "true"}}}
	stale := verifrt.Bool("store.hasHeaderControlOfAnEarlierStep")
	if stale {
		canary.Annotations[staleKey] = "x-env gray"
	}
	storedWeight := verifrt.IntRange("store.weight", 0, 100)
	canary.Annotations["nginx.ingress.kubernetes.io/canary-weight"] = fmt.Sprintf("%d", storedWeight)
	c.Objects = append(c.Objects, canary)
	w := verifrt.IntRange("step.weight", 1, 100)
	t := fmt.Sprintf("%d%%", w)
	done, err := r.EnsureRoutes(context.TODO(), &v1beta1.TrafficRoutingStrategy{Traffic: &t})
	verifrt.Assert(err == nil, "C14.update.noError")
	if err != nil {
		return
	}
	if stale {
		verifrt.Cover("stale")
		verifrt.Assert(!done, "C14.update.notDoneWhileAnEarlierStepsAnnotationIsStored")
		ps := c.Writes("patch", "Ingress")
		verifrt.Assert(len(ps) == 1, "C14.update.onePatch")
		if len(ps) == 1 {
			v, has := verifrt.JSONGet(ps[0].Body, "metadata", "annotations", staleKey)
			verifrt.Assert(has && v == "null", "C14.update.patchRemovesWhatTheScriptRemoved")
		}
	} else if storedWeight == w {
		verifrt.Assert(done && len(c.Log) == 0, "C14.update.doneWhenNothingDiffers")
	}
}

// VerifC14_BuildCanaryIngressKeepsPathDetails: "the stable paths re-targeted" means each copied path is the stable
// path in every respect but the Service name — path type and Service port included — and the canary Ingress serves
// them under the same ingress class and TLS configuration.
func VerifC14_BuildCanaryIngressKeepsPathDetails() {
	r := c14Ctl("nginx")
	ing := &netv1.Ingress{ObjectMeta: metav1.ObjectMeta{Name: c14Name, Namespace: "ns"}}
	if verifrt.Bool("ing.hasClass") {
		cls := "nginx"
		ing.Spec.IngressClassName = &cls
	}
	if verifrt.Bool("ing.hasTLS") {
		ing.Spec.TLS = []netv1.IngressTLS{{Hosts: []string{"shop.example.com"}, SecretName: "shop-tls"}}
	}
	types := []netv1.PathType{netv1.PathTypeExact, netv1.PathTypePrefix, netv1.PathTypeImplementationSpecific}
	rule := netv1.IngressRule{Host: "shop.example.com", IngressRuleValue: netv1.IngressRuleValue{HTTP: &netv1.HTTPIngressRuleValue{}}}
	n := verifrt.Concrete(verifrt.IntRange("rule.nPaths", 1, 2))
	var ports []netv1.ServiceBackendPort
	for j := 0; j < n; j++ {
		p := netv1.HTTPIngressPath{Path: []string{"/", "/cart"}[j]}
		if k := verifrt.IntRange("path.type", 0, 3); k > 0 {
			t := types[k-1]
			p.PathType = &t
		}
		port := netv1.ServiceBackendPort{Number: int32(verifrt.IntRange("path.port", 1, 65535))}
		if verifrt.Bool("path.namedPort") {
			port = netv1.ServiceBackendPort{Name: "http"}
		}
		p.Backend = netv1.IngressBackend{Service: &netv1.IngressServiceBackend{Name: c14Stable, Port: port}}
		ports = append(ports, port)
		rule.HTTP.Paths = append(rule.HTTP.Paths, p)
	}
	ing.Spec.Rules = []netv1.IngressRule{rule}
	out := r.buildCanaryIngress(ing)
	ok := len(out.Spec.Rules) == 1 && out.Spec.Rules[0].HTTP != nil && len(out.Spec.Rules[0].HTTP.Paths) == n
	verifrt.Assert(ok, "C14.build.details.allPathsCopied")
	if !ok {
		return
	}
	for j := 0; j < n; j++ {
		s, c := rule.HTTP.Paths[j], out.Spec.Rules[0].HTTP.Paths[j]
		verifrt.Assert(c.Path == s.Path, "C14.build.details.path")
		verifrt.Assert((c.PathType == nil) == (s.PathType == nil), "C14.build.details.pathTypeKept")
		if c.PathType != nil && s.PathType != nil {
			verifrt.Assert(*c.PathType == *s.PathType, "C14.build.details.pathTypeKept")
		}
		verifrt.Assert(c.Backend.Service != nil && c.Backend.Service.Name == c14Canary && c.Backend.Service.Port == ports[j], "C14.build.details.portKeptServiceRetargeted")
	}
	verifrt.Assert((out.Spec.IngressClassName == nil) == (ing.Spec.IngressClassName == nil), "C14.build.details.ingressClassKept")
	if out.Spec.IngressClassName != nil && ing.Spec.IngressClassName != nil {
		verifrt.Assert(*out.Spec.IngressClassName == *ing.Spec.IngressClassName, "C14.build.details.ingressClassKept")
	}
	verifrt.Assert(len(out.Spec.TLS) == len(ing.Spec.TLS), "C14.build.details.tlsKept")
	// (the in-memory stable Ingress handed in shares its backend.Service pointers with the result and comes back
	// renamed; it is a private copy that EnsureRoutes never writes or reads again — that the *stored* stable Ingress is
	// never written is C14.ensure.onlyCanaryWritten)
}

// VerifC14_CanaryIngressIsNeverTheStableIngress: whatever the user's Ingress is called — names that already end in
// "-canary" included — the canary Ingress is another object: a step creates it next to the stable Ingress, writes the
// canary annotations onto it and not onto the user's, and finalising deletes it and not the user's.
func VerifC14_CanaryIngressIsNeverTheStableIngress() {
	names := []string{"echo", "echo-canary", "canary", "echo-canary-canary"}
	name := names[verifrt.IntRange("ing.name", 0, len(names)-1)]
	class := "nginx"
	c := &symclient.Client{}
	c.ApplyFn = c.ApplyToStore
	r := &ingressController{Client: c,
		conf: Config{Key: "r", Namespace: "ns", StableService: c14Stable, CanaryService: c14Canary,
			TrafficConf: &v1beta1.IngressTrafficRouting{Name: name, ClassType: class}},
		canaryIngressName: defaultCanaryIngressName(name),
		luaManager:        &luamanager.LuaManager{},
		luaScript:         verifrt.RepoFile("lua_configuration/trafficrouting_ingress/" + class + ".lua"),
	}
	verifrt.Assert(r.canaryIngressName != name, "C14.name.canaryIsAnotherObject")
	stable := &netv1.Ingress{ObjectMeta: metav1.ObjectMeta{Name: name, Namespace: "ns", Annotations: c14UserAnnotations(class)}}
	stable.Spec.Rules = []netv1.IngressRule{{Host: "shop.example.com", IngressRuleValue: netv1.IngressRuleValue{HTTP: &netv1.HTTPIngressRuleValue{Paths: []netv1.HTTPIngressPath{
		{Path: "/", Backend: netv1.IngressBackend{Service: &netv1.IngressServiceBackend{Name: c14Stable, Port: netv1.ServiceBackendPort{Number: 80}}}}}}}}}
	c.Objects = append(c.Objects, stable.DeepCopy())
	w := int32(verifrt.IntRange("step.weight", 1, 100))
	t := fmt.Sprintf("%d%%", w)
	strategy := &v1beta1.TrafficRoutingStrategy{Traffic: &t}
	for i := 0; i < 3; i++ {
		done, err := r.EnsureRoutes(context.TODO(), strategy)
		if err != nil {
			return
		}
		if done {
			break
		}
	}
	for _, wr := range c.Log {
		verifrt.Assert(wr.Obj.GetName() != name, "C14.name.stableIngressNeverWritten")
	}
	got, _ := c.Find("Ingress", "ns", name).(*netv1.Ingress)
	verifrt.Assert(got != nil && c14SameMap(got.Annotations, stable.Annotations, append([]string{"kubernetes.io/ingress.class", "user/team"}, c14Managed(class)...)), "C14.name.stableIngressKeepsItsAnnotations")
	canary, _ := c.Find("Ingress", "ns", r.canaryIngressName).(*netv1.Ingress)
	// (the stand-in API server stores creates, not patches: the created canary carries the marker, the step's weight
	// travels in the patch that follows, addressed to the same object)
	verifrt.Assert(canary != nil && canary.Annotations["nginx.ingress.kubernetes.io/canary"] == "true", "C14.name.canaryIngressCreatedNextToTheStableOne")
	for _, wr := range c.Writes("patch", "Ingress") {
		verifrt.Assert(wr.Obj.GetName() == r.canaryIngressName, "C14.name.stepIsWrittenToTheCanaryIngress")
	}
	_, err := r.Finalise(context.TODO())
	verifrt.Assert(err == nil && c.Find("Ingress", "ns", name) != nil, "C14.name.finaliseKeepsTheStableIngress")
	verifrt.Cover("C14.name.done")
}
