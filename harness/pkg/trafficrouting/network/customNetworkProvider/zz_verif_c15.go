package custom

// C15 — Custom (Lua) network resources: stateless apply, exact restore (DESIGN.md §6 C15).
//
// The shipped Istio scripts and a harness-supplied "well-behaved" plugin are executed symbolically by the engine's Lua
// interpreter and natively by gopher-lua.

import (
	"context"
	"fmt"

	"github.com/openkruise/rollouts/api/v1beta1"
	"github.com/openkruise/rollouts/pkg/util"
	"github.com/openkruise/rollouts/pkg/util/luamanager"
	"github.com/openkruise/rollouts/pkg/verifrt"
	"github.com/openkruise/rollouts/pkg/verifrt/symclient"
	corev1 "k8s.io/api/core/v1"
	metav1 "k8s.io/apimachinery/pkg/apis/meta/v1"
	"k8s.io/apimachinery/pkg/apis/meta/v1/unstructured"
	gatewayv1beta1 "sigs.k8s.io/gateway-api/apis/v1beta1"
)

const (
	c15Stable = "echo"
	c15Canary = "echo-canary"
)

func c15Ctl(refs ...v1beta1.ObjectRef) *customController {
	return &customController{
		conf:       Config{Key: "r", RolloutNs: "ns", StableService: c15Stable, CanaryService: c15Canary, TrafficConf: refs},
		luaManager: &luamanager.LuaManager{},
	}
}

func c15Traffic(name string) (*v1beta1.TrafficRoutingStrategy, int) {
	s := &v1beta1.TrafficRoutingStrategy{}
	w := -1
	if verifrt.Bool(name + ".hasWeight") {
		w = verifrt.IntRange(name+".weight", 0, 100)
		t := fmt.Sprintf("%d%%", w)
		s.Traffic = &t
	}
	return s, w
}

// ---------------------------------------------------------------------------------------------------------------
// Built-in Istio VirtualService script
// ---------------------------------------------------------------------------------------------------------------

// rule kinds: 0 single stable destination (short host, no weight), 1 single stable destination (FQDN host,
// weight 100), 2 single destination to another host (no weight), 3 another host with weight 100,
// 4 stable destination under a match (the script leaves matched rules alone)
func c15Rule(name string) (map[string]interface{}, int) {
	k := verifrt.IntRange(name+".kind", 0, 4)
	dest := map[string]interface{}{}
	route := map[string]interface{}{"destination": dest}
	rule := map[string]interface{}{}
	switch k {
	case 0:
		dest["host"] = c15Stable
	case 1:
		dest["host"] = c15Stable + ".ns.svc.cluster.local"
		route["weight"] = int64(100)
	case 2:
		dest["host"] = "other"
	case 3:
		dest["host"] = "other.ns.svc.cluster.local"
		route["weight"] = int64(100)
	case 4:
		dest["host"] = c15Stable
		rule["match"] = []interface{}{map[string]interface{}{"uri": map[string]interface{}{"prefix": verifrt.String(name + ".prefix")}}}
	}
	rule["route"] = []interface{}{route}
	return rule, k
}

func c15Get(doc string, path ...string) string {
	v, ok := verifrt.JSONGet(doc, path...)
	if !ok {
		return "<absent>"
	}
	return v
}

// VerifC15_IstioVirtualServiceSplit: for every VirtualService with <= N http rules of the five kinds and every
// weight step, the shipped script gives each un-matched single-stable-destination rule exactly
// [stable: 100-w, canary: w] and leaves every other rule as it was; a step without weight sends everything to canary.
func VerifC15_IstioVirtualServiceSplit() {
	r := c15Ctl()
	script := verifrt.RepoFile("lua_configuration/networking.istio.io/VirtualService/trafficRouting.lua")
	n := verifrt.Concrete(verifrt.IntRange("vs.nRules", 1, verifrt.Bound("c15.rules", 2, 3)))
	var rules []interface{}
	var kinds []int
	for i := 0; i < n; i++ {
		rule, k := c15Rule("rule")
		rules = append(rules, rule)
		kinds = append(kinds, k)
	}
	spec := map[string]interface{}{"hosts": []interface{}{"*"}, "http": rules}
	// optionally one tcp and / or tls section with a single rule of the same five kinds
	l4 := map[string]int{}
	for _, proto := range []string{"tcp", "tls"} {
		if verifrt.Bool(proto + ".present") {
			rule, k := c15Rule(proto + ".rule")
			spec[proto] = []interface{}{rule}
			l4[proto] = k
		}
	}
	before := util.DumpJSON(spec)
	strategy, w := c15Traffic("step")
	out, err := r.executeLuaForCanary(Data{Spec: spec}, strategy, script)
	verifrt.Assert(err == nil, "C15.istio.noError")
	if err != nil {
		return
	}
	canaryW, stableW := w, 100-w
	if w < 0 {
		canaryW, stableW = 100, 0
	}
	after := util.DumpJSON(out.Spec)
	verifrt.Observe("dbg.w0", c15Get(after, "http", "0", "route", "0", "weight"))
	verifrt.Observe("dbg.w1", c15Get(after, "http", "0", "route", "1", "weight"))
	verifrt.Observe("dbg.h1", c15Get(after, "http", "0", "route", "1", "destination", "host"))
	for i, k := range kinds {
		idx := fmt.Sprintf("%d", i)
		if k == 0 || k == 1 {
			verifrt.Assert(c15Get(after, "http", idx, "route", "0", "destination", "host") == c15Get(before, "http", idx, "route", "0", "destination", "host"), "C15.istio.stableHostKept")
			verifrt.Assert(c15Get(after, "http", idx, "route", "0", "weight") == fmt.Sprintf("%d", stableW), "C15.istio.stableWeight")
			verifrt.Assert(c15Get(after, "http", idx, "route", "1", "destination", "host") == c15Canary, "C15.istio.canaryHost")
			verifrt.Assert(c15Get(after, "http", idx, "route", "1", "weight") == fmt.Sprintf("%d", canaryW), "C15.istio.canaryWeight")
			verifrt.Assert(c15Get(after, "http", idx, "route", "2") == "<absent>", "C15.istio.twoDestinations")
		} else {
			verifrt.Assert(c15Get(after, "http", idx, "route", "0", "destination", "host") == c15Get(before, "http", idx, "route", "0", "destination", "host"), "C15.istio.otherHostKept")
			verifrt.Assert(c15Get(after, "http", idx, "route", "0", "weight") == c15Get(before, "http", idx, "route", "0", "weight"), "C15.istio.otherWeightKept")
			verifrt.Assert(c15Get(after, "http", idx, "route", "1") == "<absent>", "C15.istio.otherNotSplit")
			verifrt.Assert(c15Get(after, "http", idx, "match", "0", "uri", "prefix") == c15Get(before, "http", idx, "match", "0", "uri", "prefix"), "C15.istio.otherMatchKept")
		}
	}
	for _, proto := range []string{"tcp", "tls"} {
		k, present := l4[proto]
		if !present {
			verifrt.Assert(c15Get(after, proto) == "<absent>", "C15.istio.l4.sectionNotInvented")
			continue
		}
		if k == 0 || k == 1 {
			verifrt.Assert(c15Get(after, proto, "0", "route", "0", "weight") == fmt.Sprintf("%d", stableW), "C15.istio.l4.stableWeight")
			verifrt.Assert(c15Get(after, proto, "0", "route", "1", "destination", "host") == c15Canary, "C15.istio.l4.canaryHost")
			verifrt.Assert(c15Get(after, proto, "0", "route", "1", "weight") == fmt.Sprintf("%d", canaryW), "C15.istio.l4.canaryWeight")
			verifrt.Assert(c15Get(after, proto, "0", "route", "2") == "<absent>", "C15.istio.l4.twoDestinations")
		} else {
			verifrt.Assert(c15Get(after, proto, "0", "route", "0", "weight") == c15Get(before, proto, "0", "route", "0", "weight"), "C15.istio.l4.otherWeightKept")
			verifrt.Assert(c15Get(after, proto, "0", "route", "1") == "<absent>", "C15.istio.l4.otherNotSplit")
		}
	}
	verifrt.Assert(c15Get(after, "http", fmt.Sprintf("%d", n)) == "<absent>", "C15.istio.ruleCount")
	verifrt.Assert(c15Get(after, "hosts", "0") == "*", "C15.istio.hostsKept")
	verifrt.Cover("C15.istio.done")
}

// VerifC15_IstioDestinationRule: the shipped DestinationRule script appends exactly one "canary" subset and keeps
// the user's subsets.
func VerifC15_IstioDestinationRule() {
	r := c15Ctl()
	script := verifrt.RepoFile("lua_configuration/networking.istio.io/DestinationRule/trafficRouting.lua")
	n := verifrt.Concrete(verifrt.IntRange("dr.nSubsets", 1, 2))
	var subsets []interface{}
	for i := 0; i < n; i++ {
		subsets = append(subsets, map[string]interface{}{"name": verifrt.String("subset.name"), "labels": map[string]interface{}{"version": verifrt.String("subset.version")}})
	}
	spec := map[string]interface{}{"host": c15Stable, "subsets": subsets}
	before := util.DumpJSON(spec)
	strategy, _ := c15Traffic("step")
	out, err := r.executeLuaForCanary(Data{Spec: spec}, strategy, script)
	verifrt.Assert(err == nil, "C15.dr.noError")
	if err != nil {
		return
	}
	after := util.DumpJSON(out.Spec)
	for i := 0; i < n; i++ {
		idx := fmt.Sprintf("%d", i)
		verifrt.Assert(c15Get(after, "subsets", idx, "name") == c15Get(before, "subsets", idx, "name"), "C15.dr.subsetKept")
		verifrt.Assert(c15Get(after, "subsets", idx, "labels", "version") == c15Get(before, "subsets", idx, "labels", "version"), "C15.dr.subsetKept")
	}
	verifrt.Assert(c15Get(after, "subsets", fmt.Sprintf("%d", n), "name") == "canary", "C15.dr.canarySubset")
	verifrt.Assert(c15Get(after, "subsets", fmt.Sprintf("%d", n+1)) == "<absent>", "C15.dr.oneSubsetAdded")
	verifrt.Assert(c15Get(after, "host") == c15Stable, "C15.dr.hostKept")
}

// ---------------------------------------------------------------------------------------------------------------
// Provider level: store on first touch, apply from the original, restore exactly
// ---------------------------------------------------------------------------------------------------------------

// a well-behaved plugin: writes spec fields, labels and annotations that depend on the step only; which keys it
// writes depends on the kind of step, so a key left over from an earlier step shows
const c15Plugin = `
local data = obj.data
if not data.labels then data.labels = {} end
if not data.annotations then data.annotations = {} end
data.labels["plugin/canary-weight"] = tostring(obj.canaryWeight)
data.annotations["plugin/canary-service"] = obj.canaryService
if obj.canaryWeight ~= -1 then
    data.annotations["plugin/weighted"] = tostring(obj.canaryWeight)
    data.spec.weighted = true
else
    data.labels["plugin/unweighted"] = "true"
end
data.spec.canaryWeight = obj.canaryWeight
data.spec.backends[1].weight = obj.stableWeight
return data
`

var c15Ref = v1beta1.ObjectRef{APIVersion: "demo.verif.io/v1", Kind: "Widget", Name: "w1"}
var c15Ref2 = v1beta1.ObjectRef{APIVersion: "demo.verif.io/v1", Kind: "Widget", Name: "w2"}

// meta maps: 0 nil (field absent), 1 empty map, 2 one entry
func c15Meta(name, key string) (map[string]interface{}, bool) {
	switch verifrt.IntRange(name+".shape", 0, 2) {
	case 0:
		return nil, false
	case 1:
		return map[string]interface{}{}, true
	}
	return map[string]interface{}{key: verifrt.String(name + ".value")}, true
}

func c15Widget(name string) *unstructured.Unstructured {
	meta := map[string]interface{}{"name": name, "namespace": "ns"}
	if l, ok := c15Meta("obj.labels", "team"); ok {
		meta["labels"] = l
	}
	if a, ok := c15Meta("obj.annotations", "owner"); ok {
		meta["annotations"] = a
	}
	spec := map[string]interface{}{
		"mode":     verifrt.String("obj.mode"),
		"backends": []interface{}{map[string]interface{}{"name": c15Stable, "weight": int64(verifrt.IntRange("obj.weight", 0, 100))}},
	}
	if verifrt.Bool("obj.hasNested") {
		spec["nested"] = map[string]interface{}{"deep": map[string]interface{}{"flag": verifrt.Bool("obj.flag"), "list": []interface{}{verifrt.String("obj.item")}},
			// a number that is not an integer (fault percentages, mirror percentages): it goes through Lua and back unchanged
			"ratio": float64(12.5)}
	}
	return &unstructured.Unstructured{Object: map[string]interface{}{
		"apiVersion": "demo.verif.io/v1", "kind": "Widget", "metadata": meta, "spec": spec}}
}

func c15Client(objs ...*unstructured.Unstructured) *symclient.Client {
	c := &symclient.Client{}
	c.ApplyFn = c.ApplyToStore
	c.Objects = append(c.Objects, &corev1.ConfigMap{ObjectMeta: metav1.ObjectMeta{Namespace: util.GetRolloutNamespace(), Name: LuaConfigMap},
		Data: map[string]string{"lua.traffic.routing.Widget.demo.verif.io": c15Plugin, "lua.traffic.routing.Gadget.demo.verif.io": c15MetaPlugin}})
	for _, o := range objs {
		c.Objects = append(c.Objects, o)
	}
	return c
}

func c15Stored(c *symclient.Client, name string) *unstructured.Unstructured {
	return c.Find("Unstructured:Widget", "ns", name).(*unstructured.Unstructured)
}

// equal as the API server sees metadata maps: nil and empty are the same
func c15SameStrMap(a, b map[string]string) bool {
	if len(a) != len(b) {
		return false
	}
	eq := true
	for k, va := range a {
		vb, ok := b[k]
		if !ok {
			return false
		}
		eq = verifrt.And(eq, va == vb)
	}
	return eq
}

func c15SameUserConfig(a, b *unstructured.Unstructured) bool {
	return verifrt.And(util.DumpJSON(a.Object["spec"]) == util.DumpJSON(b.Object["spec"]),
		c15SameStrMap(a.GetLabels(), b.GetLabels()), c15SameStrMap(a.GetAnnotations(), b.GetAnnotations()))
}

// c15Ensure runs EnsureRoutes until it reports done (at most 3 calls: store+apply, verify).
func c15Ensure(r *customController, s *v1beta1.TrafficRoutingStrategy, label string) bool {
	for i := 0; i < 3; i++ {
		done, err := r.EnsureRoutes(context.TODO(), s)
		verifrt.Assert(err == nil, label+".noError")
		if err != nil {
			return false
		}
		if done {
			return true
		}
	}
	verifrt.Fail(label + ".converges")
	return false
}

// VerifC15_StoreApplyRestore: for every Widget (labels / annotations nil, empty or set; nested spec) and every pair
// of steps s1, s2: after EnsureRoutes(s1)* ; EnsureRoutes(s2)* the object equals what EnsureRoutes(s2)* alone
// produces from the user's object (steps never accumulate), the snapshot annotation still holds the user's
// configuration, and Finalise restores spec, labels and annotations exactly and removes the snapshot.
func VerifC15_StoreApplyRestore() {
	orig := c15Widget("w1")
	r := c15Ctl(c15Ref)
	c := c15Client(orig.DeepCopy())
	r.Client = c
	s1, _ := c15Traffic("s1")
	s2, w2 := c15Traffic("s2")
	if !c15Ensure(r, s1, "C15.apply.s1") {
		return
	}
	if !c15Ensure(r, s2, "C15.apply.s2") {
		return
	}
	got := c15Stored(c, "w1")

	// fresh run of s2 alone
	r2 := c15Ctl(c15Ref)
	c2 := c15Client(orig.DeepCopy())
	r2.Client = c2
	if !c15Ensure(r2, s2, "C15.apply.fresh") {
		return
	}
	want := c15Stored(c2, "w1")
	verifrt.Assert(c15SameUserConfig(got, want), "C15.apply.stateless")
	cw := w2
	if w2 < 0 {
		cw = -1
	}
	verifrt.Assert(got.GetLabels()["plugin/canary-weight"] == fmt.Sprintf("%d", cw), "C15.apply.currentStepWritten")

	modified, err := r.Finalise(context.TODO())
	verifrt.Assert(err == nil && modified, "C15.restore.modified")
	final := c15Stored(c, "w1")
	verifrt.Assert(c15SameUserConfig(final, orig), "C15.restore.exact")
	_, has := final.GetAnnotations()[OriginalSpecAnnotation]
	verifrt.Assert(!has, "C15.restore.snapshotRemoved")
	// a second Finalise has nothing left to do
	n := len(c.Log)
	modified, err = r.Finalise(context.TODO())
	verifrt.Assert(err == nil && !modified && len(c.Log) == n, "C15.restore.idempotent")
	verifrt.Cover("C15.restore.done")
}

// VerifC15_TwoRefsRestore: with two referenced resources both are stored, patched and restored.
func VerifC15_TwoRefsRestore() {
	o1 := c15Widget("w1")
	o2 := c15Widget("w2")
	r := c15Ctl(c15Ref, c15Ref2)
	c := c15Client(o1.DeepCopy(), o2.DeepCopy())
	r.Client = c
	s, w := c15Traffic("s1")
	if !c15Ensure(r, s, "C15.two.apply") {
		return
	}
	for _, name := range []string{"w1", "w2"} {
		got := c15Stored(c, name)
		verifrt.Assert(got.GetLabels()["plugin/canary-weight"] == fmt.Sprintf("%d", w), "C15.two.bothPatched")
	}
	modified, err := r.Finalise(context.TODO())
	verifrt.Assert(err == nil && modified, "C15.two.modified")
	verifrt.Assert(c15SameUserConfig(c15Stored(c, "w1"), o1), "C15.two.restore1")
	verifrt.Assert(c15SameUserConfig(c15Stored(c, "w2"), o2), "C15.two.restore2")
}

// VerifC05_CustomFinaliseRestoresEveryRef: with two referenced resources, each either still present (patched by a
// step, snapshot stored) or deleted by the user meanwhile, Finalise restores every one that still exists — a
// missing resource does not shield the others.
func VerifC05_CustomFinaliseRestoresEveryRef() {
	o1 := c15Widget("w1")
	o2 := c15Widget("w2")
	r := c15Ctl(c15Ref, c15Ref2)
	c := c15Client(o1.DeepCopy(), o2.DeepCopy())
	r.Client = c
	s, _ := c15Traffic("s1")
	if !c15Ensure(r, s, "C05.custom.apply") {
		return
	}
	gone := verifrt.IntRange("deleted.ref", 0, 2) // 0 none, 1 the first, 2 the second
	if gone > 0 {
		name := "w1"
		if gone == 2 {
			name = "w2"
		}
		c.ApplyToStore(symclient.Write{Verb: "delete", Kind: "Unstructured:Widget", Obj: c15Stored(c, name)})
	}
	// one of the two may already be back to the user's configuration (an earlier Finalise got that far before a
	// write to the other failed, or the user re-applied it): it carries no snapshot any more — that says nothing
	// about the other ref (seed C15-15: "already restored" on one ref ended the loop)
	back := 0
	if gone == 0 {
		back = verifrt.IntRange("alreadyRestored.ref", 0, 2)
	}
	if back > 0 {
		o := o1
		if back == 2 {
			o = o2
		}
		c.ApplyToStore(symclient.Write{Verb: "update", Kind: "Unstructured:Widget", Obj: o.DeepCopy()})
	}
	_, err := r.Finalise(context.TODO())
	verifrt.Assert(err == nil, "C05.custom.finalise.noError")
	if gone != 1 {
		verifrt.Assert(c15SameUserConfig(c15Stored(c, "w1"), o1), "C05.custom.finalise.restoresFirst")
	}
	if gone != 2 {
		verifrt.Assert(c15SameUserConfig(c15Stored(c, "w2"), o2), "C05.custom.finalise.restoresSecond")
	}
	verifrt.Cover("C05.custom.done")
}

// C07: applying the same step again reaches a fixed point (EnsureRoutes reports done within three calls, c15Ensure).
func VerifC07_CustomProviderReachesFixedPoint() { VerifC15_TwoRefsRestore() }

// C03: the share the built-in Istio script writes equals the step's value (same obligation as C15's).
func VerifC03_IstioStepShare() { VerifC15_IstioVirtualServiceSplit() }

// C15: finalising restores every referenced resource that still exists, whichever other ref is gone (same obligation
// as C05's).
func VerifC15_FinaliseRestoresEveryRef() { VerifC05_CustomFinaliseRestoresEveryRef() }

// c15MetaPlugin is a well-behaved plugin of the other common shape: it expresses the step purely in metadata
// (annotations / labels read by a mesh or gateway controller) and never touches spec.
const c15MetaPlugin = `
local data = obj.data
if not data.labels then data.labels = {} end
if not data.annotations then data.annotations = {} end
data.annotations["plugin/canary-service"] = obj.canaryService
data.annotations["plugin/canary-weight"] = tostring(obj.canaryWeight)
data.labels["plugin/in-canary"] = "true"
return data
`

var c15GadgetRef = v1beta1.ObjectRef{APIVersion: "demo.verif.io/v1", Kind: "Gadget", Name: "g1"}

// VerifC15_MetadataOnlyPluginRestore: a plugin that leaves spec alone is restored like any other — Finalise removes
// what the steps wrote to labels and annotations, brings back the user's own, and removes the snapshot, so that the
// next rollout snapshots the object as the user has edited it meanwhile (a snapshot left behind would make that
// rollout work from, and finally restore, the stale configuration).
func VerifC15_MetadataOnlyPluginRestore() {
	orig := c15Widget("g1")
	orig.Object["kind"] = "Gadget"
	r := c15Ctl(c15GadgetRef)
	c := c15Client(orig.DeepCopy())
	r.Client = c
	find := func() *unstructured.Unstructured {
		return c.Find("Unstructured:Gadget", "ns", "g1").(*unstructured.Unstructured)
	}
	s1, w1 := c15Traffic("s1")
	if !c15Ensure(r, s1, "C15.meta.apply") {
		return
	}
	got := find()
	cw := w1
	if w1 < 0 {
		cw = -1
	}
	verifrt.Assert(got.GetAnnotations()["plugin/canary-weight"] == fmt.Sprintf("%d", cw) && got.GetLabels()["plugin/in-canary"] == "true", "C15.meta.currentStepWritten")
	verifrt.Assert(util.DumpJSON(got.Object["spec"]) == util.DumpJSON(orig.Object["spec"]), "C15.meta.specUntouched")
	_, has := got.GetAnnotations()[OriginalSpecAnnotation]
	verifrt.Assert(has, "C15.meta.snapshotTaken")
	modified, err := r.Finalise(context.TODO())
	verifrt.Assert(err == nil && modified, "C15.meta.restore.modified")
	final := find()
	verifrt.Assert(c15SameUserConfig(final, orig), "C15.meta.restore.exact")
	_, has = final.GetAnnotations()[OriginalSpecAnnotation]
	verifrt.Assert(!has, "C15.meta.restore.snapshotRemoved")
	n := len(c.Log)
	modified, err = r.Finalise(context.TODO())
	verifrt.Assert(err == nil && !modified && len(c.Log) == n, "C15.meta.restore.idempotent")
	verifrt.Cover("C15.meta.done")
}

// VerifC15_TwoRefsSharingAName: names are unique per kind only — a VirtualService and a DestinationRule are commonly
// both named after the service.  With two referenced resources of different kinds and the *same* name, each is
// written with the configuration computed from its own original by its own script, and each is restored to its own
// original.
func VerifC15_TwoRefsSharingAName() {
	widget := c15Widget("w1")
	gadget := c15Widget("w1")
	gadget.Object["kind"] = "Gadget"
	gadget.Object["spec"].(map[string]interface{})["mode"] = "gadget-mode"
	order := verifrt.Bool("refs.gadgetFirst")
	refs := []v1beta1.ObjectRef{c15Ref, {APIVersion: "demo.verif.io/v1", Kind: "Gadget", Name: "w1"}}
	if order {
		refs[0], refs[1] = refs[1], refs[0]
	}
	r := c15Ctl(refs...)
	c := c15Client(widget.DeepCopy(), gadget.DeepCopy())
	r.Client = c
	s, w := c15Traffic("s1")
	if !c15Ensure(r, s, "C15.sameName.apply") {
		return
	}
	gotW := c.Find("Unstructured:Widget", "ns", "w1").(*unstructured.Unstructured)
	gotG := c.Find("Unstructured:Gadget", "ns", "w1").(*unstructured.Unstructured)
	cw := w
	if w < 0 {
		cw = -1
	}
	// the Widget plugin writes spec and labels, the Gadget plugin only metadata
	verifrt.Assert(gotW.GetLabels()["plugin/canary-weight"] == fmt.Sprintf("%d", cw), "C15.sameName.widgetGetsItsOwnResult")
	wMode, _, _ := unstructured.NestedString(gotW.Object, "spec", "mode")
	origMode, _, _ := unstructured.NestedString(widget.Object, "spec", "mode")
	verifrt.Assert(wMode == origMode, "C15.sameName.widgetKeepsItsOwnSpec")
	verifrt.Assert(gotG.GetAnnotations()["plugin/canary-weight"] == fmt.Sprintf("%d", cw) && gotG.GetLabels()["plugin/in-canary"] == "true", "C15.sameName.gadgetGetsItsOwnResult")
	verifrt.Assert(util.DumpJSON(gotG.Object["spec"]) == util.DumpJSON(gadget.Object["spec"]), "C15.sameName.gadgetKeepsItsOwnSpec")
	modified, err := r.Finalise(context.TODO())
	verifrt.Assert(err == nil && modified, "C15.sameName.restore.modified")
	verifrt.Assert(c15SameUserConfig(c.Find("Unstructured:Widget", "ns", "w1").(*unstructured.Unstructured), widget), "C15.sameName.restore.widget")
	verifrt.Assert(c15SameUserConfig(c.Find("Unstructured:Gadget", "ns", "w1").(*unstructured.Unstructured), gadget), "C15.sameName.restore.gadget")
	verifrt.Cover("C15.sameName.done")
}

// VerifC15_IstioMatchStepKeepsEveryUserRule: a step with matches (header based A/B routing) puts one canary rule per
// match in front of the VirtualService's http rules — and leaves every rule the user wrote where and as it was:
// rules for other hosts, rules with their own match, the stable rule itself.
func VerifC15_IstioMatchStepKeepsEveryUserRule() {
	r := c15Ctl()
	script := verifrt.RepoFile("lua_configuration/networking.istio.io/VirtualService/trafficRouting.lua")
	n := verifrt.Concrete(verifrt.IntRange("vs.nRules", 1, verifrt.Bound("c15.rules", 2, 3)))
	var rules []interface{}
	for i := 0; i < n; i++ {
		rule, _ := c15Rule("rule")
		rules = append(rules, rule)
	}
	spec := map[string]interface{}{"hosts": []interface{}{"*"}, "http": rules}
	before := util.DumpJSON(spec)
	m := verifrt.Concrete(verifrt.IntRange("step.nMatches", 1, 2))
	exact := gatewayv1beta1.HeaderMatchExact
	strategy := &v1beta1.TrafficRoutingStrategy{}
	for j := 0; j < m; j++ {
		strategy.Matches = append(strategy.Matches, v1beta1.HttpRouteMatch{Headers: []gatewayv1beta1.HTTPHeaderMatch{{Type: &exact, Name: gatewayv1beta1.HTTPHeaderName([]string{"x-user", "x-region"}[j]), Value: "canary"}}})
	}
	out, err := r.executeLuaForCanary(Data{Spec: spec}, strategy, script)
	verifrt.Assert(err == nil, "C15.istio.match.noError")
	if err != nil {
		return
	}
	after := util.DumpJSON(out.Spec)
	for j := 0; j < m; j++ {
		idx := fmt.Sprintf("%d", j)
		verifrt.Assert(c15Get(after, "http", idx, "route", "0", "destination", "host") == c15Canary, "C15.istio.match.canaryRulesInFront")
		verifrt.Assert(c15Get(after, "http", idx, "match", "0", "headers") != "<absent>", "C15.istio.match.canaryRulesCarryTheMatch")
	}
	for i := 0; i < n; i++ {
		b, a := fmt.Sprintf("%d", i), fmt.Sprintf("%d", m+i)
		verifrt.Assert(c15Get(after, "http", a, "route", "0", "destination", "host") == c15Get(before, "http", b, "route", "0", "destination", "host"), "C15.istio.match.userRuleKept.host")
		verifrt.Assert(c15Get(after, "http", a, "route", "0", "weight") == c15Get(before, "http", b, "route", "0", "weight"), "C15.istio.match.userRuleKept.weight")
		verifrt.Assert(c15Get(after, "http", a, "route", "1") == "<absent>", "C15.istio.match.userRuleKept.notSplit")
		verifrt.Assert(c15Get(after, "http", a, "match", "0", "uri", "prefix") == c15Get(before, "http", b, "match", "0", "uri", "prefix"), "C15.istio.match.userRuleKept.match")
	}
	verifrt.Assert(c15Get(after, "http", fmt.Sprintf("%d", m+n)) == "<absent>", "C15.istio.match.ruleCount")
	verifrt.Cover("C15.istio.match.done")
}

// VerifC03_CustomRoutedMeansTheStoredObjectCarriesTheStep: the custom provider reports a step as routed ("done", no
// error) only when the stored object already carries this step — also when API calls fail or an Update meets a
// conflict (another writer touched the object between the provider's read and its write): a write that did not
// happen is never "routed".
func VerifC03_CustomRoutedMeansTheStoredObjectCarriesTheStep() {
	orig := c15Widget("w1")
	r := c15Ctl(c15Ref)
	c := c15Client(orig.DeepCopy())
	r.Client = c
	// an earlier step, applied without disturbance
	s1, _ := c15Traffic("s1")
	if !c15Ensure(r, s1, "C03.custom.s1") {
		return
	}
	// the step under test, with every call allowed to fail and every Update allowed to conflict
	s2, w2 := c15Traffic("s2")
	c.Faults, c.Conflicts = true, true
	done, err := r.EnsureRoutes(context.TODO(), s2)
	if err != nil || !done {
		verifrt.Cover("C03.custom.notYet")
		return
	}
	verifrt.Cover("C03.custom.routed")
	cw := w2
	if w2 < 0 {
		cw = -1
	}
	got := c15Stored(c, "w1")
	verifrt.Assert(got.GetLabels()["plugin/canary-weight"] == fmt.Sprintf("%d", cw), "C03.custom.routedOnlyIfTheStoredObjectCarriesTheStep")
}
