package gateway

// C13 — Gateway API routes: exact split, narrow matches, clean restore (DESIGN.md §6 C13).

import (
	"context"
	"fmt"
	"github.com/openkruise/rollouts/api/v1beta1"
	"github.com/openkruise/rollouts/pkg/verifrt"
	"github.com/openkruise/rollouts/pkg/verifrt/symclient"
	metav1 "k8s.io/apimachinery/pkg/apis/meta/v1"
	"sigs.k8s.io/controller-runtime/pkg/client"
	gatewayv1beta1 "sigs.k8s.io/gateway-api/apis/v1beta1"
)

const (
	c13Stable = "echo-stable"
	c13Canary = "echo-canary"
)

func c13Ctl() *gatewayController {
	return &gatewayController{conf: Config{Key: "r", Namespace: "ns", StableService: c13Stable, CanaryService: c13Canary}}
}

var c13Service = gatewayv1beta1.Kind("Service")
var c13Other = gatewayv1beta1.Kind("Import")

// ref kinds: 0 stable Service, 1 canary Service, 2 foreign Service, 3 stable-named non-Service, 4 nil-kind stable-named
func c13Ref(name string, allowCanary bool) gatewayv1beta1.HTTPBackendRef {
	r := gatewayv1beta1.HTTPBackendRef{}
	hi := 4
	k := verifrt.IntRange(name+".refKind", 0, hi)
	if !allowCanary {
		verifrt.Assume(k != 1)
	}
	switch k {
	case 0:
		r.Kind = &c13Service
		r.Name = c13Stable
	case 1:
		r.Kind = &c13Service
		r.Name = c13Canary
	case 2:
		r.Kind = &c13Service
		r.Name = "some-other-svc"
	case 3:
		r.Kind = &c13Other
		r.Name = c13Stable
	case 4:
		r.Name = c13Stable
	}
	w := verifrt.Int32(name + ".weight")
	r.Weight = &w
	p := gatewayv1beta1.PortNumber(verifrt.IntRange(name+".port", 1, 65535))
	r.Port = &p
	return r
}

func c13RouteMatch(name string) gatewayv1beta1.HTTPRouteMatch {
	m := gatewayv1beta1.HTTPRouteMatch{}
	t := gatewayv1beta1.PathMatchPathPrefix
	v := verifrt.String(name + ".path")
	m.Path = &gatewayv1beta1.HTTPPathMatch{Type: &t, Value: &v}
	if verifrt.Bool(name + ".hasMethod") {
		g := gatewayv1beta1.HTTPMethodGet
		m.Method = &g
	}
	if name == "r1.match" || verifrt.Bool(name+".hasHeader") {
		m.Headers = []gatewayv1beta1.HTTPHeaderMatch{{Name: gatewayv1beta1.HTTPHeaderName(verifrt.String(name + ".hname")), Value: verifrt.String(name + ".hval")}}
	}
	return m
}

func c13Rule(name string, maxRefs int, allowCanary bool, maxMatches int) gatewayv1beta1.HTTPRouteRule {
	rule := gatewayv1beta1.HTTPRouteRule{}
	n := verifrt.IntRange(name+".nRefs", 0, maxRefs)
	nCanary := 0
	for i := 0; i < n; i++ {
		ref := c13Ref(name+".ref", allowCanary)
		if c13IsSvc(ref, c13Canary) {
			nCanary++
		}
		rule.BackendRefs = append(rule.BackendRefs, ref)
	}
	// reachability invariant: the controller adds a canary ref only to a rule that has none (asserted by
	// C13.weight.refCount), and users do not reference the generated canary Service themselves
	verifrt.Assume(nCanary <= 1)
	// the CRD defaults matches to one PathPrefix "/" entry, so a stored rule has >= 1 match
	nm := verifrt.IntRange(name+".nMatches", 1, maxMatches)
	for i := 0; i < nm; i++ {
		rule.Matches = append(rule.Matches, c13RouteMatch(name+".match"))
	}
	if name == "r1" || verifrt.Bool(name+".hasFilter") {
		rule.Filters = []gatewayv1beta1.HTTPRouteFilter{{Type: gatewayv1beta1.HTTPRouteFilterRequestRedirect}}
	}
	return rule
}

func c13IsSvc(ref gatewayv1beta1.HTTPBackendRef, name string) bool {
	return ref.Kind != nil && *ref.Kind == "Service" && string(ref.Name) == name
}

func c13FirstSvc(rule gatewayv1beta1.HTTPRouteRule, name string) int {
	for i := range rule.BackendRefs {
		if c13IsSvc(rule.BackendRefs[i], name) {
			return i
		}
	}
	return -1
}

func c13RefEq(a, b gatewayv1beta1.HTTPBackendRef) bool {
	kindEq := (a.Kind == nil) == (b.Kind == nil)
	if a.Kind != nil && b.Kind != nil {
		kindEq = *a.Kind == *b.Kind
	}
	wEq := (a.Weight == nil) == (b.Weight == nil)
	if a.Weight != nil && b.Weight != nil {
		wEq = *a.Weight == *b.Weight
	}
	pEq := (a.Port == nil) == (b.Port == nil)
	if a.Port != nil && b.Port != nil {
		pEq = *a.Port == *b.Port
	}
	return verifrt.And(kindEq, wEq, pEq, a.Name == b.Name)
}

func c13PathEq(a, b *gatewayv1beta1.HTTPPathMatch) bool {
	if a == nil || b == nil {
		return a == nil && b == nil
	}
	r := (a.Value == nil) == (b.Value == nil)
	if a.Value != nil && b.Value != nil {
		r = *a.Value == *b.Value
	}
	t := (a.Type == nil) == (b.Type == nil)
	if a.Type != nil && b.Type != nil {
		t = *a.Type == *b.Type
	}
	return verifrt.And(r, t)
}

func c13HeadersEq(a, b []gatewayv1beta1.HTTPHeaderMatch) bool {
	if len(a) != len(b) {
		return false
	}
	r := true
	for i := range a {
		r = verifrt.And(r, a[i].Name == b[i].Name, a[i].Value == b[i].Value)
	}
	return r
}

func c13QueriesEq(a, b []gatewayv1beta1.HTTPQueryParamMatch) bool {
	if len(a) != len(b) {
		return false
	}
	r := true
	for i := range a {
		r = verifrt.And(r, a[i].Name == b[i].Name, a[i].Value == b[i].Value)
	}
	return r
}

func c13MethodEq(a, b *gatewayv1beta1.HTTPMethod) bool {
	if a == nil || b == nil {
		return a == nil && b == nil
	}
	return *a == *b
}

func c13MatchEq(a, b gatewayv1beta1.HTTPRouteMatch) bool {
	return verifrt.And(c13PathEq(a.Path, b.Path), c13HeadersEq(a.Headers, b.Headers), c13QueriesEq(a.QueryParams, b.QueryParams), c13MethodEq(a.Method, b.Method))
}

func c13RuleEq(a, b gatewayv1beta1.HTTPRouteRule) bool {
	if len(a.BackendRefs) != len(b.BackendRefs) || len(a.Matches) != len(b.Matches) || len(a.Filters) != len(b.Filters) {
		return false
	}
	r := true
	for i := range a.BackendRefs {
		r = verifrt.And(r, c13RefEq(a.BackendRefs[i], b.BackendRefs[i]))
	}
	for i := range a.Matches {
		r = verifrt.And(r, c13MatchEq(a.Matches[i], b.Matches[i]))
	}
	return r
}

func c13CopyRules(rules []gatewayv1beta1.HTTPRouteRule) []gatewayv1beta1.HTTPRouteRule {
	var out []gatewayv1beta1.HTTPRouteRule
	for i := range rules {
		out = append(out, *rules[i].DeepCopy())
	}
	return out
}

// VerifC13_WeightStep: for a weight step w every rule with a stable-Service ref gets canary=w / stable=100-w,
// other refs and other rules are untouched, rule count and order are unchanged, and the step is a fixed point.
func VerifC13_WeightStep() {
	r := c13Ctl()
	rules := []gatewayv1beta1.HTTPRouteRule{c13Rule("r0", verifrt.Bound("refs", 2, 3), true, 1)}
	if verifrt.Bool("twoRules") {
		rules = append(rules, c13Rule("r1", 1, true, 1))
	}
	orig := c13CopyRules(rules)
	w := int32(verifrt.IntRange("w", 0, 100))
	got := r.buildDesiredHTTPRoute(rules, &w, nil)
	verifrt.Assert(len(got) == len(orig), "C13.weight.ruleCount")
	if len(got) != len(orig) {
		return
	}
	for i := range orig {
		o, g := orig[i], got[i]
		si := c13FirstSvc(o, c13Stable)
		if si < 0 {
			verifrt.Assert(c13RuleEq(o, g), "C13.weight.nonStableRuleUntouched")
			continue
		}
		verifrt.Cover("stable-rule")
		ci := c13FirstSvc(o, c13Canary)
		gs, gc := c13FirstSvc(g, c13Stable), c13FirstSvc(g, c13Canary)
		verifrt.Assert(gs >= 0 && gc >= 0, "C13.weight.bothRefsPresent")
		if gs < 0 || gc < 0 {
			continue
		}
		verifrt.Assert(g.BackendRefs[gs].Weight != nil && *g.BackendRefs[gs].Weight == 100-w, "C13.weight.stableWeight")
		verifrt.Assert(g.BackendRefs[gc].Weight != nil && *g.BackendRefs[gc].Weight == w, "C13.weight.canaryWeight")
		// every other backend of the rule is untouched and stays in place
		wantLen := len(o.BackendRefs)
		if ci < 0 {
			wantLen++
		}
		verifrt.Assert(len(g.BackendRefs) == wantLen, "C13.weight.refCount")
		if len(g.BackendRefs) == wantLen {
			for j := range o.BackendRefs {
				if j == si || j == ci {
					continue
				}
				verifrt.Assert(c13RefEq(o.BackendRefs[j], g.BackendRefs[j]), "C13.weight.otherRefUntouched")
			}
		}
		verifrt.Assert(len(g.Matches) == len(o.Matches) && len(g.Filters) == len(o.Filters), "C13.weight.matchesFiltersKept")
	}
	// fixed point: re-applying the same step changes nothing
	again := r.buildDesiredHTTPRoute(c13CopyRules(got), &w, nil)
	verifrt.Assert(len(again) == len(got), "C13.weight.idempotent.count")
	if len(again) == len(got) {
		for i := range got {
			verifrt.Assert(c13RuleEq(got[i], again[i]), "C13.weight.idempotent.rule")
		}
	}
	// finalise removes every canary ref and keeps every user rule
	one := int32(-1)
	fin := r.buildDesiredHTTPRoute(c13CopyRules(got), &one, nil)
	nUser := 0
	for i := range orig {
		// a rule whose only backends are canary refs is a generated rule, not a user rule
		onlyCanary := len(orig[i].BackendRefs) > 0
		for j := range orig[i].BackendRefs {
			if !c13IsSvc(orig[i].BackendRefs[j], c13Canary) {
				onlyCanary = false
			}
		}
		if !onlyCanary {
			nUser++
		}
	}
	verifrt.Assert(len(fin) == nUser, "C13.finalise.userRulesKept")
	for i := range fin {
		verifrt.Assert(c13FirstSvc(fin[i], c13Canary) < 0, "C13.finalise.noCanaryRef")
	}
	verifrt.Cover("done")
}

// user matches (rollout step): kinds 0 path-only, 1 header-only, 2 query-only, 3 header+query, 4 path+header
func c13UserMatch(name string) v1beta1.HttpRouteMatch {
	m := v1beta1.HttpRouteMatch{}
	k := verifrt.IntRange(name+".kind", 0, 4)
	if k == 0 || k == 4 {
		t := gatewayv1beta1.PathMatchExact
		v := verifrt.String(name + ".path")
		m.Path = &gatewayv1beta1.HTTPPathMatch{Type: &t, Value: &v}
	}
	if k == 1 || k == 3 || k == 4 {
		m.Headers = []gatewayv1beta1.HTTPHeaderMatch{{Name: gatewayv1beta1.HTTPHeaderName(verifrt.String(name + ".hname")), Value: verifrt.String(name + ".hval")}}
	}
	if k == 2 || k == 3 {
		m.QueryParams = []gatewayv1beta1.HTTPQueryParamMatch{{Name: gatewayv1beta1.HTTPHeaderName(verifrt.String(name + ".qname")), Value: verifrt.String(name + ".qval")}}
	}
	return m
}

func c13HasHeaderSuffix(all []gatewayv1beta1.HTTPHeaderMatch, suffix []gatewayv1beta1.HTTPHeaderMatch, base []gatewayv1beta1.HTTPHeaderMatch) bool {
	if len(all) != len(base)+len(suffix) {
		return false
	}
	return verifrt.And(c13HeadersEq(all[:len(base)], base), c13HeadersEq(all[len(base):], suffix))
}

func c13HasQuerySuffix(all []gatewayv1beta1.HTTPQueryParamMatch, suffix []gatewayv1beta1.HTTPQueryParamMatch, base []gatewayv1beta1.HTTPQueryParamMatch) bool {
	if len(all) != len(base)+len(suffix) {
		return false
	}
	return verifrt.And(c13QueriesEq(all[:len(base)], base), c13QueriesEq(all[len(base):], suffix))
}

// VerifC13_MatchStep: original rules are kept in order; every generated rule targets only the canary Service and
// each of its matches is (an original match of that rule AND one user non-path match) or equals one user path match.
func VerifC13_MatchStep() {
	r := c13Ctl()
	rules := []gatewayv1beta1.HTTPRouteRule{c13Rule("r0", 2, false, verifrt.Bound("ruleMatches", 1, 2))}
	if verifrt.Bool("twoRules") {
		rules = append(rules, c13Rule("r1", 1, false, 1))
	}
	orig := c13CopyRules(rules)
	var user []v1beta1.HttpRouteMatch
	nu := verifrt.IntRange("nUser", 1, 2)
	for i := 0; i < nu; i++ {
		user = append(user, c13UserMatch("u"))
	}
	got := r.buildDesiredHTTPRoute(rules, nil, user)
	verifrt.Assert(len(got) >= len(orig), "C13.match.originalRulesKept.count")
	if len(got) < len(orig) {
		return
	}
	for i := range orig {
		verifrt.Assert(c13RuleEq(orig[i], got[i]), "C13.match.originalRulesKept.equal")
	}
	for gi := len(orig); gi < len(got); gi++ {
		g := got[gi]
		verifrt.Cover("generated-rule")
		verifrt.Assert(len(g.BackendRefs) == 1 && c13IsSvc(g.BackendRefs[0], c13Canary), "C13.match.generatedTargetsOnlyCanary")
		verifrt.Assert(len(g.Matches) > 0, "C13.match.generatedHasMatches")
		for mi := range g.Matches {
			m := g.Matches[mi]
			ok := false
			for ui := range user {
				u := user[ui]
				if u.Path != nil {
					ok = verifrt.Or(ok, verifrt.And(c13PathEq(m.Path, u.Path), c13HeadersEq(m.Headers, u.Headers), c13QueriesEq(m.QueryParams, u.QueryParams)))
					continue
				}
				// non-path user match combined with one of the original matches of some stable rule
				for oi := range orig {
					if c13FirstSvc(orig[oi], c13Stable) < 0 {
						continue
					}
					for oj := range orig[oi].Matches {
						om := orig[oi].Matches[oj]
						ok = verifrt.Or(ok, verifrt.And(c13PathEq(m.Path, om.Path), c13MethodEq(m.Method, om.Method), c13HasHeaderSuffix(m.Headers, u.Headers, om.Headers), c13HasQuerySuffix(m.QueryParams, u.QueryParams, om.QueryParams)))
					}
				}
			}
			verifrt.Assert(ok, "C13.match.generatedMatchNotWeakerThanUserMatch")
		}
	}
	// fixed point and finalise
	again := r.buildDesiredHTTPRoute(c13CopyRules(got), nil, user)
	verifrt.Assert(len(again) == len(got), "C13.match.idempotent.count")
	one := int32(-1)
	fin := r.buildDesiredHTTPRoute(c13CopyRules(got), &one, nil)
	verifrt.Assert(len(fin) == len(orig), "C13.finalise.userRulesKept")
	if len(fin) == len(orig) {
		for i := range orig {
			verifrt.Assert(len(fin[i].BackendRefs) == len(orig[i].BackendRefs) && len(fin[i].Matches) == len(orig[i].Matches), "C13.finalise.userRuleShape")
		}
	}
	verifrt.Cover("done")
}

// VerifC13_EnsureRoutesAndFinalise: through the provider entry points with the API object in a store — a step is
// reported routed only if the stored HTTPRoute carries exactly the step's split, otherwise the update that is written
// carries it; Finalise reports "nothing to do" only if the stored route has no canary reference left.
func VerifC13_EnsureRoutesAndFinalise() {
	name := "route"
	route := &gatewayv1beta1.HTTPRoute{ObjectMeta: metav1.ObjectMeta{Namespace: "ns", Name: name}}
	rule := gatewayv1beta1.HTTPRouteRule{Matches: []gatewayv1beta1.HTTPRouteMatch{c13RouteMatch("m")}}
	sw := verifrt.Int32("stored.stableWeight")
	port := gatewayv1beta1.PortNumber(80)
	rule.BackendRefs = append(rule.BackendRefs, gatewayv1beta1.HTTPBackendRef{BackendRef: gatewayv1beta1.BackendRef{BackendObjectReference: gatewayv1beta1.BackendObjectReference{Kind: &c13Service, Name: c13Stable, Port: &port}, Weight: &sw}})
	hasCanary := verifrt.Bool("stored.hasCanaryRef")
	if hasCanary {
		cw := verifrt.Int32("stored.canaryWeight")
		rule.BackendRefs = append(rule.BackendRefs, gatewayv1beta1.HTTPBackendRef{BackendRef: gatewayv1beta1.BackendRef{BackendObjectReference: gatewayv1beta1.BackendObjectReference{Kind: &c13Service, Name: c13Canary, Port: &port}, Weight: &cw}})
	}
	route.Spec.Rules = []gatewayv1beta1.HTTPRouteRule{rule}
	cli := &symclient.Client{Objects: []client.Object{route}}
	cli.ApplyFn = func(w symclient.Write) {
		if w.Verb == "update" && w.Kind == "HTTPRoute" {
			symclient.CopyInto(w.Obj, route)
		}
	}
	r := &gatewayController{Client: cli, conf: Config{Key: "r", Namespace: "ns", StableService: c13Stable, CanaryService: c13Canary, TrafficConf: &v1beta1.GatewayTrafficRouting{HTTPRouteName: &name}}}
	w := verifrt.IntRange("w", 0, 100)
	t := fmt.Sprintf("%d%%", w)
	split := func() (int32, int32, bool) {
		rs := route.Spec.Rules
		if len(rs) != 1 {
			return 0, 0, false
		}
		si, ci := c13FirstSvc(rs[0], c13Stable), c13FirstSvc(rs[0], c13Canary)
		if si < 0 || ci < 0 || rs[0].BackendRefs[si].Weight == nil || rs[0].BackendRefs[ci].Weight == nil {
			return 0, 0, false
		}
		return *rs[0].BackendRefs[si].Weight, *rs[0].BackendRefs[ci].Weight, true
	}
	done, err := r.EnsureRoutes(context.TODO(), &v1beta1.TrafficRoutingStrategy{Traffic: &t})
	verifrt.Assert(err == nil, "C13.ensure.noerror")
	s, c, ok := split()
	if done {
		verifrt.Cover("already-routed")
		verifrt.Assert(len(cli.Log) == 0, "C13.ensure.doneMeansNoWrite")
	} else {
		verifrt.Cover("updated")
		verifrt.Assert(len(cli.Writes("update", "HTTPRoute")) == 1, "C13.ensure.notDoneMeansOneUpdate")
	}
	// either way the stored route now carries exactly the step's split
	verifrt.Assert(ok && int(s) == 100-w && int(c) == w, "C13.ensure.storedRouteCarriesTheStepSplit")
	// a second call is a fixed point (C07)
	n := len(cli.Log)
	done2, err2 := r.EnsureRoutes(context.TODO(), &v1beta1.TrafficRoutingStrategy{Traffic: &t})
	verifrt.Assert(err2 == nil && done2 && len(cli.Log) == n, "C13.ensure.secondCallIsFixedPoint")
	// finalise
	_, err3 := r.Finalise(context.TODO())
	verifrt.Assert(err3 == nil, "C13.finalise.noerror")
	verifrt.Assert(len(route.Spec.Rules) == 1 && c13FirstSvc(route.Spec.Rules[0], c13Canary) < 0 && c13FirstSvc(route.Spec.Rules[0], c13Stable) >= 0, "C13.finalise.storedRouteHasNoCanaryRef")
	retry, err4 := r.Finalise(context.TODO())
	verifrt.Assert(err4 == nil && !retry, "C13.finalise.secondCallNothingToDo")
}

// C03 (share written to the Gateway API equals the step's value) and C04 (Finalise really withdraws the canary
// backend before the canary Service may be removed) are the same obligations as C13's, run under those properties too.
func VerifC03_GatewayStepShare()               { VerifC13_WeightStep() }
func VerifC04_GatewayFinaliseWithdrawsCanary() { VerifC13_EnsureRoutesAndFinalise() }

// C07: re-applying a step does not change the route again (no endless rewrite): same obligations as C13's fixed points.
func VerifC07_GatewayMatchStepReachesFixedPoint() { VerifC13_MatchStep() }
func VerifC07_GatewayWeightStepReachesFixedPoint() { VerifC13_WeightStep() }

// C03 at the provider's entry point: "routed" is reported only when the HTTPRoute *stored* in the API server carries
// the step's split (C13.ensure.storedRouteCarriesTheStepSplit) — a verdict reached by comparing the desired rules with
// a copy that was modified along with them would report every later step routed without writing it.
func VerifC03_GatewayRoutedMeansTheStoredRouteCarriesTheSplit() { VerifC13_EnsureRoutesAndFinalise() }

// VerifC13_MatchStepKeepsEveryUserRule: three user rules (each targeting the stable Service or another one), a match
// step of one or two user matches of any kind (path only, header only, both): the user's rules are all still there, in
// order and unchanged, in front of whatever the step generates — whichever rule the generation has nothing (more) to
// do for.  (Fixed small rule shapes: the rule and match contents are covered by VerifC13_MatchStep.)
func VerifC13_MatchStepKeepsEveryUserRule() {
	r := c13Ctl()
	svc := gatewayv1beta1.Kind("Service")
	port := gatewayv1beta1.PortNumber(80)
	pfx := gatewayv1beta1.PathMatchPathPrefix
	paths := []string{"/", "/storage", "/list"}
	var rules []gatewayv1beta1.HTTPRouteRule
	for i := 0; i < 3; i++ {
		name := gatewayv1beta1.ObjectName("other-svc")
		if verifrt.Bool("rule.targetsStable") {
			name = gatewayv1beta1.ObjectName(c13Stable)
		}
		p := paths[i]
		rules = append(rules, gatewayv1beta1.HTTPRouteRule{
			Matches:     []gatewayv1beta1.HTTPRouteMatch{{Path: &gatewayv1beta1.HTTPPathMatch{Type: &pfx, Value: &p}}},
			BackendRefs: []gatewayv1beta1.HTTPBackendRef{{BackendRef: gatewayv1beta1.BackendRef{BackendObjectReference: gatewayv1beta1.BackendObjectReference{Kind: &svc, Name: name, Port: &port}}}},
		})
	}
	orig := c13CopyRules(rules)
	var user []v1beta1.HttpRouteMatch
	nu := verifrt.IntRange("nUser", 1, 2)
	for i := 0; i < nu; i++ {
		user = append(user, c13UserMatch("u"))
	}
	got := r.buildDesiredHTTPRoute(rules, nil, user)
	verifrt.Assert(len(got) >= len(orig), "C13.match.everyUserRuleKept.count")
	if len(got) < len(orig) {
		return
	}
	for i := range orig {
		verifrt.Assert(c13RuleEq(orig[i], got[i]), "C13.match.everyUserRuleKept.equal")
	}
	one := int32(-1)
	fin := r.buildDesiredHTTPRoute(c13CopyRules(got), &one, nil)
	verifrt.Assert(len(fin) == len(orig), "C13.finalise.everyUserRuleKept")
	verifrt.Cover("done")
}
