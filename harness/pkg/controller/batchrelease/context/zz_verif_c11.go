package context

// C11 — the readiness predicate: a batch is Ready only with enough updated pods, ready ones within the failure
// threshold, at least one ready when any is called for, and (with a rollout-id) enough labelled live pods.

import (
	"fmt"

	"github.com/openkruise/rollouts/api/v1beta1"
	"github.com/openkruise/rollouts/pkg/verifrt"
	corev1 "k8s.io/api/core/v1"
	metav1 "k8s.io/apimachinery/pkg/apis/meta/v1"
	"k8s.io/apimachinery/pkg/util/intstr"
)

func VerifC11_IsBatchReady() {
	max := verifrt.Bound("R", 100000, 2000000000)
	bc := &BatchContext{}
	bc.Replicas = int32(verifrt.IntRange("replicas", 0, max))
	bc.UpdatedReplicas = int32(verifrt.IntRange("updated", 0, max))
	bc.UpdatedReadyReplicas = int32(verifrt.IntRange("updatedReady", 0, max))
	bc.DesiredUpdatedReplicas = int32(verifrt.IntRange("desired", 0, max))
	bc.PlannedUpdatedReplicas = int32(verifrt.IntRange("planned", 0, max))
	tolerated := 0
	switch verifrt.IntRange("threshold.kind", 0, 2) {
	case 1:
		n := verifrt.IntRange("threshold.int", 0, max)
		v := intstr.FromInt(n)
		bc.FailureThreshold = &v
		tolerated = n
	case 2:
		p := verifrt.IntRange("threshold.percent", 0, 100)
		v := intstr.FromString(fmt.Sprintf("%d%%", p))
		bc.FailureThreshold = &v
		tolerated = (p*int(bc.UpdatedReplicas) + 99) / 100
	}
	labelled := 0
	if verifrt.Bool("hasRolloutID") {
		bc.RolloutID = "rid-1"
		np := verifrt.Concrete(verifrt.IntRange("nPods", 0, 2))
		for i := 0; i < np; i++ {
			pod := &corev1.Pod{ObjectMeta: metav1.ObjectMeta{Labels: map[string]string{}}}
			if verifrt.Bool("pod.hasLabel") {
				pod.Labels[v1beta1.RolloutIDLabel] = verifrt.String("pod.rolloutID")
			}
			// a batch-id alone (left by an earlier release, or written by anybody) says nothing about this release
			if verifrt.Bool("pod.hasBatchID") {
				pod.Labels[v1beta1.RolloutBatchIDLabel] = "1"
			}
			if verifrt.Bool("pod.terminating") {
				now := metav1.Now()
				pod.DeletionTimestamp = &now
			}
			if pod.DeletionTimestamp == nil && pod.Labels[v1beta1.RolloutIDLabel] == "rid-1" {
				labelled++
			}
			bc.Pods = append(bc.Pods, pod)
		}
	}
	err := bc.IsBatchReady()
	if err == nil {
		verifrt.Cover("ready")
		verifrt.Assert(bc.UpdatedReplicas >= bc.DesiredUpdatedReplicas, "C11.ready.enoughUpdatedPods")
		verifrt.Assert(int(bc.UpdatedReadyReplicas)+tolerated >= int(bc.DesiredUpdatedReplicas), "C11.ready.readyWithinFailureThreshold")
		verifrt.Assert(bc.DesiredUpdatedReplicas == 0 || bc.UpdatedReadyReplicas > 0, "C11.ready.atLeastOneReadyWhenAnyCalledFor")
		if bc.RolloutID != "" && len(bc.Pods) > 0 {
			verifrt.Assert(labelled >= int(bc.PlannedUpdatedReplicas), "C11.ready.enoughLabelledPods")
		}
	} else {
		verifrt.Cover("not-ready")
		// and conversely: when all of it holds the batch is reported ready (no spurious wait, C07)
		all := bc.UpdatedReplicas >= bc.DesiredUpdatedReplicas && int(bc.UpdatedReadyReplicas)+tolerated >= int(bc.DesiredUpdatedReplicas) &&
			(bc.DesiredUpdatedReplicas == 0 || bc.UpdatedReadyReplicas > 0) && (bc.RolloutID == "" || len(bc.Pods) == 0 || labelled >= int(bc.PlannedUpdatedReplicas))
		verifrt.Assert(!all, "C07.readiness.noSpuriousWait")
	}
}

// C07: the readiness predicate never keeps waiting once everything it names holds — in particular it counts batch
// labels against the planned size the label patcher works to, not against a larger number nobody will ever label
// (the same obligations as VerifC11_IsBatchReady, C07.readiness.noSpuriousWait).
func VerifC07_ReadinessNeverWaitsForMoreThanPlanned() { VerifC11_IsBatchReady() }

// C12: the batch labels are read the way they are written — a pod counts for the batch being verified only if it is
// live and carries this release's rollout-id; a batch-id left by an earlier release does not make it one of this
// release's pods (C11.ready.enoughLabelledPods of the same relation).
func VerifC12_ReadinessCountsOnlyThisReleasesLabels() { VerifC11_IsBatchReady() }
