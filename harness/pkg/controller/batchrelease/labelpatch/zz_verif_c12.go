package labelpatch

// C12 — pod batch labels identify exactly the pods of each batch (DESIGN.md §6 C12).

import (
	"k8s.io/apimachinery/pkg/types"
	"sigs.k8s.io/controller-runtime/pkg/client"
	"strconv"

	"github.com/openkruise/rollouts/api/v1beta1"
	batchcontext "github.com/openkruise/rollouts/pkg/controller/batchrelease/context"
	"github.com/openkruise/rollouts/pkg/verifrt"
	"github.com/openkruise/rollouts/pkg/verifrt/symclient"
	apps "k8s.io/api/apps/v1"
	corev1 "k8s.io/api/core/v1"
	metav1 "k8s.io/apimachinery/pkg/apis/meta/v1"
	"k8s.io/apimachinery/pkg/util/intstr"
	"k8s.io/klog/v2"
)

const (
	c12RolloutID = "rid-1"
	c12Revision  = "rev-new"
)

// batch-id label values a pod may already carry: in range, out of range, non-numeric
var c12BatchIDs = []string{"1", "2", "0", "3", "-1", "abc", ""}

type c12Pod struct {
	pod        *corev1.Pod
	newRev     bool
	live       bool
	labelledID string // rollout-id label before
	batchLabel string
}

func c12MakePod(i int) c12Pod {
	p := &corev1.Pod{ObjectMeta: metav1.ObjectMeta{Namespace: "ns", Name: "pod-" + strconv.Itoa(i), Labels: map[string]string{}}}
	res := c12Pod{pod: p, live: true}
	if verifrt.Bool("pod.newRevision") {
		p.Labels[apps.ControllerRevisionHashLabelKey] = c12Revision
		res.newRev = true
	} else {
		p.Labels[apps.ControllerRevisionHashLabelKey] = "rev-old"
	}
	switch verifrt.IntRange("pod.rolloutID", 0, 2) {
	case 1:
		p.Labels[v1beta1.RolloutIDLabel] = c12RolloutID
		res.labelledID = c12RolloutID
	case 2:
		p.Labels[v1beta1.RolloutIDLabel] = "rid-stale"
		res.labelledID = "rid-stale"
	}
	if res.labelledID != "" {
		res.batchLabel = c12BatchIDs[verifrt.IntRange("pod.batchID", 0, len(c12BatchIDs)-1)]
		if res.batchLabel != "" {
			p.Labels[v1beta1.RolloutBatchIDLabel] = res.batchLabel
		}
	}
	if verifrt.Bool("pod.terminating") {
		now := metav1.Now()
		p.DeletionTimestamp = &now
		res.live = false
	}
	return res
}

func VerifC12_PatchPodBatchLabel() {
	nb := verifrt.Concrete(verifrt.IntRange("nBatches", 1, 2))
	R := verifrt.Concrete(verifrt.IntRange("R", 1, verifrt.Bound("R", 2, 3)))
	var batches []v1beta1.ReleaseBatch
	var planned []int
	for i := 0; i < nb; i++ {
		n := verifrt.Concrete(verifrt.IntRange("batch", 0, R))
		batches = append(batches, v1beta1.ReleaseBatch{CanaryReplicas: intstr.FromInt(n)})
		planned = append(planned, n)
	}
	cur := verifrt.Concrete(verifrt.IntRange("currentBatch", 0, nb-1))
	np := verifrt.Concrete(verifrt.IntRange("nPods", 1, verifrt.Bound("pods", 2, 3)))
	var pods []c12Pod
	var list []*corev1.Pod
	for i := 0; i < np; i++ {
		var p c12Pod
		if i < 2 {
			p = c12MakePod(i)
		} else {
			// thorough tier: further pods are plain live pods of either revision without rollout labels (the
			// full label variety on every pod exceeds the path budget)
			pod := &corev1.Pod{ObjectMeta: metav1.ObjectMeta{Namespace: "ns", Name: "pod-" + strconv.Itoa(i), Labels: map[string]string{}}}
			p = c12Pod{pod: pod, live: true}
			if verifrt.Bool("pod.newRevision") {
				pod.Labels[apps.ControllerRevisionHashLabelKey] = c12Revision
				p.newRev = true
			} else {
				pod.Labels[apps.ControllerRevisionHashLabelKey] = "rev-old"
			}
		}
		pods = append(pods, p)
		list = append(list, p.pod)
	}
	cli := &symclient.Client{}
	r := &realPatcher{Client: cli, logKey: klog.ObjectRef{Namespace: "ns", Name: "br"}, batches: batches}
	ctx := &batchcontext.BatchContext{RolloutID: c12RolloutID, UpdateRevision: c12Revision, Replicas: int32(R), CurrentBatch: int32(cur), Pods: list}
	var err error
	panicked := verifrt.NoPanic(func() { err = r.patchPodBatchLabel(list, ctx) })
	verifrt.Assert(!panicked, "C12.tolerates.arbitraryExistingLabels.nopanic")
	if panicked || err != nil {
		return
	}
	verifrt.Cover("patched")
	// increments the plan adds per batch (reference)
	incr := make([]int, nb)
	prev := 0
	for i := 0; i <= cur; i++ {
		v := planned[i]
		if v > R {
			v = R
		}
		incr[i] = v - prev
		prev = v
	}
	before := make([]int, nb)
	for _, p := range pods {
		if p.live && p.newRev && p.labelledID == c12RolloutID {
			if id, e := strconv.Atoi(p.batchLabel); e == nil && id >= 1 && id <= nb {
				before[id-1]++
			}
		}
	}
	after := make([]int, nb)
	copy(after, before)
	patchedPod := map[string]bool{}
	for _, w := range cli.Log {
		verifrt.Assert(w.Verb == "patch" && w.Kind == "Pod", "C12.onlyPodPatches")
		id, hasBatch := verifrt.JSONGet(w.Body, "metadata", "labels", v1beta1.RolloutBatchIDLabel)
		if !hasBatch {
			continue
		}
		rid, _ := verifrt.JSONGet(w.Body, "metadata", "labels", v1beta1.RolloutIDLabel)
		verifrt.Assert(rid == c12RolloutID, "C12.patch.carriesThisRolloutID")
		name := w.Obj.GetName()
		verifrt.Assert(!patchedPod[name], "C12.patch.eachPodOnce")
		patchedPod[name] = true
		for _, p := range pods {
			if p.pod.Name != name {
				continue
			}
			verifrt.Assert(p.live, "C12.patch.onlyLivePods")
			verifrt.Assert(p.newRev, "C12.patch.onlyNewRevisionPods")
			verifrt.Assert(p.labelledID != c12RolloutID, "C12.patch.neverRelabelsAPodOfThisRelease")
		}
		b, e := strconv.Atoi(id)
		verifrt.Assert(e == nil && b >= 1 && b <= cur+1, "C12.patch.batchIDWithinCurrentBatch")
		if e == nil && b >= 1 && b <= nb {
			after[b-1]++
		}
	}
	for i := 0; i < nb; i++ {
		lim := before[i]
		if incr[i] > lim {
			lim = incr[i]
		}
		verifrt.Assert(after[i] <= lim, "C12.batchCountNeverAbovePlanIncrement")
	}
	// apply the patches and repeat the pass: nothing changes
	for _, w := range cli.Log {
		id, hasBatch := verifrt.JSONGet(w.Body, "metadata", "labels", v1beta1.RolloutBatchIDLabel)
		if !hasBatch {
			continue
		}
		for _, p := range pods {
			if p.pod.Name == w.Obj.GetName() {
				p.pod.Labels[v1beta1.RolloutIDLabel] = c12RolloutID
				p.pod.Labels[v1beta1.RolloutBatchIDLabel] = id
			}
		}
	}
	cli2 := &symclient.Client{}
	r2 := &realPatcher{Client: cli2, logKey: klog.ObjectRef{Namespace: "ns", Name: "br"}, batches: batches}
	ctx2 := &batchcontext.BatchContext{RolloutID: c12RolloutID, UpdateRevision: c12Revision, Replicas: int32(R), CurrentBatch: int32(cur), Pods: list}
	err2 := r2.patchPodBatchLabel(list, ctx2)
	verifrt.Assert(err2 == nil, "C12.repeat.noerror")
	for _, w := range cli2.Log {
		_, hasBatch := verifrt.JSONGet(w.Body, "metadata", "labels", v1beta1.RolloutBatchIDLabel)
		verifrt.Assert(!hasBatch || len(cli.Log) > 0 && false, "C12.repeat.changesNothing")
	}
}

// VerifC12_PlannedIncrements: the per-batch label budgets are the increments the plan adds (up to 3 batches,
// symbolic sizes): budget(i) = clamp(plan i) - clamp(plan i-1) for i <= currentBatch, 0 beyond; they sum to the
// current batch's planned size.
func VerifC12_PlannedIncrements() {
	nb := verifrt.Concrete(verifrt.IntRange("nBatches", 1, 3))
	R := verifrt.IntRange("R", 0, 100000)
	var batches []v1beta1.ReleaseBatch
	var ref []int
	for i := 0; i < nb; i++ {
		n := verifrt.IntRange("batch", 0, 200000)
		batches = append(batches, v1beta1.ReleaseBatch{CanaryReplicas: intstr.FromInt(n)})
		if n > R {
			n = R
		}
		ref = append(ref, n)
	}
	cur := verifrt.Concrete(verifrt.IntRange("currentBatch", 0, nb-1))
	r := &realPatcher{logKey: klog.ObjectRef{Namespace: "ns", Name: "br"}, batches: batches}
	got := r.calculatePlannedStepIncrements(batches, R, cur)
	verifrt.Assert(len(got) == nb, "C12.increments.length")
	if len(got) != nb {
		return
	}
	sum := 0
	for i := 0; i < nb; i++ {
		want := 0
		if i <= cur {
			want = ref[i]
			if i > 0 {
				want -= ref[i-1]
			}
		}
		verifrt.Assert(got[i] == want, "C12.increments.equalPlanIncrement")
		sum += got[i]
	}
	verifrt.Assert(sum == ref[cur], "C12.increments.sumToCurrentBatchPlan")
	verifrt.Cover("done")
}

// VerifC12_UnorderedFilterKeepsLabelledPods: the rollback filter may drop unlabelled no-need-update pods, but every
// live new-revision pod that already carries this release's rollout-id stays visible to the patcher (otherwise its
// batch budget would be spent twice), and it never invents or duplicates pods.
func VerifC12_UnorderedFilterKeepsLabelledPods() {
	np := verifrt.Concrete(verifrt.IntRange("nPods", 1, 3))
	var list []*corev1.Pod
	for i := 0; i < np; i++ {
		p := &corev1.Pod{ObjectMeta: metav1.ObjectMeta{Namespace: "ns", Name: "pod-" + strconv.Itoa(i), Labels: map[string]string{}}}
		if verifrt.Bool("pod.newRevision") {
			p.Labels[apps.ControllerRevisionHashLabelKey] = c12Revision
		} else {
			p.Labels[apps.ControllerRevisionHashLabelKey] = "rev-old"
		}
		if verifrt.Bool("pod.noNeedUpdate") {
			p.Labels["rollouts.kruise.io/no-need-update"] = c12RolloutID
		}
		if verifrt.Bool("pod.labelled") {
			p.Labels[v1beta1.RolloutIDLabel] = c12RolloutID
			// labelled in this or in an earlier batch (seed C12-15: "already labelled" asked per batch, so
			// earlier batches' no-need-update pods fell out of the patcher's view from the second batch on)
			p.Labels[v1beta1.RolloutBatchIDLabel] = []string{"1", "2"}[verifrt.IntRange("pod.batchID", 0, 1)]
		}
		if verifrt.Bool("pod.terminating") {
			now := metav1.Now()
			p.DeletionTimestamp = &now
		}
		list = append(list, p)
	}
	ctx := &batchcontext.BatchContext{RolloutID: c12RolloutID, UpdateRevision: c12Revision}
	ctx.CurrentBatch = int32(verifrt.IntRange("currentBatch", 0, 2))
	ctx.DesiredUpdatedReplicas = int32(verifrt.IntRange("desired", 0, 5))
	ctx.PlannedUpdatedReplicas = int32(verifrt.IntRange("planned", 0, 5))
	in := append([]*corev1.Pod(nil), list...)
	out := FilterPodsForUnorderedUpdate(list, ctx)
	for _, p := range in {
		cnt := 0
		for _, q := range out {
			if q == p {
				cnt++
			}
		}
		verifrt.Assert(cnt <= 1, "C12.filter.noDuplicates")
		if p.DeletionTimestamp == nil && p.Labels[apps.ControllerRevisionHashLabelKey] == c12Revision && p.Labels[v1beta1.RolloutIDLabel] == c12RolloutID {
			verifrt.Assert(cnt == 1, "C12.filter.keepsPodsAlreadyLabelledForThisRelease")
		}
	}
	for _, q := range out {
		found := false
		for _, p := range in {
			if p == q {
				found = true
			}
		}
		verifrt.Assert(found, "C12.filter.onlyInputPods")
	}
	verifrt.Cover("done")
}

// VerifC12_OrderedFilterIsOrderIndependent: the pods the ordered (StatefulSet) rollback filter lets the patcher see
// are a function of the pods themselves, not of the order the lister happened to return them in: two passes over the
// same pods in different orders select the same pods (otherwise a second pass labels further pods for the batch).
func VerifC12_OrderedFilterIsOrderIndependent() {
	mk := func(i int, newRev, terminating bool) *corev1.Pod {
		p := &corev1.Pod{ObjectMeta: metav1.ObjectMeta{Namespace: "ns", Name: "sts-" + strconv.Itoa(i), Labels: map[string]string{}}}
		if newRev {
			p.Labels[apps.ControllerRevisionHashLabelKey] = c12Revision
		} else {
			p.Labels[apps.ControllerRevisionHashLabelKey] = "rev-old"
		}
		if terminating {
			now := metav1.Now()
			p.DeletionTimestamp = &now
		}
		return p
	}
	const n = 3
	var newRev, term [n]bool
	for i := 0; i < n; i++ {
		newRev[i] = verifrt.Bool("pod.newRevision")
		term[i] = verifrt.Bool("pod.terminating")
	}
	perms := [][]int{{0, 1, 2}, {0, 2, 1}, {1, 0, 2}, {1, 2, 0}, {2, 0, 1}, {2, 1, 0}}
	perm := perms[verifrt.Concrete(verifrt.IntRange("lister.order", 0, len(perms)-1))]
	build := func(order []int) []*corev1.Pod {
		var l []*corev1.Pod
		for _, i := range order {
			l = append(l, mk(i, newRev[i], term[i]))
		}
		return l
	}
	ctx := func() *batchcontext.BatchContext {
		return &batchcontext.BatchContext{RolloutID: c12RolloutID, UpdateRevision: c12Revision, Replicas: n,
			DesiredPartition:       intstr.FromInt(verifrt.IntRange("partition", 0, n)),
			PlannedUpdatedReplicas: int32(verifrt.IntRange("planned", 0, n))}
	}
	c1 := ctx()
	c2 := &batchcontext.BatchContext{RolloutID: c1.RolloutID, UpdateRevision: c1.UpdateRevision, Replicas: c1.Replicas, DesiredPartition: c1.DesiredPartition, PlannedUpdatedReplicas: c1.PlannedUpdatedReplicas}
	a := FilterPodsForOrderedUpdate(build(perms[0]), c1)
	b := FilterPodsForOrderedUpdate(build(perm), c2)
	names := func(l []*corev1.Pod) map[string]int {
		m := map[string]int{}
		for _, p := range l {
			m[p.Name]++
		}
		return m
	}
	na, nb := names(a), names(b)
	same := len(na) == len(nb)
	for k, v := range na {
		if nb[k] != v {
			same = false
		}
	}
	verifrt.Assert(same, "C12.orderedFilter.selectionIndependentOfListOrder")
	for _, v := range na {
		verifrt.Assert(v == 1, "C12.orderedFilter.noDuplicates")
	}
}

// VerifC12_ReplicaSetOwnedPodsGetTheirOwnRevision: pods of a native Deployment carry no controller-revision-hash; the
// patcher derives it from the ReplicaSet that owns each pod.  With pods of the old and the new ReplicaSet in one
// list (any order), every pod is stamped with the hash of *its own* ReplicaSet, and only pods of the new ReplicaSet
// receive rollout-id / batch-id.  (The hash function is replaced by a harness function of the template so that both
// executions agree on its values.)
func VerifC12_ReplicaSetOwnedPodsGetTheirOwnRevision() {
	verifrt.Stub("github.com/openkruise/rollouts/pkg/util.ComputeHash", func(template *corev1.PodTemplateSpec, collisionCount *int32) string {
		return "h-" + template.Labels["ver"]
	})
	isCtrl := true
	mkRS := func(name, ver string) *apps.ReplicaSet {
		rs := &apps.ReplicaSet{ObjectMeta: metav1.ObjectMeta{Namespace: "ns", Name: name, UID: types.UID("uid-" + name)}}
		rs.Spec.Template.Labels = map[string]string{"app": "w", "ver": ver, apps.DefaultDeploymentUniqueLabelKey: "pth-" + ver}
		return rs
	}
	rsOld, rsNew := mkRS("rs-old", "v1"), mkRS("rs-new", "v2")
	mkPod := func(i int, rs *apps.ReplicaSet) *corev1.Pod {
		return &corev1.Pod{ObjectMeta: metav1.ObjectMeta{Namespace: "ns", Name: "pod-" + strconv.Itoa(i), Labels: map[string]string{"app": "w"},
			OwnerReferences: []metav1.OwnerReference{{APIVersion: "apps/v1", Kind: "ReplicaSet", Name: rs.Name, UID: rs.UID, Controller: &isCtrl}}}}
	}
	np := verifrt.Concrete(verifrt.IntRange("nPods", 2, 3))
	var list []*corev1.Pod
	owner := map[string]*apps.ReplicaSet{}
	for i := 0; i < np; i++ {
		rs := rsOld
		if verifrt.Bool("pod.ofNewReplicaSet") {
			rs = rsNew
		}
		p := mkPod(i, rs)
		owner[p.Name] = rs
		list = append(list, p)
	}
	cli := &symclient.Client{Objects: []client.Object{rsOld, rsNew}}
	batches := []v1beta1.ReleaseBatch{{CanaryReplicas: intstr.FromInt(np)}}
	r := &realPatcher{Client: cli, logKey: klog.ObjectRef{Namespace: "ns", Name: "br"}, batches: batches}
	ctx := &batchcontext.BatchContext{RolloutID: c12RolloutID, UpdateRevision: "h-v2", Replicas: int32(np), CurrentBatch: 0, Pods: list}
	err := r.patchPodBatchLabel(list, ctx)
	verifrt.Assert(err == nil, "C12.rsOwned.noError")
	for _, w := range cli.Writes("patch", "Pod") {
		rs := owner[w.Obj.GetName()]
		if h, ok := verifrt.JSONGet(w.Body, "metadata", "labels", apps.ControllerRevisionHashLabelKey); ok {
			verifrt.Assert(h == "h-"+rs.Spec.Template.Labels["ver"], "C12.rsOwned.podStampedWithItsOwnReplicaSetsRevision")
		}
		if id, ok := verifrt.JSONGet(w.Body, "metadata", "labels", v1beta1.RolloutIDLabel); ok {
			verifrt.Assert(id == c12RolloutID && rs == rsNew, "C12.rsOwned.onlyNewReplicaSetPodsLabelled")
		}
	}
}

// VerifC12_PercentBudgetFollowsWorkloadReplicas: a batch given as a percentage is a percentage of the workload's
// *replicas*, not of the pods that happen to be listed (old-revision pods, surge pods and terminating pods are listed
// too).  For a one- or two-batch percentage plan and a listing with more pods than replicas, the number of pods that
// carry (this rollout, batch b) after the pass never exceeds what batch b adds to ceil(p_b% of replicas) — and reaches
// it whenever enough unlabelled new-revision pods exist.
func VerifC12_PercentBudgetFollowsWorkloadReplicas() {
	R := verifrt.Concrete(verifrt.IntRange("R", 1, verifrt.Bound("R", 3, 4)))
	p1 := verifrt.IntRange("batch1.percent", 0, 100)
	batches := []v1beta1.ReleaseBatch{{CanaryReplicas: intstr.FromString(strconv.Itoa(p1) + "%")}}
	nn := verifrt.Concrete(verifrt.IntRange("pods.newRevision", 0, verifrt.Bound("pods.new", 3, 4)))
	no := verifrt.Concrete(verifrt.IntRange("pods.oldRevision", 1, verifrt.Bound("pods.old", 3, 4)))
	var list []*corev1.Pod
	for i := 0; i < nn+no; i++ {
		pod := &corev1.Pod{ObjectMeta: metav1.ObjectMeta{Namespace: "ns", Name: "pod-" + strconv.Itoa(i), Labels: map[string]string{}}}
		if i < nn {
			pod.Labels[apps.ControllerRevisionHashLabelKey] = c12Revision
		} else {
			pod.Labels[apps.ControllerRevisionHashLabelKey] = "rev-old"
		}
		list = append(list, pod)
	}
	cli := &symclient.Client{}
	r := &realPatcher{Client: cli, logKey: klog.ObjectRef{Namespace: "ns", Name: "br"}, batches: batches}
	ctx := &batchcontext.BatchContext{RolloutID: c12RolloutID, UpdateRevision: c12Revision, Replicas: int32(R), CurrentBatch: 0, Pods: list}
	err := r.patchPodBatchLabel(list, ctx)
	verifrt.Assert(err == nil, "C12.percent.noError")
	labelled := 0
	for _, w := range cli.Log {
		if id, has := verifrt.JSONGet(w.Body, "metadata", "labels", v1beta1.RolloutBatchIDLabel); has {
			verifrt.Assert(id == "1", "C12.percent.batchID")
			labelled++
		}
	}
	// ceil(p1 * R / 100) without floating point: the smallest b with 100*b >= p1*R
	verifrt.Assert(100*labelled < p1*R+100, "C12.percent.budgetIsAShareOfTheWorkloadReplicas")
	if 100*nn >= p1*R {
		verifrt.Assert(100*labelled >= p1*R, "C12.percent.budgetIsUsedWhenPodsExist")
	} else {
		verifrt.Assert(labelled == nn, "C12.percent.everyNewPodLabelledWhenFewerThanTheBudget")
	}
}

// VerifC12_OrderedFilterPassesAreIdempotent: the labelling pass of an ordered (StatefulSet) rollback-in-batches runs
// on every reconcile.  With the ordered filter in front of the patcher, a second pass over the pods as the first pass
// left them labels nothing more, and the pods carrying (this rollout, batch 1) never exceed what batch 1 plans —
// however many unlabelled no-need-update pods below the partition are still around to be picked.
func VerifC12_OrderedFilterPassesAreIdempotent() {
	n := verifrt.Bound("pods", 4, 5)
	var list []*corev1.Pod
	for i := 0; i < n; i++ {
		p := &corev1.Pod{ObjectMeta: metav1.ObjectMeta{Namespace: "ns", Name: "sts-" + strconv.Itoa(i), Labels: map[string]string{apps.ControllerRevisionHashLabelKey: c12Revision}}}
		list = append(list, p)
	}
	partition := verifrt.Concrete(verifrt.IntRange("partition", 0, n))
	planned := verifrt.Concrete(verifrt.IntRange("planned", 0, n))
	batches := []v1beta1.ReleaseBatch{{CanaryReplicas: intstr.FromInt(planned)}}
	noNeed := int32(partition)
	mkCtx := func() *batchcontext.BatchContext {
		return &batchcontext.BatchContext{RolloutID: c12RolloutID, UpdateRevision: c12Revision, Replicas: int32(n), CurrentBatch: 0, Pods: list,
			DesiredPartition: intstr.FromInt(partition), PlannedUpdatedReplicas: int32(planned), NoNeedUpdatedReplicas: &noNeed,
			FilterFunc: FilterPodsForOrderedUpdate}
	}
	labelled := func() int {
		c := 0
		for _, p := range list {
			if p.Labels[v1beta1.RolloutIDLabel] == c12RolloutID && p.Labels[v1beta1.RolloutBatchIDLabel] == "1" {
				c++
			}
		}
		return c
	}
	passes := verifrt.Bound("passes", 3, 4)
	for pass := 1; pass <= passes; pass++ {
		cli := &symclient.Client{}
		r := &realPatcher{Client: cli, logKey: klog.ObjectRef{Namespace: "ns", Name: "br"}, batches: batches}
		err := r.PatchPodBatchLabel(mkCtx())
		verifrt.Assert(err == nil, "C12.ordered.pass.noError")
		wrote := 0
		for _, w := range cli.Log {
			id, has := verifrt.JSONGet(w.Body, "metadata", "labels", v1beta1.RolloutBatchIDLabel)
			if !has {
				continue
			}
			wrote++
			for _, p := range list {
				if p.Name == w.Obj.GetName() {
					p.Labels[v1beta1.RolloutIDLabel] = c12RolloutID
					p.Labels[v1beta1.RolloutBatchIDLabel] = id
				}
			}
		}
		verifrt.Assert(labelled() <= planned, "C12.ordered.batchCountNeverAbovePlan")
		if pass > 1 {
			verifrt.Assert(wrote == 0, "C12.ordered.laterPassesLabelNothingMore")
		}
	}
}
