package batchrelease

// C18 — the BatchRelease finalizer is dropped only in phase Completed (reached only through a successful Finalize,
// C11), and is dropped then.

import (
	"github.com/openkruise/rollouts/api/v1beta1"
	"github.com/openkruise/rollouts/pkg/verifrt"
	"github.com/openkruise/rollouts/pkg/verifrt/symclient"
	metav1 "k8s.io/apimachinery/pkg/apis/meta/v1"
	"sigs.k8s.io/controller-runtime/pkg/client"
)

func c18Has(fs []string, f string) bool {
	for _, x := range fs {
		if x == f {
			return true
		}
	}
	return false
}

func VerifC18_BatchReleaseFinalizer() {
	release := &v1beta1.BatchRelease{ObjectMeta: metav1.ObjectMeta{Namespace: "ns", Name: "br", UID: "uid-1"}}
	hasOwn := verifrt.Bool("hasOwnFinalizer")
	if hasOwn {
		release.Finalizers = []string{ReleaseFinalizer}
	}
	deleting := verifrt.Bool("deleting")
	if deleting {
		now := metav1.Now()
		release.DeletionTimestamp = &now
	}
	release.Status.Phase = c11Phases[verifrt.IntRange("phase", 0, len(c11Phases)-1)]
	cli := &symclient.Client{Objects: []client.Object{release}, Faults: true}
	r := &BatchReleaseReconciler{Client: cli}
	stop, err := r.handleFinalizer(release)
	removed, added := false, false
	for _, w := range cli.Writes("update", "BatchRelease") {
		if hasOwn && !c18Has(w.Obj.GetFinalizers(), ReleaseFinalizer) {
			removed = true
		}
		if !hasOwn && c18Has(w.Obj.GetFinalizers(), ReleaseFinalizer) {
			added = true
		}
	}
	// the finalizer is taken before any work: the reconcile goes on to the executor only for a BatchRelease that
	// holds it (a failed attempt to add it ends the round; otherwise a deletion could remove the object before its
	// workload was released)
	if !stop {
		verifrt.Assert(hasOwn || added, "C18.batchrelease.noWorkWithoutFinalizer")
	}
	if removed {
		verifrt.Cover("finalizer-removed")
		verifrt.Assert(deleting && release.Status.Phase == v1beta1.RolloutPhaseCompleted, "C18.batchrelease.finalizerRemovedOnlyWhenCompleted")
		verifrt.Assert(stop, "C18.batchrelease.noFurtherWorkAfterRemoval")
	}
	if deleting && hasOwn && release.Status.Phase == v1beta1.RolloutPhaseCompleted && err == nil {
		verifrt.Cover("cleanup-done")
		verifrt.Assert(removed, "C18.batchrelease.finalizerRemovedOnceCompleted")
	}
}

// VerifC18_CompletedOnlyAfterFinalizeSucceeded: the BatchRelease finalizer is dropped in phase Completed only, so the
// phase must not become Completed while the control plane's Finalize still reports an error of any kind (plain,
// retry, bad request) — the executor obligation of C11 run under C18 as well.
func VerifC18_CompletedOnlyAfterFinalizeSucceeded() { VerifC11_ExecutorRound_Finalizing() }

// Phase Completed is the licence to drop the release finalizer: no round, whatever phase it starts in and whatever
// workload event arrives (the target workload having gone included), enters Completed without a successful Finalize
// (C11.completedOnlyAfterFinalizeSucceeded of the executor round relation).
func VerifC18_CompletedOnlyAfterFinalizeSucceeded_Preparing()   { VerifC11_ExecutorRound_Preparing() }
func VerifC18_CompletedOnlyAfterFinalizeSucceeded_Progressing() { VerifC11_ExecutorRound_Progressing() }
func VerifC18_CompletedOnlyAfterFinalizeSucceeded_Initial()     { VerifC11_ExecutorRound_Initial() }
