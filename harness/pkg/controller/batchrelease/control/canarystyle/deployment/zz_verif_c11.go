package deployment

import (
	"github.com/openkruise/rollouts/api/v1beta1"
	"github.com/openkruise/rollouts/pkg/util"
	"github.com/openkruise/rollouts/pkg/verifrt"
	"github.com/openkruise/rollouts/pkg/verifrt/symclient"
	apps "k8s.io/api/apps/v1"
	metav1 "k8s.io/apimachinery/pkg/apis/meta/v1"
	"k8s.io/apimachinery/pkg/types"
	"k8s.io/apimachinery/pkg/util/intstr"
)

// VerifC11_CanaryStableFinalize: with the wait-resume policy Finalize is done only when the stable Deployment is
// un-paused, every pod is updated and enough are available — also on a retry that finds it already released.
func VerifC11_CanaryStableFinalize() {
	R := int32(verifrt.IntRange("R", 1, 1000))
	d := &apps.Deployment{ObjectMeta: metav1.ObjectMeta{Namespace: "ns", Name: "w", Generation: 3}}
	d.Spec.Replicas = &R
	d.Spec.Strategy.Type = apps.RollingUpdateDeploymentStrategyType
	mu := intstr.FromInt(verifrt.IntRange("maxUnavailable", 0, 1000))
	one := intstr.FromInt(1)
	d.Spec.Strategy.RollingUpdate = &apps.RollingUpdateDeployment{MaxUnavailable: &mu, MaxSurge: &one}
	d.Status.Replicas = int32(verifrt.IntRange("st.replicas", 0, 2000))
	d.Status.UpdatedReplicas = int32(verifrt.IntRange("st.updated", 0, 2000))
	d.Status.AvailableReplicas = int32(verifrt.IntRange("st.available", 0, 2000))
	alreadyReleased := verifrt.Bool("alreadyReleased")
	if alreadyReleased {
		d.Spec.Paused = false
	} else {
		d.Annotations = map[string]string{util.BatchReleaseControlAnnotation: "{}"}
		d.Spec.Paused = true
	}
	server := d.DeepCopy()
	server.Spec.Paused = false
	server.Annotations = nil
	cli := &symclient.Client{}
	cli.ApplyFn = func(w symclient.Write) {
		if w.Verb == "patch" && w.Kind == "Deployment" {
			symclient.CopyInto(server, w.Obj)
		}
	}
	key := types.NamespacedName{Namespace: "ns", Name: "w"}
	rc := &realController{realStableController: newStable(cli, key), realCanaryController: newCanary(cli, key)}
	rc.stableObject = d
	rc.stableInfo = util.ParseWorkload(d)
	release := &v1beta1.BatchRelease{ObjectMeta: metav1.ObjectMeta{Namespace: "ns", Name: "br", UID: "uid-1"}}
	release.Spec.ReleasePlan.FinalizingPolicy = v1beta1.WaitResumeFinalizingPolicyType
	err := rc.realStableController.Finalize(release)
	if err != nil {
		verifrt.Cover("retry")
		return
	}
	verifrt.Cover("finalize-done")
	maxUnav := mu.IntVal
	if maxUnav > R {
		maxUnav = R
	}
	verifrt.Assert(server.Status.Replicas == server.Status.UpdatedReplicas, "C11.canarystable.finalize.doneOnlyIfAllUpdated")
	verifrt.Assert(server.Status.AvailableReplicas+maxUnav >= server.Status.Replicas, "C11.canarystable.finalize.doneOnlyIfAvailableWithinMaxUnavailable")
}
