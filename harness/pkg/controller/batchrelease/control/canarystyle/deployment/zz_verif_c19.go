package deployment

// C19/C06 — the creation expectation that guards against creating the canary Deployment twice is recorded under the
// creating BatchRelease's own key: it blocks a second Create of that release and never one of another release.

import (
	"github.com/openkruise/rollouts/api/v1beta1"
	expectations "github.com/openkruise/rollouts/pkg/util/expectation"
	"github.com/openkruise/rollouts/pkg/verifrt"
	"github.com/openkruise/rollouts/pkg/verifrt/symclient"
	apps "k8s.io/api/apps/v1"
	metav1 "k8s.io/apimachinery/pkg/apis/meta/v1"
	"k8s.io/apimachinery/pkg/types"
	"sigs.k8s.io/controller-runtime/pkg/client"
)

var c19Names = []string{"orders", "orders-v2", "orders-api"}

func VerifC19_CanaryCreateExpectationKey() {
	relName := c19Names[verifrt.IntRange("release.name", 0, 2)]
	wlName := c19Names[verifrt.IntRange("workload.name", 0, 2)]
	otherName := c19Names[verifrt.IntRange("other.release.name", 0, 2)]
	verifrt.Assume(otherName != relName)
	stable := &apps.Deployment{ObjectMeta: metav1.ObjectMeta{Namespace: "shop", Name: wlName, UID: "wl-uid"}}
	one := int32(3)
	stable.Spec.Replicas = &one
	stable.Spec.Template.Labels = map[string]string{"app": "w"}
	cli := &symclient.Client{Objects: []client.Object{stable}}
	cli.ApplyFn = func(w symclient.Write) {
		if w.Verb == "create" {
			w.Obj.SetUID("canary-uid")
		}
	}
	key := types.NamespacedName{Namespace: "shop", Name: wlName}
	rc := &realController{realStableController: newStable(cli, key), realCanaryController: newCanary(cli, key)}
	release := &v1beta1.BatchRelease{TypeMeta: metav1.TypeMeta{APIVersion: "rollouts.kruise.io/v1beta1", Kind: "BatchRelease"}, ObjectMeta: metav1.ObjectMeta{Namespace: "shop", Name: relName, UID: "br-uid"}}
	err := rc.realCanaryController.Create(release)
	verifrt.Assert(err != nil && len(cli.Writes("create", "Deployment")) == 1, "C06.canaryCreate.createsOnceAndWaitsForTheCache")
	// the release itself is now guarded
	ok, _, _ := expectations.ResourceExpectations.SatisfiedExpectations("shop/" + relName)
	verifrt.Assert(!ok, "C06.canaryCreate.ownExpectationPending")
	// a second attempt of the same release (cache not yet synced, controller object rebuilt) creates nothing
	rc2 := &realController{realStableController: newStable(cli, key), realCanaryController: newCanary(cli, key)}
	_ = rc2.realCanaryController.Create(release)
	verifrt.Assert(len(cli.Writes("create", "Deployment")) == 1, "C06.canaryCreate.noSecondCreateWhilePending")
	// another release is not affected
	okOther, _, _ := expectations.ResourceExpectations.SatisfiedExpectations("shop/" + otherName)
	verifrt.Assert(okOther, "C19.canaryCreate.expectationNotSharedWithOtherReleases")
	verifrt.Cover("done")
}

// VerifC19_CanaryListingIsPerRelease: the canary Deployments a release works on (scales, adopts, strips of their
// finalizer when it finalizes) are exactly those in the listing whose controller owner is *this* BatchRelease — by UID.
// Canary Deployments of another BatchRelease in the same namespace (same kind of owner, similar names, even the same
// pod template), Deployments owned by something else and un-owned ones are never taken for its own.
func VerifC19_CanaryListingIsPerRelease() {
	isCtrl := true
	owners := []metav1.OwnerReference{
		{APIVersion: "rollouts.kruise.io/v1beta1", Kind: "BatchRelease", Name: "orders", UID: "br-uid", Controller: &isCtrl},
		{APIVersion: "rollouts.kruise.io/v1beta1", Kind: "BatchRelease", Name: "orders-v2", UID: "br-other-uid", Controller: &isCtrl},
		{APIVersion: "apps/v1", Kind: "Deployment", Name: "orders", UID: "br-uid-2", Controller: &isCtrl},
		// an owner reference to this release that is not the controller reference
		{APIVersion: "rollouts.kruise.io/v1beta1", Kind: "BatchRelease", Name: "orders", UID: "br-uid"},
	}
	n := verifrt.Bound("deployments", 2, 3)
	items := make([]apps.Deployment, n)
	mine := make([]bool, n)
	for i := range items {
		items[i].Namespace, items[i].Name = "shop", []string{"orders-a", "orders-b", "orders-c"}[i]
		k := verifrt.IntRange("deployment.owner", 0, 4)
		if k < 4 {
			items[i].OwnerReferences = []metav1.OwnerReference{owners[k]}
		}
		mine[i] = k == 0
	}
	cli := &symclient.Client{}
	cli.ListFn = func(list client.ObjectList, opts []client.ListOption) error {
		if l, ok := list.(*apps.DeploymentList); ok {
			l.Items = items
		}
		return nil
	}
	key := types.NamespacedName{Namespace: "shop", Name: "orders"}
	rc := newCanary(cli, key)
	release := &v1beta1.BatchRelease{TypeMeta: metav1.TypeMeta{APIVersion: "rollouts.kruise.io/v1beta1", Kind: "BatchRelease"}, ObjectMeta: metav1.ObjectMeta{Namespace: "shop", Name: "orders", UID: "br-uid"}}
	got, err := rc.listDeployment(release)
	verifrt.Assert(err == nil, "C19.canaryListing.noError")
	want := 0
	for i := range items {
		in := false
		for _, g := range got {
			if g.Name == items[i].Name {
				in = true
			}
		}
		if mine[i] {
			want++
			verifrt.Assert(in, "C19.canaryListing.ownCanaryDeploymentsListed")
		} else {
			verifrt.Assert(!in, "C19.canaryListing.nothingOfAnotherOwnerListed")
		}
	}
	verifrt.Assert(len(got) == want, "C19.canaryListing.exactlyTheOwnOnes")
}
