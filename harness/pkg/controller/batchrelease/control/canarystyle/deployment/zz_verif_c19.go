package deployment

// C19/C06 — the creation expectation that guards against creating the canary Deployment twice is recorded under the
// creating BatchRelease's own key: it blocks a second Create of that release and never one of another release.

import (
	"github.com/openkruise/rollouts/api/v1beta1"
	expectations "github.com/openkruise/rollouts/pkg/util/expectation"
	"github.com/openkruise/rollouts/pkg/verifrt"
	"github.com/openkruise/rollouts/pkg/verifrt/symclient"
	apps "k8s.io/api/apps/v1"
	metav1 "k8s.io/apimachinery/pkg/apis/meta/v1"
	"k8s.io/apimachinery/pkg/types"
	"sigs.k8s.io/controller-runtime/pkg/client"
)

var c19Names = []string{"orders", "orders-v2", "orders-api"}

func VerifC19_CanaryCreateExpectationKey() {
	relName := c19Names[verifrt.IntRange("release.name", 0, 2)]
	wlName := c19Names[verifrt.IntRange("workload.name", 0, 2)]
	otherName := c19Names[verifrt.IntRange("other.release.name", 0, 2)]
	verifrt.Assume(otherName != relName)
	stable := &apps.Deployment{ObjectMeta: metav1.ObjectMeta{Namespace: "shop", Name: wlName, UID: "wl-uid"}}
	one := int32(3)
	stable.Spec.Replicas = &one
	stable.Spec.Template.Labels = map[string]string{"app": "w"}
	cli := &symclient.Client{Objects: []client.Object{stable}}
	cli.ApplyFn = func(w symclient.Write) {
		if w.Verb == "create" {
			w.Obj.SetUID("canary-uid")
		}
	}
	key := types.NamespacedName{Namespace: "shop", Name: wlName}
	rc := &realController{realStableController: newStable(cli, key), realCanaryController: newCanary(cli, key)}
	release := &v1beta1.BatchRelease{TypeMeta: metav1.TypeMeta{APIVersion: "rollouts.kruise.io/v1beta1", Kind: "BatchRelease"}, ObjectMeta: metav1.ObjectMeta{Namespace: "shop", Name: relName, UID: "br-uid"}}
	err := rc.realCanaryController.Create(release)
	verifrt.Assert(err != nil && len(cli.Writes("create", "Deployment")) == 1, "C06.canaryCreate.createsOnceAndWaitsForTheCache")
	// the release itself is now guarded
	ok, _, _ := expectations.ResourceExpectations.SatisfiedExpectations("shop/" + relName)
	verifrt.Assert(!ok, "C06.canaryCreate.ownExpectationPending")
	// a second attempt of the same release (cache not yet synced, controller object rebuilt) creates nothing
	rc2 := &realController{realStableController: newStable(cli, key), realCanaryController: newCanary(cli, key)}
	_ = rc2.realCanaryController.Create(release)
	verifrt.Assert(len(cli.Writes("create", "Deployment")) == 1, "C06.canaryCreate.noSecondCreateWhilePending")
	// another release is not affected
	okOther, _, _ := expectations.ResourceExpectations.SatisfiedExpectations("shop/" + otherName)
	verifrt.Assert(okOther, "C19.canaryCreate.expectationNotSharedWithOtherReleases")
	verifrt.Cover("done")
}
