package deployment

// C01/C07 obligations for canary-style Deployments (extra canary Deployment).

import (
	"strconv"

	"github.com/openkruise/rollouts/pkg/util"
	"github.com/openkruise/rollouts/pkg/verifrt"
	"github.com/openkruise/rollouts/pkg/verifrt/symclient"
	"github.com/openkruise/rollouts/pkg/verifrt/vh"
	apps "k8s.io/api/apps/v1"
	metav1 "k8s.io/apimachinery/pkg/apis/meta/v1"
	"k8s.io/apimachinery/pkg/types"
)

func vSetup() (*realController, *symclient.Client, int, int) {
	R := verifrt.IntRange("R", 0, vh.MaxR())
	R32 := int32(R)
	stable := &apps.Deployment{ObjectMeta: metav1.ObjectMeta{Namespace: "ns", Name: "w", Generation: 3}}
	stable.Spec.Replicas = &R32
	stable.Status.Replicas = int32(verifrt.IntRange("stable.status.replicas", 0, vh.MaxR()))
	cur := verifrt.IntRange("canary.replicas", 0, vh.MaxR())
	cur32 := int32(cur)
	canary := &apps.Deployment{ObjectMeta: metav1.ObjectMeta{Namespace: "ns", Name: "w-canary", Generation: 1}}
	canary.Spec.Replicas = &cur32
	canary.Status.Replicas = int32(verifrt.IntRange("canary.status.replicas", 0, vh.MaxR()))
	canary.Status.AvailableReplicas = int32(verifrt.IntRange("canary.status.available", 0, vh.MaxR()))
	cli := &symclient.Client{}
	key := types.NamespacedName{Namespace: "ns", Name: "w"}
	rc := &realController{realStableController: newStable(cli, key), realCanaryController: newCanary(cli, key)}
	rc.stableObject = stable
	rc.stableInfo = util.ParseWorkload(stable)
	rc.canaryObject = canary
	rc.canaryInfo = util.ParseWorkload(canary)
	return rc, cli, R, cur
}

// VerifC01_CanaryDeploymentBatch: the canary Deployment is asked for at most the pods the batch plans (on the current
// size of the stable Deployment), its replicas are only ever raised, and the target suffices for readiness.
func VerifC01_CanaryDeploymentBatch() {
	rc, cli, R, cur := vSetup()
	release, ref, _ := vh.Release(R, nil)
	ctx, err := rc.CalculateBatchContext(release)
	verifrt.Assert(err == nil && ctx != nil, "C01.canarydeploy.context.noerror")
	if ctx == nil {
		return
	}
	verifrt.Assert(int(ctx.DesiredUpdatedReplicas) == ref, "C01.canarydeploy.desired.equalsReference")
	err = rc.UpgradeBatch(ctx)
	verifrt.Assert(err == nil, "C01.canarydeploy.upgrade.noerror")
	verifrt.Assert(len(cli.Log) <= 1, "C01.canarydeploy.upgrade.onlyOnePatch")
	if len(cli.Log) == 1 {
		verifrt.Cover("patched")
		verifrt.Assert(cli.Log[0].Kind == "Deployment" && cli.Log[0].Obj.GetName() == "w-canary", "C01.canarydeploy.upgrade.targetsCanary")
		s, ok := verifrt.JSONGet(cli.Log[0].Body, "spec", "replicas")
		n, e := strconv.Atoi(s)
		verifrt.Assert(ok && e == nil, "C01.canarydeploy.upgrade.patchHasReplicas")
		verifrt.Assert(n <= ref, "C01.canarydeploy.upgrade.exposureWithinPlan")
		verifrt.Assert(n > cur, "C01.canarydeploy.upgrade.neverScalesCanaryDown")
	} else {
		verifrt.Cover("no-patch")
		verifrt.Assert(cur >= ref, "C01.canarydeploy.upgrade.skipOnlyIfAlreadyThere")
	}
}

func VerifC07_CanaryDeploymentTargetSuffices() {
	rc, _, R, _ := vSetup()
	release, _, _ := vh.Release(R, nil)
	ctx, err := rc.CalculateBatchContext(release)
	if err != nil || ctx == nil {
		return
	}
	// the canary Deployment converged to the replicas written by UpgradeBatch (or already had more)
	ctx.UpdatedReplicas = ctx.DesiredUpdatedReplicas
	ctx.UpdatedReadyReplicas = ctx.DesiredUpdatedReplicas
	verifrt.Assert(ctx.IsBatchReady() == nil, "C07.canarydeploy.targetSufficesForReadiness")
	verifrt.Cover("done")
}

// C11: readiness is judged against the pods the batch really calls for: the batch context's targets equal the
// reference computed from the plan (obligations of the C01 batch-context harness of this workload kind).
func VerifC11_CanaryDeploymentReadinessTarget() { VerifC01_CanaryDeploymentBatch() }
