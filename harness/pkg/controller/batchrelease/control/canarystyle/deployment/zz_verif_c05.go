package deployment

// C05 — canary-style release of a Deployment: the stable Deployment was paused by the workload webhook when the
// release began; whichever way the release ends, and at whatever point (also before Initialize has written the
// control annotation, or after it was stripped), Finalize with batchPartition == nil hands it back un-paused and
// without the control annotation, so that the native controller finishes the roll-out.

import (
	"github.com/openkruise/rollouts/api/v1beta1"
	"github.com/openkruise/rollouts/pkg/util"
	"github.com/openkruise/rollouts/pkg/verifrt"
	"github.com/openkruise/rollouts/pkg/verifrt/symclient"
	apps "k8s.io/api/apps/v1"
	metav1 "k8s.io/apimachinery/pkg/apis/meta/v1"
	"k8s.io/apimachinery/pkg/types"
)

func VerifC05_CanaryStableFinalizeResumesDeployment() {
	R := int32(verifrt.IntRange("R", 1, 1000))
	d := &apps.Deployment{ObjectMeta: metav1.ObjectMeta{Namespace: "ns", Name: "w", Generation: 3}}
	d.Spec.Replicas = &R
	d.Spec.Paused = true
	// 0: Initialize has not run yet (no control annotation), 1: claimed by this release, 2: annotation of another owner
	switch verifrt.IntRange("control.annotation", 0, 2) {
	case 1:
		d.Annotations = map[string]string{util.BatchReleaseControlAnnotation: `{"apiVersion":"rollouts.kruise.io/v1beta1","kind":"BatchRelease","name":"br","uid":"uid-1","controller":true,"blockOwnerDeletion":true}`}
	case 2:
		d.Annotations = map[string]string{util.BatchReleaseControlAnnotation: `{"apiVersion":"rollouts.kruise.io/v1beta1","kind":"BatchRelease","name":"br-old","uid":"uid-0","controller":true,"blockOwnerDeletion":true}`}
	}
	cli := &symclient.Client{}
	key := types.NamespacedName{Namespace: "ns", Name: "w"}
	rc := &realController{realStableController: newStable(cli, key), realCanaryController: newCanary(cli, key)}
	rc.stableObject = d
	rc.stableInfo = util.ParseWorkload(d)
	release := &v1beta1.BatchRelease{TypeMeta: metav1.TypeMeta{APIVersion: "rollouts.kruise.io/v1beta1", Kind: "BatchRelease"},
		ObjectMeta: metav1.ObjectMeta{Namespace: "ns", Name: "br", UID: "uid-1"}}
	keep := verifrt.Bool("finalize.keepPartition")
	if keep {
		p := int32(1)
		release.Spec.ReleasePlan.BatchPartition = &p
	}
	err := rc.realStableController.Finalize(release)
	verifrt.Assert(err == nil, "C05.canarystable.finalize.noError")
	ws := cli.Writes("patch", "Deployment")
	verifrt.Assert(len(ws) == 1 && len(cli.Log) == 1, "C05.canarystable.finalize.onePatch")
	if len(ws) != 1 {
		return
	}
	get := func(path ...string) string {
		v, ok := verifrt.JSONGet(ws[0].Body, path...)
		if !ok {
			return "<absent>"
		}
		return v
	}
	verifrt.Assert(ws[0].Obj.GetName() == "w" && ws[0].Obj.GetNamespace() == "ns", "C05.canarystable.finalize.patchesTheWorkload")
	verifrt.Assert(get("metadata", "annotations", util.BatchReleaseControlAnnotation) == "null", "C05.canarystable.finalize.controlMarkerRemoved")
	if keep {
		verifrt.Assert(get("spec", "paused") == "true", "C05.canarystable.finalize.staysPausedForContinuousRelease")
	} else {
		verifrt.Assert(get("spec", "paused") == "false", "C05.canarystable.finalize.unpaused")
	}
}

// VerifC07_CanaryStableFinalizeWaitsOnlyWhenAsked: the stable Deployment's Finalize reports "not finished, come again"
// (an error, which keeps the BatchRelease in Finalizing) only when the plan asks to wait for the resume
// (finalizingPolicy WaitResume) and the Deployment the API server returned from the patch is not fully upgraded yet.
// With any other policy — Immediate, or the field left empty, which the API documents as Immediate and which is what a
// release deleted mid-plan carries — it never waits: with batchPartition still set the same patch leaves the Deployment
// paused, so a wait there is a wait nothing will ever end.
func VerifC07_CanaryStableFinalizeWaitsOnlyWhenAsked() {
	R := int32(verifrt.IntRange("R", 1, 1000))
	d := &apps.Deployment{ObjectMeta: metav1.ObjectMeta{Namespace: "ns", Name: "w", Generation: 3}}
	d.Spec.Replicas = &R
	d.Spec.Paused = true
	d.Status.Replicas = int32(verifrt.IntRange("st.replicas", 0, 1000))
	d.Status.UpdatedReplicas = int32(verifrt.IntRange("st.updated", 0, 1000))
	d.Status.AvailableReplicas = int32(verifrt.IntRange("st.available", 0, 1000))
	verifrt.Assume(d.Status.UpdatedReplicas <= d.Status.Replicas && d.Status.AvailableReplicas <= d.Status.Replicas)
	cli := &symclient.Client{}
	// the API server answers a patch with the patched object
	cli.ApplyFn = func(w symclient.Write) {
		out, ok := w.Obj.(*apps.Deployment)
		if !ok || w.Verb != "patch" {
			return
		}
		paused, _ := verifrt.JSONGet(w.Body, "spec", "paused")
		d.DeepCopyInto(out)
		out.Spec.Paused = paused == "true"
	}
	key := types.NamespacedName{Namespace: "ns", Name: "w"}
	rc := &realController{realStableController: newStable(cli, key), realCanaryController: newCanary(cli, key)}
	rc.stableObject = d
	rc.stableInfo = util.ParseWorkload(d)
	release := &v1beta1.BatchRelease{TypeMeta: metav1.TypeMeta{APIVersion: "rollouts.kruise.io/v1beta1", Kind: "BatchRelease"},
		ObjectMeta: metav1.ObjectMeta{Namespace: "ns", Name: "br", UID: "uid-1"}}
	policy := []v1beta1.FinalizingPolicyType{"", v1beta1.ImmediateFinalizingPolicyType, v1beta1.WaitResumeFinalizingPolicyType}[verifrt.IntRange("finalizingPolicy", 0, 2)]
	release.Spec.ReleasePlan.FinalizingPolicy = policy
	keep := verifrt.Bool("finalize.keepPartition")
	if keep {
		p := int32(1)
		release.Spec.ReleasePlan.BatchPartition = &p
	}
	// the Rollout controller sets WaitResume together with batchPartition = nil (finalizingBatchRelease)
	verifrt.Assume(!(policy == v1beta1.WaitResumeFinalizingPolicyType && keep))
	err := rc.realStableController.Finalize(release)
	if policy != v1beta1.WaitResumeFinalizingPolicyType {
		verifrt.Cover("no-wait")
		verifrt.Assert(err == nil, "C07.canarystable.finalize.noWaitUnlessThePlanAsksForIt")
		return
	}
	verifrt.Cover("wait-resume")
	upgraded := d.Status.Replicas == d.Status.UpdatedReplicas && d.Status.AvailableReplicas >= d.Status.Replicas
	if upgraded {
		verifrt.Assert(err == nil, "C07.canarystable.finalize.noWaitOnceUpgraded")
	}
	if d.Status.Replicas != d.Status.UpdatedReplicas {
		verifrt.Assert(err != nil, "C07.canarystable.finalize.waitsWhileNotUpgraded")
	}
}
