package deployment

// C06 — releasing the canary Deployment (removing its finalizer) under API faults: Delete reports success only when
// every canary Deployment of the release has lost the finalizer; a failed Get/Update is never swallowed.

import (
	"github.com/openkruise/rollouts/api/v1beta1"
	"github.com/openkruise/rollouts/pkg/util"
	"github.com/openkruise/rollouts/pkg/verifrt"
	"github.com/openkruise/rollouts/pkg/verifrt/symclient"
	apps "k8s.io/api/apps/v1"
	apierrors "k8s.io/apimachinery/pkg/api/errors"
	metav1 "k8s.io/apimachinery/pkg/apis/meta/v1"
	"k8s.io/apimachinery/pkg/types"
	"sigs.k8s.io/controller-runtime/pkg/client"
)

func VerifC06_CanaryDeleteFaults() {
	release := &v1beta1.BatchRelease{TypeMeta: metav1.TypeMeta{APIVersion: "rollouts.kruise.io/v1beta1", Kind: "BatchRelease"},
		ObjectMeta: metav1.ObjectMeta{Namespace: "shop", Name: "br", UID: "br-uid"}}
	isCtrl := true
	n := verifrt.Concrete(verifrt.IntRange("canaries", 1, 2))
	cli := &symclient.Client{Faults: true, Conflicts: true, NotFoundOnWrite: true}
	cli.ApplyFn = cli.ApplyToStore
	names := []string{"orders-abc", "orders-def"}
	for i := 0; i < n; i++ {
		d := &apps.Deployment{ObjectMeta: metav1.ObjectMeta{Namespace: "shop", Name: names[i], UID: types.UID("c-uid-" + names[i]),
			OwnerReferences: []metav1.OwnerReference{{APIVersion: "rollouts.kruise.io/v1beta1", Kind: "BatchRelease", Name: "br", UID: "br-uid", Controller: &isCtrl}}}}
		if verifrt.Bool("canary.hasFinalizer") {
			d.Finalizers = []string{util.CanaryDeploymentFinalizer}
		}
		// a canary Deployment that is already being deleted (foreground deletion of its owner, or by hand) is waiting
		// for exactly this finalizer to go
		if verifrt.Bool("canary.terminating") {
			now := metav1.Now()
			d.DeletionTimestamp = &now
		}
		if verifrt.Bool("canary.hasOtherFinalizer") {
			d.Finalizers = append(d.Finalizers, "example.com/keep")
		}
		cli.Objects = append(cli.Objects, d)
	}
	cli.ListFn = func(list client.ObjectList, opts []client.ListOption) error {
		if l, ok := list.(*apps.DeploymentList); ok {
			for _, o := range cli.Objects {
				if d, ok := o.(*apps.Deployment); ok {
					l.Items = append(l.Items, *d.DeepCopy())
				}
			}
		}
		return nil
	}
	key := types.NamespacedName{Namespace: "shop", Name: "orders"}
	rc := newCanary(cli, key)
	err := rc.Delete(release)
	if err != nil {
		verifrt.Cover("C06.canaryDelete.errorReported")
		return
	}
	for i := 0; i < n; i++ {
		o := cli.Find("Deployment", "shop", names[i])
		if o == nil {
			continue
		}
		has := false
		other := false
		for _, f := range o.GetFinalizers() {
			if f == util.CanaryDeploymentFinalizer {
				has = true
			}
			if f == "example.com/keep" {
				other = true
			}
		}
		verifrt.Assert(!has, "C06.canaryDelete.successMeansFinalizerRemoved")
		_ = other
	}
	verifrt.Cover("C06.canaryDelete.done")
}

// C18: Finalize of a canary-style release is over (the release may go Completed and lose its own finalizer) only when
// every canary Deployment it generated — the ones already terminating included — has been released.
func VerifC18_CanaryDeleteReleasesEveryCanaryDeployment() { VerifC06_CanaryDeleteFaults() }

// VerifC06_BuildCanaryControllerUnderFaults: the canary Deployment is re-discovered on every reconcile by owner and
// template. With every API call allowed to fail, "not found" (the answer that makes Initialize create a canary
// Deployment) is given only when the release really owns no live canary Deployment: a failed List is reported as an
// error, never as absence.
func VerifC06_BuildCanaryControllerUnderFaults() {
	release := &v1beta1.BatchRelease{TypeMeta: metav1.TypeMeta{APIVersion: "rollouts.kruise.io/v1beta1", Kind: "BatchRelease"},
		ObjectMeta: metav1.ObjectMeta{Namespace: "shop", Name: "br", UID: "br-uid"}}
	isCtrl := true
	stable := &apps.Deployment{ObjectMeta: metav1.ObjectMeta{Namespace: "shop", Name: "orders", UID: "wl-uid"}}
	three := int32(3)
	stable.Spec.Replicas = &three
	stable.Spec.Template.Labels = map[string]string{"app": "orders", "ver": "v2"}
	cli := &symclient.Client{Faults: true, Objects: []client.Object{stable}}
	hasCanary := verifrt.Bool("canary.exists")
	if hasCanary {
		d := &apps.Deployment{ObjectMeta: metav1.ObjectMeta{Namespace: "shop", Name: "orders-abc", UID: "c-uid",
			OwnerReferences: []metav1.OwnerReference{{APIVersion: "rollouts.kruise.io/v1beta1", Kind: "BatchRelease", Name: "br", UID: "br-uid", Controller: &isCtrl}}}}
		d.Spec.Replicas = &three
		d.Spec.Template = *stable.Spec.Template.DeepCopy()
		cli.Objects = append(cli.Objects, d)
	}
	cli.ListFn = func(list client.ObjectList, opts []client.ListOption) error {
		if l, ok := list.(*apps.DeploymentList); ok {
			for _, o := range cli.Objects {
				if d, ok := o.(*apps.Deployment); ok && d.Name != "orders" {
					l.Items = append(l.Items, *d.DeepCopy())
				}
			}
		}
		return nil
	}
	key := types.NamespacedName{Namespace: "shop", Name: "orders"}
	rc := &realController{realStableController: newStable(cli, key), realCanaryController: newCanary(cli, key)}
	_, err := rc.BuildCanaryController(release)
	if err == nil {
		verifrt.Assert(hasCanary && rc.canaryObject != nil && rc.canaryObject.Name == "orders-abc", "C06.buildCanary.foundOnlyWhatExists")
		verifrt.Cover("C06.buildCanary.found")
		return
	}
	if apierrors.IsNotFound(err) {
		verifrt.Assert(!hasCanary, "C06.buildCanary.notFoundOnlyWhenReallyAbsent")
		verifrt.Cover("C06.buildCanary.notFound")
		return
	}
	verifrt.Cover("C06.buildCanary.errorReported")
}
