package canarystyle

// C11 — the canary-style control plane reports a batch ready only when the stable workload has no replicas, or the
// canary workload has been observed by its controller and the batch context passes IsBatchReady.

import (
	"github.com/openkruise/rollouts/api/v1beta1"
	batchcontext "github.com/openkruise/rollouts/pkg/controller/batchrelease/context"
	"github.com/openkruise/rollouts/pkg/controller/batchrelease/control"
	"github.com/openkruise/rollouts/pkg/util"
	"github.com/openkruise/rollouts/pkg/verifrt"
	metav1 "k8s.io/apimachinery/pkg/apis/meta/v1"
)

type c11Ctl struct {
	c18Ctl
	stable, canary *util.WorkloadInfo
	ctx            *batchcontext.BatchContext
	upgrades       int
}

func (c *c11Ctl) GetCanaryInfo() *util.WorkloadInfo { return c.canary }
func (c *c11Ctl) GetStableInfo() *util.WorkloadInfo { return c.stable }
func (c *c11Ctl) UpgradeBatch(*batchcontext.BatchContext) error {
	c.upgrades++
	return nil
}
func (c *c11Ctl) BuildStableController() (StableInterface, error) { return c, nil }
func (c *c11Ctl) BuildCanaryController(*v1beta1.BatchRelease) (CanaryInterface, error) {
	return c, nil
}
func (c *c11Ctl) CalculateBatchContext(*v1beta1.BatchRelease) (*batchcontext.BatchContext, error) {
	return c.ctx, nil
}

type c11Patcher struct{}

func (c11Patcher) PatchPodBatchLabel(ctx *batchcontext.BatchContext) error { return nil }

func c11Plane() (*realCanaryController, *c11Ctl) {
	R := int32(verifrt.IntRange("spec.replicas", 0, 1000))
	stable := &util.WorkloadInfo{Replicas: R}
	stable.Status.Replicas = int32(verifrt.IntRange("status.replicas", 0, 2000))
	canary := &util.WorkloadInfo{}
	canary.Generation = 5
	canary.Status.ObservedGeneration = int64(verifrt.IntRange("canary.observedGeneration", 4, 5))
	ctx := &batchcontext.BatchContext{
		Replicas:               R,
		UpdatedReplicas:        int32(verifrt.IntRange("status.updated", 0, 2000)),
		UpdatedReadyReplicas:   int32(verifrt.IntRange("status.updatedReady", 0, 2000)),
		PlannedUpdatedReplicas: int32(verifrt.IntRange("planned", 0, 1000)),
		DesiredUpdatedReplicas: int32(verifrt.IntRange("desired", 0, 1000)),
	}
	ctl := &c11Ctl{stable: stable, canary: canary, ctx: ctx}
	release := &v1beta1.BatchRelease{ObjectMeta: metav1.ObjectMeta{Namespace: "ns", Name: "br", UID: "uid-1"}}
	return &realCanaryController{Interface: ctl, patcher: c11Patcher{}, release: release, newStatus: &release.Status}, ctl
}

func VerifC11_CanaryStylePlaneReadyMeansBatchReady() {
	rc, ctl := c11Plane()
	err := rc.EnsureBatchPodsReadyAndLabeled()
	if err != nil {
		verifrt.Cover("not-ready")
		return
	}
	verifrt.Cover("ready")
	ok := ctl.stable.Replicas == 0 || (ctl.canary.IsStable() && ctl.ctx.IsBatchReady() == nil)
	verifrt.Assert(ok, "C11.canarystyle.plane.readyOnlyIfBatchReadyOrNoReplicas")
}

func VerifC11_CanaryStylePlaneUpgradesUnlessNoReplicas() {
	rc, ctl := c11Plane()
	err := rc.UpgradeBatch()
	if err != nil {
		verifrt.Assert(!ctl.canary.IsStable(), "C11.canarystyle.plane.upgrade.errorOnlyWhileCanaryUnobserved")
		return
	}
	verifrt.Assert(ctl.upgrades == 1 || ctl.stable.Replicas == 0, "C11.canarystyle.plane.upgradeSkippedOnlyWithoutReplicas")
}

// VerifC11_CanaryStylePlaneInitializeRecordsTheWorkload: as for the other styles — the observed size of the stable
// workload and the revisions are written to the status that is persisted.
func VerifC11_CanaryStylePlaneInitializeRecordsTheWorkload() {
	rc, ctl := c11Plane()
	ctl.stable.Status.StableRevision = "rev-1"
	ctl.canary.Status.UpdateRevision = "rev-2"
	rc.newStatus = &v1beta1.BatchReleaseStatus{ObservedWorkloadReplicas: -1}
	rc.release.Status.ObservedWorkloadReplicas = -1
	err := rc.Initialize()
	if err != nil {
		return
	}
	verifrt.Assert(rc.newStatus.ObservedWorkloadReplicas == ctl.stable.Replicas, "C11.canarystyle.plane.initialize.observesTheWorkloadSize")
	verifrt.Assert(rc.newStatus.StableRevision == "rev-1" && rc.newStatus.UpdateRevision == "rev-2", "C11.canarystyle.plane.initialize.observesTheRevisions")
}

// VerifC11_CanaryStylePlaneClassifiesWorkloadChanges: the canary style's verdict about the stable Deployment at the
// top of every round, ranked as for the other styles: still reconciling, promoted (nothing to do), then a change of
// size reported as such — with the new size — whatever else changed, then a template change.
func VerifC11_CanaryStylePlaneClassifiesWorkloadChanges() {
	rc, ctl := c11Plane()
	info := ctl.stable
	info.Generation = 5
	info.Status.ObservedGeneration = int64(verifrt.IntRange("status.observedGeneration", 4, 5))
	info.Status.UpdatedReplicas = int32(verifrt.IntRange("stable.updated", 0, 2000))
	info.Status.UpdateRevision = []string{"rev-2", "rev-3"}[verifrt.IntRange("wl.updateRevision", 0, 1)]
	rc.newStatus.UpdateRevision = []string{"", "rev-2"}[verifrt.IntRange("observed.updateRevision", 0, 1)]
	rc.newStatus.ObservedWorkloadReplicas = int32(verifrt.IntRange("observed.replicas", -1, 1000))
	event, got, err := rc.SyncWorkloadInformation()
	verifrt.Assert(err == nil && got != nil, "C11.canarystyle.plane.sync.noError")
	if err != nil || got == nil {
		return
	}
	stable := info.Status.ObservedGeneration >= info.Generation
	promoted := info.Status.Replicas == info.Status.UpdatedReplicas
	scaled := rc.newStatus.ObservedWorkloadReplicas != -1 && info.Replicas != rc.newStatus.ObservedWorkloadReplicas
	changed := rc.newStatus.UpdateRevision != "" && info.Status.UpdateRevision != rc.newStatus.UpdateRevision
	switch {
	case !stable:
		verifrt.Assert(event == control.WorkloadStillReconciling, "C11.canarystyle.plane.sync.stillReconcilingFirst")
	case promoted:
		verifrt.Assert(event == control.WorkloadNormalState, "C11.canarystyle.plane.sync.promotedNeedsNothing")
	case scaled:
		verifrt.Cover("scaled")
		verifrt.Assert(event == control.WorkloadReplicasChanged, "C11.canarystyle.plane.sync.sizeChangeAlwaysReportedAsSuch")
		verifrt.Assert(got.Replicas == info.Replicas, "C11.canarystyle.plane.sync.sizeChangeCarriesTheNewSize")
	case changed:
		verifrt.Cover("template-changed")
		verifrt.Assert(event == control.WorkloadPodTemplateChanged && got.Status.UpdateRevision == info.Status.UpdateRevision, "C11.canarystyle.plane.sync.templateChangeReported")
	default:
		verifrt.Assert(event != control.WorkloadReplicasChanged && event != control.WorkloadPodTemplateChanged && event != control.WorkloadStillReconciling, "C11.canarystyle.plane.sync.nothingReportedWithoutAChange")
	}
}
