package canarystyle

// C18/C05 — canary-style Finalize reports done only after the stable workload was released and the canary
// Deployments it generated were handed to deletion (their finalizers removed), whatever look-ups fail on the way.

import (
	"fmt"

	"github.com/openkruise/rollouts/api/v1beta1"
	batchcontext "github.com/openkruise/rollouts/pkg/controller/batchrelease/context"
	"github.com/openkruise/rollouts/pkg/util"
	"github.com/openkruise/rollouts/pkg/verifrt"
	apierrors "k8s.io/apimachinery/pkg/api/errors"
	metav1 "k8s.io/apimachinery/pkg/apis/meta/v1"
	"k8s.io/apimachinery/pkg/runtime/schema"
)

type c18Ctl struct {
	calls                               []string
	stableBuild, canaryBuild            int // 0 ok, 1 NotFound, 2 other error
	stableFinalizeErr, canaryDeleteErr  bool
}

var c18Err = fmt.Errorf("injected error")

func c18BuildErr(k int) error {
	switch k {
	case 1:
		return apierrors.NewNotFound(schema.GroupResource{Group: "apps", Resource: "deployments"}, "w")
	case 2:
		return c18Err
	}
	return nil
}

func (c *c18Ctl) GetCanaryInfo() *util.WorkloadInfo { return &util.WorkloadInfo{} }
func (c *c18Ctl) UpgradeBatch(*batchcontext.BatchContext) error { return nil }
func (c *c18Ctl) Create(*v1beta1.BatchRelease) error { return nil }
func (c *c18Ctl) Delete(*v1beta1.BatchRelease) error {
	c.calls = append(c.calls, "canary.Delete")
	if c.canaryDeleteErr {
		return c18Err
	}
	return nil
}
func (c *c18Ctl) GetStableInfo() *util.WorkloadInfo { return &util.WorkloadInfo{} }
func (c *c18Ctl) Initialize(*v1beta1.BatchRelease) error { return nil }
func (c *c18Ctl) Finalize(*v1beta1.BatchRelease) error {
	c.calls = append(c.calls, "stable.Finalize")
	if c.stableFinalizeErr {
		return c18Err
	}
	return nil
}
func (c *c18Ctl) BuildStableController() (StableInterface, error) { return c, c18BuildErr(c.stableBuild) }
func (c *c18Ctl) BuildCanaryController(*v1beta1.BatchRelease) (CanaryInterface, error) {
	return c, c18BuildErr(c.canaryBuild)
}
func (c *c18Ctl) CalculateBatchContext(*v1beta1.BatchRelease) (*batchcontext.BatchContext, error) {
	return &batchcontext.BatchContext{}, nil
}

func (c *c18Ctl) index(name string) int {
	for i, x := range c.calls {
		if x == name {
			return i
		}
	}
	return -1
}

func VerifC18_CanaryStyleFinalize() {
	ctl := &c18Ctl{stableBuild: verifrt.IntRange("stableBuild", 0, 2), canaryBuild: verifrt.IntRange("canaryBuild", 0, 2),
		stableFinalizeErr: verifrt.Bool("stableFinalizeErr"), canaryDeleteErr: verifrt.Bool("canaryDeleteErr")}
	release := &v1beta1.BatchRelease{ObjectMeta: metav1.ObjectMeta{Namespace: "ns", Name: "br", UID: "uid-1"}}
	rc := &realCanaryController{Interface: ctl, release: release, newStatus: &release.Status}
	err := rc.Finalize()
	if err != nil {
		verifrt.Cover("retry")
		return
	}
	verifrt.Cover("finalize-done")
	// a read that failed with anything but NotFound is never turned into "done" (C06: the step is retried instead)
	verifrt.Assert(ctl.stableBuild != 2 && ctl.canaryBuild != 2, "C06.canarystyle.plane.failedReadIsReported")
	s, d := ctl.index("stable.Finalize"), ctl.index("canary.Delete")
	verifrt.Assert(s >= 0 && !ctl.stableFinalizeErr, "C18.canarystyle.finalize.doneOnlyAfterStableReleased")
	verifrt.Assert(d >= 0 && !ctl.canaryDeleteErr, "C18.canarystyle.finalize.doneOnlyAfterCanaryDeploymentsReleased")
	verifrt.Assert(s < d, "C18.canarystyle.finalize.stableBeforeCanary")
}

func VerifC06_CanaryStylePlaneFailedReadIsNeverSuccess() { VerifC18_CanaryStyleFinalize() }
