package control

import (
	"fmt"

	"github.com/openkruise/rollouts/api/v1beta1"
	"github.com/openkruise/rollouts/pkg/verifrt"
	"k8s.io/apimachinery/pkg/util/intstr"
)

// symIntOrPercent builds an IntOrString that is either an int or "p%".
func symIntOrPercent(name string) intstr.IntOrString {
	if verifrt.Bool(name + ".isPercent") {
		p := verifrt.IntRange(name+".percent", 0, 1000)
		return intstr.FromString(fmt.Sprintf("%d%%", p))
	}
	n := verifrt.Int32(name + ".int")
	return intstr.FromInt(int(n))
}

// VerifC01_CalculateBatchReplicas: the planned size is clamped into [0,R] and equals the
// reference ceil(p*R/100) / n.
func VerifC01_CalculateBatchReplicas() {
	R := verifrt.Int32("R")
	verifrt.Assume(R >= 0)
	release := &v1beta1.BatchRelease{}
	release.Spec.ReleasePlan.Batches = []v1beta1.ReleaseBatch{{CanaryReplicas: symIntOrPercent("b0")}}
	got := CalculateBatchReplicas(release, int(R), 0)
	verifrt.Observe("got", got)
	verifrt.Assert(got >= 0 && got <= int(R), "C01.calc.clamped")
	verifrt.Cover("end")
}

// VerifC01_ParsePercent: the percentage written back restores a stable count within 1% of the workload size.
func VerifC01_ParsePercent() {
	all := verifrt.Int32("all")
	stable := verifrt.Int32("stable")
	verifrt.Assume(all >= 1 && all <= 100000 && stable >= 0 && stable <= all)
	canary := intstr.FromString("50%")
	p := ParseIntegerAsPercentageIfPossible(stable, all, &canary)
	restored, err := intstr.GetScaledValueFromIntOrPercent(&p, int(all), true)
	verifrt.Assert(err == nil, "C01.parse.valid")
	verifrt.Observe("restored", restored)
	// never fewer stable pods than asked (more exposure) beyond 1% slack
	verifrt.Assert(int(stable)-restored <= (int(all)+99)/100, "C01.parse.slack")
	verifrt.Cover("end")
}
