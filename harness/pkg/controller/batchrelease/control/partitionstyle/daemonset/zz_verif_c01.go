package daemonset

// C01/C07 obligations for partition-style Advanced DaemonSets.

import (
	"strconv"

	kruiseappsv1alpha1 "github.com/openkruise/kruise-api/apps/v1alpha1"
	"github.com/openkruise/rollouts/api/v1beta1"
	"github.com/openkruise/rollouts/pkg/util"
	"github.com/openkruise/rollouts/pkg/verifrt"
	"github.com/openkruise/rollouts/pkg/verifrt/symclient"
	"github.com/openkruise/rollouts/pkg/verifrt/vh"
	metav1 "k8s.io/apimachinery/pkg/apis/meta/v1"
	"k8s.io/apimachinery/pkg/types"
)

func vSetup(withNoNeed bool, allowNilRolling bool) (*realController, *v1beta1.BatchRelease, *symclient.Client, int, int, int, int) {
	R := verifrt.IntRange("R", 0, vh.MaxR())
	cur := 0
	ds := &kruiseappsv1alpha1.DaemonSet{ObjectMeta: metav1.ObjectMeta{Namespace: "ns", Name: "w", Generation: 3}}
	if !allowNilRolling || verifrt.Bool("hasRollingUpdate") {
		ds.Spec.UpdateStrategy.RollingUpdate = &kruiseappsv1alpha1.RollingUpdateDaemonSet{}
		if verifrt.Bool("hasPartition") {
			cur = verifrt.IntRange("curPartition", 0, vh.MaxR())
			c32 := int32(cur)
			ds.Spec.UpdateStrategy.RollingUpdate.Partition = &c32
		}
	}
	ds.Status.DesiredNumberScheduled = int32(R)
	cli := &symclient.Client{}
	rc := &realController{client: cli, key: types.NamespacedName{Namespace: "ns", Name: "w"}, object: ds}
	rc.WorkloadInfo = util.ParseWorkload(ds)
	nn, N := vh.NoNeed(withNoNeed, R)
	release, ref, _ := vh.Release(R-N, nn)
	return rc, release, cli, R, ref, N, cur
}

func VerifC01_DaemonSetBatchContext() {
	rc, release, _, R, ref, _, _ := vSetup(false, false)
	ctx, err := rc.CalculateBatchContext(release)
	verifrt.Assert(err == nil && ctx != nil, "C01.daemonset.context.noerror")
	if ctx == nil {
		return
	}
	verifrt.Assert(int(ctx.PlannedUpdatedReplicas) == ref, "C01.daemonset.planned.equalsReference")
	verifrt.Assert(int(ctx.DesiredUpdatedReplicas) <= ref, "C01.daemonset.desired.withinPlan")
	allowed := R - int(ctx.DesiredPartition.IntVal)
	verifrt.Assert(allowed <= ref, "C01.daemonset.partition.exposureWithinPlan")
	verifrt.Cover("done")
}

func VerifC01_DaemonSetBatchContextRollback() {
	rc, release, _, R, ref, N, _ := vSetup(true, false)
	ctx, err := rc.CalculateBatchContext(release)
	verifrt.Assert(err == nil && ctx != nil, "C01.daemonset.rollback.context.noerror")
	if ctx == nil {
		return
	}
	verifrt.Assert(int(ctx.DesiredUpdatedReplicas)-N <= ref, "C01.daemonset.rollback.desired.withinPlan")
	allowed := R - int(ctx.DesiredPartition.IntVal)
	verifrt.Assert(allowed-N <= ref, "C01.daemonset.rollback.partition.exposureWithinPlan")
	verifrt.Cover("done")
}

func VerifC07_DaemonSetTargetSuffices() {
	rc, release, _, R, _, _, _ := vSetup(false, false)
	ctx, err := rc.CalculateBatchContext(release)
	if err != nil || ctx == nil {
		return
	}
	updated := R - int(ctx.DesiredPartition.IntVal)
	ctx.UpdatedReplicas = int32(updated)
	ctx.UpdatedReadyReplicas = int32(updated)
	verifrt.Assert(ctx.IsBatchReady() == nil, "C07.daemonset.targetSufficesForReadiness")
	verifrt.Cover("done")
}

func VerifC01_DaemonSetUpgradeBatch() {
	rc, release, cli, _, _, _, cur := vSetup(false, false)
	ctx, err := rc.CalculateBatchContext(release)
	if err != nil || ctx == nil {
		return
	}
	err = rc.UpgradeBatch(ctx)
	verifrt.Assert(err == nil, "C01.daemonset.upgrade.noerror")
	verifrt.Assert(len(cli.Log) <= 1, "C01.daemonset.upgrade.onlyOnePatch")
	if len(cli.Log) == 1 {
		verifrt.Cover("patched")
		s, ok := verifrt.JSONGet(cli.Log[0].Body, "spec", "updateStrategy", "rollingUpdate", "partition")
		n, e := strconv.Atoi(s)
		verifrt.Assert(ok && e == nil, "C01.daemonset.upgrade.patchHasPartition")
		verifrt.Assert(n <= cur, "C01.daemonset.upgrade.neverMovesBack")
		verifrt.Assert(n == int(ctx.DesiredPartition.IntVal), "C01.daemonset.upgrade.writesDesiredPartition")
	} else {
		verifrt.Cover("no-patch")
		verifrt.Assert(cur <= int(ctx.DesiredPartition.IntVal), "C01.daemonset.upgrade.skipOnlyIfAlreadyThere")
	}
}

// C11: readiness is judged against the pods the batch really calls for: the batch context's targets equal the
// reference computed from the plan (obligations of the C01 batch-context harness of this workload kind).
func VerifC11_DaemonSetReadinessTarget() { VerifC01_DaemonSetBatchContext() }
