package deployment

// C01/C07 obligations for partition-style (advanced) Deployments: the knob is the partition stored in the
// rollouts.kruise.io/deployment-strategy annotation.

import (
	"fmt"
	"strconv"
	"strings"

	"github.com/openkruise/rollouts/api/v1alpha1"
	"github.com/openkruise/rollouts/pkg/util"
	"github.com/openkruise/rollouts/pkg/verifrt"
	"github.com/openkruise/rollouts/pkg/verifrt/symclient"
	"github.com/openkruise/rollouts/pkg/verifrt/vh"
	apps "k8s.io/api/apps/v1"
	metav1 "k8s.io/apimachinery/pkg/apis/meta/v1"
	"k8s.io/apimachinery/pkg/types"
	"k8s.io/apimachinery/pkg/util/intstr"
)

// newRSLimit: reference for the pods a partition value lets the advanced deployment controller put on the new revision
func vLimit(p intstr.IntOrString, R int) int {
	if p.Type == intstr.Int {
		n := int(p.IntVal)
		if n > R {
			n = R
		}
		if n < 0 {
			n = 0
		}
		return n
	}
	pc, err := strconv.Atoi(strings.TrimSuffix(p.StrVal, "%"))
	verifrt.Assert(err == nil && strings.HasSuffix(p.StrVal, "%"), "C01.partdeploy.partitionWellFormed")
	n := (pc*R + 99) / 100
	if n > R {
		n = R
	}
	return n
}

func vSetup() (*realController, *symclient.Client, int, intstr.IntOrString) {
	R := verifrt.IntRange("R", 0, vh.MaxR())
	R32 := int32(R)
	var cur intstr.IntOrString
	if verifrt.Bool("cur.isPercent") {
		cur = intstr.FromString(fmt.Sprintf("%d%%", verifrt.IntRange("cur.percent", 0, 100)))
	} else {
		cur = intstr.FromInt(verifrt.IntRange("cur.int", 0, vh.MaxR()))
	}
	strategy := v1alpha1.DeploymentStrategy{RollingStyle: v1alpha1.PartitionRollingStyle, Partition: cur}
	d := &apps.Deployment{ObjectMeta: metav1.ObjectMeta{Namespace: "ns", Name: "w", Generation: 3, Annotations: map[string]string{
		util.BatchReleaseControlAnnotation:    "{}",
		v1alpha1.DeploymentStrategyAnnotation: util.DumpJSON(&strategy),
	}}}
	d.Spec.Replicas = &R32
	d.Spec.Paused = true
	d.Spec.Strategy.Type = apps.RecreateDeploymentStrategyType
	d.Status.Replicas = R32
	cli := &symclient.Client{}
	rc := &realController{client: cli, key: types.NamespacedName{Namespace: "ns", Name: "w"}, object: d}
	rc.WorkloadInfo = util.ParseWorkload(d)
	return rc, cli, R, cur
}

func VerifC01_PartitionDeploymentBatch() {
	rc, cli, R, cur := vSetup()
	release, ref, isPct := vh.Release(R, nil)
	ctx, err := rc.CalculateBatchContext(release)
	verifrt.Assert(err == nil && ctx != nil, "C01.partdeploy.context.noerror")
	if ctx == nil {
		return
	}
	verifrt.Assert(int(ctx.DesiredUpdatedReplicas) <= ref, "C01.partdeploy.desired.withinPlan")
	err = rc.UpgradeBatch(ctx)
	verifrt.Assert(err == nil, "C01.partdeploy.upgrade.noerror")
	verifrt.Assert(len(cli.Log) <= 1, "C01.partdeploy.upgrade.onlyOnePatch")
	if len(cli.Log) == 1 {
		verifrt.Cover("patched")
		anno, ok := verifrt.JSONGet(cli.Log[0].Body, "metadata", "annotations", v1alpha1.DeploymentStrategyAnnotation)
		verifrt.Assert(ok, "C01.partdeploy.upgrade.patchHasStrategyAnnotation")
		s, ok2 := verifrt.JSONGet(anno, "partition")
		verifrt.Assert(ok2, "C01.partdeploy.upgrade.strategyHasPartition")
		var part intstr.IntOrString
		if strings.HasSuffix(s, "%") {
			part = intstr.FromString(s)
		} else {
			n, e := strconv.Atoi(s)
			verifrt.Assert(e == nil, "C01.partdeploy.upgrade.partitionIsNumber")
			part = intstr.FromInt(n)
		}
		newLimit := vLimit(part, R)
		verifrt.Assert(newLimit <= ref+vh.Slack(isPct, R), "C01.partdeploy.upgrade.exposureWithinPlan")
		verifrt.Assert(newLimit >= vLimit(cur, R), "C01.partdeploy.upgrade.neverMovesBack")
		paused, okp := verifrt.JSONGet(anno, "paused")
		verifrt.Assert(!okp || paused == "false", "C01.partdeploy.upgrade.notPaused")
	} else {
		verifrt.Cover("no-patch")
		verifrt.Assert(vLimit(cur, R) >= int(ctx.DesiredUpdatedReplicas), "C01.partdeploy.upgrade.skipOnlyIfAlreadyThere")
	}
}

func VerifC07_PartitionDeploymentTargetSuffices() {
	rc, _, R, _ := vSetup()
	release, _, _ := vh.Release(R, nil)
	ctx, err := rc.CalculateBatchContext(release)
	if err != nil || ctx == nil {
		return
	}
	// the advanced deployment controller converges the new ReplicaSet to NewRSReplicasLimit(partition) (C17)
	ctx.UpdatedReplicas = ctx.DesiredUpdatedReplicas
	ctx.UpdatedReadyReplicas = ctx.DesiredUpdatedReplicas
	verifrt.Assert(ctx.IsBatchReady() == nil, "C07.partdeploy.targetSufficesForReadiness")
	verifrt.Cover("done")
}

// C11: readiness is judged against the pods the batch really calls for: the batch context's targets equal the
// reference computed from the plan (obligations of the C01 batch-context harness of this workload kind).
func VerifC11_PartitionDeploymentReadinessTarget() { VerifC01_PartitionDeploymentBatch() }
