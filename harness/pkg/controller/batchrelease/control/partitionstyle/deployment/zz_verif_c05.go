package deployment

// C05 — partition-style Deployment: Initialize parks the user's rollingUpdate settings in the strategy annotation
// (the Deployment runs as Recreate + paused while the advanced controller drives it); whatever exit is taken,
// Finalize with batchPartition == nil hands the Deployment back un-paused, as RollingUpdate with exactly the user's
// maxSurge / maxUnavailable, and without the release's annotations and labels.

import (
	"fmt"

	"github.com/openkruise/rollouts/api/v1alpha1"
	"github.com/openkruise/rollouts/api/v1beta1"
	"github.com/openkruise/rollouts/pkg/util"
	"github.com/openkruise/rollouts/pkg/verifrt"
	"github.com/openkruise/rollouts/pkg/verifrt/symclient"
	apps "k8s.io/api/apps/v1"
	metav1 "k8s.io/apimachinery/pkg/apis/meta/v1"
	"k8s.io/apimachinery/pkg/types"
	"k8s.io/apimachinery/pkg/util/intstr"
)

func c05Get(doc string, path ...string) string {
	v, ok := verifrt.JSONGet(doc, path...)
	if !ok {
		return "<absent>"
	}
	return v
}

func VerifC05_PartitionDeploymentRoundTrip() {
	R := int32(verifrt.IntRange("R", 1, 1000))
	userSurge := intstr.FromInt(verifrt.IntRange("user.maxSurge", 0, 1000))
	userUnavailable := intstr.FromInt(verifrt.IntRange("user.maxUnavailable", 0, 1000))
	// the API rejects a Deployment whose maxSurge and maxUnavailable are both 0
	verifrt.Assume(userSurge.IntVal > 0 || userUnavailable.IntVal > 0)
	d0 := &apps.Deployment{ObjectMeta: metav1.ObjectMeta{Namespace: "ns", Name: "w", Generation: 3}}
	d0.Spec.Replicas = &R
	d0.Spec.Strategy.Type = apps.RollingUpdateDeploymentStrategyType
	d0.Spec.Strategy.RollingUpdate = &apps.RollingUpdateDeployment{MaxSurge: &userSurge, MaxUnavailable: &userUnavailable}
	// the workload webhook pauses the Deployment when the release starts
	d0.Spec.Paused = true
	cli := &symclient.Client{}
	rc := &realController{client: cli, key: types.NamespacedName{Namespace: "ns", Name: "w"}, object: d0}
	rc.WorkloadInfo = util.ParseWorkload(d0)
	release := &v1beta1.BatchRelease{TypeMeta: metav1.TypeMeta{APIVersion: "rollouts.kruise.io/v1beta1", Kind: "BatchRelease"},
		ObjectMeta: metav1.ObjectMeta{Namespace: "ns", Name: "br", UID: "uid-1"}}
	if err := rc.Initialize(release); err != nil {
		return
	}
	ws := cli.Writes("patch", "Deployment")
	verifrt.Assert(len(ws) == 1, "C05.partdeploy.initialize.onePatch")
	if len(ws) != 1 {
		return
	}
	saved, ok := verifrt.JSONGet(ws[0].Body, "metadata", "annotations", v1alpha1.DeploymentStrategyAnnotation)
	verifrt.Assert(ok, "C05.partdeploy.initialize.savesStrategy")
	control, ok2 := verifrt.JSONGet(ws[0].Body, "metadata", "annotations", util.BatchReleaseControlAnnotation)
	if !ok || !ok2 {
		return
	}
	// the object as it is stored during the release: Recreate carries no rollingUpdate block (API validation),
	// the partition may have been raised by any number of batches
	mid := d0.DeepCopy()
	mid.Spec.Paused = true
	mid.Spec.Strategy = apps.DeploymentStrategy{Type: apps.RecreateDeploymentStrategyType}
	mid.Labels = map[string]string{v1alpha1.AdvancedDeploymentControlLabel: "true", v1alpha1.DeploymentStableRevisionLabel: "stable-hash"}
	mid.Annotations = map[string]string{v1alpha1.DeploymentStrategyAnnotation: saved, util.BatchReleaseControlAnnotation: control}
	cli2 := &symclient.Client{}
	rc2 := &realController{client: cli2, key: types.NamespacedName{Namespace: "ns", Name: "w"}, object: mid}
	rc2.WorkloadInfo = util.ParseWorkload(mid)
	keep := verifrt.Bool("finalize.keepPartition") // continuous release: batchPartition stays set
	if keep {
		p := int32(1)
		release.Spec.ReleasePlan.BatchPartition = &p
	}
	if err := rc2.Finalize(release); err != nil {
		return
	}
	ws2 := cli2.Writes("patch", "Deployment")
	verifrt.Assert(len(ws2) == 1, "C05.partdeploy.finalize.onePatch")
	if len(ws2) != 1 {
		return
	}
	body := ws2[0].Body
	verifrt.Assert(c05Get(body, "metadata", "annotations", util.BatchReleaseControlAnnotation) == "null", "C05.partdeploy.finalize.controlMarkerRemoved")
	if keep {
		return
	}
	verifrt.Assert(c05Get(body, "spec", "paused") == "false", "C05.partdeploy.finalize.unpaused")
	verifrt.Assert(c05Get(body, "spec", "strategy", "type") == "RollingUpdate", "C05.partdeploy.finalize.rollingUpdateAgain")
	verifrt.Assert(c05Get(body, "spec", "strategy", "rollingUpdate", "maxSurge") == fmt.Sprintf("%d", userSurge.IntVal), "C05.partdeploy.finalize.restoresMaxSurge")
	verifrt.Assert(c05Get(body, "spec", "strategy", "rollingUpdate", "maxUnavailable") == fmt.Sprintf("%d", userUnavailable.IntVal), "C05.partdeploy.finalize.restoresMaxUnavailable")
	verifrt.Assert(c05Get(body, "metadata", "annotations", v1alpha1.DeploymentStrategyAnnotation) == "null", "C05.partdeploy.finalize.strategyAnnotationRemoved")
	verifrt.Assert(c05Get(body, "metadata", "labels", v1alpha1.AdvancedDeploymentControlLabel) == "null", "C05.partdeploy.finalize.controlLabelRemoved")
	verifrt.Assert(c05Get(body, "metadata", "labels", v1alpha1.DeploymentStableRevisionLabel) == "null", "C05.partdeploy.finalize.stableLabelRemoved")
	verifrt.Cover("C05.partdeploy.done")
}

// C18: Finalize returning nil is what lets the BatchRelease go Completed and lose its finalizer: whatever the exit
// (promoted, or deleted / cancelled with the partition still set) a Finalize that succeeds has given the Deployment
// back — the control marker is gone (C05.partdeploy.finalize.controlMarkerRemoved of the round-trip relation).
func VerifC18_PartitionDeploymentFinalizeReleasesTheWorkload() { VerifC05_PartitionDeploymentRoundTrip() }

// VerifC01_PartitionDeploymentInitializeStartsFromZero: for a partition-style Deployment the partition in the strategy
// annotation *is* the number of new-revision pods the advanced controller will run.  A release that takes the
// Deployment over must therefore start it at partition 0 whatever an earlier, withdrawn release left in that
// annotation (a continuous release keeps the annotation: Finalize with batchPartition set only drops the control
// marker) — the first batch raises it from there.  The user's rollingUpdate settings travel on, from spec when the
// Deployment still has them, else from the surviving annotation.
func VerifC01_PartitionDeploymentInitializeStartsFromZero() {
	R := int32(verifrt.IntRange("R", 1, 1000))
	d0 := &apps.Deployment{ObjectMeta: metav1.ObjectMeta{Namespace: "ns", Name: "w", Generation: 3}}
	d0.Spec.Replicas = &R
	d0.Spec.Paused = true
	userSurge := intstr.FromInt(verifrt.IntRange("user.maxSurge", 1, 1000))
	userUnavailable := intstr.FromInt(verifrt.IntRange("user.maxUnavailable", 0, 1000))
	leftover := verifrt.Bool("leftover.strategyAnnotation")
	if leftover {
		// what a withdrawn release left behind: any partition, paused by the webhook when the next revision arrived
		old := v1alpha1.DeploymentStrategy{RollingStyle: v1alpha1.PartitionRollingStyle, Paused: verifrt.Bool("leftover.paused"),
			RollingUpdate: &apps.RollingUpdateDeployment{MaxSurge: &userSurge, MaxUnavailable: &userUnavailable}}
		if verifrt.Bool("leftover.percent") {
			old.Partition = intstr.FromString(fmt.Sprintf("%d%%", verifrt.IntRange("leftover.partition.percent", 0, 100)))
		} else {
			old.Partition = intstr.FromInt(verifrt.IntRange("leftover.partition", 0, 1000))
		}
		d0.Annotations = map[string]string{v1alpha1.DeploymentStrategyAnnotation: util.DumpJSON(&old)}
		d0.Labels = map[string]string{v1alpha1.AdvancedDeploymentControlLabel: "true"}
		d0.Spec.Strategy = apps.DeploymentStrategy{Type: apps.RecreateDeploymentStrategyType}
	} else {
		d0.Spec.Strategy.Type = apps.RollingUpdateDeploymentStrategyType
		d0.Spec.Strategy.RollingUpdate = &apps.RollingUpdateDeployment{MaxSurge: &userSurge, MaxUnavailable: &userUnavailable}
	}
	cli := &symclient.Client{}
	rc := &realController{client: cli, key: types.NamespacedName{Namespace: "ns", Name: "w"}, object: d0}
	rc.WorkloadInfo = util.ParseWorkload(d0)
	release := &v1beta1.BatchRelease{TypeMeta: metav1.TypeMeta{APIVersion: "rollouts.kruise.io/v1beta1", Kind: "BatchRelease"},
		ObjectMeta: metav1.ObjectMeta{Namespace: "ns", Name: "br", UID: "uid-1"}}
	err := rc.Initialize(release)
	verifrt.Assert(err == nil, "C01.partdeploy.initialize.noError")
	ws := cli.Writes("patch", "Deployment")
	verifrt.Assert(len(ws) == 1, "C01.partdeploy.initialize.onePatch")
	if len(ws) != 1 {
		return
	}
	saved, ok := verifrt.JSONGet(ws[0].Body, "metadata", "annotations", v1alpha1.DeploymentStrategyAnnotation)
	verifrt.Assert(ok, "C01.partdeploy.initialize.writesStrategy")
	if !ok {
		return
	}
	verifrt.Assert(c05Get(saved, "partition") == "0", "C01.partdeploy.initialize.startsWithNoNewPods")
	verifrt.Assert(c05Get(saved, "paused") == "<absent>" || c05Get(saved, "paused") == "false", "C01.partdeploy.initialize.notPaused")
	verifrt.Assert(c05Get(saved, "rollingStyle") == string(v1alpha1.PartitionRollingStyle), "C01.partdeploy.initialize.partitionStyle")
	verifrt.Assert(c05Get(saved, "rollingUpdate", "maxSurge") == fmt.Sprintf("%d", userSurge.IntVal) && c05Get(saved, "rollingUpdate", "maxUnavailable") == fmt.Sprintf("%d", userUnavailable.IntVal), "C05.partdeploy.initialize.keepsTheUsersRollingUpdate")
	verifrt.Assert(c05Get(ws[0].Body, "spec", "paused") == "true" && c05Get(ws[0].Body, "spec", "strategy", "type") == "Recreate", "C01.partdeploy.initialize.nativeControllerDisabled")
	if leftover {
		verifrt.Cover("leftover")
	}
}
