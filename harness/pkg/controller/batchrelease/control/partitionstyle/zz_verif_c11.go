package partitionstyle

// C11 — the control plane of this style reports a batch ready only when the workload has no replicas at all (nothing
// to verify) or the batch context computed by the workload controller passes IsBatchReady; and it skips the upgrade
// of a batch only for a workload without replicas.  The workload-specific controller is a harness implementation of
// Interface returning arbitrary workload info and an arbitrary batch context.

import (
	"fmt"
	"github.com/openkruise/rollouts/pkg/controller/batchrelease/control"

	"github.com/openkruise/rollouts/api/v1beta1"
	batchcontext "github.com/openkruise/rollouts/pkg/controller/batchrelease/context"
	"github.com/openkruise/rollouts/pkg/util"
	"github.com/openkruise/rollouts/pkg/verifrt"
	corev1 "k8s.io/api/core/v1"
	apierrors "k8s.io/apimachinery/pkg/api/errors"
	metav1 "k8s.io/apimachinery/pkg/apis/meta/v1"
	"k8s.io/apimachinery/pkg/runtime/schema"
)

type c11Ctl struct {
	info     *util.WorkloadInfo
	ctx      *batchcontext.BatchContext
	upgrades int
	buildErr error
	pods     []*corev1.Pod
	acted    int // Initialize / UpgradeBatch / Finalize calls that reached the workload controller
}

// the real controllers return themselves together with the error of the failed workload read
func (c *c11Ctl) BuildController() (Interface, error)   { return c, c.buildErr }
func (c *c11Ctl) GetWorkloadInfo() *util.WorkloadInfo   { return c.info }
func (c *c11Ctl) ListOwnedPods() ([]*corev1.Pod, error) { return c.pods, nil }
func (c *c11Ctl) CalculateBatchContext(release *v1beta1.BatchRelease) (*batchcontext.BatchContext, error) {
	return c.ctx, nil
}
func (c *c11Ctl) Initialize(release *v1beta1.BatchRelease) error { c.acted++; return nil }
func (c *c11Ctl) UpgradeBatch(ctx *batchcontext.BatchContext) error {
	c.acted++
	c.upgrades++
	return nil
}
func (c *c11Ctl) Finalize(release *v1beta1.BatchRelease) error { c.acted++; return nil }

type c11Patcher struct{}

func (c11Patcher) PatchPodBatchLabel(ctx *batchcontext.BatchContext) error { return nil }

func c11Plane() (*realBatchControlPlane, *c11Ctl) {
	R := int32(verifrt.IntRange("spec.replicas", 0, 1000))
	info := &util.WorkloadInfo{Replicas: R}
	info.Status.Replicas = int32(verifrt.IntRange("status.replicas", 0, 2000))
	info.Status.UpdatedReplicas = int32(verifrt.IntRange("status.updated", 0, 2000))
	ctx := &batchcontext.BatchContext{
		Replicas:               R,
		UpdatedReplicas:        info.Status.UpdatedReplicas,
		UpdatedReadyReplicas:   int32(verifrt.IntRange("status.updatedReady", 0, 2000)),
		PlannedUpdatedReplicas: int32(verifrt.IntRange("planned", 0, 1000)),
		DesiredUpdatedReplicas: int32(verifrt.IntRange("desired", 0, 1000)),
	}
	ctl := &c11Ctl{info: info, ctx: ctx}
	release := &v1beta1.BatchRelease{ObjectMeta: metav1.ObjectMeta{Namespace: "ns", Name: "br", UID: "uid-1"}}
	status := &v1beta1.BatchReleaseStatus{}
	return &realBatchControlPlane{Interface: ctl, patcher: c11Patcher{}, release: release, newStatus: status}, ctl
}

func VerifC11_PartitionStylePlaneReadyMeansBatchReady() {
	rc, ctl := c11Plane()
	err := rc.EnsureBatchPodsReadyAndLabeled()
	if err != nil {
		verifrt.Cover("not-ready")
		return
	}
	verifrt.Cover("ready")
	verifrt.Assert(ctl.info.Replicas == 0 || ctl.ctx.IsBatchReady() == nil, "C11.partitionstyle.plane.readyOnlyIfBatchReadyOrNoReplicas")
}

func VerifC11_PartitionStylePlaneUpgradesUnlessNoReplicas() {
	rc, ctl := c11Plane()
	err := rc.UpgradeBatch()
	verifrt.Assert(err == nil, "C11.partitionstyle.plane.upgrade.noError")
	verifrt.Assert(ctl.upgrades == 1 || ctl.info.Replicas == 0, "C11.partitionstyle.plane.upgradeSkippedOnlyWithoutReplicas")
}

// VerifC11_PartitionStylePlaneInitializeRecordsTheWorkload: a successful Initialize records, in the status that is persisted
// (newStatus), the size and the revisions of the workload as the controller sees them: scaling is later detected
// against exactly this observed size, and "ready" is judged for these revisions.
func VerifC11_PartitionStylePlaneInitializeRecordsTheWorkload() {
	rc, ctl := c11Plane()
	ctl.info.Status.StableRevision = "rev-1"
	ctl.info.Status.UpdateRevision = "rev-2"
	rc.newStatus.ObservedWorkloadReplicas = -1
	rc.release.Status.ObservedWorkloadReplicas = -1
	err := rc.Initialize()
	if err != nil {
		return
	}
	verifrt.Assert(rc.newStatus.ObservedWorkloadReplicas == ctl.info.Replicas, "C11.partitionstyle.plane.initialize.observesTheWorkloadSize")
	verifrt.Assert(rc.newStatus.StableRevision == "rev-1" && rc.newStatus.UpdateRevision == "rev-2", "C11.partitionstyle.plane.initialize.observesTheRevisions")
}

// VerifC06_PartitionStylePlaneFailedReadIsNeverSuccess: every plane operation starts by reading the workload.  When that read
// fails with anything but NotFound (a timeout, a 5xx, a throttled request) the operation reports the error and does
// not touch the workload controller — the executor then retries the same step.  In particular Finalize must not
// report "done": the release would be marked Completed, lose its finalizer and disappear while the workload still
// carries the control annotation and its pinned partition.  Only a workload that is really gone (NotFound) lets
// Finalize finish with nothing to release.
func VerifC06_PartitionStylePlaneFailedReadIsNeverSuccess() {
	rc, ctl := c11Plane()
	kind := verifrt.IntRange("read.outcome", 0, 2) // 0 ok, 1 NotFound, 2 another error
	switch kind {
	case 1:
		ctl.buildErr = apierrors.NewNotFound(schema.GroupResource{Group: "apps", Resource: "workloads"}, "w")
	case 2:
		ctl.buildErr = fmt.Errorf("injected: the server is currently unable to handle the request")
	}
	var err error
	op := verifrt.IntRange("op", 0, 3)
	switch op {
	case 0:
		verifrt.Cover("initialize")
		err = rc.Initialize()
	case 1:
		verifrt.Cover("upgrade")
		err = rc.UpgradeBatch()
	case 2:
		verifrt.Cover("ensure")
		err = rc.EnsureBatchPodsReadyAndLabeled()
	case 3:
		verifrt.Cover("finalize")
		err = rc.Finalize()
	}
	if kind == 2 {
		verifrt.Assert(err != nil, "C06.partitionstyle.plane.failedReadIsReported")
		verifrt.Assert(ctl.acted == 0, "C06.partitionstyle.plane.failedReadTouchesNothing")
	}
	if kind == 1 {
		verifrt.Assert(ctl.acted == 0, "C06.partitionstyle.plane.goneWorkloadIsNotTouched")
		if op == 3 {
			verifrt.Assert(err == nil, "C06.partitionstyle.plane.finalizeOfAGoneWorkloadIsDone")
		} else {
			verifrt.Assert(err != nil, "C06.partitionstyle.plane.goneWorkloadIsReported")
		}
	}
	if kind == 0 && op == 3 {
		verifrt.Assert(err == nil && ctl.acted == 1, "C06.partitionstyle.plane.finalizeReachesTheWorkload")
	}
}

// VerifC11_PartitionStylePlaneClassifiesWorkloadChanges: what the executor learns about the workload at the top of every round.
// The verdicts are ranked: a workload whose controller has not caught up yet is "still reconciling"; a fully updated
// one needs nothing; then a change of *size* is reported as such whatever else changed at the same moment (the
// executor answers it by falling back from Ready and re-observing the size — a rollback or a template change
// reported instead would leave the stale size and the Ready verdict in place for as long as that other condition
// lasts); then a rollback; then a template change.
func VerifC11_PartitionStylePlaneClassifiesWorkloadChanges() {
	rc, ctl := c11Plane()
	info := ctl.info
	info.Generation = 5
	info.Status.ObservedGeneration = int64(verifrt.IntRange("status.observedGeneration", 4, 5))
	revs := []string{"rev-1", "rev-2", "rev-3"}
	info.Status.StableRevision = revs[verifrt.IntRange("wl.stableRevision", 0, 1)]
	info.Status.UpdateRevision = revs[verifrt.IntRange("wl.updateRevision", 0, 2)]
	rc.newStatus.StableRevision = "rev-1"
	rc.newStatus.UpdateRevision = []string{"", "rev-2"}[verifrt.IntRange("observed.updateRevision", 0, 1)]
	rc.newStatus.ObservedWorkloadReplicas = int32(verifrt.IntRange("observed.replicas", -1, 1000))
	if verifrt.Bool("release.deleted") {
		now := metav1.Now()
		rc.release.DeletionTimestamp = &now
	}
	event, got, err := rc.SyncWorkloadInformation()
	verifrt.Assert(err == nil, "C11.partitionstyle.plane.sync.noError")
	if rc.release.DeletionTimestamp != nil {
		verifrt.Assert(event == control.WorkloadNormalState && got == nil, "C11.partitionstyle.plane.sync.deletedReleaseIgnoresTheWorkload")
		return
	}
	verifrt.Assert(got == info, "C11.partitionstyle.plane.sync.reportsTheWorkloadInfo")
	stable := info.Status.ObservedGeneration >= info.Generation
	promoted := info.Status.Replicas == info.Status.UpdatedReplicas
	scaled := rc.newStatus.ObservedWorkloadReplicas != -1 && info.Replicas != rc.newStatus.ObservedWorkloadReplicas
	switch {
	case !stable:
		verifrt.Assert(event == control.WorkloadStillReconciling, "C11.partitionstyle.plane.sync.stillReconcilingFirst")
	case promoted:
		verifrt.Assert(event == control.WorkloadNormalState, "C11.partitionstyle.plane.sync.promotedNeedsNothing")
	case scaled:
		verifrt.Cover("scaled")
		verifrt.Assert(event == control.WorkloadReplicasChanged, "C11.partitionstyle.plane.sync.sizeChangeAlwaysReportedAsSuch")
	default:
		verifrt.Assert(event != control.WorkloadReplicasChanged, "C11.partitionstyle.plane.sync.noScalingWithoutASizeChange")
		rolledBack := rc.newStatus.UpdateRevision != "" && info.Status.UpdateRevision == info.Status.StableRevision &&
			rc.newStatus.StableRevision == info.Status.UpdateRevision && rc.newStatus.StableRevision != rc.newStatus.UpdateRevision
		changed := rc.newStatus.UpdateRevision != "" && info.Status.UpdateRevision != rc.newStatus.UpdateRevision
		switch {
		case rolledBack:
			verifrt.Cover("rollback")
			verifrt.Assert(event == control.WorkloadRollbackInBatch, "C11.partitionstyle.plane.sync.rollbackReported")
		case changed:
			verifrt.Cover("template-changed")
			verifrt.Assert(event == control.WorkloadPodTemplateChanged, "C11.partitionstyle.plane.sync.templateChangeReported")
		default:
			verifrt.Assert(event == control.WorkloadNormalState, "C11.partitionstyle.plane.sync.otherwiseNormal")
		}
	}
}

// VerifC11_PartitionStyleNoNeedUpdateCountIsStable: in a rollback in batches the pods that were already on the target
// revision when the rollback began are marked no-need-update once, and every batch's readiness target is computed
// from their number.  The recount that runs before each batch must return the number of live, target-revision pods
// carrying this release's no-need-update mark — whatever other labels (the batch labels the patcher puts on some of
// them on purpose) those pods have acquired since: a count that drifts down lowers the targets of later batches, and a
// batch is reported ready with fewer pods rolled back than it calls for.
func VerifC11_PartitionStyleNoNeedUpdateCountIsStable() {
	rc, ctl := c11Plane()
	rc.release.Spec.ReleasePlan.RolloutID = "rid-1"
	rc.release.Status.UpdateRevision = "rev-target"
	before := int32(verifrt.IntRange("status.noNeedUpdateReplicas", 0, 5))
	rc.release.Status.CanaryStatus.NoNeedUpdateReplicas = &before
	n := verifrt.Bound("pods", 3, 4)
	want := int32(0)
	for i := 0; i < n; i++ {
		p := &corev1.Pod{ObjectMeta: metav1.ObjectMeta{Namespace: "ns", Name: []string{"p0", "p1", "p2", "p3"}[i], Labels: map[string]string{}}}
		onTarget := verifrt.Bool("pod.onTargetRevision")
		if onTarget {
			p.Labels["controller-revision-hash"] = "rev-target"
		} else {
			p.Labels["controller-revision-hash"] = "rev-other"
		}
		marked := verifrt.IntRange("pod.noNeedUpdateMark", 0, 2) // 0 none, 1 this release, 2 an earlier release
		switch marked {
		case 1:
			p.Labels[util.NoNeedUpdatePodLabel] = "rid-1"
		case 2:
			p.Labels[util.NoNeedUpdatePodLabel] = "rid-0"
		}
		if verifrt.Bool("pod.hasBatchLabel") {
			p.Labels[v1beta1.RolloutIDLabel] = "rid-1"
			p.Labels[v1beta1.RolloutBatchIDLabel] = "1"
		}
		terminating := verifrt.Bool("pod.terminating")
		if terminating {
			now := metav1.Now()
			p.DeletionTimestamp = &now
		}
		if onTarget && marked == 1 && !terminating {
			want++
		}
		ctl.pods = append(ctl.pods, p)
	}
	err := rc.countAndUpdateNoNeedUpdateReplicas()
	verifrt.Assert(err == nil, "C11.partitionstyle.noNeed.count.noError")
	got := rc.newStatus.CanaryStatus.NoNeedUpdateReplicas
	verifrt.Assert(got != nil && *got == want, "C11.partitionstyle.noNeed.countIsTheMarkedLivePodsOfTheTargetRevision")
	verifrt.Assert(rc.release.Status.CanaryStatus.NoNeedUpdateReplicas != nil && *rc.release.Status.CanaryStatus.NoNeedUpdateReplicas == want, "C11.partitionstyle.noNeed.countUsedForTheBatchContextToo")
}
