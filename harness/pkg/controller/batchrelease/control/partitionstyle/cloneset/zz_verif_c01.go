package cloneset

// C01/C07/C11 obligations for partition-style CloneSet (DESIGN.md §6 C01-O1/O2, C07 target-suffices).

import (
	"fmt"
	"strconv"
	"strings"

	kruiseappsv1alpha1 "github.com/openkruise/kruise-api/apps/v1alpha1"
	"github.com/openkruise/rollouts/api/v1beta1"
	"github.com/openkruise/rollouts/pkg/util"
	"github.com/openkruise/rollouts/pkg/verifrt"
	"github.com/openkruise/rollouts/pkg/verifrt/symclient"
	metav1 "k8s.io/apimachinery/pkg/apis/meta/v1"
	"k8s.io/apimachinery/pkg/types"
	"k8s.io/apimachinery/pkg/util/intstr"
)

func vMaxR() int { return verifrt.Bound("R", 100000, 2000000000) }

// vPlanEntry: an int or "p%" batch size, plus its reference value on `total` pods (independent arithmetic).
func vPlanEntry(name string, total int) (intstr.IntOrString, int, bool) {
	if verifrt.Bool(name + ".isPercent") {
		p := verifrt.IntRange(name+".percent", 0, 100)
		ref := (p*total + 99) / 100
		return intstr.FromString(fmt.Sprintf("%d%%", p)), ref, true
	}
	n := verifrt.IntRange(name+".int", 0, vMaxR())
	ref := n
	if ref > total {
		ref = total
	}
	return intstr.FromInt(n), ref, false
}

func vPartition(name string) *intstr.IntOrString {
	switch verifrt.IntRange(name+".kind", 0, 2) {
	case 0:
		return nil
	case 1:
		v := intstr.FromInt(verifrt.IntRange(name+".int", 0, vMaxR()))
		return &v
	}
	v := intstr.FromString(fmt.Sprintf("%d%%", verifrt.IntRange(name+".percent", 0, 100)))
	return &v
}

// stableKept: how many old-revision pods a CloneSet keeps for a partition value (percent partitions round up).
func vStableKept(part intstr.IntOrString, R int) int {
	if part.Type == intstr.Int {
		if int(part.IntVal) > R {
			return R
		}
		return int(part.IntVal)
	}
	s := part.StrVal
	p, err := strconv.Atoi(strings.TrimSuffix(s, "%"))
	verifrt.Assert(err == nil && strings.HasSuffix(s, "%"), "C01.cloneset.partitionWellFormed")
	k := (p*R + 99) / 100
	if k > R {
		k = R
	}
	return k
}

func vSetup(withNoNeed bool) (*realController, *v1beta1.BatchRelease, *symclient.Client, int, int, bool) {
	R := verifrt.IntRange("R", 0, vMaxR())
	R32 := int32(R)
	cs := &kruiseappsv1alpha1.CloneSet{ObjectMeta: metav1.ObjectMeta{Namespace: "ns", Name: "w", Generation: 3}}
	cs.Spec.Replicas = &R32
	cs.Spec.UpdateStrategy.Partition = vPartition("curPartition")
	cs.Status.Replicas = R32
	cs.Status.UpdatedReplicas = int32(verifrt.IntRange("st.updated", 0, vMaxR()))
	cs.Status.UpdatedReadyReplicas = int32(verifrt.IntRange("st.updatedReady", 0, vMaxR()))
	cs.Status.ObservedGeneration = 3
	cli := &symclient.Client{Objects: nil}
	rc := &realController{client: cli, key: types.NamespacedName{Namespace: "ns", Name: "w"}, object: cs}
	rc.WorkloadInfo = util.ParseWorkload(cs)
	release := &v1beta1.BatchRelease{ObjectMeta: metav1.ObjectMeta{Namespace: "ns", Name: "br", UID: "uid-1"}}
	total := R
	if withNoNeed {
		N := verifrt.IntRange("noNeedUpdate", 1, vMaxR())
		verifrt.Assume(N <= R)
		n32 := int32(N)
		release.Status.CanaryStatus.NoNeedUpdateReplicas = &n32
		total = R - N
	}
	nb := verifrt.IntRange("nBatches", 1, 2)
	cur := verifrt.IntRange("currentBatch", 0, 1)
	verifrt.Assume(cur < nb)
	ref, isPct := 0, false
	for i := 0; i < nb; i++ {
		e, r, pct := vPlanEntry("batch", total)
		release.Spec.ReleasePlan.Batches = append(release.Spec.ReleasePlan.Batches, v1beta1.ReleaseBatch{CanaryReplicas: e})
		if i == cur {
			ref, isPct = r, pct
		}
	}
	release.Status.CanaryStatus.CurrentBatch = int32(cur)
	return rc, release, cli, R, ref, isPct
}

// VerifC01_CloneSetBatchContext: planned/desired counts and the partition the controller asks for never expose more
// new-revision pods than the current batch's plan (+1% slack for percent plans).
func VerifC01_CloneSetBatchContext() {
	rc, release, _, R, ref, isPct := vSetup(false)
	ctx, err := rc.CalculateBatchContext(release)
	verifrt.Assert(err == nil && ctx != nil, "C01.cloneset.context.noerror")
	if ctx == nil {
		return
	}
	verifrt.Observe("desired", ctx.DesiredUpdatedReplicas)
	verifrt.Assert(int(ctx.PlannedUpdatedReplicas) == ref, "C01.cloneset.planned.equalsReference")
	verifrt.Assert(int(ctx.DesiredUpdatedReplicas) <= ref, "C01.cloneset.desired.withinPlan")
	allowed := R - vStableKept(ctx.DesiredPartition, R)
	verifrt.Observe("allowed", allowed)
	slack := 0
	if isPct {
		slack = (R + 99) / 100
	}
	verifrt.Assert(allowed <= ref+slack, "C01.cloneset.partition.exposureWithinPlan")
	verifrt.Cover("done")
}

// VerifC01_CloneSetBatchContextRollback: with no-need-update pods (rollback in batches) the pods that really need an
// update stay within the plan computed on the remaining pods.
func VerifC01_CloneSetBatchContextRollback() {
	rc, release, _, R, ref, isPct := vSetup(true)
	N := int(*release.Status.CanaryStatus.NoNeedUpdateReplicas)
	ctx, err := rc.CalculateBatchContext(release)
	verifrt.Assert(err == nil && ctx != nil, "C01.cloneset.rollback.context.noerror")
	if ctx == nil {
		return
	}
	verifrt.Assert(int(ctx.DesiredUpdatedReplicas)-N <= ref, "C01.cloneset.rollback.desired.withinPlan")
	allowed := R - vStableKept(ctx.DesiredPartition, R)
	slack := 0
	if isPct {
		slack = (R + 99) / 100
	}
	verifrt.Assert(allowed-N <= ref+slack, "C01.cloneset.rollback.partition.exposureWithinPlan")
	verifrt.Cover("done")
}

// VerifC07_CloneSetTargetSuffices: once the CloneSet controller has converged to the partition the controller wrote
// (healthy pods), the controller's own readiness test passes.
func VerifC07_CloneSetTargetSuffices() {
	rc, release, _, R, _, _ := vSetup(false)
	ctx, err := rc.CalculateBatchContext(release)
	if err != nil || ctx == nil {
		return
	}
	updated := R - vStableKept(ctx.DesiredPartition, R)
	ctx.UpdatedReplicas = int32(updated)
	ctx.UpdatedReadyReplicas = int32(updated)
	ready := ctx.IsBatchReady()
	verifrt.Assert(ready == nil, "C07.cloneset.targetSufficesForReadiness")
	verifrt.Cover("done")
}

// VerifC01_CloneSetUpgradeBatch: a partition patch is issued only if it lets strictly more pods update; never fewer.
func VerifC01_CloneSetUpgradeBatch() {
	rc, release, cli, R, _, _ := vSetup(false)
	ctx, err := rc.CalculateBatchContext(release)
	if err != nil || ctx == nil {
		return
	}
	curKept := 0
	if rc.object.Spec.UpdateStrategy.Partition != nil {
		curKept = vStableKept(*rc.object.Spec.UpdateStrategy.Partition, R)
	}
	err = rc.UpgradeBatch(ctx)
	verifrt.Assert(err == nil, "C01.cloneset.upgrade.noerror")
	ws := cli.Writes("patch", "CloneSet")
	verifrt.Assert(len(cli.Log) == len(ws) && len(ws) <= 1, "C01.cloneset.upgrade.onlyOnePatch")
	if len(ws) == 1 {
		verifrt.Cover("patched")
		s, ok := verifrt.JSONGet(ws[0].Body, "spec", "updateStrategy", "partition")
		verifrt.Assert(ok, "C01.cloneset.upgrade.patchHasPartition")
		var part intstr.IntOrString
		if strings.HasSuffix(s, "%") {
			part = intstr.FromString(s)
		} else {
			n, e := strconv.Atoi(s)
			verifrt.Assert(e == nil, "C01.cloneset.upgrade.partitionIsNumber")
			part = intstr.FromInt(n)
		}
		newKept := vStableKept(part, R)
		verifrt.Assert(newKept <= curKept, "C01.cloneset.upgrade.neverMovesBack")
		verifrt.Assert(newKept == vStableKept(ctx.DesiredPartition, R), "C01.cloneset.upgrade.writesDesiredPartition")
	} else {
		verifrt.Cover("no-patch")
		// nothing written: the current setting already lets at least the desired pods update
		verifrt.Assert(curKept <= vStableKept(ctx.DesiredPartition, R), "C01.cloneset.upgrade.skipOnlyIfAlreadyThere")
	}
}

// VerifC07_CloneSetUpgradeBatchReachesTarget: whatever UpgradeBatch does — patch the partition or decide that the
// current one is good enough — once the CloneSet controller has converged to the partition then in effect, the
// controller's own IsBatchReady accepts: a skipped patch never leaves the batch waiting for pods nobody will update.
func VerifC07_CloneSetUpgradeBatchReachesTarget() {
	rc, release, cli, R, _, _ := vSetup(false)
	ctx, err := rc.CalculateBatchContext(release)
	if err != nil || ctx == nil {
		return
	}
	kept := 0
	if rc.object.Spec.UpdateStrategy.Partition != nil {
		kept = vStableKept(*rc.object.Spec.UpdateStrategy.Partition, R)
	}
	if err = rc.UpgradeBatch(ctx); err != nil {
		return
	}
	ws := cli.Writes("patch", "CloneSet")
	if len(ws) == 1 {
		s, ok := verifrt.JSONGet(ws[0].Body, "spec", "updateStrategy", "partition")
		if !ok {
			return
		}
		var part intstr.IntOrString
		if strings.HasSuffix(s, "%") {
			part = intstr.FromString(s)
		} else {
			n, e := strconv.Atoi(s)
			if e != nil {
				return
			}
			part = intstr.FromInt(n)
		}
		kept = vStableKept(part, R)
		verifrt.Cover("patched")
	} else {
		verifrt.Cover("no-patch")
	}
	updated := R - kept
	if updated < 0 {
		updated = 0
	}
	ctx.UpdatedReplicas = int32(updated)
	ctx.UpdatedReadyReplicas = int32(updated)
	verifrt.Assert(ctx.IsBatchReady() == nil, "C07.cloneset.effectivePartitionSufficesForReadiness")
}

// C11: readiness is judged against the pods the batch really calls for: the batch context's targets equal the
// reference computed from the plan (obligations of the C01 batch-context harness of this workload kind).
func VerifC11_CloneSetReadinessTarget() { VerifC01_CloneSetBatchContext() }
