package statefulset

// C05 — Finalize of the partition-style StatefulSet controller: whatever the exit, the control annotation is removed; when
// the release is over (batchPartition == nil) the partition is cleared in the field this workload kind keeps it in
// (the one UpgradeBatch writes, C01.statefulset.upgrade.patchHasPartition) so that the native controller finishes the
// roll-out; with batchPartition kept (continuous release) the partition is left alone.

import (
	"github.com/openkruise/rollouts/pkg/util"
	"github.com/openkruise/rollouts/pkg/verifrt"
)

func c05Get(doc string, path ...string) string {
	v, ok := verifrt.JSONGet(doc, path...)
	if !ok {
		return "<absent>"
	}
	return v
}

func VerifC05_StatefulSetFinalizeReleasesWorkload() {
	rc, release, cli, _, _, _, _ := vSetup(false)
	keep := verifrt.Bool("finalize.keepPartition")
	if keep {
		p := int32(1)
		release.Spec.ReleasePlan.BatchPartition = &p
	} else {
		release.Spec.ReleasePlan.BatchPartition = nil
	}
	// what the BatchRelease recorded when it started (nothing, if it never initialised; another revision, if the
	// template was changed or reverted since) does not decide whether the workload is given back
	switch verifrt.IntRange("release.recordedRevision", 0, 2) {
	case 0:
		release.Status.UpdateRevision = ""
	case 1:
		release.Status.UpdateRevision = "some-other-revision"
	}
	err := rc.Finalize(release)
	verifrt.Assert(err == nil, "C05.statefulset.finalize.noError")
	ws := cli.Writes("patch", "")
	verifrt.Assert(len(ws) == 1 && len(cli.Log) == 1, "C05.statefulset.finalize.onePatch")
	if len(ws) != 1 {
		return
	}
	body := ws[0].Body
	verifrt.Assert(ws[0].Obj.GetName() == rc.object.GetName() && ws[0].Obj.GetNamespace() == rc.object.GetNamespace(), "C05.statefulset.finalize.patchesTheWorkload")
	verifrt.Assert(c05Get(body, "metadata", "annotations", util.BatchReleaseControlAnnotation) == "null", "C05.statefulset.finalize.controlMarkerRemoved")
	if keep {
		verifrt.Assert(c05Get(body, "spec", "updateStrategy", "rollingUpdate", "partition") == "<absent>", "C05.statefulset.finalize.partitionKeptForContinuousRelease")
		return
	}
	verifrt.Assert(c05Get(body, "spec", "updateStrategy", "rollingUpdate", "partition") == "null", "C05.statefulset.finalize.partitionCleared")

	verifrt.Cover("C05.statefulset.done")
}

// C01: finalising a release that is NOT promoted (batchPartition still set: continuous release, the BatchRelease
// removed mid-plan) must leave the partition where it is — clearing it would let every pod update at once
// (obligation partitionKeptForContinuousRelease of the C05 harness).
func VerifC01_StatefulSetFinalizeKeepsPartitionUnlessPromoted() {
	VerifC05_StatefulSetFinalizeReleasesWorkload()
}
