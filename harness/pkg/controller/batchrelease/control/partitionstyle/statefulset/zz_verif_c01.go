package statefulset

// C01/C07 obligations for partition-style StatefulSets (native and advanced).

import (
	"strconv"

	kruiseappsv1beta1 "github.com/openkruise/kruise-api/apps/v1beta1"
	"github.com/openkruise/rollouts/api/v1beta1"
	"github.com/openkruise/rollouts/pkg/util"
	"github.com/openkruise/rollouts/pkg/verifrt"
	"github.com/openkruise/rollouts/pkg/verifrt/symclient"
	"github.com/openkruise/rollouts/pkg/verifrt/vh"
	apps "k8s.io/api/apps/v1"
	metav1 "k8s.io/apimachinery/pkg/apis/meta/v1"
	"k8s.io/apimachinery/pkg/types"
	"sigs.k8s.io/controller-runtime/pkg/client"
)

func vSetup(withNoNeed bool) (*realController, *v1beta1.BatchRelease, *symclient.Client, int, int, int, int) {
	R := verifrt.IntRange("R", 0, vh.MaxR())
	R32 := int32(R)
	cur := verifrt.IntRange("curPartition", 0, vh.MaxR())
	cur32 := int32(cur)
	var obj client.Object
	meta := metav1.ObjectMeta{Namespace: "ns", Name: "w", Generation: 3}
	if verifrt.Bool("advanced") {
		s := &kruiseappsv1beta1.StatefulSet{ObjectMeta: meta}
		s.Spec.Replicas = &R32
		if verifrt.Bool("hasRollingUpdate") {
			s.Spec.UpdateStrategy.RollingUpdate = &kruiseappsv1beta1.RollingUpdateStatefulSetStrategy{Partition: &cur32}
			if verifrt.Bool("unordered") {
				s.Spec.UpdateStrategy.RollingUpdate.UnorderedUpdate = &kruiseappsv1beta1.UnorderedUpdateStrategy{}
			}
		} else {
			cur = 0
		}
		s.Status.Replicas = R32
		obj = s
	} else {
		s := &apps.StatefulSet{ObjectMeta: meta}
		s.Spec.Replicas = &R32
		if verifrt.Bool("hasRollingUpdate") {
			s.Spec.UpdateStrategy.RollingUpdate = &apps.RollingUpdateStatefulSetStrategy{Partition: &cur32}
		} else {
			cur = 0
		}
		s.Status.Replicas = R32
		obj = s
	}
	cli := &symclient.Client{}
	rc := &realController{client: cli, key: types.NamespacedName{Namespace: "ns", Name: "w"}, object: obj}
	rc.WorkloadInfo = util.ParseWorkload(obj)
	nn, N := vh.NoNeed(withNoNeed, R)
	release, ref, _ := vh.Release(R-N, nn)
	return rc, release, cli, R, ref, N, cur
}

// VerifC01_StatefulSetBatchContext: the partition asked for never lets more pods update than the batch plans.
func VerifC01_StatefulSetBatchContext() {
	rc, release, _, R, ref, _, _ := vSetup(false)
	ctx, err := rc.CalculateBatchContext(release)
	verifrt.Assert(err == nil && ctx != nil, "C01.statefulset.context.noerror")
	if ctx == nil {
		return
	}
	verifrt.Assert(int(ctx.PlannedUpdatedReplicas) == ref, "C01.statefulset.planned.equalsReference")
	verifrt.Assert(int(ctx.DesiredUpdatedReplicas) <= ref, "C01.statefulset.desired.withinPlan")
	// pods with ordinal >= partition (ordered) / all but `partition` pods (unordered) may update
	allowed := R - int(ctx.DesiredPartition.IntVal)
	verifrt.Observe("allowed", allowed)
	verifrt.Assert(allowed <= ref, "C01.statefulset.partition.exposureWithinPlan")
	verifrt.Cover("done")
}

// VerifC01_StatefulSetBatchContextRollback: with no-need-update pods the pods really updated stay within the plan
// computed on the remaining pods (unordered update only: ordered partitions are ordinal based).
func VerifC01_StatefulSetBatchContextRollback() {
	rc, release, _, R, ref, N, _ := vSetup(true)
	if !util.IsStatefulSetUnorderedUpdate(rc.object) {
		// ordered update (the default of native and Advanced StatefulSets alike): the partition is an ordinal, every
		// pod at or above it moves, and nothing says which ordinals the no-need-update pods have — so the pods the
		// partition lets move must themselves stay within the plan computed on the pods that do need the update
		ctx, err := rc.CalculateBatchContext(release)
		verifrt.Assert(err == nil && ctx != nil, "C01.statefulset.rollback.context.noerror")
		if ctx == nil {
			return
		}
		verifrt.Cover("ordered")
		verifrt.Assert(R-int(ctx.DesiredPartition.IntVal) <= ref, "C01.statefulset.rollback.ordered.partitionExposureWithinPlan")
		return
	}
	ctx, err := rc.CalculateBatchContext(release)
	verifrt.Assert(err == nil && ctx != nil, "C01.statefulset.rollback.context.noerror")
	if ctx == nil {
		return
	}
	verifrt.Assert(int(ctx.DesiredUpdatedReplicas)-N <= ref, "C01.statefulset.rollback.desired.withinPlan")
	allowed := R - int(ctx.DesiredPartition.IntVal)
	verifrt.Assert(allowed-N <= ref, "C01.statefulset.rollback.partition.exposureWithinPlan")
	verifrt.Cover("done")
}

// VerifC07_StatefulSetTargetSuffices: converged to the written partition, the readiness test passes.
func VerifC07_StatefulSetTargetSuffices() {
	rc, release, _, R, _, _, _ := vSetup(false)
	ctx, err := rc.CalculateBatchContext(release)
	if err != nil || ctx == nil {
		return
	}
	updated := R - int(ctx.DesiredPartition.IntVal)
	ctx.UpdatedReplicas = int32(updated)
	ctx.UpdatedReadyReplicas = int32(updated)
	verifrt.Assert(ctx.IsBatchReady() == nil, "C07.statefulset.targetSufficesForReadiness")
	verifrt.Cover("done")
}

// VerifC01_StatefulSetUpgradeBatch: the partition is only ever lowered, to exactly the desired value.
func VerifC01_StatefulSetUpgradeBatch() {
	rc, release, cli, _, _, _, cur := vSetup(false)
	ctx, err := rc.CalculateBatchContext(release)
	if err != nil || ctx == nil {
		return
	}
	err = rc.UpgradeBatch(ctx)
	verifrt.Assert(err == nil, "C01.statefulset.upgrade.noerror")
	verifrt.Assert(len(cli.Log) <= 1, "C01.statefulset.upgrade.onlyOnePatch")
	if len(cli.Log) == 1 {
		verifrt.Cover("patched")
		verifrt.Assert(cli.Log[0].Verb == "patch", "C01.statefulset.upgrade.isPatch")
		s, ok := verifrt.JSONGet(cli.Log[0].Body, "spec", "updateStrategy", "rollingUpdate", "partition")
		n, e := strconv.Atoi(s)
		verifrt.Assert(ok && e == nil, "C01.statefulset.upgrade.patchHasPartition")
		verifrt.Assert(n <= cur, "C01.statefulset.upgrade.neverMovesBack")
		verifrt.Assert(n == int(ctx.DesiredPartition.IntVal), "C01.statefulset.upgrade.writesDesiredPartition")
	} else {
		verifrt.Cover("no-patch")
		verifrt.Assert(cur <= int(ctx.DesiredPartition.IntVal), "C01.statefulset.upgrade.skipOnlyIfAlreadyThere")
	}
}

// C11: readiness is judged against the pods the batch really calls for: the batch context's targets equal the
// reference computed from the plan (obligations of the C01 batch-context harness of this workload kind).
func VerifC11_StatefulSetReadinessTarget() { VerifC01_StatefulSetBatchContext() }
