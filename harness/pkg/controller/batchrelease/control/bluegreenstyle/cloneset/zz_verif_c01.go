package cloneset

// C01/C07 obligations for blue-green CloneSets (maxSurge as the knob).

import (
	"fmt"
	"strconv"
	"strings"

	kruiseappsv1alpha1 "github.com/openkruise/kruise-api/apps/v1alpha1"
	"github.com/openkruise/rollouts/api/v1beta1"
	"github.com/openkruise/rollouts/pkg/util"
	"github.com/openkruise/rollouts/pkg/verifrt"
	"github.com/openkruise/rollouts/pkg/verifrt/symclient"
	"github.com/openkruise/rollouts/pkg/verifrt/vh"
	metav1 "k8s.io/apimachinery/pkg/apis/meta/v1"
	"k8s.io/apimachinery/pkg/types"
	"k8s.io/apimachinery/pkg/util/intstr"
)

func vSurge(name string) *intstr.IntOrString {
	switch verifrt.IntRange(name+".kind", 0, 2) {
	case 0:
		return nil
	case 1:
		v := intstr.FromInt(verifrt.IntRange(name+".int", 0, vh.MaxR()))
		return &v
	}
	v := intstr.FromString(fmt.Sprintf("%d%%", verifrt.IntRange(name+".percent", 0, 100)))
	return &v
}

// surgePods: new-revision pods a maxSurge value allows (percent rounds up)
func vSurgePods(s intstr.IntOrString, R int) int {
	if s.Type == intstr.Int {
		return int(s.IntVal)
	}
	p, err := strconv.Atoi(strings.TrimSuffix(s.StrVal, "%"))
	verifrt.Assert(err == nil && strings.HasSuffix(s.StrVal, "%"), "C01.bgcloneset.surgeWellFormed")
	return (p*R + 99) / 100
}

func vSetup() (*realController, *symclient.Client, int) {
	R := verifrt.IntRange("R", 0, vh.MaxR())
	R32 := int32(R)
	cs := &kruiseappsv1alpha1.CloneSet{ObjectMeta: metav1.ObjectMeta{Namespace: "ns", Name: "w", Generation: 3, Annotations: map[string]string{util.BatchReleaseControlAnnotation: "{}"}}}
	cs.Spec.Replicas = &R32
	cs.Spec.UpdateStrategy.MaxSurge = vSurge("curSurge")
	cs.Spec.UpdateStrategy.Type = kruiseappsv1alpha1.RecreateCloneSetUpdateStrategyType
	cs.Spec.MinReadySeconds = v1beta1.MaxReadySeconds
	cs.Status.Replicas = R32
	cli := &symclient.Client{}
	rc := &realController{client: cli, key: types.NamespacedName{Namespace: "ns", Name: "w"}, object: cs}
	rc.WorkloadInfo = util.ParseWorkload(cs)
	return rc, cli, R
}

// VerifC01_BlueGreenCloneSetBatch: maxSurge is raised to exactly the step's value and never lowered.
func VerifC01_BlueGreenCloneSetBatch() {
	rc, cli, R := vSetup()
	release, _, _ := vh.Release(R, nil)
	plan := release.Spec.ReleasePlan.Batches[release.Status.CanaryStatus.CurrentBatch].CanaryReplicas
	planPods := vSurgePods(plan, R)
	ctx, err := rc.CalculateBatchContext(release)
	verifrt.Assert(err == nil && ctx != nil, "C01.bgcloneset.context.noerror")
	if ctx == nil {
		return
	}
	verifrt.Assert(int(ctx.DesiredUpdatedReplicas) == planPods, "C01.bgcloneset.desired.equalsStepValue")
	cur := 0
	if rc.object.Spec.UpdateStrategy.MaxSurge != nil && *rc.object.Spec.UpdateStrategy.MaxSurge != intstr.FromInt(1) {
		cur = vSurgePods(*rc.object.Spec.UpdateStrategy.MaxSurge, R)
	}
	err = rc.UpgradeBatch(ctx)
	verifrt.Assert(err == nil, "C01.bgcloneset.upgrade.noerror")
	verifrt.Assert(len(cli.Log) <= 1, "C01.bgcloneset.upgrade.onlyOnePatch")
	if len(cli.Log) == 1 {
		verifrt.Cover("patched")
		s, ok := verifrt.JSONGet(cli.Log[0].Body, "spec", "updateStrategy", "maxSurge")
		verifrt.Assert(ok, "C01.bgcloneset.upgrade.patchHasMaxSurge")
		var surge intstr.IntOrString
		if strings.HasSuffix(s, "%") {
			surge = intstr.FromString(s)
		} else {
			n, e := strconv.Atoi(s)
			verifrt.Assert(e == nil, "C01.bgcloneset.upgrade.surgeIsNumber")
			surge = intstr.FromInt(n)
		}
		newPods := vSurgePods(surge, R)
		verifrt.Assert(newPods <= planPods, "C01.bgcloneset.upgrade.exposureWithinStep")
		verifrt.Assert(newPods > cur, "C01.bgcloneset.upgrade.neverMovesBack")
	} else {
		verifrt.Cover("no-patch")
		verifrt.Assert(cur >= planPods, "C01.bgcloneset.upgrade.skipOnlyIfAlreadyThere")
	}
}

func VerifC07_BlueGreenCloneSetTargetSuffices() {
	rc, _, R := vSetup()
	release, _, _ := vh.Release(R, nil)
	ctx, err := rc.CalculateBatchContext(release)
	if err != nil || ctx == nil {
		return
	}
	updated := vSurgePods(ctx.DesiredSurge, R)
	ctx.UpdatedReplicas = int32(updated)
	ctx.UpdatedReadyReplicas = int32(updated)
	verifrt.Assert(ctx.IsBatchReady() == nil, "C07.bgcloneset.targetSufficesForReadiness")
	verifrt.Cover("done")
}
