package cloneset

// C05/C06 — blue-green CloneSet: Finalize reports done only with the HPA restored and the release annotations
// removed (also under API faults); Initialize never writes its guard annotation before the HPA is disabled.

import (
	"strings"

	kruiseappsv1alpha1 "github.com/openkruise/kruise-api/apps/v1alpha1"
	"github.com/openkruise/rollouts/api/v1beta1"
	"github.com/openkruise/rollouts/pkg/controller/batchrelease/control"
	"github.com/openkruise/rollouts/pkg/controller/batchrelease/control/bluegreenstyle/hpa"
	"github.com/openkruise/rollouts/pkg/util"
	"github.com/openkruise/rollouts/pkg/verifrt"
	"github.com/openkruise/rollouts/pkg/verifrt/symclient"
	metav1 "k8s.io/apimachinery/pkg/apis/meta/v1"
	"k8s.io/apimachinery/pkg/apis/meta/v1/unstructured"
	"k8s.io/apimachinery/pkg/types"
	"k8s.io/apimachinery/pkg/util/intstr"
	"sigs.k8s.io/controller-runtime/pkg/client"
)

func c05HPA(version string, targetName string) *unstructured.Unstructured {
	return &unstructured.Unstructured{Object: map[string]interface{}{
		"apiVersion": "autoscaling/" + version, "kind": "HorizontalPodAutoscaler",
		"metadata": map[string]interface{}{"namespace": "ns", "name": "hpa-w"},
		"spec": map[string]interface{}{
			"scaleTargetRef": map[string]interface{}{"apiVersion": "apps.kruise.io/v1alpha1", "kind": "CloneSet", "name": targetName},
			"minReplicas":    int64(1), "maxReplicas": int64(10)},
	}}
}

func c05ListHPA(version string, h *unstructured.Unstructured) func(list client.ObjectList, opts []client.ListOption) error {
	return func(list client.ObjectList, opts []client.ListOption) error {
		if l, ok := list.(*unstructured.UnstructuredList); ok && h != nil && l.GetAPIVersion() == "autoscaling/"+version {
			l.Items = []unstructured.Unstructured{*h.DeepCopy()}
		}
		return nil
	}
}

func c05CloneSet() *kruiseappsv1alpha1.CloneSet {
	R := int32(verifrt.IntRange("R", 1, 1000))
	cs := &kruiseappsv1alpha1.CloneSet{TypeMeta: metav1.TypeMeta{APIVersion: "apps.kruise.io/v1alpha1", Kind: "CloneSet"},
		ObjectMeta: metav1.ObjectMeta{Namespace: "ns", Name: "w", Generation: 3}}
	cs.Spec.Replicas = &R
	return cs
}

func c05Setup(disabledInv bool) (hasHPA, hpaDisabled bool, version string, h *unstructured.Unstructured) {
	version = "v2"
	if verifrt.Bool("hpa.v1") {
		version = "v1"
	}
	hasHPA = verifrt.Bool("hasHPA")
	hpaDisabled = disabledInv || verifrt.Bool("hpa.disabled")
	if hasHPA {
		name := "w"
		if hpaDisabled {
			name = "w" + hpa.HPADisableSuffix
		}
		h = c05HPA(version, name)
	}
	return
}

func c05Finalize(faults bool, p string) {
	cs := c05CloneSet()
	cs.Status.Replicas = int32(verifrt.IntRange("st.replicas", 0, 2000))
	cs.Status.ReadyReplicas = int32(verifrt.IntRange("st.ready", 0, 2000))
	cs.Status.UpdatedReadyReplicas = int32(verifrt.IntRange("st.updatedReady", 0, 2000))
	alreadyRestored := verifrt.Bool("alreadyRestored")
	if !alreadyRestored {
		mu := intstr.FromInt(1)
		setting := control.OriginalDeploymentStrategy{MaxUnavailable: &mu, MaxSurge: &mu}
		cs.Annotations = map[string]string{util.BatchReleaseControlAnnotation: "{}", v1beta1.OriginalDeploymentStrategyAnnotation: util.DumpJSON(&setting)}
	}
	// Initialize disables the HPA before it saves the settings, so while they are saved the HPA is disabled
	hasHPA, hpaDisabled, version, h := c05Setup(!alreadyRestored)
	cli := &symclient.Client{ListFn: c05ListHPA(version, h), Faults: faults}
	rc := &realController{client: cli, key: types.NamespacedName{Namespace: "ns", Name: "w"}, object: cs}
	rc.WorkloadInfo = util.ParseWorkload(cs)
	release := &v1beta1.BatchRelease{ObjectMeta: metav1.ObjectMeta{Namespace: "ns", Name: "br", UID: "uid-1"}}
	if err := rc.Finalize(release); err != nil {
		verifrt.Cover(p + ".bgcloneset.retry")
		return
	}
	if hasHPA && hpaDisabled {
		ws := cli.Writes("patch", "Unstructured:HorizontalPodAutoscaler")
		ok := len(ws) == 1
		if ok {
			name, has := verifrt.JSONGet(ws[0].Body, "spec", "scaleTargetRef", "name")
			ok = has && name == "w"
		}
		verifrt.Assert(ok, p+".bgcloneset.finalize.hpaRestored")
	}
	if !alreadyRestored {
		ws := cli.Writes("patch", "CloneSet")
		ok := len(ws) == 1
		if ok {
			v, has := verifrt.JSONGet(ws[0].Body, "metadata", "annotations", util.BatchReleaseControlAnnotation)
			ok = has && v == "null"
			v, has = verifrt.JSONGet(ws[0].Body, "metadata", "annotations", v1beta1.OriginalDeploymentStrategyAnnotation)
			ok = ok && has && v == "null"
		}
		verifrt.Assert(ok, p+".bgcloneset.finalize.markersRemoved")
	}
	verifrt.Cover(p + ".bgcloneset.done")
}

func VerifC05_BlueGreenCloneSetFinalizeRestoresHPA() { c05Finalize(false, "C05") }
func VerifC06_BlueGreenCloneSetFinalizeFaults()      { c05Finalize(true, "C06") }

// VerifC06_BlueGreenCloneSetInitializeGuard: with every API call allowed to fail, the control annotation (the guard
// that makes later reconciles skip Initialize) is written only after the HPA — if any — is disabled.
func VerifC06_BlueGreenCloneSetInitializeGuard() {
	cs := c05CloneSet()
	hasHPA, hpaDisabled, version, h := c05Setup(false)
	cli := &symclient.Client{ListFn: c05ListHPA(version, h), Faults: true}
	rc := &realController{client: cli, key: types.NamespacedName{Namespace: "ns", Name: "w"}, object: cs}
	rc.WorkloadInfo = util.ParseWorkload(cs)
	release := &v1beta1.BatchRelease{TypeMeta: metav1.TypeMeta{APIVersion: "rollouts.kruise.io/v1beta1", Kind: "BatchRelease"},
		ObjectMeta: metav1.ObjectMeta{Namespace: "ns", Name: "br", UID: "uid-1"}}
	err := rc.Initialize(release)
	guardWritten := false
	for _, w := range cli.Writes("patch", "CloneSet") {
		if _, has := verifrt.JSONGet(w.Body, "metadata", "annotations", util.BatchReleaseControlAnnotation); has {
			guardWritten = true
		}
	}
	hpaOff := !hasHPA || hpaDisabled
	for _, w := range cli.Writes("patch", "Unstructured:HorizontalPodAutoscaler") {
		name, has := verifrt.JSONGet(w.Body, "spec", "scaleTargetRef", "name")
		if has && strings.HasSuffix(name, hpa.HPADisableSuffix) {
			hpaOff = true
		}
	}
	if guardWritten {
		verifrt.Assert(hpaOff, "C06.bgcloneset.initialize.guardOnlyAfterHPADisabled")
	}
	verifrt.Assert(verifrt.Implies(err == nil, guardWritten), "C06.bgcloneset.initialize.successMeansGuarded")
	verifrt.Cover("C06.bgcloneset.initialize.done")
}

// VerifC05_BlueGreenCloneSetInitializeKeepsTheSavedSettings: the CloneSet twin of the Deployment obligation — a second
// Initialize on a CloneSet this release has already claimed (live spec: the release's maxSurge / maxUnavailable /
// minReadySeconds) never replaces the saved original settings with those values.
func VerifC05_BlueGreenCloneSetInitializeKeepsTheSavedSettings() {
	cs := c05CloneSet()
	userMaxUnavailable := intstr.FromInt(verifrt.IntRange("user.maxUnavailable", 0, 1000))
	userMaxSurge := intstr.FromInt(verifrt.IntRange("user.maxSurge", 0, 1000))
	setting := control.OriginalDeploymentStrategy{MaxUnavailable: &userMaxUnavailable, MaxSurge: &userMaxSurge, MinReadySeconds: int32(verifrt.IntRange("user.minReadySeconds", 0, 3600))}
	saved := util.DumpJSON(&setting)
	release := &v1beta1.BatchRelease{TypeMeta: metav1.TypeMeta{APIVersion: "rollouts.kruise.io/v1beta1", Kind: "BatchRelease"},
		ObjectMeta: metav1.ObjectMeta{Namespace: "ns", Name: "br", UID: "uid-1"}}
	cs.Annotations = map[string]string{
		util.BatchReleaseControlAnnotation:           util.DumpJSON(metav1.NewControllerRef(release, release.GetObjectKind().GroupVersionKind())),
		v1beta1.OriginalDeploymentStrategyAnnotation: saved,
	}
	cs.Spec.MinReadySeconds = v1beta1.MaxReadySeconds
	_, _, version, h := c05Setup(true)
	cli := &symclient.Client{ListFn: c05ListHPA(version, h)}
	rc := &realController{client: cli, key: types.NamespacedName{Namespace: "ns", Name: "w"}, object: cs}
	rc.WorkloadInfo = util.ParseWorkload(cs)
	err := rc.Initialize(release)
	verifrt.Assert(err == nil, "C05.bgcloneset.reinitialize.noError")
	for _, w := range cli.Writes("patch", "CloneSet") {
		if v, has := verifrt.JSONGet(w.Body, "metadata", "annotations", v1beta1.OriginalDeploymentStrategyAnnotation); has {
			verifrt.Assert(v == saved, "C05.bgcloneset.reinitialize.savedSettingsStayTheUsers")
		}
	}
	verifrt.Cover("C05.bgcloneset.reinitialize.done")
}

// The same with every API call allowed to fail (a failed HPA lookup is not "the workload has no HPA").
func VerifC05_BlueGreenCloneSetFinalizeRestoresHPAWhateverFails() { c05Finalize(true, "C05") }
