package cloneset

import (
	kruiseappsv1alpha1 "github.com/openkruise/kruise-api/apps/v1alpha1"
	"github.com/openkruise/rollouts/api/v1beta1"
	"github.com/openkruise/rollouts/pkg/controller/batchrelease/control"
	"github.com/openkruise/rollouts/pkg/util"
	"github.com/openkruise/rollouts/pkg/verifrt"
	"github.com/openkruise/rollouts/pkg/verifrt/symclient"
	metav1 "k8s.io/apimachinery/pkg/apis/meta/v1"
	"k8s.io/apimachinery/pkg/types"
	"k8s.io/apimachinery/pkg/util/intstr"
)

// VerifC11_BlueGreenCloneSetFinalize: done only when every ready pod is an updated ready pod, on every attempt.
func VerifC11_BlueGreenCloneSetFinalize() {
	R := int32(verifrt.IntRange("R", 1, 1000))
	cs := &kruiseappsv1alpha1.CloneSet{ObjectMeta: metav1.ObjectMeta{Namespace: "ns", Name: "w", Generation: 3}}
	cs.Spec.Replicas = &R
	cs.Status.Replicas = int32(verifrt.IntRange("st.replicas", 0, 2000))
	cs.Status.ReadyReplicas = int32(verifrt.IntRange("st.ready", 0, 2000))
	cs.Status.UpdatedReadyReplicas = int32(verifrt.IntRange("st.updatedReady", 0, 2000))
	if !verifrt.Bool("alreadyRestored") {
		mu := intstr.FromInt(1)
		setting := control.OriginalDeploymentStrategy{MaxUnavailable: &mu, MaxSurge: &mu}
		cs.Annotations = map[string]string{util.BatchReleaseControlAnnotation: "{}", v1beta1.OriginalDeploymentStrategyAnnotation: util.DumpJSON(&setting)}
	}
	cli := &symclient.Client{}
	rc := &realController{client: cli, key: types.NamespacedName{Namespace: "ns", Name: "w"}, object: cs}
	rc.WorkloadInfo = util.ParseWorkload(cs)
	release := &v1beta1.BatchRelease{ObjectMeta: metav1.ObjectMeta{Namespace: "ns", Name: "br", UID: "uid-1"}}
	err := rc.Finalize(release)
	if err != nil {
		verifrt.Cover("retry")
		return
	}
	verifrt.Cover("finalize-done")
	verifrt.Assert(cs.Status.ReadyReplicas == cs.Status.UpdatedReadyReplicas, "C11.bgcloneset.finalize.doneOnlyIfAllUpdatedAndReady")
}

// C11: "ready" is judged against the number of pods the step really calls for (percentages rounded up, as
// UpgradeBatch and the CloneSet controller round them): the readiness target of the batch context equals that number
// (the obligations of VerifC01_BlueGreenCloneSetBatch, C01.bgcloneset.desired.equalsStepValue).
func VerifC11_BlueGreenCloneSetReadinessTarget() { VerifC01_BlueGreenCloneSetBatch() }
