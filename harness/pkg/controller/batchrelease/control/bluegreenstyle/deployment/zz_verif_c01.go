package deployment

// C01/C07 obligations for blue-green Deployments (maxSurge as the knob).

import (
	"fmt"
	"strconv"
	"strings"

	"github.com/openkruise/rollouts/api/v1beta1"
	"github.com/openkruise/rollouts/pkg/util"
	"github.com/openkruise/rollouts/pkg/verifrt"
	"github.com/openkruise/rollouts/pkg/verifrt/symclient"
	"github.com/openkruise/rollouts/pkg/verifrt/vh"
	apps "k8s.io/api/apps/v1"
	metav1 "k8s.io/apimachinery/pkg/apis/meta/v1"
	"k8s.io/apimachinery/pkg/types"
	"k8s.io/apimachinery/pkg/util/intstr"
)

func vSurge(name string) *intstr.IntOrString {
	switch verifrt.IntRange(name+".kind", 0, 2) {
	case 0:
		return nil
	case 1:
		v := intstr.FromInt(verifrt.IntRange(name+".int", 0, vh.MaxR()))
		return &v
	}
	v := intstr.FromString(fmt.Sprintf("%d%%", verifrt.IntRange(name+".percent", 0, 100)))
	return &v
}

func vSurgePods(s intstr.IntOrString, R int) int {
	if s.Type == intstr.Int {
		return int(s.IntVal)
	}
	p, err := strconv.Atoi(strings.TrimSuffix(s.StrVal, "%"))
	verifrt.Assert(err == nil && strings.HasSuffix(s.StrVal, "%"), "C01.bgdeploy.surgeWellFormed")
	return (p*R + 99) / 100
}

func vSetup() (*realController, *symclient.Client, int) {
	R := verifrt.IntRange("R", 0, vh.MaxR())
	R32 := int32(R)
	d := &apps.Deployment{ObjectMeta: metav1.ObjectMeta{Namespace: "ns", Name: "w", Generation: 3, Annotations: map[string]string{util.BatchReleaseControlAnnotation: "{}"}}}
	d.Spec.Replicas = &R32
	d.Spec.Strategy.Type = apps.RollingUpdateDeploymentStrategyType
	d.Spec.Strategy.RollingUpdate = &apps.RollingUpdateDeployment{MaxSurge: vSurge("curSurge")}
	d.Spec.MinReadySeconds = v1beta1.MaxReadySeconds
	pd := int32(v1beta1.MaxProgressSeconds)
	d.Spec.ProgressDeadlineSeconds = &pd
	d.Status.Replicas = R32
	cli := &symclient.Client{}
	rc := &realController{client: cli, key: types.NamespacedName{Namespace: "ns", Name: "w"}, object: d}
	rc.WorkloadInfo = util.ParseWorkload(d)
	return rc, cli, R
}

func VerifC01_BlueGreenDeploymentBatch() {
	rc, cli, R := vSetup()
	release, _, _ := vh.Release(R, nil)
	plan := release.Spec.ReleasePlan.Batches[release.Status.CanaryStatus.CurrentBatch].CanaryReplicas
	planPods := vSurgePods(plan, R)
	ctx, err := rc.CalculateBatchContext(release)
	verifrt.Assert(err == nil && ctx != nil, "C01.bgdeploy.context.noerror")
	if ctx == nil {
		return
	}
	verifrt.Assert(int(ctx.DesiredUpdatedReplicas) <= planPods, "C01.bgdeploy.desired.withinStepValue")
	cur := 0
	if ms := rc.object.Spec.Strategy.RollingUpdate.MaxSurge; ms != nil && *ms != intstr.FromInt(1) {
		cur = vSurgePods(*ms, R)
	}
	err = rc.UpgradeBatch(ctx)
	verifrt.Assert(err == nil, "C01.bgdeploy.upgrade.noerror")
	verifrt.Assert(len(cli.Log) <= 1, "C01.bgdeploy.upgrade.onlyOnePatch")
	if len(cli.Log) == 1 {
		verifrt.Cover("patched")
		s, ok := verifrt.JSONGet(cli.Log[0].Body, "spec", "strategy", "rollingUpdate", "maxSurge")
		verifrt.Assert(ok, "C01.bgdeploy.upgrade.patchHasMaxSurge")
		var surge intstr.IntOrString
		if strings.HasSuffix(s, "%") {
			surge = intstr.FromString(s)
		} else {
			n, e := strconv.Atoi(s)
			verifrt.Assert(e == nil, "C01.bgdeploy.upgrade.surgeIsNumber")
			surge = intstr.FromInt(n)
		}
		newPods := vSurgePods(surge, R)
		verifrt.Assert(newPods <= planPods, "C01.bgdeploy.upgrade.exposureWithinStep")
		verifrt.Assert(newPods > cur, "C01.bgdeploy.upgrade.neverMovesBack")
	} else {
		verifrt.Cover("no-patch")
		verifrt.Assert(cur >= planPods, "C01.bgdeploy.upgrade.skipOnlyIfAlreadyThere")
	}
}

func VerifC07_BlueGreenDeploymentTargetSuffices() {
	rc, _, R := vSetup()
	release, _, _ := vh.Release(R, nil)
	ctx, err := rc.CalculateBatchContext(release)
	if err != nil || ctx == nil {
		return
	}
	// the Deployment controller surges min(maxSurge, replicas) new pods next to the old ones
	updated := vSurgePods(ctx.DesiredSurge, R)
	if updated > R {
		updated = R
	}
	ctx.UpdatedReplicas = int32(updated)
	ctx.UpdatedReadyReplicas = int32(updated)
	verifrt.Assert(ctx.IsBatchReady() == nil, "C07.bgdeploy.targetSufficesForReadiness")
	verifrt.Cover("done")
}

// VerifC07_BlueGreenDeploymentFirstBatchStartsTheWorkload: Initialize leaves the Deployment paused with the initial
// surge of 1; the first UpgradeBatch is the only thing that un-pauses it and writes the batch's surge.  For every plan
// whose current batch asks for at least one pod it therefore writes that patch — also when the batch asks for exactly
// one pod (numerically the initial surge): a batch left un-started waits for pods that will never be created.
func VerifC07_BlueGreenDeploymentFirstBatchStartsTheWorkload() {
	rc, cli, R := vSetup()
	verifrt.Assume(R >= 1)
	one := intstr.FromInt(1)
	rc.object.Spec.Strategy.RollingUpdate.MaxSurge = &one // as Initialize leaves it
	rc.object.Spec.Paused = true
	rc.WorkloadInfo = util.ParseWorkload(rc.object)
	release, _, _ := vh.Release(R, nil)
	plan := release.Spec.ReleasePlan.Batches[release.Status.CanaryStatus.CurrentBatch].CanaryReplicas
	planPods := vSurgePods(plan, R)
	ctx, err := rc.CalculateBatchContext(release)
	if err != nil || ctx == nil {
		return
	}
	err = rc.UpgradeBatch(ctx)
	verifrt.Assert(err == nil, "C07.bgdeploy.firstBatch.noerror")
	if planPods >= 1 {
		verifrt.Cover("asks-for-pods")
		ps := cli.Writes("patch", "Deployment")
		verifrt.Assert(len(ps) == 1, "C07.bgdeploy.firstBatch.startsTheWorkload")
		if len(ps) == 1 {
			paused, _ := verifrt.JSONGet(ps[0].Body, "spec", "paused")
			verifrt.Assert(paused == "false", "C07.bgdeploy.firstBatch.unpauses")
		}
	}
}

// C06: a batch that is executed again (an earlier batch after a plan change, the same batch after a crash) writes
// nothing, or exactly what it wrote before — never a smaller surge: C01.bgdeploy.upgrade.neverMovesBack /
// skipOnlyIfAlreadyThere of the same one-step relation.
func VerifC06_BlueGreenDeploymentReexecutedBatchNeverMovesBack() { VerifC01_BlueGreenDeploymentBatch() }
