package deployment

// C05/C06 — blue-green Deployment: the HPA disabled by Initialize is restored on every path on which Finalize
// reports done (C05), and Initialize never leaves its idempotence guard set while the HPA is still active or the
// stable ReplicaSet un-patched, whatever API call fails or wherever the process dies (C06).

import (
	"context"
	"fmt"
	"strings"

	"github.com/openkruise/rollouts/api/v1alpha1"
	"github.com/openkruise/rollouts/api/v1beta1"
	"github.com/openkruise/rollouts/pkg/controller/batchrelease/control"
	"github.com/openkruise/rollouts/pkg/controller/batchrelease/control/bluegreenstyle/hpa"
	"github.com/openkruise/rollouts/pkg/util"
	"github.com/openkruise/rollouts/pkg/verifrt"
	"github.com/openkruise/rollouts/pkg/verifrt/symclient"
	apps "k8s.io/api/apps/v1"
	metav1 "k8s.io/apimachinery/pkg/apis/meta/v1"
	"k8s.io/apimachinery/pkg/apis/meta/v1/unstructured"
	"k8s.io/apimachinery/pkg/types"
	"k8s.io/apimachinery/pkg/util/intstr"
	"sigs.k8s.io/controller-runtime/pkg/client"
)

func c05HPA(version string, targetName string) unstructured.Unstructured {
	return unstructured.Unstructured{Object: map[string]interface{}{
		"apiVersion": "autoscaling/" + version, "kind": "HorizontalPodAutoscaler",
		"metadata": map[string]interface{}{"namespace": "ns", "name": "hpa-w"},
		"spec": map[string]interface{}{
			"scaleTargetRef": map[string]interface{}{"apiVersion": "apps/v1", "kind": "Deployment", "name": targetName},
			"minReplicas":    int64(1), "maxReplicas": int64(10)},
	}}
}

// c05ListHPA serves the HPA under the API version it is stored with (v2 or v1), nothing under the other.
func c05ListHPA(version string, h *unstructured.Unstructured, rss []apps.ReplicaSet) func(list client.ObjectList, opts []client.ListOption) error {
	return func(list client.ObjectList, opts []client.ListOption) error {
		switch l := list.(type) {
		case *unstructured.UnstructuredList:
			if h != nil && l.GetAPIVersion() == "autoscaling/"+version {
				l.Items = []unstructured.Unstructured{*h.DeepCopy()}
			}
		case *apps.ReplicaSetList:
			l.Items = rss
		}
		return nil
	}
}

func c05Deployment() *apps.Deployment {
	R := int32(verifrt.IntRange("R", 1, 1000))
	d := &apps.Deployment{TypeMeta: metav1.TypeMeta{APIVersion: "apps/v1", Kind: "Deployment"},
		ObjectMeta: metav1.ObjectMeta{Namespace: "ns", Name: "w", UID: "d-uid", Generation: 3}}
	d.Spec.Replicas = &R
	d.Spec.Selector = &metav1.LabelSelector{MatchLabels: map[string]string{"app": "w"}}
	d.Spec.Strategy.Type = apps.RollingUpdateDeploymentStrategyType
	zero := intstr.FromInt(0)
	one := intstr.FromInt(1)
	d.Spec.Strategy.RollingUpdate = &apps.RollingUpdateDeployment{MaxSurge: &one, MaxUnavailable: &zero}
	return d
}

// VerifC05_BlueGreenDeploymentFinalizeRestoresHPA: from every persisted state a Finalize attempt can start in
// (settings still saved on the Deployment, or already restored by an earlier attempt that had to wait for pods;
// HPA disabled or already restored; any pod status) Finalize reports done only when the HPA's scaleTargetRef points
// at the Deployment again and the Deployment carries no release annotations.
func VerifC05_BlueGreenDeploymentFinalizeRestoresHPA() { c05Finalize(false, "C05") }

// VerifC06_BlueGreenDeploymentFinalizeFaults: the same with every API call allowed to fail: done is still reported
// only with the HPA restored and the markers removed.
func VerifC06_BlueGreenDeploymentFinalizeFaults() { c05Finalize(true, "C06") }

func c05Finalize(faults bool, p string) {
	d := c05Deployment()
	d.Status.Replicas = int32(verifrt.IntRange("st.replicas", 0, 2000))
	d.Status.UpdatedReplicas = int32(verifrt.IntRange("st.updated", 0, 2000))
	d.Status.ReadyReplicas = int32(verifrt.IntRange("st.ready", 0, 2000))
	d.Status.AvailableReplicas = int32(verifrt.IntRange("st.available", 0, 2000))
	alreadyRestored := verifrt.Bool("alreadyRestored")
	userMaxUnavailable := intstr.FromInt(verifrt.IntRange("user.maxUnavailable", 0, 1000))
	userMaxSurge := intstr.FromInt(verifrt.IntRange("user.maxSurge", 0, 1000))
	userMinReady := int32(verifrt.IntRange("user.minReadySeconds", 0, 3600))
	userDeadline := int32(verifrt.IntRange("user.progressDeadlineSeconds", 1, 100000))
	if alreadyRestored {
		d.Spec.Strategy.RollingUpdate.MaxUnavailable = &userMaxUnavailable
	} else {
		setting := control.OriginalDeploymentStrategy{MaxUnavailable: &userMaxUnavailable, MaxSurge: &userMaxSurge, MinReadySeconds: userMinReady}
		pd := userDeadline
		setting.ProgressDeadlineSeconds = &pd
		d.Annotations = map[string]string{
			util.BatchReleaseControlAnnotation:           "{}",
			v1beta1.OriginalDeploymentStrategyAnnotation: util.DumpJSON(&setting),
		}
		d.Labels = map[string]string{v1alpha1.DeploymentStableRevisionLabel: "stable-hash"}
		d.Spec.MinReadySeconds = v1beta1.MaxReadySeconds
	}
	server := d.DeepCopy()
	if !alreadyRestored {
		server.Spec.Strategy.RollingUpdate.MaxUnavailable = &userMaxUnavailable
		server.Annotations = nil
		server.Labels = nil
	}
	version := "v2"
	if verifrt.Bool("hpa.v1") {
		version = "v1"
	}
	hasHPA := verifrt.Bool("hasHPA")
	// Initialize disables the HPA before it saves the settings on the Deployment, so while they are saved it is disabled
	hpaDisabled := !alreadyRestored || verifrt.Bool("hpa.stillDisabled")
	var h *unstructured.Unstructured
	if hasHPA {
		name := "w"
		if hpaDisabled {
			name = "w" + hpa.HPADisableSuffix
		}
		hh := c05HPA(version, name)
		h = &hh
	}
	cli := &symclient.Client{ListFn: c05ListHPA(version, h, nil), Faults: faults}
	cli.ApplyFn = func(w symclient.Write) {
		if w.Verb == "patch" && w.Kind == "Deployment" {
			symclient.CopyInto(server, w.Obj)
		}
	}
	rc := &realController{client: cli, key: types.NamespacedName{Namespace: "ns", Name: "w"}, object: d}
	rc.WorkloadInfo = util.ParseWorkload(d)
	release := &v1beta1.BatchRelease{ObjectMeta: metav1.ObjectMeta{Namespace: "ns", Name: "br", UID: "uid-1"}}
	if err := rc.Finalize(release); err != nil {
		verifrt.Cover(p + ".bgdeploy.retry")
		return
	}
	if hasHPA && hpaDisabled {
		ws := cli.Writes("patch", "Unstructured:HorizontalPodAutoscaler")
		ok := len(ws) == 1
		if ok {
			name, has := verifrt.JSONGet(ws[0].Body, "spec", "scaleTargetRef", "name")
			ok = has && name == "w"
		}
		verifrt.Assert(ok, p+".bgdeploy.finalize.hpaRestored")
	}
	if !alreadyRestored {
		ws := cli.Writes("patch", "Deployment")
		ok := len(ws) == 1
		if ok {
			v, has := verifrt.JSONGet(ws[0].Body, "metadata", "annotations", util.BatchReleaseControlAnnotation)
			ok = has && v == "null"
			v, has = verifrt.JSONGet(ws[0].Body, "metadata", "annotations", v1beta1.OriginalDeploymentStrategyAnnotation)
			ok = ok && has && v == "null"
		}
		verifrt.Assert(ok, p+".bgdeploy.finalize.markersRemoved")
		if len(ws) == 1 {
			// the user's settings, as saved by Initialize, are what the patch writes back
			get := func(path ...string) string {
				v, has := verifrt.JSONGet(ws[0].Body, path...)
				if !has {
					return "<absent>"
				}
				return v
			}
			verifrt.Assert(get("spec", "minReadySeconds") == fmt.Sprintf("%d", userMinReady), p+".bgdeploy.finalize.restoresMinReadySeconds")
			verifrt.Assert(get("spec", "progressDeadlineSeconds") == fmt.Sprintf("%d", userDeadline), p+".bgdeploy.finalize.restoresProgressDeadline")
			verifrt.Assert(get("spec", "strategy", "rollingUpdate", "maxSurge") == fmt.Sprintf("%d", userMaxSurge.IntVal), p+".bgdeploy.finalize.restoresMaxSurge")
			verifrt.Assert(get("spec", "strategy", "rollingUpdate", "maxUnavailable") == fmt.Sprintf("%d", userMaxUnavailable.IntVal), p+".bgdeploy.finalize.restoresMaxUnavailable")
			verifrt.Assert(get("spec", "paused") == "false", p+".bgdeploy.finalize.unpauses")
		}
	}
	verifrt.Cover(p + ".bgdeploy.done")
}

// VerifC06_BlueGreenDeploymentInitializeGuard: Initialize is three writes behind one idempotence guard (the control
// annotation). With every API call allowed to fail (and the process allowed to die after any write, which leaves the
// same prefixes of writes), the guard is never written unless the HPA — if the workload has one — was disabled and the
// stable ReplicaSet — if there is one — got its minReadySeconds raised; otherwise the next reconcile would skip them
// for the whole release.
func VerifC06_BlueGreenDeploymentInitializeGuard() {
	d := c05Deployment()
	d.Labels = map[string]string{"app": "w"}
	d.Spec.Template.Labels = map[string]string{"app": "w"}
	version := "v2"
	if verifrt.Bool("hpa.v1") {
		version = "v1"
	}
	hasHPA := verifrt.Bool("hasHPA")
	// a previous attempt may already have disabled it
	hpaDisabled := verifrt.Bool("hpa.alreadyDisabled")
	var h *unstructured.Unstructured
	if hasHPA {
		name := "w"
		if hpaDisabled {
			name = "w" + hpa.HPADisableSuffix
		}
		hh := c05HPA(version, name)
		h = &hh
	}
	hasStableRS := verifrt.Bool("hasStableRS")
	stableRS := &apps.ReplicaSet{ObjectMeta: metav1.ObjectMeta{Namespace: "ns", Name: "w-stable"}}
	cli := &symclient.Client{ListFn: c05ListHPA(version, h, nil), Faults: true}
	rc := &realController{client: cli, key: types.NamespacedName{Namespace: "ns", Name: "w"}, object: d}
	rc.WorkloadInfo = util.ParseWorkload(d)
	verifrt.Stub("(*github.com/openkruise/rollouts/pkg/util.ControllerFinder).GetDeploymentStableRs", func(r *util.ControllerFinder, obj *apps.Deployment) (*apps.ReplicaSet, error) {
		if verifrt.Bool("fault.getStableRs") {
			return nil, symclient.ErrInjected
		}
		if hasStableRS {
			return stableRS, nil
		}
		return nil, nil
	})
	rc.finder = util.NewControllerFinder(cli)
	release := &v1beta1.BatchRelease{TypeMeta: metav1.TypeMeta{APIVersion: "rollouts.kruise.io/v1beta1", Kind: "BatchRelease"},
		ObjectMeta: metav1.ObjectMeta{Namespace: "ns", Name: "br", UID: "uid-1"}}
	err := rc.Initialize(release)
	guardWritten := false
	for _, w := range cli.Writes("patch", "Deployment") {
		if _, has := verifrt.JSONGet(w.Body, "metadata", "annotations", util.BatchReleaseControlAnnotation); has {
			guardWritten = true
		}
	}
	hpaOff := !hasHPA || hpaDisabled
	for _, w := range cli.Writes("patch", "Unstructured:HorizontalPodAutoscaler") {
		name, has := verifrt.JSONGet(w.Body, "spec", "scaleTargetRef", "name")
		if has && strings.HasSuffix(name, hpa.HPADisableSuffix) {
			hpaOff = true
		}
	}
	rsDone := !hasStableRS || len(cli.Writes("patch", "ReplicaSet")) == 1
	if guardWritten {
		verifrt.Assert(hpaOff, "C06.bgdeploy.initialize.guardOnlyAfterHPADisabled")
		verifrt.Assert(rsDone, "C06.bgdeploy.initialize.guardOnlyAfterStableRSPatched")
	}
	verifrt.Assert(verifrt.Implies(err == nil, guardWritten), "C06.bgdeploy.initialize.successMeansGuarded")
	verifrt.Cover("C06.bgdeploy.initialize.done")
	_ = context.TODO
}

// VerifC05_BlueGreenDeploymentInitializeKeepsTheSavedSettings: Initialize can run again on a Deployment this release
// has already claimed (the Preparing phase is re-entered after a lost status update, or after a restart of the plan).
// By then the live spec holds the release's own values (minReadySeconds at its maximum, maxUnavailable 0, the
// release's surge), so whatever the second call writes, the saved original settings — the only record of what the
// user had configured, and what Finalize restores — must still be the user's.
func VerifC05_BlueGreenDeploymentInitializeKeepsTheSavedSettings() {
	d := c05Deployment()
	d.Labels = map[string]string{"app": "w"}
	d.Spec.Template.Labels = map[string]string{"app": "w"}
	userMaxUnavailable := intstr.FromInt(verifrt.IntRange("user.maxUnavailable", 0, 1000))
	userMaxSurge := intstr.FromInt(verifrt.IntRange("user.maxSurge", 0, 1000))
	userMinReady := int32(verifrt.IntRange("user.minReadySeconds", 0, 3600))
	userDeadline := int32(verifrt.IntRange("user.progressDeadlineSeconds", 1, 100000))
	setting := control.OriginalDeploymentStrategy{MaxUnavailable: &userMaxUnavailable, MaxSurge: &userMaxSurge, MinReadySeconds: userMinReady}
	pd := userDeadline
	setting.ProgressDeadlineSeconds = &pd
	saved := util.DumpJSON(&setting)
	release := &v1beta1.BatchRelease{TypeMeta: metav1.TypeMeta{APIVersion: "rollouts.kruise.io/v1beta1", Kind: "BatchRelease"},
		ObjectMeta: metav1.ObjectMeta{Namespace: "ns", Name: "br", UID: "uid-1"}}
	d.Annotations = map[string]string{
		util.BatchReleaseControlAnnotation:           util.DumpJSON(metav1.NewControllerRef(release, release.GetObjectKind().GroupVersionKind())),
		v1beta1.OriginalDeploymentStrategyAnnotation: saved,
	}
	// what the first Initialize left in the live spec
	d.Spec.MinReadySeconds = v1beta1.MaxReadySeconds
	maxDeadline := int32(v1beta1.MaxProgressSeconds)
	d.Spec.ProgressDeadlineSeconds = &maxDeadline
	cli := &symclient.Client{ListFn: c05ListHPA("v2", nil, nil)}
	rc := &realController{client: cli, key: types.NamespacedName{Namespace: "ns", Name: "w"}, object: d}
	rc.WorkloadInfo = util.ParseWorkload(d)
	verifrt.Stub("(*github.com/openkruise/rollouts/pkg/util.ControllerFinder).GetDeploymentStableRs", func(r *util.ControllerFinder, obj *apps.Deployment) (*apps.ReplicaSet, error) {
		return nil, nil
	})
	rc.finder = util.NewControllerFinder(cli)
	err := rc.Initialize(release)
	verifrt.Assert(err == nil, "C05.bgdeploy.reinitialize.noError")
	for _, w := range cli.Writes("patch", "Deployment") {
		if v, has := verifrt.JSONGet(w.Body, "metadata", "annotations", v1beta1.OriginalDeploymentStrategyAnnotation); has {
			verifrt.Cover("rewrites-the-annotation")
			verifrt.Assert(v == saved, "C05.bgdeploy.reinitialize.savedSettingsStayTheUsers")
		}
	}
	verifrt.Cover("C05.bgdeploy.reinitialize.done")
}

// VerifC05_BlueGreenDeploymentFinalizeRestoresHPAWhateverFails: the exit is only over when the user's autoscaler is
// back, also when API calls fail on the way (a failed HPA lookup is not "the workload has no HPA"): Finalize reports
// done only with the HPA restored — the executor never calls it again afterwards.
func VerifC05_BlueGreenDeploymentFinalizeRestoresHPAWhateverFails() { c05Finalize(true, "C05") }
