package deployment

// C11 — Completed only after the workload is released and, where the policy is to wait, every pod is updated and
// ready — on every Finalize attempt, including a retry that finds the settings already restored.

import (
	"github.com/openkruise/rollouts/api/v1beta1"
	"github.com/openkruise/rollouts/pkg/controller/batchrelease/control"
	"github.com/openkruise/rollouts/pkg/util"
	"github.com/openkruise/rollouts/pkg/verifrt"
	"github.com/openkruise/rollouts/pkg/verifrt/symclient"
	apps "k8s.io/api/apps/v1"
	metav1 "k8s.io/apimachinery/pkg/apis/meta/v1"
	"k8s.io/apimachinery/pkg/types"
	"k8s.io/apimachinery/pkg/util/intstr"
)

func VerifC11_BlueGreenDeploymentFinalize() {
	R := int32(verifrt.IntRange("R", 1, 1000))
	d := &apps.Deployment{ObjectMeta: metav1.ObjectMeta{Namespace: "ns", Name: "w", Generation: 3}}
	d.Spec.Replicas = &R
	d.Spec.Strategy.Type = apps.RollingUpdateDeploymentStrategyType
	zero := intstr.FromInt(0)
	one := intstr.FromInt(1)
	d.Spec.Strategy.RollingUpdate = &apps.RollingUpdateDeployment{MaxSurge: &one, MaxUnavailable: &zero}
	d.Status.Replicas = int32(verifrt.IntRange("st.replicas", 0, 2000))
	d.Status.UpdatedReplicas = int32(verifrt.IntRange("st.updated", 0, 2000))
	d.Status.ReadyReplicas = int32(verifrt.IntRange("st.ready", 0, 2000))
	d.Status.AvailableReplicas = int32(verifrt.IntRange("st.available", 0, 2000))
	alreadyRestored := verifrt.Bool("alreadyRestored")
	userMaxUnavailable := intstr.FromInt(verifrt.IntRange("user.maxUnavailable", 0, 1000))
	if alreadyRestored {
		// a previous, interrupted attempt already patched the Deployment: annotations gone, user strategy back
		d.Spec.Strategy.RollingUpdate.MaxUnavailable = &userMaxUnavailable
		d.Spec.Paused = verifrt.Bool("restored.paused")
	} else {
		setting := control.OriginalDeploymentStrategy{MaxUnavailable: &userMaxUnavailable, MaxSurge: &one, MinReadySeconds: 0}
		pd := int32(600)
		setting.ProgressDeadlineSeconds = &pd
		d.Annotations = map[string]string{
			util.BatchReleaseControlAnnotation:           "{}",
			v1beta1.OriginalDeploymentStrategyAnnotation: util.DumpJSON(&setting),
		}
		d.Spec.MinReadySeconds = v1beta1.MaxReadySeconds
		d.Spec.Paused = verifrt.Bool("paused")
	}
	// what the API server returns for the patched object: user strategy restored, not paused, same status
	server := d.DeepCopy()
	if !alreadyRestored {
		server.Spec.Paused = false
		server.Spec.Strategy.RollingUpdate.MaxUnavailable = &userMaxUnavailable
		server.Annotations = nil
	}
	cli := &symclient.Client{}
	cli.ApplyFn = func(w symclient.Write) {
		if w.Verb == "patch" && w.Kind == "Deployment" {
			symclient.CopyInto(server, w.Obj)
		}
	}
	rc := &realController{client: cli, key: types.NamespacedName{Namespace: "ns", Name: "w"}, object: d}
	rc.WorkloadInfo = util.ParseWorkload(d)
	release := &v1beta1.BatchRelease{ObjectMeta: metav1.ObjectMeta{Namespace: "ns", Name: "br", UID: "uid-1"}}
	err := rc.Finalize(release)
	if err != nil {
		verifrt.Cover("retry")
		return
	}
	verifrt.Cover("finalize-done")
	// the workload as the API server has it now
	maxUnav := userMaxUnavailable.IntVal
	if maxUnav > R {
		maxUnav = R
	}
	attempt := ".firstAttempt"
	if alreadyRestored {
		attempt = ".retryAfterRestore"
	}
	verifrt.Assert(!server.Spec.Paused, "C11.bgdeploy.finalize.doneOnlyIfUnpaused"+attempt)
	verifrt.Assert(server.Status.ReadyReplicas == server.Status.UpdatedReplicas, "C11.bgdeploy.finalize.doneOnlyIfAllUpdatedAndReady"+attempt)
	verifrt.Assert(server.Status.AvailableReplicas+maxUnav >= server.Status.Replicas, "C11.bgdeploy.finalize.doneOnlyIfAvailableWithinMaxUnavailable"+attempt)
	if !alreadyRestored {
		verifrt.Assert(len(cli.Writes("patch", "Deployment")) == 1, "C11.bgdeploy.finalize.releasesControl")
	}
}

// C11: the readiness target of the blue-green Deployment's batch context equals the pods the step calls for.
func VerifC11_BlueGreenDeploymentReadinessTarget() { VerifC01_BlueGreenDeploymentBatch() }
