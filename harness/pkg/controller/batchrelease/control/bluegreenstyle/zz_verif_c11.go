package bluegreenstyle

// C11 — the control plane of this style reports a batch ready only when the workload has no replicas at all (nothing
// to verify) or the batch context computed by the workload controller passes IsBatchReady; and it skips the upgrade
// of a batch only for a workload without replicas.  The workload-specific controller is a harness implementation of
// Interface returning arbitrary workload info and an arbitrary batch context.

import (
	"github.com/openkruise/rollouts/api/v1beta1"
	batchcontext "github.com/openkruise/rollouts/pkg/controller/batchrelease/context"
	"github.com/openkruise/rollouts/pkg/util"
	"github.com/openkruise/rollouts/pkg/verifrt"
	corev1 "k8s.io/api/core/v1"
	metav1 "k8s.io/apimachinery/pkg/apis/meta/v1"
)

type c11Ctl struct {
	info     *util.WorkloadInfo
	ctx      *batchcontext.BatchContext
	upgrades int
}

func (c *c11Ctl) BuildController() (Interface, error)   { return c, nil }
func (c *c11Ctl) GetWorkloadInfo() *util.WorkloadInfo   { return c.info }
func (c *c11Ctl) ListOwnedPods() ([]*corev1.Pod, error) { return nil, nil }
func (c *c11Ctl) CalculateBatchContext(release *v1beta1.BatchRelease) (*batchcontext.BatchContext, error) {
	return c.ctx, nil
}
func (c *c11Ctl) Initialize(release *v1beta1.BatchRelease) error { return nil }
func (c *c11Ctl) UpgradeBatch(ctx *batchcontext.BatchContext) error {
	c.upgrades++
	return nil
}
func (c *c11Ctl) Finalize(release *v1beta1.BatchRelease) error { return nil }

type c11Patcher struct{}

func (c11Patcher) PatchPodBatchLabel(ctx *batchcontext.BatchContext) error { return nil }

func c11Plane() (*realBatchControlPlane, *c11Ctl) {
	R := int32(verifrt.IntRange("spec.replicas", 0, 1000))
	info := &util.WorkloadInfo{Replicas: R}
	info.Status.Replicas = int32(verifrt.IntRange("status.replicas", 0, 2000))
	info.Status.UpdatedReplicas = int32(verifrt.IntRange("status.updated", 0, 2000))
	ctx := &batchcontext.BatchContext{
		Replicas:               R,
		UpdatedReplicas:        info.Status.UpdatedReplicas,
		UpdatedReadyReplicas:   int32(verifrt.IntRange("status.updatedReady", 0, 2000)),
		PlannedUpdatedReplicas: int32(verifrt.IntRange("planned", 0, 1000)),
		DesiredUpdatedReplicas: int32(verifrt.IntRange("desired", 0, 1000)),
	}
	ctl := &c11Ctl{info: info, ctx: ctx}
	release := &v1beta1.BatchRelease{ObjectMeta: metav1.ObjectMeta{Namespace: "ns", Name: "br", UID: "uid-1"}}
	status := &v1beta1.BatchReleaseStatus{}
	return &realBatchControlPlane{Interface: ctl, patcher: c11Patcher{}, release: release, newStatus: status}, ctl
}

func VerifC11_BlueGreenStylePlaneReadyMeansBatchReady() {
	rc, ctl := c11Plane()
	err := rc.EnsureBatchPodsReadyAndLabeled()
	if err != nil {
		verifrt.Cover("not-ready")
		return
	}
	verifrt.Cover("ready")
	verifrt.Assert(ctl.info.Replicas == 0 || ctl.ctx.IsBatchReady() == nil, "C11.bluegreenstyle.plane.readyOnlyIfBatchReadyOrNoReplicas")
}

func VerifC11_BlueGreenStylePlaneUpgradesUnlessNoReplicas() {
	rc, ctl := c11Plane()
	err := rc.UpgradeBatch()
	verifrt.Assert(err == nil, "C11.bluegreenstyle.plane.upgrade.noError")
	verifrt.Assert(ctl.upgrades == 1 || ctl.info.Replicas == 0, "C11.bluegreenstyle.plane.upgradeSkippedOnlyWithoutReplicas")
}

// VerifC11_BlueGreenStylePlaneInitializeRecordsTheWorkload: a successful Initialize records, in the status that is persisted
// (newStatus), the size and the revisions of the workload as the controller sees them: scaling is later detected
// against exactly this observed size, and "ready" is judged for these revisions.
func VerifC11_BlueGreenStylePlaneInitializeRecordsTheWorkload() {
	rc, ctl := c11Plane()
	ctl.info.Status.StableRevision = "rev-1"
	ctl.info.Status.UpdateRevision = "rev-2"
	rc.newStatus.ObservedWorkloadReplicas = -1
	rc.release.Status.ObservedWorkloadReplicas = -1
	err := rc.Initialize()
	if err != nil {
		return
	}
	verifrt.Assert(rc.newStatus.ObservedWorkloadReplicas == ctl.info.Replicas, "C11.bluegreenstyle.plane.initialize.observesTheWorkloadSize")
	verifrt.Assert(rc.newStatus.StableRevision == "rev-1" && rc.newStatus.UpdateRevision == "rev-2", "C11.bluegreenstyle.plane.initialize.observesTheRevisions")
}
