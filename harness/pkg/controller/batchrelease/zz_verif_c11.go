package batchrelease

// C11 (BatchRelease status means what it says) and C01-O3 (the executor never works beyond batchPartition):
// one executor round (syncStatusBeforeExecuting + executeBatchReleasePlan) from an arbitrary persisted status, with a
// control.Interface stub whose methods return arbitrary results.

import (
	"fmt"

	"github.com/openkruise/rollouts/api/v1alpha1"
	"github.com/openkruise/rollouts/api/v1beta1"
	"github.com/openkruise/rollouts/pkg/controller/batchrelease/control"
	"github.com/openkruise/rollouts/pkg/util"
	rolloutserrors "github.com/openkruise/rollouts/pkg/util/errors"
	"github.com/openkruise/rollouts/pkg/verifrt"
	"github.com/openkruise/rollouts/pkg/verifrt/symclient"
	metav1 "k8s.io/apimachinery/pkg/apis/meta/v1"
	"k8s.io/apimachinery/pkg/util/intstr"
	"k8s.io/client-go/tools/record"
	"sigs.k8s.io/controller-runtime/pkg/reconcile"
)

type c11Ctrl struct {
	calls       []string
	initErr     bool
	upgradeErr  bool
	ensureErr   bool
	finalizeErr bool
	event       control.WorkloadEventType
	info        *util.WorkloadInfo
	syncErr     bool
	errKind     int
}

var c11Err = fmt.Errorf("injected control-plane error")

// fail: the error a failing control-plane call returns is of one of the kinds the control planes really produce:
// a plain error, a RetryError ("not done yet, come back") or a BadRequestError.
func (c *c11Ctrl) fail() error {
	switch c.errKind {
	case 1:
		return rolloutserrors.NewRetryError(c11Err)
	case 2:
		return rolloutserrors.NewBadRequestError(c11Err)
	}
	return c11Err
}

func (c *c11Ctrl) Initialize() error {
	c.calls = append(c.calls, "Initialize")
	if c.initErr {
		return c.fail()
	}
	return nil
}
func (c *c11Ctrl) UpgradeBatch() error {
	c.calls = append(c.calls, "UpgradeBatch")
	if c.upgradeErr {
		return c.fail()
	}
	return nil
}
func (c *c11Ctrl) EnsureBatchPodsReadyAndLabeled() error {
	c.calls = append(c.calls, "Ensure")
	if c.ensureErr {
		return c.fail()
	}
	return nil
}
func (c *c11Ctrl) Finalize() error {
	c.calls = append(c.calls, "Finalize")
	if c.finalizeErr {
		return c.fail()
	}
	return nil
}
func (c *c11Ctrl) SyncWorkloadInformation() (control.WorkloadEventType, *util.WorkloadInfo, error) {
	c.calls = append(c.calls, "Sync")
	if c.syncErr {
		return control.WorkloadUnknownState, nil, c11Err
	}
	return c.event, c.info, nil
}

func (c *c11Ctrl) called(name string) bool {
	for _, x := range c.calls {
		if x == name {
			return true
		}
	}
	return false
}

var c11Phases = []v1beta1.RolloutPhase{"", v1beta1.RolloutPhasePreparing, v1beta1.RolloutPhaseProgressing, v1beta1.RolloutPhaseFinalizing, v1beta1.RolloutPhaseCompleted, "SomethingUnknown"}
var c11States = []v1beta1.BatchReleaseBatchStateType{"", v1beta1.UpgradingBatchState, v1beta1.VerifyingBatchState, v1beta1.ReadyBatchState, "SomethingUnknown"}
var c11Events = []control.WorkloadEventType{control.WorkloadNormalState, control.WorkloadUnknownState, control.WorkloadPodTemplateChanged, control.WorkloadReplicasChanged,
	control.WorkloadStillReconciling, control.WorkloadHasGone, control.WorkloadRollbackInBatch}

// c11Phase fixes the starting phase of the harness family member (they run in parallel).
func c11Round(phaseIdx int) {
	nb := verifrt.Concrete(verifrt.IntRange("nBatches", 1, verifrt.Bound("batches", 2, 3)))
	release := &v1beta1.BatchRelease{ObjectMeta: metav1.ObjectMeta{Namespace: "ns", Name: "br", Generation: 2}}
	for i := 0; i < nb; i++ {
		release.Spec.ReleasePlan.Batches = append(release.Spec.ReleasePlan.Batches, v1beta1.ReleaseBatch{CanaryReplicas: intstr.FromInt(i + 1)})
	}
	hasPartition := verifrt.Bool("hasPartition")
	part := int32(0)
	if hasPartition {
		// the Rollout controller writes batchPartition = step-1 < len(batches) (C01-O4)
		part = int32(verifrt.Concrete(verifrt.IntRange("partition", 0, nb-1)))
		release.Spec.ReleasePlan.BatchPartition = &part
	}
	release.Spec.ReleasePlan.RolloutID = "rid-1"
	if verifrt.Bool("deleting") {
		now := metav1.Now()
		release.DeletionTimestamp = &now
	}
	if verifrt.Bool("rollbackAnnotation") {
		release.Annotations = map[string]string{v1alpha1.RollbackInBatchAnnotation: "true"}
	}
	st := &release.Status
	st.Phase = c11Phases[phaseIdx]
	st.CanaryStatus.CurrentBatchState = c11States[verifrt.IntRange("st.batchState", 0, len(c11States)-1)]
	cur := int32(verifrt.Concrete(verifrt.IntRange("st.currentBatch", 0, nb)))
	st.CanaryStatus.CurrentBatch = cur
	st.ObservedWorkloadReplicas = 10
	// the revisions Initialize recorded: what the planes compare the workload with to see a rollback
	st.StableRevision, st.UpdateRevision = "rev-1", "rev-2"
	st.ObservedRolloutID = "rid-1"
	if verifrt.Bool("st.rolloutIDChanged") {
		st.ObservedRolloutID = "rid-0"
	}
	planChanged := verifrt.Bool("st.planChanged")
	if planChanged {
		st.ObservedReleasePlanHash = "some-older-plan-hash"
	} else {
		st.ObservedReleasePlanHash = util.HashReleasePlanBatches(&release.Spec.ReleasePlan)
	}
	// Reachability invariant of the persisted status (its inductiveness is asserted below, C11.inv.*):
	//  - outside Progressing/Finalizing/Completed the batch state is "" or Upgrading (resetStatus, signalRePrepareRollback);
	//  - while the observed plan hash matches the plan, currentBatch <= batchPartition (the hash covers batchPartition,
	//    so every partition change goes through signalRecalculate).
	if phaseIdx <= 1 || phaseIdx == 5 {
		bs := st.CanaryStatus.CurrentBatchState
		verifrt.Assume(bs == "" || bs == v1beta1.UpgradingBatchState)
	}
	if !planChanged && hasPartition && (phaseIdx <= 2 || phaseIdx == 5) {
		verifrt.Assume(cur <= part)
	}
	if verifrt.Bool("st.hasNoNeedUpdate") {
		z := int32(0)
		st.CanaryStatus.NoNeedUpdateReplicas = &z
	}
	ctrl := &c11Ctrl{
		errKind: verifrt.IntRange("ctrl.errKind", 0, 2),
		initErr: verifrt.Bool("ctrl.initErr"), upgradeErr: verifrt.Bool("ctrl.upgradeErr"), ensureErr: verifrt.Bool("ctrl.ensureErr"),
		finalizeErr: verifrt.Bool("ctrl.finalizeErr"), syncErr: verifrt.Bool("ctrl.syncErr"),
		event: c11Events[verifrt.IntRange("ctrl.event", 0, len(c11Events)-1)],
	}
	ctrl.info = &util.WorkloadInfo{Replicas: int32(verifrt.IntRange("wl.replicas", 0, 100))}
	// SyncWorkloadInformation reports a scaling event exactly when the size differs from the observed one
	verifrt.Assume((ctrl.event == control.WorkloadReplicasChanged) == (ctrl.info.Replicas != 10))
	ctrl.info.Status.UpdatedReplicas = int32(verifrt.IntRange("wl.updated", 0, 100))
	ctrl.info.Status.UpdatedReadyReplicas = int32(verifrt.IntRange("wl.updatedReady", 0, 100))
	ctrl.info.Status.UpdateRevision = "rev-2"
	ctrl.info.Status.StableRevision = "rev-1"
	if verifrt.Bool("wl.rolledBack") {
		// the template is the stable one again: the update revision is the stable revision
		ctrl.info.Status.UpdateRevision = "rev-1"
	}
	r := &Executor{client: &symclient.Client{}, recorder: record.NewFakeRecorder(10)}

	pre := release.Status.DeepCopy()
	newStatus := getInitializedStatus(&release.Status)
	stop, _, err := r.syncStatusBeforeExecuting(release, newStatus, ctrl)
	executed := false
	var result reconcile.Result
	if !stop && err == nil {
		executed = true
		result, newStatus, err = r.executeBatchReleasePlan(release, newStatus, ctrl)
	}
	post := newStatus
	// ---- C07: a round that moved the batch along (Upgrading -> Verifying -> Ready -> next batch) leaves more work
	// that no watch event announces (status-only writes do not wake the reconciler): it asks to be called again
	if executed && err == nil && pre.Phase == v1beta1.RolloutPhaseProgressing && post.Phase == v1beta1.RolloutPhaseProgressing &&
		(post.CanaryStatus.CurrentBatchState != pre.CanaryStatus.CurrentBatchState || post.CanaryStatus.CurrentBatch != pre.CanaryStatus.CurrentBatch) {
		verifrt.Assert(result.RequeueAfter > 0 || result.Requeue, "C07.executor.progressComesWithARequeue")
	}

	progressing := pre.Phase == v1beta1.RolloutPhaseProgressing
	// ---- the invariant is inductive
	if post.Phase == v1beta1.RolloutPhasePreparing || post.Phase == "" {
		verifrt.Assert(post.CanaryStatus.CurrentBatchState == "" || post.CanaryStatus.CurrentBatchState == v1beta1.UpgradingBatchState, "C11.inv.preparingHasNoBatchVerdict")
	}
	if post.Phase == v1beta1.RolloutPhaseProgressing && hasPartition && post.ObservedReleasePlanHash == util.HashReleasePlanBatches(&release.Spec.ReleasePlan) && int(pre.CanaryStatus.CurrentBatch) < nb {
		verifrt.Assert(post.CanaryStatus.CurrentBatch <= part, "C11.inv.currentBatchWithinPartitionWhileHashMatches")
	}
	// ---- C01-O3: never beyond batchPartition; currentBatch moves by one, only from a Ready batch verified in this round
	if post.CanaryStatus.CurrentBatch > pre.CanaryStatus.CurrentBatch && post.Phase == v1beta1.RolloutPhaseProgressing && progressing && !planChanged {
		verifrt.Cover("batch-advanced")
		verifrt.Assert(post.CanaryStatus.CurrentBatch == pre.CanaryStatus.CurrentBatch+1, "C01.executor.advancesByOneBatch")
		verifrt.Assert(pre.CanaryStatus.CurrentBatchState == v1beta1.ReadyBatchState && ctrl.called("Ensure") && !ctrl.ensureErr, "C01.executor.advancesOnlyFromVerifiedReadyBatch")
		verifrt.Assert(!hasPartition || post.CanaryStatus.CurrentBatch <= part, "C01.executor.neverBeyondBatchPartition")
		// the verdict "Ready" belongs to the batch that was verified: a batch that has just been entered — the last one
		// of the plan included — starts at Upgrading, it has neither been upgraded nor verified yet
		verifrt.Assert(post.CanaryStatus.CurrentBatchState == v1beta1.UpgradingBatchState, "C11.enteredBatchStartsAtUpgrading")
	}
	if progressing && hasPartition && pre.CanaryStatus.CurrentBatch <= part && post.Phase == v1beta1.RolloutPhaseProgressing {
		verifrt.Assert(post.CanaryStatus.CurrentBatch <= part, "C01.executor.currentBatchStaysWithinPartition")
	}
	if progressing && planChanged && hasPartition && release.DeletionTimestamp == nil {
		verifrt.Cover("plan-changed")
		want := int32(0)
		if st.ObservedRolloutID == "rid-1" {
			want = part
		}
		verifrt.Assert(post.CanaryStatus.CurrentBatch == want && post.CanaryStatus.CurrentBatchState == v1beta1.UpgradingBatchState, "C01.executor.planChangeRecalculatesWithinPartition")
		verifrt.Assert(!executed, "C01.executor.planChangePersistedBeforeActing")
	}
	// a plan change is marked observed (the status hash moves to the new plan's) only together with the
	// recalculation it calls for — whatever phase the release was in when the change arrived: the batch cursor is back
	// within the new partition and the batch starts over.  (The Rollout controller takes hash equality as "the
	// BatchRelease has caught up with the plan".)
	if planChanged && post.ObservedReleasePlanHash == util.HashReleasePlanBatches(&release.Spec.ReleasePlan) && post.Phase != v1beta1.RolloutPhaseCompleted && post.Phase != v1beta1.RolloutPhaseFinalizing {
		verifrt.Cover("plan-change-observed")
		verifrt.Assert(post.CanaryStatus.CurrentBatchState == v1beta1.UpgradingBatchState || post.CanaryStatus.CurrentBatchState == "", "C11.planChangeObservedOnlyWithRecalculation.state")
		verifrt.Assert(!hasPartition || post.CanaryStatus.CurrentBatch <= part, "C11.planChangeObservedOnlyWithRecalculation.cursorWithinPartition")
	}
	// the workload is only touched (UpgradeBatch) for a batch within the partition
	if ctrl.called("UpgradeBatch") && hasPartition {
		verifrt.Assert(pre.CanaryStatus.CurrentBatch <= part || !progressing, "C01.executor.upgradeOnlyWithinPartition")
	}
	// ---- C11: Ready means verified now
	if post.Phase == v1beta1.RolloutPhaseProgressing && post.CanaryStatus.CurrentBatchState == v1beta1.ReadyBatchState {
		verifrt.Cover("ready")
		unchanged := !executed && pre.CanaryStatus.CurrentBatchState == v1beta1.ReadyBatchState
		verifrt.Assert(unchanged || (ctrl.called("Ensure") && !ctrl.ensureErr), "C11.readyOnlyIfVerifiedInThisRound")
		if executed {
			verifrt.Assert(pre.CanaryStatus.CurrentBatchState == v1beta1.VerifyingBatchState || pre.CanaryStatus.CurrentBatchState == v1beta1.ReadyBatchState, "C11.readyOnlyFromVerifyingOrReady")
		}
	}
	if executed && ctrl.called("Ensure") && ctrl.ensureErr {
		verifrt.Cover("fell-back")
		verifrt.Assert(post.CanaryStatus.CurrentBatchState == v1beta1.UpgradingBatchState, "C11.notReadyFallsBackToUpgrading")
	}
	// Completed only after Finalize succeeded (or already Completed)
	if post.Phase == v1beta1.RolloutPhaseCompleted && pre.Phase != v1beta1.RolloutPhaseCompleted {
		verifrt.Cover("completed")
		verifrt.Assert(ctrl.called("Finalize") && !ctrl.finalizeErr, "C11.completedOnlyAfterFinalizeSucceeded")
	}
	if ctrl.called("Finalize") && ctrl.finalizeErr {
		verifrt.Assert(post.Phase != v1beta1.RolloutPhaseCompleted, "C11.finalizeErrorKeepsFinalizing")
	}
	// scaling: falls back and records the new size
	if progressing && !ctrl.syncErr && ctrl.event == control.WorkloadReplicasChanged && release.DeletionTimestamp == nil && hasPartition && !planChanged && int(pre.CanaryStatus.CurrentBatch) < nb {
		verifrt.Cover("scaled")
		verifrt.Assert(post.CanaryStatus.CurrentBatchState == v1beta1.UpgradingBatchState && post.ObservedWorkloadReplicas == ctrl.info.Replicas, "C11.scalingFallsBackAndObservesNewSize")
	}
	// revision changed / unstable workload: the round stops without touching the workload
	if progressing && !ctrl.syncErr && (ctrl.event == control.WorkloadPodTemplateChanged || ctrl.event == control.WorkloadStillReconciling) && release.DeletionTimestamp == nil && hasPartition && !planChanged && int(pre.CanaryStatus.CurrentBatch) < nb {
		verifrt.Cover("stopped")
		verifrt.Assert(!ctrl.called("UpgradeBatch") && !ctrl.called("Finalize") && !ctrl.called("Initialize") && !ctrl.called("Ensure"), "C11.supersededOrUnstableStopsTheRound")
	}
	// ---- C10: a rollback that cannot be handled yet (the release is not annotated for a rollback in batches, or the
	// workload is not back on its stable revision) stops the round and stays visible: the revisions recorded in the
	// status are left alone, so every later round stops as well — until the Rollout controller has put traffic back on
	// stable and cancelled the plan
	if progressing && !ctrl.syncErr && ctrl.event == control.WorkloadRollbackInBatch && release.DeletionTimestamp == nil && hasPartition && !planChanged &&
		int(pre.CanaryStatus.CurrentBatch) < nb && pre.CanaryStatus.NoNeedUpdateReplicas == nil {
		handled := ctrl.info.Status.StableRevision == ctrl.info.Status.UpdateRevision && release.Annotations[v1alpha1.RollbackInBatchAnnotation] != ""
		if !handled {
			verifrt.Cover("rollback-waiting")
			verifrt.Assert(!executed && !ctrl.called("UpgradeBatch") && !ctrl.called("Ensure") && !ctrl.called("Finalize"), "C10.executor.unhandledRollbackStopsTheRound")
			verifrt.Assert(post.UpdateRevision == pre.UpdateRevision && post.StableRevision == pre.StableRevision, "C10.executor.unhandledRollbackStaysVisible")
		}
	}
	// ---- C06: a controller call that failed is retried: the round reports the error or asks to be called again.  (A failed
	// write changes nothing in the cluster, so no watch event follows; status-only updates of the BatchRelease do not
	// wake the reconciler either.)
	if executed && ctrl.called("Finalize") && ctrl.finalizeErr {
		verifrt.Cover("finalize-failed")
		verifrt.Assert(err != nil || result.Requeue || result.RequeueAfter > 0, "C06.executor.failedFinalizeIsRetried")
	}
	// a phase/state change decided while syncing is persisted before anything acts on it
	if !executed {
		verifrt.Assert(!ctrl.called("UpgradeBatch") && !ctrl.called("Finalize") && !ctrl.called("Initialize") && !ctrl.called("Ensure"), "C06.executor.persistBeforeAct")
	}
}

func VerifC11_ExecutorRound_Initial()     { c11Round(0) }
func VerifC11_ExecutorRound_Preparing()   { c11Round(1) }
func VerifC11_ExecutorRound_Progressing() { c11Round(2) }
func VerifC11_ExecutorRound_Finalizing()  { c11Round(3) }
func VerifC11_ExecutorRound_Completed()   { c11Round(4) }
func VerifC11_ExecutorRound_Unknown()     { c11Round(5) }

// the same relation carries C01-O3
func VerifC01_ExecutorGate() { c11Round(2) }

// C06: a change of the persisted status (phase, batch state, current batch, observed plan) is written and the round
// ended before any action is taken on the workload, so that the action of the next round is derived from what is
// persisted (obligation C06.executor.persistBeforeAct of the executor round, run under C06 too).
func VerifC06_ExecutorPersistsBeforeActing_Progressing() { VerifC11_ExecutorRound_Progressing() }
func VerifC06_ExecutorPersistsBeforeActing_Preparing()   { VerifC11_ExecutorRound_Preparing() }
func VerifC06_ExecutorRetriesAFailedFinalize()           { VerifC11_ExecutorRound_Finalizing() }

// C07: the executor asks to be called again whenever it moved a batch along (obligation
// C07.executor.progressComesWithARequeue of the Progressing round).
func VerifC07_ExecutorProgressComesWithARequeue() { VerifC11_ExecutorRound_Progressing() }

// C10: the new-revision pods stay where they are while a rollback is waiting to be handled
// (C10.executor.unhandledRollback* of the same round relation).
func VerifC10_ExecutorUnhandledRollbackStaysVisible() { VerifC11_ExecutorRound_Progressing() }
