package batchrelease

// C19 — the process-wide registry of dynamically watched workload kinds of the BatchRelease controller: what one
// release's reconcile leaves in it never keeps another release — whose workload has the same Kind name in another API
// group, or the same kind — from getting its own workload watched.

import (
	"context"
	"fmt"

	"github.com/openkruise/rollouts/api/v1beta1"
	"github.com/openkruise/rollouts/pkg/verifrt"
	"github.com/openkruise/rollouts/pkg/verifrt/symclient"
	metav1 "k8s.io/apimachinery/pkg/apis/meta/v1"
	"k8s.io/apimachinery/pkg/runtime/schema"
	"k8s.io/apimachinery/pkg/types"
	ctrl "sigs.k8s.io/controller-runtime"
	"sigs.k8s.io/controller-runtime/pkg/client"
	"sigs.k8s.io/controller-runtime/pkg/controller"
	"sigs.k8s.io/controller-runtime/pkg/handler"
)

var c19Cut = fmt.Errorf("cut: the rest of Reconcile is not part of this obligation")

func VerifC19_WatchRegistryIsPerWorkloadType() {
	groups := []string{"queue.alpha.example.io/v1", "batch.beta.example.io/v1"}
	mk := func(ns, name, apiVersion string) *v1beta1.BatchRelease {
		r := &v1beta1.BatchRelease{ObjectMeta: metav1.ObjectMeta{Namespace: ns, Name: name}}
		r.Spec.WorkloadRef = v1beta1.ObjectRef{APIVersion: apiVersion, Kind: "Worker", Name: "w"}
		return r
	}
	a := mk("team-a", "release-a", groups[0])
	b := mk("team-b", "release-b", groups[verifrt.IntRange("b.group", 0, 1)])
	cli := &symclient.Client{Objects: []client.Object{a, b}}
	rec := &BatchReleaseReconciler{Client: cli}
	// outcome of each watch registration attempt: 0 established, 1 kind not served yet, 2 Watch failed
	outcomes := []int{verifrt.IntRange("watch.outcome", 0, 2), verifrt.IntRange("watch.outcome", 0, 2), verifrt.IntRange("watch.outcome", 0, 2)}
	attempts := 0
	var established, attempted []string
	verifrt.Stub("github.com/openkruise/rollouts/pkg/util.AddWatcherDynamically", func(c controller.Controller, h handler.EventHandler, gvk schema.GroupVersionKind) (bool, error) {
		o := 0
		if attempts < len(outcomes) {
			o = outcomes[attempts]
		}
		attempts++
		attempted = append(attempted, gvk.String())
		switch o {
		case 1:
			return false, nil
		case 2:
			return true, c19Cut
		}
		established = append(established, gvk.String())
		return true, nil
	})
	verifrt.Stub("(*github.com/openkruise/rollouts/pkg/controller/batchrelease.BatchReleaseReconciler).handleFinalizer", func(r *BatchReleaseReconciler, release *v1beta1.BatchRelease) (bool, error) {
		return true, c19Cut
	})
	reconcile := func(r *v1beta1.BatchRelease) {
		_, _ = rec.Reconcile(context.TODO(), ctrl.Request{NamespacedName: types.NamespacedName{Namespace: r.Namespace, Name: r.Name}})
	}
	reconcile(a)
	if verifrt.Bool("a.twice") {
		reconcile(a)
	}
	before := len(attempted)
	reconcile(b)
	want := schema.FromAPIVersionAndKind(b.Spec.WorkloadRef.APIVersion, b.Spec.WorkloadRef.Kind).String()
	has := func(xs []string, x string) bool {
		for _, y := range xs {
			if y == x {
				return true
			}
		}
		return false
	}
	// B's reconcile either finds *its* workload type really watched, or tries to establish that watch itself
	verifrt.Assert(has(established, want) || has(attempted[before:], want), "C19.batchrelease.watchRegistry.isPerWorkloadType")
	verifrt.Cover("C19.batchrelease.watchRegistry.done")
}
