package batchrelease

// C07 / C19 — the wake-up half that lives in the event handlers.  Every "wait" of the executor relies on the workload's
// next change re-queueing the BatchRelease that owns it (C07), and on that change waking *only* that release (C19:
// releases in other namespaces, or for other workloads with similar names, are not touched by it).  The real
// workloadEventHandler is run on symbolic create / update / delete events of a Deployment or CloneSet while the API
// server holds two BatchReleases with symbolic namespaces, target kinds and target names; the queue is a recording
// stand-in.

import (
	"time"

	kruiseappsv1alpha1 "github.com/openkruise/kruise-api/apps/v1alpha1"
	kruiseappsv1beta1 "github.com/openkruise/kruise-api/apps/v1beta1"
	"github.com/openkruise/rollouts/api/v1beta1"
	"github.com/openkruise/rollouts/pkg/util"
	"github.com/openkruise/rollouts/pkg/verifrt"
	"github.com/openkruise/rollouts/pkg/verifrt/symclient"
	apps "k8s.io/api/apps/v1"
	corev1 "k8s.io/api/core/v1"
	metav1 "k8s.io/apimachinery/pkg/apis/meta/v1"
	"k8s.io/apimachinery/pkg/types"
	"sigs.k8s.io/controller-runtime/pkg/client"
	"sigs.k8s.io/controller-runtime/pkg/event"
	"sigs.k8s.io/controller-runtime/pkg/reconcile"
)

// vQueue records what is added.
type vQueue struct{ added []types.NamespacedName }

func (q *vQueue) Add(item interface{}) {
	q.added = append(q.added, item.(reconcile.Request).NamespacedName)
}
func (q *vQueue) Len() int                                       { return len(q.added) }
func (q *vQueue) Get() (item interface{}, shutdown bool)         { return nil, true }
func (q *vQueue) Done(item interface{})                          {}
func (q *vQueue) ShutDown()                                      {}
func (q *vQueue) ShutDownWithDrain()                             {}
func (q *vQueue) ShuttingDown() bool                             { return false }
func (q *vQueue) AddAfter(item interface{}, d time.Duration)     { q.Add(item) }
func (q *vQueue) AddRateLimited(item interface{})                { q.Add(item) }
func (q *vQueue) Forget(item interface{})                        {}
func (q *vQueue) NumRequeues(item interface{}) int               { return 0 }

var (
	evNamespaces = []string{"ns", "ns2"}
	evNames      = []string{"orders", "orders-v2"}
)

// kind: 0 Deployment (apps/v1), 1 CloneSet (apps.kruise.io/v1alpha1), 2 StatefulSet (apps/v1), 3 Advanced StatefulSet
// (apps.kruise.io/v1beta1): two kinds of one group, and one kind in two groups.
type evRef struct {
	ns, name string
	kind     int
}

func evPick(tag string) evRef {
	return evRef{
		ns:       evNamespaces[verifrt.IntRange(tag+".ns", 0, 1)],
		name:     evNames[verifrt.IntRange(tag+".name", 0, 1)],
		kind:     verifrt.IntRange(tag+".kind", 0, 3),
	}
}

func evRelease(name string, ref evRef) v1beta1.BatchRelease {
	br := v1beta1.BatchRelease{ObjectMeta: metav1.ObjectMeta{Namespace: ref.ns, Name: name}}
	br.Spec.WorkloadRef = v1beta1.ObjectRef{APIVersion: "apps/v1", Kind: "Deployment", Name: ref.name}
	switch ref.kind {
	case 1:
		br.Spec.WorkloadRef = v1beta1.ObjectRef{APIVersion: "apps.kruise.io/v1alpha1", Kind: "CloneSet", Name: ref.name}
	case 2:
		br.Spec.WorkloadRef = v1beta1.ObjectRef{APIVersion: "apps/v1", Kind: "StatefulSet", Name: ref.name}
	case 3:
		br.Spec.WorkloadRef = v1beta1.ObjectRef{APIVersion: "apps.kruise.io/v1beta1", Kind: "StatefulSet", Name: ref.name}
	}
	return br
}

func evWorkload(ref evRef, meta metav1.ObjectMeta, updated int32, ver string) client.Object {
	meta.Namespace, meta.Name = ref.ns, ref.name
	switch ref.kind {
	case 1:
		cs := &kruiseappsv1alpha1.CloneSet{ObjectMeta: meta}
		cs.Status.UpdatedReadyReplicas = updated
		cs.Status.UpdateRevision = ver
		return cs
	case 2:
		sts := &apps.StatefulSet{ObjectMeta: meta}
		sts.Status.UpdatedReplicas = updated
		sts.Status.UpdateRevision = ver
		return sts
	case 3:
		sts := &kruiseappsv1beta1.StatefulSet{ObjectMeta: meta}
		sts.Status.UpdatedReplicas = updated
		sts.Status.UpdateRevision = ver
		return sts
	}
	d := &apps.Deployment{ObjectMeta: meta}
	d.Status.UpdatedReplicas = updated
	d.Spec.Template.Labels = map[string]string{"ver": ver}
	return d
}

func VerifC07_WorkloadEventWakesItsBatchRelease() {
	// a Deployment's update revision is the hash of its template: equal templates, equal hashes
	verifrt.Stub("github.com/openkruise/rollouts/pkg/util.ComputeHash", func(template *corev1.PodTemplateSpec, collisionCount *int32) string {
		return "h-" + template.Labels["ver"]
	})
	// two releases held by the API server (release "b" may be absent)
	refA, refB := evPick("a"), evPick("b")
	hasB := verifrt.Bool("b.exists")
	// one release per workload (the Rollout webhook and the Rollout controller guarantee it)
	verifrt.Assume(!hasB || refA != refB)
	brA, brB := evRelease("rel-a", refA), evRelease("rel-b", refB)
	cli := &symclient.Client{}
	cli.ListFn = func(list client.ObjectList, opts []client.ListOption) error {
		l, ok := list.(*v1beta1.BatchReleaseList)
		if !ok {
			return nil
		}
		ns := ""
		for _, o := range opts {
			if in, ok := o.(client.InNamespace); ok {
				ns = string(in)
			}
		}
		for _, br := range []v1beta1.BatchRelease{brA, brB} {
			if br.Name == "rel-b" && !hasB {
				continue
			}
			if ns == "" || br.Namespace == ns {
				l.Items = append(l.Items, br)
			}
		}
		return nil
	}
	// the workload the event is about (its namespace and name are fixed: the two releases range over the same and
	// the other namespace / name around it)
	w := evRef{ns: "ns", name: "orders", kind: verifrt.IntRange("w.kind", 0, 3)}
	meta := metav1.ObjectMeta{ResourceVersion: "2", Generation: 2}
	// the control annotation, when the release has already claimed the workload
	claimedBy := verifrt.IntRange("w.claimedBy", 0, 2) // 0 nobody, 1 rel-a, 2 some release that is not listed
	switch claimedBy {
	case 1:
		meta.Annotations = map[string]string{util.BatchReleaseControlAnnotation: `{"apiVersion":"rollouts.kruise.io/v1beta1","kind":"BatchRelease","name":"rel-a","uid":"u","controller":true,"blockOwnerDeletion":true}`}
	case 2:
		meta.Annotations = map[string]string{util.BatchReleaseControlAnnotation: `{"apiVersion":"rollouts.kruise.io/v1beta1","kind":"BatchRelease","name":"rel-z","uid":"u","controller":true,"blockOwnerDeletion":true}`}
	}
	obj := evWorkload(w, meta, 3, "v2")
	q := &vQueue{}
	h := workloadEventHandler{Reader: cli}
	changed := true
	switch verifrt.IntRange("event", 0, 2) {
	case 0:
		verifrt.Cover("create")
		h.Create(event.CreateEvent{Object: obj}, q)
	case 1:
		verifrt.Cover("delete")
		h.Delete(event.DeleteEvent{Object: obj}, q)
	case 2:
		verifrt.Cover("update")
		oldMeta := *meta.DeepCopy()
		oldUpdated := int32(3)
		sameRV := verifrt.Bool("old.sameResourceVersion")
		genChanged := verifrt.Bool("old.generationDiffers")
		statusChanged := verifrt.Bool("old.statusDiffers")
		if !sameRV {
			oldMeta.ResourceVersion = "1"
		}
		if genChanged {
			oldMeta.Generation = 1
		}
		oldVer := "v2"
		if statusChanged {
			if verifrt.Bool("old.revisionDiffers") {
				oldVer = "v1"
			} else {
				oldUpdated = 2
			}
		}
		changed = !sameRV && (genChanged || statusChanged)
		h.Update(event.UpdateEvent{ObjectOld: evWorkload(w, oldMeta, oldUpdated, oldVer), ObjectNew: obj}, q)
	}
	// who must be woken: the release named by the control annotation, else the listed release in the workload's
	// namespace whose target is this workload
	var want []types.NamespacedName
	if changed {
		switch claimedBy {
		case 1:
			want = append(want, types.NamespacedName{Namespace: w.ns, Name: "rel-a"})
		case 2:
			want = append(want, types.NamespacedName{Namespace: w.ns, Name: "rel-z"})
		default:
			if refA == w {
				want = append(want, types.NamespacedName{Namespace: refA.ns, Name: "rel-a"})
			} else if hasB && refB == w {
				want = append(want, types.NamespacedName{Namespace: refB.ns, Name: "rel-b"})
			}
		}
	}
	if len(want) == 1 {
		verifrt.Cover("woken")
		verifrt.Assert(len(q.added) >= 1, "C07.events.workloadChangeWakesItsRelease")
	}
	for _, got := range q.added {
		verifrt.Assert(len(want) == 1 && got == want[0], "C19.events.workloadChangeWakesOnlyItsOwnRelease")
	}
	if !changed {
		verifrt.Assert(len(q.added) == 0, "C19.events.noWakeUpWithoutAChange")
	}
}

func VerifC19_WorkloadEventWakesOnlyItsOwnRelease() { VerifC07_WorkloadEventWakesItsBatchRelease() }
