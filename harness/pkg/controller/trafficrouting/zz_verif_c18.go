package trafficrouting

// C18 — deletion waits for cleanup: the TrafficRouting controller drops its finalizer only after
// FinalisingTrafficRouting reported completion, whatever errors occur on the way; and then it does drop it.

import (
	"context"
	"fmt"

	"github.com/openkruise/rollouts/api/v1alpha1"
	"github.com/openkruise/rollouts/pkg/trafficrouting"
	"github.com/openkruise/rollouts/pkg/util"
	"github.com/openkruise/rollouts/pkg/verifrt"
	"github.com/openkruise/rollouts/pkg/verifrt/symclient"
	metav1 "k8s.io/apimachinery/pkg/apis/meta/v1"
	"k8s.io/apimachinery/pkg/types"
	ctrl "sigs.k8s.io/controller-runtime"
	"sigs.k8s.io/controller-runtime/pkg/client"
)

const (
	stubFinalising = "(*github.com/openkruise/rollouts/pkg/trafficrouting.Manager).FinalisingTrafficRouting"
	stubDoRouting  = "(*github.com/openkruise/rollouts/pkg/trafficrouting.Manager).DoTrafficRouting"
	stubInitialize = "(*github.com/openkruise/rollouts/pkg/trafficrouting.Manager).InitializeTrafficRouting"
)

var c18Err = fmt.Errorf("injected error")

func c18Has(fs []string, f string) bool {
	for _, x := range fs {
		if x == f {
			return true
		}
	}
	return false
}

func VerifC18_TrafficRoutingFinalizer() {
	tr := &v1alpha1.TrafficRouting{ObjectMeta: metav1.ObjectMeta{Namespace: "ns", Name: "tr", UID: "tr-uid", Generation: 1}}
	tr.Spec.ObjectRef = []v1alpha1.TrafficRoutingRef{{Service: "svc", Ingress: &v1alpha1.IngressTrafficRouting{Name: "ing"}}}
	hasOwn := verifrt.Bool("hasOwnFinalizer")
	if hasOwn {
		tr.Finalizers = append(tr.Finalizers, util.TrafficRoutingFinalizer)
	}
	if verifrt.Bool("hasProgressingFinalizer") {
		tr.Finalizers = append(tr.Finalizers, util.ProgressingRolloutFinalizer("ro"))
	}
	deleting := verifrt.Bool("deleting")
	if deleting {
		now := metav1.Now()
		tr.DeletionTimestamp = &now
	}
	phases := []v1alpha1.TrafficRoutingPhase{"", v1alpha1.TrafficRoutingPhaseInitial, v1alpha1.TrafficRoutingPhaseHealthy, v1alpha1.TrafficRoutingPhaseProgressing, v1alpha1.TrafficRoutingPhaseFinalizing, v1alpha1.TrafficRoutingPhaseTerminating}
	tr.Status.Phase = phases[verifrt.IntRange("phase", 0, len(phases)-1)]
	cli := &symclient.Client{Objects: []client.Object{tr}, Faults: true}
	finalisingCalled, finalisingDone := false, false
	verifrt.Stub(stubFinalising, func(m *trafficrouting.Manager, c *trafficrouting.TrafficRoutingContext) (bool, error) {
		finalisingCalled = true
		if verifrt.Bool("finalising.fails") {
			return false, c18Err
		}
		finalisingDone = verifrt.Bool("finalising.done")
		return finalisingDone, nil
	})
	verifrt.Stub(stubDoRouting, func(m *trafficrouting.Manager, c *trafficrouting.TrafficRoutingContext) (bool, error) {
		return verifrt.Bool("routing.done"), nil
	})
	verifrt.Stub(stubInitialize, func(m *trafficrouting.Manager, c *trafficrouting.TrafficRoutingContext) error {
		if verifrt.Bool("initialize.fails") {
			return c18Err
		}
		return nil
	})
	r := &TrafficRoutingReconciler{Client: cli, trafficRoutingManager: trafficrouting.NewTrafficRoutingManager(cli)}
	_, err := r.Reconcile(context.TODO(), ctrl.Request{NamespacedName: types.NamespacedName{Namespace: "ns", Name: "tr"}})
	removed := false
	for _, w := range cli.Writes("update", "TrafficRouting") {
		if hasOwn && !c18Has(w.Obj.GetFinalizers(), util.TrafficRoutingFinalizer) {
			removed = true
		}
	}
	if removed {
		verifrt.Cover("finalizer-removed")
		verifrt.Assert(deleting, "C18.trafficrouting.finalizerRemovedOnlyWhenDeleting")
		verifrt.Assert(finalisingCalled && finalisingDone, "C18.trafficrouting.finalizerRemovedOnlyAfterCleanupDone")
	}
	// a TrafficRouting that is being deleted is cleaned up in every reconcile, whatever phase it was in when the
	// deletion arrived — also one that never got past its initialisation (phase still empty): otherwise the Terminating
	// arm, the only place its finalizer is removed, is never reached and the deletion is blocked for ever
	if deleting && hasOwn && err == nil {
		verifrt.Cover("deleting")
		verifrt.Assert(finalisingCalled, "C18.trafficrouting.deletionAlwaysReachesTheCleanup")
	}
	// conversely: cleanup complete and no API fault => the finalizer is removed in this reconcile
	if deleting && hasOwn && finalisingCalled && finalisingDone && err == nil {
		verifrt.Cover("cleanup-done")
		verifrt.Assert(removed, "C18.trafficrouting.finalizerRemovedOnceCleanupDone")
	}
}
