package rollout

// C03 — traffic follows pods: the ordering half is asserted inside the runCanary step relation (zz_verif_c02.go):
// routes are written only in the TrafficRouting sub-state, which is entered only after the step's upgrade was reported
// ready; the first step pins the stable Service before any pod is upgraded.

func VerifC03_CanaryInit()              { c02Canary(0) }
func VerifC03_CanaryUpgrade()           { c02Canary(1) }
func VerifC03_CanaryTrafficRouting()    { c02Canary(2) }
func VerifC03_BlueGreenInit()           { c02BlueGreen(0) }
func VerifC03_BlueGreenUpgrade()        { c02BlueGreen(1) }
func VerifC03_BlueGreenTrafficRouting() { c02BlueGreen(2) }
