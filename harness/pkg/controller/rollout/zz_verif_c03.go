package rollout

// C03 — traffic follows pods: the ordering half is asserted inside the runCanary step relation (zz_verif_c02.go):
// routes are written only in the TrafficRouting sub-state, which is entered only after the step's upgrade was reported
// ready; the first step pins the stable Service before any pod is upgraded.

import (
	"fmt"

	"github.com/openkruise/rollouts/api/v1beta1"
	"github.com/openkruise/rollouts/pkg/verifrt"
	metav1 "k8s.io/apimachinery/pkg/apis/meta/v1"
	gatewayv1beta1 "sigs.k8s.io/gateway-api/apis/v1beta1"
)

func VerifC03_CanaryInit()              { c02Canary(0) }
func VerifC03_CanaryUpgrade()           { c02Canary(1) }
func VerifC03_CanaryTrafficRouting()    { c02Canary(2) }
func VerifC03_BlueGreenInit()           { c02BlueGreen(0) }
func VerifC03_BlueGreenUpgrade()        { c02BlueGreen(1) }
func VerifC03_BlueGreenTrafficRouting() { c02BlueGreen(2) }

// VerifC03_TrafficContextCarriesTheCurrentStep: everything the traffic-routing manager writes for a step comes from
// the context built here, so for every step of the plan — the first, a middle one, the last — the context must carry
// that step's own traffic strategy (weight, matches, header modifier), the routing references of the strategy in
// use, and the revisions recorded in the status.
func VerifC03_TrafficContextCarriesTheCurrentStep() {
	n := verifrt.Concrete(verifrt.IntRange("nSteps", 1, verifrt.Bound("nSteps.max", 3, 5)))
	cur := verifrt.Concrete(verifrt.IntRange("st.currentStepIndex", 1, n))
	blueGreen := verifrt.Bool("blueGreen")
	var steps []v1beta1.CanaryStep
	for i := 0; i < n; i++ {
		t := fmt.Sprintf("%d%%", verifrt.IntRange("step.traffic", 0, 100))
		st := v1beta1.CanaryStep{}
		st.Traffic = &t
		if i%2 == 1 {
			st.Matches = []v1beta1.HttpRouteMatch{{Headers: []gatewayv1beta1.HTTPHeaderMatch{{Name: gatewayv1beta1.HTTPHeaderName(fmt.Sprintf("x-step-%d", i+1)), Value: "1"}}}}
		}
		steps = append(steps, st)
	}
	trs := []v1beta1.TrafficRoutingRef{{Service: "svc", Ingress: &v1beta1.IngressTrafficRouting{Name: "ing"}}}
	r := &v1beta1.Rollout{ObjectMeta: metav1.ObjectMeta{Namespace: "ns", Name: "ro", UID: "ro-uid"}}
	common := v1beta1.CommonStatus{CurrentStepIndex: int32(cur), StableRevision: "stable-rev", PodTemplateHash: "pth-new"}
	if blueGreen {
		r.Spec.Strategy.BlueGreen = &v1beta1.BlueGreenStrategy{Steps: steps, TrafficRoutings: trs}
		r.Status.BlueGreenStatus = &v1beta1.BlueGreenStatus{CommonStatus: common}
	} else {
		r.Spec.Strategy.Canary = &v1beta1.CanaryStrategy{Steps: steps, TrafficRoutings: trs}
		r.Status.CanaryStatus = &v1beta1.CanaryStatus{CommonStatus: common}
	}
	c := &RolloutContext{Rollout: r, NewStatus: r.Status.DeepCopy(), Workload: vWorkload()}
	tc := newTrafficRoutingContext(c)
	verifrt.Assert(tc != nil, "C03.context.built")
	if tc == nil {
		return
	}
	want := steps[cur-1]
	verifrt.Assert(tc.Strategy.Traffic != nil && *tc.Strategy.Traffic == *want.Traffic, "C03.context.carriesTheCurrentStepsWeight")
	verifrt.Assert(len(tc.Strategy.Matches) == len(want.Matches), "C03.context.carriesTheCurrentStepsMatches")
	if len(want.Matches) == 1 && len(tc.Strategy.Matches) == 1 {
		verifrt.Assert(len(tc.Strategy.Matches[0].Headers) == 1 && tc.Strategy.Matches[0].Headers[0].Name == want.Matches[0].Headers[0].Name, "C03.context.carriesTheCurrentStepsMatches")
	}
	verifrt.Assert(len(tc.ObjectRef) == 1 && tc.ObjectRef[0].Service == "svc", "C03.context.carriesTheRoutingRefs")
	verifrt.Assert(tc.Namespace == "ns" && tc.StableRevision == "stable-rev" && tc.CanaryRevision == "pth-new", "C03.context.carriesTheRecordedRevisions")
	verifrt.Assert(tc.OwnerRef.UID == r.UID && tc.OwnerRef.Name == r.Name, "C03.context.ownedByTheRollout")
	if cur == n {
		verifrt.Cover("last-step")
	}
}
