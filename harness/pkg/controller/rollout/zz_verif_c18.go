package rollout

// C18 — the Rollout finalizer is dropped only when the Terminating condition says Completed, which is set only when
// doFinalising reported completion; and it is dropped then.

import (
	"github.com/openkruise/rollouts/api/v1alpha1"
	"github.com/openkruise/rollouts/api/v1beta1"
	"github.com/openkruise/rollouts/pkg/util"
	"github.com/openkruise/rollouts/pkg/verifrt"
	"github.com/openkruise/rollouts/pkg/verifrt/symclient"
	corev1 "k8s.io/api/core/v1"
	metav1 "k8s.io/apimachinery/pkg/apis/meta/v1"
	"sigs.k8s.io/controller-runtime/pkg/client"
)

func c18Has(fs []string, f string) bool {
	for _, x := range fs {
		if x == f {
			return true
		}
	}
	return false
}

func VerifC18_RolloutFinalizer() {
	vSimple = true
	r := vCanaryRollout(1, 1)
	hasOwn := verifrt.Bool("hasOwnFinalizer")
	if hasOwn {
		r.Finalizers = []string{util.KruiseRolloutFinalizer}
	}
	if verifrt.Bool("hasForeignFinalizer") {
		r.Finalizers = append(r.Finalizers, "example.com/other")
	}
	deleting := verifrt.Bool("deleting")
	if deleting {
		now := metav1.Now()
		r.DeletionTimestamp = &now
	}
	completed := false
	switch verifrt.IntRange("terminatingCond", 0, 2) {
	case 1:
		r.Status.Conditions = append(r.Status.Conditions, v1beta1.RolloutCondition{Type: v1beta1.RolloutConditionTerminating, Status: corev1.ConditionTrue, Reason: v1alpha1.TerminatingReasonInTerminating})
	case 2:
		r.Status.Conditions = append(r.Status.Conditions, v1beta1.RolloutCondition{Type: v1beta1.RolloutConditionTerminating, Status: corev1.ConditionFalse, Reason: v1alpha1.TerminatingReasonCompleted})
		completed = true
	}
	cli := &symclient.Client{Objects: []client.Object{r}, Faults: true}
	rec := c10Reconciler(cli)
	err := rec.handleFinalizer(r)
	removed := false
	for _, w := range cli.Writes("update", "Rollout") {
		if hasOwn && !c18Has(w.Obj.GetFinalizers(), util.KruiseRolloutFinalizer) {
			removed = true
		}
		if c18Has(r.Finalizers, "example.com/other") {
			verifrt.Assert(c18Has(w.Obj.GetFinalizers(), "example.com/other"), "C18.rollout.foreignFinalizersKept")
		}
	}
	if removed {
		verifrt.Cover("finalizer-removed")
		verifrt.Assert(deleting && completed, "C18.rollout.finalizerRemovedOnlyAfterTerminationCompleted")
	}
	if deleting && completed && hasOwn && err == nil {
		verifrt.Cover("cleanup-done")
		verifrt.Assert(removed, "C18.rollout.finalizerRemovedOnceTerminationCompleted")
	}
}

// VerifC18_RolloutTerminating: the Terminating condition becomes Completed only when the clean-up reported done.
func VerifC18_RolloutTerminating() {
	vSimple = true
	r := vCanaryRollout(1, 1)
	now := metav1.Now()
	r.DeletionTimestamp = &now
	// disabled and deleted back to back (or deleted while still Disabling): what the spec asks for says nothing about
	// what has been cleaned up
	r.Spec.Disabled = verifrt.Bool("spec.disabled")
	r.Status.Conditions = append(r.Status.Conditions, v1beta1.RolloutCondition{Type: v1beta1.RolloutConditionTerminating, Status: corev1.ConditionTrue, Reason: v1alpha1.TerminatingReasonInTerminating})
	cli := &symclient.Client{}
	rec := c10Reconciler(cli)
	w := vWorkload()
	workloadMissing := verifrt.Bool("workloadMissing")
	verifrt.Stub(stubGetWorkloadForRef, func(f *util.ControllerFinder, rollout *v1beta1.Rollout) (*util.Workload, error) {
		if workloadMissing {
			return nil, nil
		}
		return w, nil
	})
	done, failed, called, reason := verifrt.Bool("finalising.done"), verifrt.Bool("finalising.failed"), false, ""
	verifrt.Stub(stubDoFinalising, func(rr *RolloutReconciler, c *RolloutContext) (bool, error) {
		called = true
		reason = c.FinalizeReason
		if failed {
			return false, vErr
		}
		return done, nil
	})
	newStatus := r.Status.DeepCopy()
	recheck, err := rec.reconcileRolloutTerminating(r, newStatus)
	cond := util.GetRolloutCondition(*newStatus, v1beta1.RolloutConditionTerminating)
	if cond != nil && cond.Reason == v1alpha1.TerminatingReasonCompleted {
		verifrt.Cover("completed")
		verifrt.Assert(called && done && !failed && err == nil, "C18.rollout.terminationCompletedOnlyAfterCleanupDone")
	}
	if called {
		verifrt.Assert(reason == v1beta1.FinaliseReasonDelete, "C18.rollout.terminationUsesDeleteSequence")
	}
	if called && done && !failed {
		verifrt.Assert(cond != nil && cond.Reason == v1alpha1.TerminatingReasonCompleted, "C18.rollout.terminationCompletedOnceCleanupDone")
	}
	if called && !done && !failed {
		// C07: a pending clean-up asks to be woken up again
		verifrt.Assert(recheck != nil, "C07.rollout.terminatingPendingRequeues")
	}
}

// VerifC18_RemoveBatchReleaseWaits: the "release workload control" clean-up task reports completion only when the
// BatchRelease is really gone (a BatchRelease that still exists — even terminating — keeps the task pending).
func VerifC18_RemoveBatchReleaseWaits() {
	vSimple = true
	r := vCanaryRollout(1, 1)
	c := vContext(r)
	cli := &symclient.Client{Faults: true}
	exists := verifrt.Bool("br.exists")
	if exists {
		br := &v1beta1.BatchRelease{ObjectMeta: metav1.ObjectMeta{Namespace: "ns", Name: "ro"}}
		if verifrt.Bool("br.terminating") {
			now := metav1.Now()
			br.DeletionTimestamp = &now
			br.Finalizers = []string{"rollouts.kruise.io/batch-release-finalizer"}
		}
		cli.Objects = []client.Object{br}
	}
	retry, err := removeBatchRelease(cli, c)
	if !retry && err == nil {
		verifrt.Cover("done")
		verifrt.Assert(!exists, "C18.rollout.batchReleaseRemovalDoneOnlyWhenGone")
	}
	if exists && err == nil {
		verifrt.Assert(retry, "C18.rollout.existingBatchReleaseKeepsTaskPending")
	}
}

// VerifC18_FinalizingBatchReleaseWaits: the "resume workload" task reports completion only when there is no
// BatchRelease or it has released the workload (batchPartition nil and phase Completed).
func VerifC18_FinalizingBatchReleaseWaits() {
	vSimple = true
	r := vCanaryRollout(1, 1)
	c := vContext(r)
	c.WaitReady = verifrt.Bool("waitReady")
	cli := &symclient.Client{Faults: true}
	exists := verifrt.Bool("br.exists")
	br := &v1beta1.BatchRelease{ObjectMeta: metav1.ObjectMeta{Namespace: "ns", Name: "ro"}}
	if verifrt.Bool("br.hasPartition") {
		p := int32(0)
		br.Spec.ReleasePlan.BatchPartition = &p
	}
	phases := []v1beta1.RolloutPhase{v1beta1.RolloutPhaseProgressing, v1beta1.RolloutPhaseFinalizing, v1beta1.RolloutPhaseCompleted}
	br.Status.Phase = phases[verifrt.IntRange("br.phase", 0, 2)]
	if verifrt.Bool("br.waitResume") {
		br.Spec.ReleasePlan.FinalizingPolicy = v1beta1.WaitResumeFinalizingPolicyType
	}
	if exists {
		cli.Objects = []client.Object{br}
	}
	retry, err := finalizingBatchRelease(cli, c)
	if !retry && err == nil {
		verifrt.Cover("done")
		verifrt.Assert(!exists || (br.Spec.ReleasePlan.BatchPartition == nil && br.Status.Phase == v1beta1.RolloutPhaseCompleted), "C18.rollout.resumeDoneOnlyWhenBatchReleaseCompleted")
	}
}

// A Rollout deleted while another clean-up (rollback, completion) is half-way: the Terminating condition reaches
// Completed — the licence to drop the finalizer — only after every restoring task has run, whatever cursor the earlier
// clean-up left in the status (driven through the real Reconcile; same relation as the C05 harness of that name).
func VerifC18_CanaryDeletionDuringAnotherCleanupKeepsTheFinalizer() {
	c05ExitViaReconcile(false, false, "C18.canary.deletionDuringAnotherCleanup")
}
func VerifC18_BlueGreenDeletionDuringAnotherCleanupKeepsTheFinalizer() {
	c05ExitViaReconcile(true, false, "C18.bluegreen.deletionDuringAnotherCleanup")
}
