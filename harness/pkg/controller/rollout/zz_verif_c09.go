package rollout

// C09 — no API-reachable object state can crash the controllers (stage 2; stage 1, the structural promises of
// validation, is checked in pkg/webhook/rollout/validating). A Rollout that satisfies those promises, with any value
// in the user-patchable status fields, is pushed through the controller step functions under NoPanic.

import (
	"github.com/openkruise/rollouts/api/v1beta1"
	"github.com/openkruise/rollouts/pkg/util"
	"github.com/openkruise/rollouts/pkg/verifrt"
	"github.com/openkruise/rollouts/pkg/verifrt/symclient"
	metav1 "k8s.io/apimachinery/pkg/apis/meta/v1"
)

func c09Setup(blueGreen bool) (*RolloutReconciler, *RolloutContext, *vCalls) {
	n := verifrt.Concrete(verifrt.IntRange("nSteps", 1, verifrt.Bound("steps", 2, 3)))
	cur := verifrt.Concrete(verifrt.IntRange("st.currentStepIndex", 1, n))
	var r *v1beta1.Rollout
	if blueGreen {
		r = vBlueGreenRollout(n, cur)
	} else {
		r = vCanaryRollout(n, cur)
	}
	c := vContext(r)
	cli := &symclient.Client{}
	calls := &vCalls{}
	br := &vBRResult{}
	c04StubTasks(calls)
	vStubRunBatchRelease(calls, br)
	return c10Reconciler(cli), c, calls
}

// nextStepIndex is a documented user-editable status field (step jump): any int32 must be tolerated.
// One harness per starting sub-state (they run in parallel).
func c09NormalRolling(blueGreen bool, state int, label string) {
	vState = state
	rec, c, _ := c09Setup(blueGreen)
	panicked := verifrt.NoPanic(func() { _ = rec.handleNormalRolling(c) })
	verifrt.Assert(!panicked, label)
	verifrt.Cover("done")
}

func VerifC09_CanaryNormalRollingNoPanic_Init() {
	c09NormalRolling(false, 0, "C09.canary.normalRolling.nopanic")
}
func VerifC09_CanaryNormalRollingNoPanic_Upgrade() {
	c09NormalRolling(false, 1, "C09.canary.normalRolling.nopanic")
}
func VerifC09_CanaryNormalRollingNoPanic_TrafficRouting() {
	c09NormalRolling(false, 2, "C09.canary.normalRolling.nopanic")
}
func VerifC09_CanaryNormalRollingNoPanic_MetricsAnalysis() {
	c09NormalRolling(false, 3, "C09.canary.normalRolling.nopanic")
}
func VerifC09_CanaryNormalRollingNoPanic_Paused() {
	c09NormalRolling(false, 4, "C09.canary.normalRolling.nopanic")
}
func VerifC09_CanaryNormalRollingNoPanic_Ready() {
	c09NormalRolling(false, 5, "C09.canary.normalRolling.nopanic")
}
func VerifC09_CanaryNormalRollingNoPanic_Completed() {
	c09NormalRolling(false, 6, "C09.canary.normalRolling.nopanic")
}
func VerifC09_CanaryNormalRollingNoPanic_Unknown() {
	c09NormalRolling(false, 7, "C09.canary.normalRolling.nopanic")
}

func VerifC09_BlueGreenNormalRollingNoPanic_InitUpgrade() {
	c09NormalRolling(true, verifrt.Concrete(verifrt.IntRange("st.state", 0, 1)), "C09.bluegreen.normalRolling.nopanic")
}
func VerifC09_BlueGreenNormalRollingNoPanic_RoutingAnalysis() {
	c09NormalRolling(true, verifrt.Concrete(verifrt.IntRange("st.state", 2, 3)), "C09.bluegreen.normalRolling.nopanic")
}
func VerifC09_BlueGreenNormalRollingNoPanic_PausedReady() {
	c09NormalRolling(true, verifrt.Concrete(verifrt.IntRange("st.state", 4, 5)), "C09.bluegreen.normalRolling.nopanic")
}
func VerifC09_BlueGreenNormalRollingNoPanic_CompletedUnknown() {
	c09NormalRolling(true, verifrt.Concrete(verifrt.IntRange("st.state", 6, 7)), "C09.bluegreen.normalRolling.nopanic")
}

// a plan edit while progressing (step count is immutable then, everything else may change)
func VerifC09_PlanChangedNoPanic() {
	vSimple = true
	rec, c, _ := c09Setup(verifrt.Bool("blueGreen"))
	cli := rec.Client.(*symclient.Client)
	if verifrt.Bool("batchReleaseExists") {
		// the BatchRelease the controller itself created for this rollout (batchPartition = some step - 1)
		m, _ := rec.getReleaseManager(c.Rollout)
		part := verifrt.IntRange("br.partition", 0, len(c.Rollout.Spec.Strategy.GetSteps())-1)
		br := m.createBatchRelease(c.Rollout, "id", int32(part), false)
		cli.Objects = append(cli.Objects, br)
	}
	panicked := verifrt.NoPanic(func() { _ = rec.handleRolloutPlanChanged(c) })
	verifrt.Assert(!panicked, "C09.planChanged.nopanic")
	verifrt.Cover("done")
}

// status calculation and traffic-routing context on any cursor the status may hold after a plan shrink
func VerifC09_TrafficRoutingContextNoPanic() {
	vSimple = true
	n := verifrt.Concrete(verifrt.IntRange("nSteps", 1, 2))
	r := vCanaryRollout(n, 1)
	r.Status.CanaryStatus.CurrentStepIndex = verifrt.Int32("st.anyCurrentStepIndex")
	c := vContext(r)
	if verifrt.Bool("noWorkload") {
		c.Workload = nil
	}
	panicked := verifrt.NoPanic(func() { _ = newTrafficRoutingContext(c) })
	verifrt.Assert(!panicked, "C09.trafficRoutingContext.nopanic")
	_ = util.RolloutHashAnnotation
	_ = metav1.Now
	verifrt.Cover("done")
}

// The special cases of a rollout in progress — rollback (directly or in batches), supersession, plan change — are
// reached from every accepted canary and blue-green rollout; none of them may panic (a blue-green rollout has no
// canaryStatus, a canary rollout no blueGreenStatus).  Same relation as VerifC10_Dispatch; here the obligation is
// the absence of a runtime panic.
func VerifC09_ProgressingSpecialCasesNoPanic() { VerifC10_Dispatch() }

// The release style of a Rollout can be changed while it is Healthy (the webhook freezes it only while Progressing or
// Terminating); the status then still holds the sub-status of the *other* style until the next release starts — or none
// at all.  Deleting, disabling or finishing such a Rollout runs the clean-up of the manager its spec names: it must
// cope with its own sub-status being absent.
func VerifC09_CleanupAfterAStyleChangeNoPanic() {
	vSimple = true
	specBlueGreen := verifrt.Bool("spec.blueGreen")
	var r *v1beta1.Rollout
	if specBlueGreen {
		r = vBlueGreenRollout(1, 1)
	} else {
		r = vCanaryRollout(1, 1)
	}
	canarySub, blueGreenSub := r.Status.CanaryStatus, r.Status.BlueGreenStatus
	r.Status.CanaryStatus, r.Status.BlueGreenStatus = nil, nil
	switch verifrt.IntRange("status.subStatus", 0, 2) {
	case 1:
		// the sub-status of the other style
		if specBlueGreen {
			r.Status.CanaryStatus = &v1beta1.CanaryStatus{}
			if blueGreenSub != nil {
				r.Status.CanaryStatus.CommonStatus = blueGreenSub.CommonStatus
			}
		} else {
			r.Status.BlueGreenStatus = &v1beta1.BlueGreenStatus{}
			if canarySub != nil {
				r.Status.BlueGreenStatus.CommonStatus = canarySub.CommonStatus
			}
		}
	case 2:
		r.Status.CanaryStatus, r.Status.BlueGreenStatus = canarySub, blueGreenSub
	}
	c := vContext(r)
	c.FinalizeReason = c04Reason()
	cli := &symclient.Client{}
	calls := &vCalls{}
	c04StubTasks(calls)
	rec := c10Reconciler(cli)
	panicked := verifrt.NoPanic(func() { _, _ = rec.doFinalising(c) })
	verifrt.Assert(!panicked, "C09.cleanup.afterStyleChange.nopanic")
	verifrt.Cover("done")
}
