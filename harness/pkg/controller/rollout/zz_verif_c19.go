package rollout

// C19 — the process-wide registry of dynamically watched workload kinds: what one rollout's reconcile leaves in it
// never keeps another rollout (same workload kind) from getting its workload watched.  A kind is recorded as watched
// only after the watch was really established.

import (
	"context"
	"fmt"

	"github.com/openkruise/rollouts/api/v1beta1"
	"github.com/openkruise/rollouts/pkg/verifrt"
	"github.com/openkruise/rollouts/pkg/verifrt/symclient"
	metav1 "k8s.io/apimachinery/pkg/apis/meta/v1"
	"k8s.io/apimachinery/pkg/runtime/schema"
	"k8s.io/apimachinery/pkg/types"
	ctrl "sigs.k8s.io/controller-runtime"
	"sigs.k8s.io/controller-runtime/pkg/client"
	"sigs.k8s.io/controller-runtime/pkg/controller"
	"sigs.k8s.io/controller-runtime/pkg/handler"
)

var c19Cut = fmt.Errorf("cut: the rest of Reconcile is not part of this obligation")

func VerifC19_WatchRegistryIsNotPoisonedByAnotherRollout() {
	mk := func(ns, name string) *v1beta1.Rollout {
		r := &v1beta1.Rollout{ObjectMeta: metav1.ObjectMeta{Namespace: ns, Name: name}}
		r.Spec.WorkloadRef = v1beta1.ObjectRef{APIVersion: "demo.verif.io/v1", Kind: "Widget", Name: "w"}
		return r
	}
	a, b := mk("ns-a", "ro-a"), mk("ns-b", "ro-b")
	cli := &symclient.Client{Objects: []client.Object{a, b}}
	rec := &RolloutReconciler{Client: cli}
	// outcome of the watch registration of each attempt: 0 established, 1 kind not served yet, 2 Watch failed
	outcomes := []int{verifrt.IntRange("watch.outcome", 0, 2), verifrt.IntRange("watch.outcome", 0, 2), verifrt.IntRange("watch.outcome", 0, 2)}
	attempts := 0
	established := 0
	verifrt.Stub("github.com/openkruise/rollouts/pkg/util.AddWatcherDynamically", func(c controller.Controller, h handler.EventHandler, gvk schema.GroupVersionKind) (bool, error) {
		o := 0
		if attempts < len(outcomes) {
			o = outcomes[attempts]
		}
		attempts++
		switch o {
		case 1:
			return false, nil
		case 2:
			return true, c19Cut
		}
		established++
		return true, nil
	})
	verifrt.Stub("(*github.com/openkruise/rollouts/pkg/controller/rollout.RolloutReconciler).handleFinalizer", func(r *RolloutReconciler, rollout *v1beta1.Rollout) error {
		return c19Cut
	})
	reconcile := func(r *v1beta1.Rollout) {
		_, _ = rec.Reconcile(context.TODO(), ctrl.Request{NamespacedName: types.NamespacedName{Namespace: r.Namespace, Name: r.Name}})
	}
	// rollout A is reconciled once or twice, then rollout B
	reconcile(a)
	if verifrt.Bool("a.twice") {
		reconcile(a)
	}
	before := attempts
	reconcile(b)
	// B's reconcile either finds the kind really watched, or tries to establish the watch itself
	verifrt.Assert(established > 0 || attempts > before, "C19.watchRegistry.unwatchedKindIsRetriedByEveryRollout")
	verifrt.Cover("C19.watchRegistry.done")
}
