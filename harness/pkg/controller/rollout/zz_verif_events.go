package rollout

// C07 / C19 — the wake-up half in the Rollout controller's workload event handler: a change of a workload re-queues
// the Rollout that targets it (every "wait for the workload" of the step machine relies on it, C07) and only that one
// (C19: a Rollout in another namespace, for another kind, or for a similarly named workload is not woken).

import (
	"time"

	kruiseappsv1alpha1 "github.com/openkruise/kruise-api/apps/v1alpha1"
	kruiseappsv1beta1 "github.com/openkruise/kruise-api/apps/v1beta1"
	"github.com/openkruise/rollouts/api/v1beta1"
	"github.com/openkruise/rollouts/pkg/verifrt"
	"github.com/openkruise/rollouts/pkg/verifrt/symclient"
	apps "k8s.io/api/apps/v1"
	metav1 "k8s.io/apimachinery/pkg/apis/meta/v1"
	"k8s.io/apimachinery/pkg/runtime"
	"k8s.io/apimachinery/pkg/types"
	clientgoscheme "k8s.io/client-go/kubernetes/scheme"
	"sigs.k8s.io/controller-runtime/pkg/client"
	"sigs.k8s.io/controller-runtime/pkg/event"
	"sigs.k8s.io/controller-runtime/pkg/reconcile"
)

type vEvQueue struct{ added []types.NamespacedName }

func (q *vEvQueue) Add(item interface{}) {
	q.added = append(q.added, item.(reconcile.Request).NamespacedName)
}
func (q *vEvQueue) Len() int                                   { return len(q.added) }
func (q *vEvQueue) Get() (item interface{}, shutdown bool)     { return nil, true }
func (q *vEvQueue) Done(item interface{})                      {}
func (q *vEvQueue) ShutDown()                                  {}
func (q *vEvQueue) ShutDownWithDrain()                         {}
func (q *vEvQueue) ShuttingDown() bool                         { return false }
func (q *vEvQueue) AddAfter(item interface{}, d time.Duration) { q.Add(item) }
func (q *vEvQueue) AddRateLimited(item interface{})            { q.Add(item) }
func (q *vEvQueue) Forget(item interface{})                    {}
func (q *vEvQueue) NumRequeues(item interface{}) int           { return 0 }

type vEvRef struct {
	ns, name string
	kind     int // 0 Deployment, 1 CloneSet, 2 StatefulSet, 3 Advanced StatefulSet (same kind, other group), 4 the same written with its older API version
}

// vEvTargets: does the reference name this workload?  Group and kind decide; the version a workloadRef is written with
// is not part of the identity (the Advanced StatefulSet informer delivers apps.kruise.io/v1beta1 objects whatever
// version the Rollout was written against).
func vEvTargets(ref, w vEvRef) bool {
	gk := func(k int) int {
		if k == 4 {
			return 3
		}
		return k
	}
	return ref.ns == w.ns && ref.name == w.name && gk(ref.kind) == gk(w.kind)
}

var vEvRefs = []v1beta1.ObjectRef{
	{APIVersion: "apps/v1", Kind: "Deployment"},
	{APIVersion: "apps.kruise.io/v1alpha1", Kind: "CloneSet"},
	{APIVersion: "apps/v1", Kind: "StatefulSet"},
	{APIVersion: "apps.kruise.io/v1beta1", Kind: "StatefulSet"},
	{APIVersion: "apps.kruise.io/v1alpha1", Kind: "StatefulSet"},
}

func vEvPick(tag string) vEvRef {
	return vEvRef{ns: []string{"ns", "ns2"}[verifrt.IntRange(tag+".ns", 0, 1)], name: []string{"orders", "orders-v2"}[verifrt.IntRange(tag+".name", 0, 1)], kind: verifrt.IntRange(tag+".kind", 0, 4)}
}

func vEvRollout(name string, ref vEvRef) v1beta1.Rollout {
	r := v1beta1.Rollout{ObjectMeta: metav1.ObjectMeta{Namespace: ref.ns, Name: name}}
	r.Spec.WorkloadRef = vEvRefs[ref.kind]
	r.Spec.WorkloadRef.Name = ref.name
	return r
}

func VerifC07_WorkloadEventWakesItsRollout() {
	refA, refB := vEvPick("a"), vEvPick("b")
	hasB := verifrt.Bool("b.exists")
	// one Rollout per workload (validating webhook, C09)
	verifrt.Assume(!hasB || !vEvTargets(refA, refB))
	roA, roB := vEvRollout("ro-a", refA), vEvRollout("ro-b", refB)
	cli := &symclient.Client{}
	cli.ListFn = func(list client.ObjectList, opts []client.ListOption) error {
		l, ok := list.(*v1beta1.RolloutList)
		if !ok {
			return nil
		}
		ns := ""
		for _, o := range opts {
			if in, ok := o.(client.InNamespace); ok {
				ns = string(in)
			}
		}
		for _, ro := range []v1beta1.Rollout{roA, roB} {
			if ro.Name == "ro-b" && !hasB {
				continue
			}
			if ns == "" || ro.Namespace == ns {
				l.Items = append(l.Items, ro)
			}
		}
		return nil
	}
	w := vEvRef{ns: "ns", name: "orders", kind: verifrt.IntRange("w.kind", 0, 3)}
	meta := metav1.ObjectMeta{Namespace: w.ns, Name: w.name, ResourceVersion: "2"}
	var obj client.Object
	switch w.kind {
	case 0:
		obj = &apps.Deployment{ObjectMeta: meta}
	case 1:
		obj = &kruiseappsv1alpha1.CloneSet{ObjectMeta: meta}
	case 2:
		obj = &apps.StatefulSet{ObjectMeta: meta}
	default:
		obj = &kruiseappsv1beta1.StatefulSet{ObjectMeta: meta}
	}
	scheme := &runtime.Scheme{}
	if !verifrt.Symbolic() {
		scheme = runtime.NewScheme()
		_ = clientgoscheme.AddToScheme(scheme)
		_ = kruiseappsv1alpha1.AddToScheme(scheme)
		_ = kruiseappsv1beta1.AddToScheme(scheme)
	}
	h := &enqueueRequestForWorkload{reader: cli, scheme: scheme}
	q := &vEvQueue{}
	switch verifrt.IntRange("event", 0, 2) {
	case 0:
		verifrt.Cover("create")
		h.Create(event.CreateEvent{Object: obj}, q)
	case 1:
		verifrt.Cover("delete")
		h.Delete(event.DeleteEvent{Object: obj}, q)
	case 2:
		verifrt.Cover("update")
		h.Update(event.UpdateEvent{ObjectOld: obj.DeepCopyObject().(client.Object), ObjectNew: obj}, q)
	}
	var want *types.NamespacedName
	if vEvTargets(refA, w) {
		want = &types.NamespacedName{Namespace: refA.ns, Name: "ro-a"}
	} else if hasB && vEvTargets(refB, w) {
		want = &types.NamespacedName{Namespace: refB.ns, Name: "ro-b"}
	}
	if want != nil {
		verifrt.Cover("woken")
		verifrt.Assert(len(q.added) >= 1, "C07.events.workloadChangeWakesItsRollout")
	}
	for _, got := range q.added {
		verifrt.Assert(want != nil && got == *want, "C19.events.workloadChangeWakesOnlyItsOwnRollout")
	}
}

func VerifC19_WorkloadEventWakesOnlyItsOwnRollout() { VerifC07_WorkloadEventWakesItsRollout() }
