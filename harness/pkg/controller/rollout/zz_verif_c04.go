package rollout

// C04 — no request is routed into a void: ordered clean-up (DESIGN.md §6 C04); C10 shares the sequences.

import (
	"github.com/openkruise/rollouts/api/v1beta1"
	"github.com/openkruise/rollouts/pkg/verifrt"
	"github.com/openkruise/rollouts/pkg/verifrt/symclient"
	"sigs.k8s.io/controller-runtime/pkg/client"
)

func c04Pos(seq []v1beta1.FinalisingStepType, t v1beta1.FinalisingStepType) int {
	for i, x := range seq {
		if x == t {
			return i
		}
	}
	return -1
}

// c04Sequence unrolls a task function from "" to END (unwinding bound 10, asserted).
func c04Sequence(next func(string, v1beta1.FinalisingStepType) v1beta1.FinalisingStepType, reason string, label string) []v1beta1.FinalisingStepType {
	var seq []v1beta1.FinalisingStepType
	t := v1beta1.FinalisingStepType("")
	for i := 0; i < 10; i++ {
		t = next(reason, t)
		if t == v1beta1.FinalisingStepTypeEnd {
			return seq
		}
		seq = append(seq, t)
	}
	verifrt.Fail(label + ".sequenceTerminates")
	return seq
}

func c04CheckSequence(prefix string, seq []v1beta1.FinalisingStepType, reason string, blueGreen bool) {
	// duplicate free
	for i := range seq {
		for j := i + 1; j < len(seq); j++ {
			verifrt.Assert(seq[i] != seq[j], prefix+".noDuplicateTask")
		}
	}
	route := c04Pos(seq, v1beta1.FinalisingStepRouteTrafficToStable)
	removeSvc := c04Pos(seq, v1beta1.FinalisingStepRemoveCanaryService)
	restoreSvc := c04Pos(seq, v1beta1.FinalisingStepRestoreStableService)
	resume := c04Pos(seq, v1beta1.FinalisingStepResumeWorkload)
	release := c04Pos(seq, v1beta1.FinalisingStepReleaseWorkloadControl)
	toNew := c04Pos(seq, v1beta1.FinalisingStepRouteTrafficToNew)
	// every clean-up contains all of: withdraw routes, remove canary Service, un-pin stable Service, resume, release
	verifrt.Assert(route >= 0 && removeSvc >= 0 && restoreSvc >= 0 && resume >= 0 && release >= 0, prefix+".allTasksPresent")
	// routes are withdrawn before the Service they point to is removed
	verifrt.Assert(route < removeSvc, prefix+".routesWithdrawnBeforeCanaryServiceRemoved")
	// the workload is handed back (BatchRelease deleted) only after it was resumed
	verifrt.Assert(resume < release, prefix+".resumeBeforeReleaseControl")
	if reason == v1beta1.FinaliseReasonRollback {
		// C10: rollback puts traffic back on stable first
		verifrt.Assert(route == 0, prefix+".rollback.trafficToStableFirst")
		verifrt.Assert(route < resume && route < release, prefix+".rollback.trafficBeforeWorkload")
		// ... and keeps it there: the stable Service stays pinned to the stable revision until the workload was
		// resumed (new-revision pods replaced); un-pinned earlier it would spread the traffic over the pods being rolled back
		verifrt.Assert(resume < restoreSvc, prefix+".rollback.stableServicePinnedUntilWorkloadResumed")
	} else {
		// stable pods are about to be replaced: the stable Service is un-pinned before that
		verifrt.Assert(restoreSvc < resume, prefix+".stableServiceUnpinnedBeforeStablePodsReplaced")
	}
	if blueGreen && reason == v1beta1.FinaliseReasonSuccess {
		verifrt.Assert(toNew >= 0 && toNew < restoreSvc && toNew < resume, prefix+".success.trafficToNewBeforeUnpinAndResume")
	}
}

func c04Reason() string {
	switch verifrt.IntRange("reason.kind", 0, 3) {
	case 0:
		return v1beta1.FinaliseReasonRollback
	case 1:
		return v1beta1.FinaliseReasonSuccess
	case 2:
		return v1beta1.FinaliseReasonDelete
	}
	// any other reason string
	s := verifrt.String("reason.other")
	verifrt.Assume(s != v1beta1.FinaliseReasonRollback && s != v1beta1.FinaliseReasonSuccess)
	return s
}

func VerifC04_CanaryTaskSequence() {
	reason := c04Reason()
	seq := c04Sequence(nextCanaryTask, reason, "C04.canary")
	c04CheckSequence("C04.canary", seq, reason, false)
	verifrt.Cover("done")
}

func VerifC04_BlueGreenTaskSequence() {
	reason := c04Reason()
	seq := c04Sequence(nextBlueGreenTask, reason, "C04.bluegreen")
	c04CheckSequence("C04.bluegreen", seq, reason, true)
	verifrt.Cover("done")
}

var c04Steps = []v1beta1.FinalisingStepType{
	"", v1beta1.FinalisingStepResumeWorkload, v1beta1.FinalisingStepReleaseWorkloadControl, v1beta1.FinalisingStepRouteTrafficToStable,
	v1beta1.FinalisingStepRestoreStableService, v1beta1.FinalisingStepRemoveCanaryService, v1beta1.FinalisingStepRouteTrafficToNew,
	v1beta1.FinalisingStepTypeEnd, "SomethingUnknown",
}

func c04StubTasks(calls *vCalls) {
	vStubAllTR(calls)
	for _, n := range []string{stubFinalizingBatchRelease, stubRemoveBatchRelease} {
		name := n
		verifrt.Stub(name, func(cli client.Client, c *RolloutContext) (bool, error) {
			b := verifrt.Bool("stub." + name + ".result")
			if verifrt.Bool("stub." + name + ".fails") {
				calls.add(name, b, true)
				return b, vErr
			}
			calls.add(name, b, false)
			return b, nil
		})
	}
}

func c04TaskStub(t v1beta1.FinalisingStepType) string {
	switch t {
	case v1beta1.FinalisingStepResumeWorkload:
		return stubFinalizingBatchRelease
	case v1beta1.FinalisingStepReleaseWorkloadControl:
		return stubRemoveBatchRelease
	case v1beta1.FinalisingStepRouteTrafficToStable:
		return stubRestoreGateway
	case v1beta1.FinalisingStepRestoreStableService:
		return stubRestoreStableService
	case v1beta1.FinalisingStepRemoveCanaryService:
		return stubRemoveCanaryService
	case v1beta1.FinalisingStepRouteTrafficToNew:
		return stubRouteAllTrafficToNew
	}
	return ""
}

// c04CheckFinalising: one call of doCanaryFinalising from an arbitrary persisted finalising cursor executes exactly
// the task the cursor names, advances by exactly one task and only after that task reported completion.
func c04CheckFinalising(prefix string, next func(string, v1beta1.FinalisingStepType) v1beta1.FinalisingStepType, reason string, pre, post v1beta1.FinalisingStepType, calls *vCalls, done bool, err error, blueGreen bool) {
	if pre == v1beta1.FinalisingStepTypeEnd {
		verifrt.Assert(done && err == nil && len(calls.names) == 0, prefix+".end.isTerminal")
		return
	}
	effective := pre
	if pre == "" {
		effective = next(reason, "")
	}
	want := c04TaskStub(effective)
	known := want != "" && (blueGreen || effective != v1beta1.FinalisingStepRouteTrafficToNew)
	if !known {
		verifrt.Cover("unknown-step")
		verifrt.Assert(len(calls.names) == 0 && !done, prefix+".unknownStep.noTaskRun")
		verifrt.Assert(post == next(reason, ""), prefix+".unknownStep.restartsAtFirstTask")
		return
	}
	verifrt.Assert(len(calls.names) == 1 && calls.names[0] == want, prefix+".runsExactlyTheCurrentTask")
	if len(calls.names) != 1 {
		return
	}
	retry, failed := calls.results[0], calls.errs[0]
	if failed || retry {
		verifrt.Cover("task-not-done")
		verifrt.Assert(!done, prefix+".notDoneWhileTaskPending")
		verifrt.Assert(post == effective, prefix+".cursorStaysWhileTaskPending")
		verifrt.Assert((err != nil) == failed, prefix+".errorPropagated")
		return
	}
	verifrt.Cover("task-done")
	// advance by at most one task (the first task is run twice: once to enter it, once to leave it)
	verifrt.Assert(post == effective || post == next(reason, effective), prefix+".advancesByAtMostOneTask")
	verifrt.Assert(done == (post == v1beta1.FinalisingStepTypeEnd), prefix+".doneIffEnd")
}

func VerifC04_CanaryFinalisingStep() {
	vSimple = true
	r := vCanaryRollout(1, 1)
	r.Status.CanaryStatus.FinalisingStep = c04Steps[verifrt.IntRange("finalisingStep", 0, len(c04Steps)-1)]
	c := vContext(r)
	c.FinalizeReason = c04Reason()
	cli := &symclient.Client{}
	calls := &vCalls{}
	c04StubTasks(calls)
	m := vCanaryManager(cli)
	pre := r.Status.CanaryStatus.FinalisingStep
	done, err := m.doCanaryFinalising(c)
	c04CheckFinalising("C04.canary.finalising", nextCanaryTask, c.FinalizeReason, pre, c.NewStatus.CanaryStatus.FinalisingStep, calls, done, err, false)
}

func VerifC04_BlueGreenFinalisingStep() {
	vSimple = true
	r := vBlueGreenRollout(1, 1)
	r.Status.BlueGreenStatus.FinalisingStep = c04Steps[verifrt.IntRange("finalisingStep", 0, len(c04Steps)-1)]
	c := vContext(r)
	c.FinalizeReason = c04Reason()
	cli := &symclient.Client{}
	calls := &vCalls{}
	c04StubTasks(calls)
	m := vBlueGreenManager(cli)
	pre := r.Status.BlueGreenStatus.FinalisingStep
	done, err := m.doCanaryFinalising(c)
	c04CheckFinalising("C04.bluegreen.finalising", nextBlueGreenTask, c.FinalizeReason, pre, c.NewStatus.BlueGreenStatus.FinalisingStep, calls, done, err, true)
}

// VerifC04_ProgressingReset: continuous release resets in the order gateway -> BatchRelease -> canary Service, each
// gated on the previous one being complete, from any persisted cursor.
func VerifC04_ProgressingReset() {
	vSimple = true
	r := vCanaryRollout(1, 1)
	r.Status.CanaryStatus.FinalisingStep = c04Steps[verifrt.IntRange("finalisingStep", 0, len(c04Steps)-1)]
	c := vContext(r)
	cli := &symclient.Client{}
	calls := &vCalls{}
	c04StubTasks(calls)
	rec := &RolloutReconciler{Client: cli, canaryManager: vCanaryManager(cli), blueGreenManager: vBlueGreenManager(cli)}
	rec.trafficRoutingManager = rec.canaryManager.trafficRoutingManager
	pre := r.Status.CanaryStatus.FinalisingStep
	done, err := rec.doProgressingReset(c)
	if !r.Spec.Strategy.HasTrafficRoutings() {
		verifrt.Cover("no-traffic-routing")
		verifrt.Assert(len(calls.names) == 1 && calls.names[0] == stubRemoveBatchRelease, "C04.reset.noTraffic.onlyRemovesBatchRelease")
		return
	}
	gw, br, svc := calls.index(stubRestoreGateway), calls.index(stubRemoveBatchRelease), calls.index(stubRemoveCanaryService)
	// order
	if gw >= 0 && br >= 0 {
		verifrt.Assert(gw < br, "C04.reset.gatewayBeforeBatchRelease")
	}
	if br >= 0 && svc >= 0 {
		verifrt.Assert(br < svc, "C04.reset.batchReleaseBeforeCanaryService")
	}
	// gating: a later task runs only if the earlier one completed in this call or the persisted cursor is already past it
	if br >= 0 {
		ok := pre == v1beta1.FinalisingStepReleaseWorkloadControl
		if gw >= 0 {
			ok = ok || (!calls.results[gw] && !calls.errs[gw])
		}
		verifrt.Assert(ok, "C04.reset.batchReleaseRemovedOnlyAfterGatewayRestored")
	}
	if svc >= 0 {
		ok := pre == v1beta1.FinalisingStepRemoveCanaryService
		if br >= 0 {
			ok = ok || (!calls.results[br] && !calls.errs[br])
		}
		verifrt.Assert(ok, "C04.reset.canaryServiceRemovedOnlyAfterBatchReleaseGone")
	}
	if done {
		verifrt.Cover("reset-done")
		verifrt.Assert(err == nil && svc >= 0 && !calls.errs[svc], "C04.reset.doneOnlyAfterCanaryServiceRemoval")
	}
	verifrt.Assert(len(calls.names) == calls.count(stubRestoreGateway)+calls.count(stubRemoveBatchRelease)+calls.count(stubRemoveCanaryService), "C04.reset.noOtherCollaborator")
}

// The Init sub-state obligations of C04 (stable Service restored before a step that replaces all stable pods) and the
// C03 ordering obligations live in the runCanary step relation (zz_verif_c02.go).
func VerifC04_CanaryInitStep() { c02Canary(0) }

// C05: whatever the exit reason, the clean-up sequence contains every restoring task (withdraw routes, remove the
// canary Service, un-pin the stable Service, resume and release the workload) and finalising executes them one by one
// from the first — none is skipped (the obligations of C04's sequence and cursor harnesses, run under C05 too).
func VerifC05_CanaryExitSequenceIsComplete()    { VerifC04_CanaryTaskSequence() }
func VerifC05_BlueGreenExitSequenceIsComplete() { VerifC04_BlueGreenTaskSequence() }
func VerifC05_CanaryExitRunsEveryTask()         { VerifC04_CanaryFinalisingStep() }
func VerifC05_BlueGreenExitRunsEveryTask()      { VerifC04_BlueGreenFinalisingStep() }

// C18 rests on the same one-step relation: the rollout's finalizer goes when the clean-up reports done, and the
// clean-up reports done only when every task — releasing the workload control (the BatchRelease really gone) included —
// has reported neither "wait" nor an error (C04.*.finalising.notDoneWhileTaskPending / cursorStaysWhileTaskPending /
// errorPropagated).
func VerifC18_CanaryFinalisingWaitsForEveryTask()    { VerifC04_CanaryFinalisingStep() }
func VerifC18_BlueGreenFinalisingWaitsForEveryTask() { VerifC04_BlueGreenFinalisingStep() }

// The Upgrade sub-state drives the BatchRelease too: for a step without traffic that replaces every stable pod the
// clean-up in front of the step has run and reported done before (C04.step.cleanupDoneBeforeAllStablePodsReplaced).
func VerifC04_CanaryUpgradeStep() { c02Canary(1) }

// C04: a rollout disabled or deleted while a rollback or a completion is being cleaned up starts its own task order
// from the top (calculateRolloutStatus → restartFinalising), whatever cursor the earlier clean-up left and whichever
// style the rollout has: continuing from the old cursor would skip RestoreStableService / RemoveCanaryService and
// leave the stable Service pinned to a revision whose pods are about to be replaced (seed C04-13: the cursor was
// cleared for the canary style only).  Same obligations as C05's.
func VerifC04_CanaryDisableDuringAnotherCleanupSkipsNoTask() {
	c05ExitDuringCleanup(false, true, "C04.canary.reasonChange.disable")
}
func VerifC04_BlueGreenDisableDuringAnotherCleanupSkipsNoTask() {
	c05ExitDuringCleanup(true, true, "C04.bluegreen.reasonChange.disable")
}
func VerifC04_BlueGreenDeletionDuringAnotherCleanupSkipsNoTask() {
	c05ExitDuringCleanup(true, false, "C04.bluegreen.reasonChange.delete")
}
