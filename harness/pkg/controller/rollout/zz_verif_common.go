package rollout

// Shared builders for the rollout-controller harnesses (C02, C03, C04, C09, C10, C18).

import (
	"fmt"
	"time"

	"github.com/openkruise/rollouts/api/v1alpha1"
	"github.com/openkruise/rollouts/api/v1beta1"
	"github.com/openkruise/rollouts/pkg/trafficrouting"
	"github.com/openkruise/rollouts/pkg/util"
	"github.com/openkruise/rollouts/pkg/verifrt"
	"github.com/openkruise/rollouts/pkg/verifrt/symclient"
	corev1 "k8s.io/api/core/v1"
	metav1 "k8s.io/apimachinery/pkg/apis/meta/v1"
	"k8s.io/apimachinery/pkg/util/intstr"
	"k8s.io/client-go/tools/record"
)

const (
	stubDoTrafficRouting         = "(*github.com/openkruise/rollouts/pkg/trafficrouting.Manager).DoTrafficRouting"
	stubFinalisingTrafficRouting = "(*github.com/openkruise/rollouts/pkg/trafficrouting.Manager).FinalisingTrafficRouting"
	stubPatchStableService       = "(*github.com/openkruise/rollouts/pkg/trafficrouting.Manager).PatchStableService"
	stubRestoreStableService     = "(*github.com/openkruise/rollouts/pkg/trafficrouting.Manager).RestoreStableService"
	stubRestoreGateway           = "(*github.com/openkruise/rollouts/pkg/trafficrouting.Manager).RestoreGateway"
	stubRemoveCanaryService      = "(*github.com/openkruise/rollouts/pkg/trafficrouting.Manager).RemoveCanaryService"
	stubRouteAllTrafficToNew     = "(*github.com/openkruise/rollouts/pkg/trafficrouting.Manager).RouteAllTrafficToNewVersion"
	stubInitializeTrafficRouting = "(*github.com/openkruise/rollouts/pkg/trafficrouting.Manager).InitializeTrafficRouting"
	stubRunBatchRelease          = "github.com/openkruise/rollouts/pkg/controller/rollout.runBatchRelease"
	stubFinalizingBatchRelease   = "github.com/openkruise/rollouts/pkg/controller/rollout.finalizingBatchRelease"
	stubRemoveBatchRelease       = "github.com/openkruise/rollouts/pkg/controller/rollout.removeBatchRelease"
)

var vStates = []v1beta1.CanaryStepState{
	v1beta1.CanaryStepStateInit, v1beta1.CanaryStepStateUpgrade, v1beta1.CanaryStepStateTrafficRouting,
	v1beta1.CanaryStepStateMetricsAnalysis, v1beta1.CanaryStepStatePaused, v1beta1.CanaryStepStateReady,
	v1beta1.CanaryStepStateCompleted, v1beta1.CanaryStepState("SomethingUnknown"),
}

// calls records the collaborator calls of one step, in order.
type vCalls struct {
	names   []string
	results []bool // the bool each stub returned (done / retry)
	errs    []bool
}

func (c *vCalls) add(name string, b bool, failed bool) {
	c.names = append(c.names, name)
	c.results = append(c.results, b)
	c.errs = append(c.errs, failed)
}

func (c *vCalls) count(name string) int {
	n := 0
	for _, x := range c.names {
		if x == name {
			n++
		}
	}
	return n
}

func (c *vCalls) index(name string) int {
	for i, x := range c.names {
		if x == name {
			return i
		}
	}
	return -1
}

// last reports the (bool, failed) outcome of the last call of that name.
func (c *vCalls) last(name string) (bool, bool, bool) {
	for i := len(c.names) - 1; i >= 0; i-- {
		if c.names[i] == name {
			return c.results[i], c.errs[i], true
		}
	}
	return false, false, false
}

var vErr = fmt.Errorf("injected collaborator error")

// vStubBoolErr registers a traffic-routing manager stub returning an arbitrary (bool, error).
func vStubTR(calls *vCalls, name string) {
	verifrt.Stub(name, func(m *trafficrouting.Manager, c *trafficrouting.TrafficRoutingContext) (bool, error) {
		b := verifrt.Bool("stub." + name + ".result")
		if verifrt.Bool("stub." + name + ".fails") {
			calls.add(name, b, true)
			return b, vErr
		}
		calls.add(name, b, false)
		return b, nil
	})
}

func vStubAllTR(calls *vCalls) {
	for _, n := range []string{stubDoTrafficRouting, stubPatchStableService, stubRestoreStableService, stubRestoreGateway, stubRemoveCanaryService, stubRouteAllTrafficToNew} {
		vStubTR(calls, n)
	}
	// FinalisingTrafficRouting with the part of its contract the callers' waits rest on: "not done yet" comes with the
	// remaining grace time in the context (pkg/trafficrouting: C07.manager.notDoneComesWithAWait), and the context's
	// last-update time is either left alone or moved to now (when something was modified in this call)
	verifrt.Stub(stubFinalisingTrafficRouting, func(m *trafficrouting.Manager, c *trafficrouting.TrafficRoutingContext) (bool, error) {
		done := verifrt.Bool("stub." + stubFinalisingTrafficRouting + ".result")
		if verifrt.Bool("stub." + stubFinalisingTrafficRouting + ".fails") {
			calls.add(stubFinalisingTrafficRouting, done, true)
			return done, vErr
		}
		if !done {
			c.RecheckDuration = time.Duration(verifrt.IntRange("stub.finalising.remainingSeconds", 1, 600)) * time.Second
			if verifrt.Bool("stub.finalising.modifiedJustNow") {
				c.LastUpdateTime = &metav1.Time{Time: time.Now()}
			}
		}
		calls.add(stubFinalisingTrafficRouting, done, false)
		return done, nil
	})
}

// vEntry is the clock reading taken by a step harness just before it calls the step function.
var vEntry time.Time

func vReplicas(name string) *intstr.IntOrString {
	if verifrt.Bool(name + ".isPercent") {
		v := intstr.FromString(fmt.Sprintf("%d%%", verifrt.IntRange(name+".percent", 0, 100)))
		return &v
	}
	v := intstr.FromInt(verifrt.IntRange(name+".int", 0, 1000))
	return &v
}

// vSteps builds n canary steps: replicas int/percent; the step at index `full` (0-based; -1 = all) also varies its
// traffic weight / header match and pause duration, the others have neither (the step functions only look at the
// current step, and at the replicas of a jump target).
// vSimple: harnesses that do not look at the steps use percent-only replicas without traffic or pause.
var vSimple = false

func vSteps(n int, full int) []v1beta1.CanaryStep {
	var steps []v1beta1.CanaryStep
	for i := 0; i < n; i++ {
		if vSimple {
			v := intstr.FromString(fmt.Sprintf("%d%%", verifrt.IntRange("step.replicas.percent", 0, 100)))
			steps = append(steps, v1beta1.CanaryStep{Replicas: &v})
			continue
		}
		st := v1beta1.CanaryStep{Replicas: vReplicas("step.replicas")}
		if full >= 0 && i != full {
			steps = append(steps, st)
			continue
		}
		switch verifrt.IntRange("step.trafficKind", 0, 2) {
		case 1:
			t := fmt.Sprintf("%d%%", verifrt.IntRange("step.traffic", 0, 100))
			st.Traffic = &t
		case 2:
			st.Matches = []v1beta1.HttpRouteMatch{{}}
		}
		if verifrt.Bool("step.hasPause") {
			d := int32(verifrt.IntRange("step.pause", 0, 100000))
			st.Pause.Duration = &d
		}
		steps = append(steps, st)
	}
	return steps
}

// vAgo returns a timestamp `seconds` before now.
func vAgo(name string) *metav1.Time {
	s := verifrt.IntRange(name, 0, 1000000)
	return &metav1.Time{Time: time.Now().Add(-time.Duration(s) * time.Second)}
}

// vState is the sub-state the harness family member starts from (-1: any of the 8, chosen symbolically).
var vState = -1

func vCommonStatus(n int, cur int) v1beta1.CommonStatus {
	cs := v1beta1.CommonStatus{}
	cs.CurrentStepIndex = int32(cur)
	if vState >= 0 {
		cs.CurrentStepState = vStates[vState]
	} else {
		cs.CurrentStepState = vStates[verifrt.IntRange("st.state", 0, len(vStates)-1)]
	}
	cs.NextStepIndex = verifrt.Int32("st.nextStepIndex")
	cs.LastUpdateTime = vAgo("st.lastUpdateAgo")
	cs.StableRevision = "stable-rev"
	cs.PodTemplateHash = verifrt.String("st.podTemplateHash")
	cs.ObservedRolloutID = verifrt.String("st.rolloutID")
	cs.RolloutHash = "hash-1"
	return cs
}

func vWorkload() *util.Workload {
	w := &util.Workload{}
	w.Namespace, w.Name = "ns", "w"
	w.Replicas = int32(verifrt.IntRange("wl.replicas", 0, 1000))
	w.StableRevision = "stable-rev"
	w.CanaryRevision = "canary-rev"
	w.PodTemplateHash = "pth-new"
	w.IsStatusConsistent = true
	w.InRolloutProgressing = true
	return w
}

func vTrafficRoutings() []v1beta1.TrafficRoutingRef {
	if !verifrt.Bool("hasTrafficRouting") {
		return nil
	}
	return []v1beta1.TrafficRoutingRef{{Service: "svc", Ingress: &v1beta1.IngressTrafficRouting{Name: "ing"}, GracePeriodSeconds: 3}}
}

// vKindChoice makes the workload kind a harness choice (Deployment / CloneSet / StatefulSet) when set.
var vKindChoice = false

// vKindMax: highest workload kind index offered when vKindChoice is set (0 Deployment, 1 CloneSet, 2 StatefulSet).
var vKindMax = 2

func vWorkloadRef(def v1beta1.ObjectRef) v1beta1.ObjectRef {
	if !vKindChoice {
		return def
	}
	switch verifrt.IntRange("workloadKind", 0, vKindMax) {
	case 0:
		return v1beta1.ObjectRef{APIVersion: "apps/v1", Kind: "Deployment", Name: "w"}
	case 1:
		return v1beta1.ObjectRef{APIVersion: "apps.kruise.io/v1alpha1", Kind: "CloneSet", Name: "w"}
	}
	return v1beta1.ObjectRef{APIVersion: "apps/v1", Kind: "StatefulSet", Name: "w"}
}

// vCanaryRollout: canary strategy (partition or canary style), nSteps steps.
func vCanaryRollout(n int, cur int) *v1beta1.Rollout {
	r := &v1beta1.Rollout{ObjectMeta: metav1.ObjectMeta{Namespace: "ns", Name: "ro", UID: "ro-uid", Annotations: map[string]string{util.RolloutHashAnnotation: "hash-1"}}}
	r.Spec.WorkloadRef = vWorkloadRef(v1beta1.ObjectRef{APIVersion: "apps.kruise.io/v1alpha1", Kind: "CloneSet", Name: "w"})
	r.Spec.Strategy.Canary = &v1beta1.CanaryStrategy{Steps: vSteps(n, cur-1), TrafficRoutings: vTrafficRoutings()}
	r.Spec.Strategy.Canary.EnableExtraWorkloadForCanary = verifrt.Bool("enableExtraWorkload")
	cond := v1beta1.RolloutCondition{Type: v1beta1.RolloutConditionProgressing, Status: corev1.ConditionTrue, Reason: v1alpha1.ProgressingReasonInRolling, LastUpdateTime: *vAgo("cond.lastUpdateAgo")}
	r.Status.Conditions = []v1beta1.RolloutCondition{cond}
	r.Status.Phase = v1beta1.RolloutPhaseProgressing
	r.Status.CanaryStatus = &v1beta1.CanaryStatus{CommonStatus: vCommonStatus(n, cur), CanaryRevision: "canary-rev"}
	return r
}

func vBlueGreenRollout(n int, cur int) *v1beta1.Rollout {
	r := &v1beta1.Rollout{ObjectMeta: metav1.ObjectMeta{Namespace: "ns", Name: "ro", UID: "ro-uid", Annotations: map[string]string{util.RolloutHashAnnotation: "hash-1"}}}
	r.Spec.WorkloadRef = vWorkloadRef(v1beta1.ObjectRef{APIVersion: "apps/v1", Kind: "Deployment", Name: "w"})
	r.Spec.Strategy.BlueGreen = &v1beta1.BlueGreenStrategy{Steps: vSteps(n, cur-1), TrafficRoutings: vTrafficRoutings()}
	cond := v1beta1.RolloutCondition{Type: v1beta1.RolloutConditionProgressing, Status: corev1.ConditionTrue, Reason: v1alpha1.ProgressingReasonInRolling, LastUpdateTime: *vAgo("cond.lastUpdateAgo")}
	r.Status.Conditions = []v1beta1.RolloutCondition{cond}
	r.Status.Phase = v1beta1.RolloutPhaseProgressing
	r.Status.BlueGreenStatus = &v1beta1.BlueGreenStatus{CommonStatus: vCommonStatus(n, cur), UpdatedRevision: "canary-rev"}
	return r
}

func vContext(r *v1beta1.Rollout) *RolloutContext {
	return &RolloutContext{Rollout: r, NewStatus: r.Status.DeepCopy(), Workload: vWorkload()}
}

func vCanaryManager(cli *symclient.Client) *canaryReleaseManager {
	return &canaryReleaseManager{Client: cli, trafficRoutingManager: trafficrouting.NewTrafficRoutingManager(cli), recorder: record.NewFakeRecorder(10)}
}

func vBlueGreenManager(cli *symclient.Client) *blueGreenReleaseManager {
	return &blueGreenReleaseManager{Client: cli, trafficRoutingManager: trafficrouting.NewTrafficRoutingManager(cli), recorder: record.NewFakeRecorder(10)}
}

// vBatchReleaseResult: what the (stubbed) runBatchRelease reports for this step.
type vBRResult struct {
	done, failed, consistent, ready bool
	currentBatch                    int32
}

func vStubRunBatchRelease(calls *vCalls, res *vBRResult) {
	verifrt.Stub(stubRunBatchRelease, func(m ReleaseManager, rollout *v1beta1.Rollout, rolloutId string, batch int32, isRollback bool) (bool, *v1beta1.BatchRelease, error) {
		res.done = verifrt.Bool("br.done")
		res.failed = verifrt.Bool("br.failed")
		calls.add(stubRunBatchRelease, res.done, res.failed)
		if res.failed {
			return false, nil, vErr
		}
		br := m.createBatchRelease(rollout, rolloutId, batch-1, isRollback)
		br.Generation = 5
		res.consistent = verifrt.Bool("br.consistent")
		if res.consistent {
			br.Status.ObservedGeneration = 5
			br.Status.ObservedReleasePlanHash = util.HashReleasePlanBatches(&br.Spec.ReleasePlan)
		} else if verifrt.Bool("br.staleGeneration") {
			br.Status.ObservedGeneration = 4
			br.Status.ObservedReleasePlanHash = util.HashReleasePlanBatches(&br.Spec.ReleasePlan)
		} else {
			br.Status.ObservedGeneration = 5
			br.Status.ObservedReleasePlanHash = "stale-hash"
		}
		res.ready = verifrt.Bool("br.batchReady")
		if res.ready {
			br.Status.CanaryStatus.CurrentBatchState = v1beta1.ReadyBatchState
		} else {
			br.Status.CanaryStatus.CurrentBatchState = v1beta1.VerifyingBatchState
		}
		res.currentBatch = int32(verifrt.IntRange("br.currentBatch", 0, 3))
		br.Status.CanaryStatus.CurrentBatch = res.currentBatch
		return res.done, br, nil
	})
}

func vStateIndex(s v1beta1.CanaryStepState) int {
	for i, x := range vStates {
		if x == s {
			return i
		}
	}
	return -1
}

// vNextStep states, independently of util.NextBatchIndex, what "the step after cur" is: cur+1, and -1 after the last
// step of the plan (the oracle must not move with the helper it checks).
func vNextStep(r *v1beta1.Rollout, cur int32) int32 {
	n := int32(0)
	if r.Spec.Strategy.Canary != nil {
		n = int32(len(r.Spec.Strategy.Canary.Steps))
	} else if r.Spec.Strategy.BlueGreen != nil {
		n = int32(len(r.Spec.Strategy.BlueGreen.Steps))
	}
	if cur >= n {
		return -1
	}
	return cur + 1
}
