package rollout

// C10 — rollback and supersession put traffic back on stable first (DESIGN.md §6 C10). The task orders themselves
// are C04 (zz_verif_c04.go); here: the dispatch of doProgressingInRolling and the outcome of cancellation.

import (
	"time"

	"github.com/openkruise/rollouts/api/v1alpha1"
	"github.com/openkruise/rollouts/api/v1beta1"
	"github.com/openkruise/rollouts/pkg/util"
	utilerrors "github.com/openkruise/rollouts/pkg/util/errors"
	"github.com/openkruise/rollouts/pkg/verifrt"
	"github.com/openkruise/rollouts/pkg/verifrt/symclient"
	corev1 "k8s.io/api/core/v1"
	metav1 "k8s.io/apimachinery/pkg/apis/meta/v1"
	"k8s.io/client-go/tools/record"
)

const (
	stubCanaryRunCanary    = "(*github.com/openkruise/rollouts/pkg/controller/rollout.canaryReleaseManager).runCanary"
	stubBlueGreenRunCanary = "(*github.com/openkruise/rollouts/pkg/controller/rollout.blueGreenReleaseManager).runCanary"
	stubDoFinalising       = "(*github.com/openkruise/rollouts/pkg/controller/rollout.RolloutReconciler).doFinalising"
	stubGetWorkloadForRef  = "(*github.com/openkruise/rollouts/pkg/util.ControllerFinder).GetWorkloadForRef"
)

func c10Reconciler(cli *symclient.Client) *RolloutReconciler {
	rec := &RolloutReconciler{Client: cli, Recorder: record.NewFakeRecorder(10), canaryManager: vCanaryManager(cli), blueGreenManager: vBlueGreenManager(cli)}
	rec.trafficRoutingManager = rec.canaryManager.trafficRoutingManager
	rec.finder = util.NewControllerFinder(cli)
	return rec
}

// VerifC10_Dispatch: the special cases are recognised in the documented order and each does what it promises.
func VerifC10_Dispatch() {
	vSimple = true
	vKindChoice = true
	n := verifrt.Concrete(verifrt.IntRange("nSteps", 1, 2))
	cur := verifrt.Concrete(verifrt.IntRange("st.currentStepIndex", 1, n))
	blueGreen := verifrt.Bool("blueGreen")
	var r *v1beta1.Rollout
	if blueGreen {
		r = vBlueGreenRollout(n, cur)
	} else {
		r = vCanaryRollout(n, cur)
	}
	r.Spec.Strategy.Paused = verifrt.Bool("spec.paused")
	if verifrt.Bool("rollbackInBatchAnnotation") {
		r.Annotations[v1alpha1.RollbackInBatchAnnotation] = "true"
	}
	if verifrt.Bool("planChanged") {
		r.Annotations[util.RolloutHashAnnotation] = "hash-2"
	}
	c := vContext(r)
	c.Workload.IsInRollback = verifrt.Bool("wl.inRollback")
	if verifrt.Bool("wl.revisionChanged") {
		c.Workload.CanaryRevision = "another-rev"
	}
	// a clean-up position left in the status by a continuous-release reset that was withdrawn half-way (the third
	// revision was reverted): the workload is back on the revision being released, ordinary rolling goes on
	if c.Workload.CanaryRevision == r.Status.GetCanaryRevision() && verifrt.Bool("st.staleCleanupCursor") {
		step := v1beta1.FinalisingStepReleaseWorkloadControl
		r.Status.GetSubStatus().FinalisingStep = step
		c.NewStatus.GetSubStatus().FinalisingStep = step
	}
	cli := &symclient.Client{}
	calls := &vCalls{}
	c04StubTasks(calls)
	runs := 0
	verifrt.Stub(stubCanaryRunCanary, func(m *canaryReleaseManager, c *RolloutContext) error { runs++; return nil })
	verifrt.Stub(stubBlueGreenRunCanary, func(m *blueGreenReleaseManager, c *RolloutContext) error { runs++; return nil })
	rec := c10Reconciler(cli)

	// the specification of the dispatch, restated from the property
	revisionChanged := c.Workload.CanaryRevision != r.Status.GetCanaryRevision()
	inBatch := !r.Spec.Strategy.HasTrafficRoutings() && (r.Spec.WorkloadRef.Kind == "CloneSet" || r.Spec.WorkloadRef.Kind == "StatefulSet") && r.Annotations[v1alpha1.RollbackInBatchAnnotation] == "true"
	rollbackDirectly := c.Workload.IsInRollback && revisionChanged && !inBatch
	rollbackInBatches := c.Workload.IsInRollback && revisionChanged && inBatch
	superseded := revisionChanged && !c.Workload.IsInRollback
	planChanged := r.Annotations[util.RolloutHashAnnotation] != "hash-1"

	pre := *r.Status.GetSubStatus()
	err := rec.doProgressingInRolling(c)
	cond := util.GetRolloutCondition(*c.NewStatus, v1beta1.RolloutConditionProgressing)

	switch {
	case rollbackDirectly:
		verifrt.Cover("rollback-directly")
		verifrt.Assert(err == nil && cond != nil && cond.Reason == v1alpha1.ProgressingReasonCancelling, "C10.rollback.entersCancelling")
		verifrt.Assert(len(calls.names) == 0 && runs == 0 && len(cli.Log) == 0, "C10.rollback.nothingElseDone")
		post := *c.NewStatus.GetSubStatus()
		verifrt.Assert(post.CurrentStepIndex == pre.CurrentStepIndex && post.CurrentStepState == pre.CurrentStepState, "C10.rollback.cursorUntouched")
	case r.Spec.Strategy.Paused:
		verifrt.Cover("paused")
		verifrt.Assert(err == nil && len(calls.names) == 0 && runs == 0 && len(cli.Log) == 0, "C10.paused.nothingDone")
	case rollbackInBatches:
		verifrt.Cover("rollback-in-batches")
		post := *c.NewStatus.GetSubStatus()
		verifrt.Assert(err == nil && post.CurrentStepIndex == 1 && post.CurrentStepState == v1beta1.CanaryStepStateInit, "C10.rollbackInBatches.restartsAtStepOne")
		verifrt.Assert(post.NextStepIndex == vNextStep(r, 1), "C10.rollbackInBatches.nextStepFollowsStepOne")
		verifrt.Assert(len(calls.names) == 0 && runs == 0, "C10.rollbackInBatches.noCollaborator")
	case superseded:
		verifrt.Cover("superseded")
		if blueGreen {
			// a blue-green release refuses a third version
			verifrt.Assert(err != nil && utilerrors.IsBadRequest(err), "C10.supersede.bluegreenRefused")
			verifrt.Assert(len(calls.names) == 0 && runs == 0 && len(cli.Log) == 0, "C10.supersede.bluegreen.nothingDone")
			verifrt.Assert(c.NewStatus.BlueGreenStatus != nil && c.NewStatus.BlueGreenStatus.CurrentStepIndex == pre.CurrentStepIndex, "C10.supersede.bluegreen.statusKept")
		} else {
			verifrt.Assert(runs == 0, "C10.supersede.noStepRun")
			// traffic goes back to stable (gateway restored) before the BatchRelease (the new-revision pods) is removed: C04.reset.*
			gw, br := calls.index(stubRestoreGateway), calls.index(stubRemoveBatchRelease)
			if r.Spec.Strategy.HasTrafficRoutings() && br >= 0 && pre.FinalisingStep != v1beta1.FinalisingStepReleaseWorkloadControl {
				verifrt.Assert(gw >= 0 && gw < br && !calls.results[gw] && !calls.errs[gw], "C10.supersede.trafficBackBeforePodsRemoved")
			}
			if c.NewStatus.CanaryStatus == nil {
				verifrt.Cover("superseded-reset-done")
				verifrt.Assert(err == nil && cond.Reason == v1alpha1.ProgressingReasonInitializing, "C10.supersede.restartsFromInitializing")
			}
		}
	case planChanged:
		verifrt.Cover("plan-changed")
		verifrt.Assert(runs == 0 && len(calls.names) == 0, "C10.planChanged.noCollaborator")
	default:
		verifrt.Cover("normal")
		if pre.CurrentStepState == v1beta1.CanaryStepStateCompleted {
			verifrt.Assert(err == nil && runs == 0 && cond.Reason == v1alpha1.ProgressingReasonFinalising, "C10.normal.completedEntersFinalising")
		} else {
			verifrt.Assert(runs == 1 && len(calls.names) == 0, "C10.normal.runsExactlyOneStep")
		}
		// a clean-up position left behind by a reset that was withdrawn half-way does not survive ordinary rolling: a
		// later rollback or supersession starts its clean-up from the first task (traffic back on stable)
		if err == nil {
			verifrt.Assert(c.NewStatus.GetSubStatus().FinalisingStep == "", "C10.normal.noStaleCleanupCursorSurvivesOrdinaryRolling")
		}
	}
}

// VerifC10_CancellationOutcome: a cancelled (rolled back) rollout ends reported as not succeeded, a finished one as
// succeeded, and neither is reported before its clean-up is done.
func VerifC10_CancellationOutcome() {
	vSimple = true
	r := vCanaryRollout(1, 1)
	cancelling := verifrt.Bool("cancelling")
	reason := v1alpha1.ProgressingReasonFinalising
	if cancelling {
		reason = v1alpha1.ProgressingReasonCancelling
	}
	r.Status.Conditions[0].Reason = reason
	cli := &symclient.Client{}
	rec := c10Reconciler(cli)
	w := vWorkload()
	verifrt.Stub(stubGetWorkloadForRef, func(f *util.ControllerFinder, rollout *v1beta1.Rollout) (*util.Workload, error) { return w, nil })
	var gotReason string
	done := verifrt.Bool("finalising.done")
	failed := verifrt.Bool("finalising.failed")
	verifrt.Stub(stubDoFinalising, func(rr *RolloutReconciler, c *RolloutContext) (bool, error) {
		gotReason = c.FinalizeReason
		if failed {
			return false, vErr
		}
		return done, nil
	})
	newStatus := r.Status.DeepCopy()
	entry := time.Now()
	recheck, err := rec.reconcileRolloutProgressing(r, newStatus)
	cond := util.GetRolloutCondition(*newStatus, v1beta1.RolloutConditionProgressing)
	succ := util.GetRolloutCondition(*newStatus, v1beta1.RolloutConditionSucceeded)
	// C07: a clean-up that is not finished (it waits for grace periods that no watched object announces) hands
	// Reconcile a wake-up in the future — for the rollback as for the completion
	if !failed && !done && err == nil {
		verifrt.Assert(recheck != nil && recheck.After(entry), "C07.progressing.pendingCleanupComesWithAWakeUp")
	}
	if cancelling {
		verifrt.Assert(gotReason == v1beta1.FinaliseReasonRollback, "C10.cancelling.usesRollbackSequence")
	} else {
		verifrt.Assert(gotReason == v1beta1.FinaliseReasonSuccess, "C10.finalising.usesSuccessSequence")
	}
	if failed {
		verifrt.Assert(err != nil, "C10.outcome.errorPropagated")
		return
	}
	if done {
		verifrt.Cover("completed")
		verifrt.Assert(cond.Reason == v1alpha1.ProgressingReasonCompleted && cond.Status == corev1.ConditionFalse, "C10.outcome.completed")
		verifrt.Assert(succ != nil, "C10.outcome.succeededConditionSet")
		if succ != nil {
			if cancelling {
				verifrt.Assert(succ.Status == corev1.ConditionFalse, "C10.outcome.rollbackReportedNotSucceeded")
			} else {
				verifrt.Assert(succ.Status == corev1.ConditionTrue, "C10.outcome.successReportedSucceeded")
			}
		}
	} else {
		verifrt.Cover("pending")
		verifrt.Assert(cond.Reason == reason && succ == nil, "C10.outcome.notReportedBeforeCleanupDone")
	}
}

// The rollback clean-up order (traffic to stable first and kept there until the workload is resumed) is stated with
// the task sequences of C04; it is C10's own obligation as well.
func VerifC10_CanaryRollbackTaskOrder()    { VerifC04_CanaryTaskSequence() }
func VerifC10_BlueGreenRollbackTaskOrder() { VerifC04_BlueGreenTaskSequence() }

// C10: the order above means something only if a task that has not completed holds the cursor: one call of the
// clean-up from any persisted cursor runs exactly the task the cursor names and moves on only after that task
// reported completion without an error — whatever (retry, error) pair the task returns, (false, err) included (seed
// C10-16: the gate looked at retry only, so a failed RouteTrafficToStable let ResumeWorkload run).  Same obligations
// as C04's.
func VerifC10_CanaryRollbackTaskHoldsTheCursorUntilDone()    { VerifC04_CanaryFinalisingStep() }
func VerifC10_BlueGreenRollbackTaskHoldsTheCursorUntilDone() { VerifC04_BlueGreenFinalisingStep() }

// VerifC10_StatusSyncKeepsTheRecordedRevision: rollback, supersession (a third revision) and completion are all
// recognised by comparing the workload with the revisions *recorded in the status when the release started*.  The
// status sync that runs at the top of every reconcile must therefore leave those records alone while the rollout is
// progressing: whatever the workload looks like now, the recorded canary (updated) revision, the recorded stable
// revision and the step cursor come out unchanged, and the observed rollout-id / workload generation are refreshed only
// when the workload still carries the recorded revision.  Otherwise the change is detected once and forgotten on the
// next reconcile, and a clean-up that needs several reconciles is abandoned half-way.
func VerifC10_StatusSyncKeepsTheRecordedRevision() {
	vSimple = true
	n := verifrt.Concrete(verifrt.IntRange("nSteps", 1, 2))
	cur := verifrt.Concrete(verifrt.IntRange("st.currentStepIndex", 1, n))
	blueGreen := verifrt.Bool("blueGreen")
	var r *v1beta1.Rollout
	if blueGreen {
		r = vBlueGreenRollout(n, cur)
	} else {
		r = vCanaryRollout(n, cur)
	}
	r.Status.Conditions[0].Reason = []string{v1alpha1.ProgressingReasonInRolling, v1alpha1.ProgressingReasonPaused, v1alpha1.ProgressingReasonCancelling, v1alpha1.ProgressingReasonFinalising}[verifrt.IntRange("cond.reason", 0, 3)]
	r.Status.GetSubStatus().ObservedRolloutID = "id-old"
	r.Status.GetSubStatus().ObservedWorkloadGeneration = 3
	w := vWorkload()
	// the workload now: still the recorded revision, reverted to the stable one, or a third revision
	switch verifrt.IntRange("wl.now", 0, 2) {
	case 1:
		w.CanaryRevision = w.StableRevision
		w.IsInRollback = verifrt.Bool("wl.inRollback")
	case 2:
		w.CanaryRevision = "third-rev"
	}
	w.Generation = int64(verifrt.IntRange("wl.generation", 3, 5))
	if verifrt.Bool("wl.hasRolloutID") {
		w.Labels = map[string]string{v1beta1.RolloutIDLabel: "id-new"}
	}
	verifrt.Stub(stubGetWorkloadForRef, func(f *util.ControllerFinder, rollout *v1beta1.Rollout) (*util.Workload, error) { return w, nil })
	verifrt.Stub(stubCalculateRolloutHash, func(r *RolloutReconciler, rollout *v1beta1.Rollout) error { return nil })
	cli := &symclient.Client{}
	rec := c10Reconciler(cli)
	before := r.Status.DeepCopy()
	retry, newStatus, err := rec.calculateRolloutStatus(r)
	verifrt.Assert(err == nil && !retry && newStatus != nil, "C10.statusSync.completes")
	if err != nil || newStatus == nil {
		return
	}
	verifrt.Assert(newStatus.Phase == v1beta1.RolloutPhaseProgressing, "C10.statusSync.staysProgressing")
	verifrt.Assert(!newStatus.IsSubStatusEmpty(), "C10.statusSync.subStatusKept")
	if newStatus.IsSubStatusEmpty() {
		return
	}
	was, is := before.GetSubStatus(), newStatus.GetSubStatus()
	verifrt.Assert(newStatus.GetCanaryRevision() == before.GetCanaryRevision(), "C10.statusSync.recordedCanaryRevisionKept")
	verifrt.Assert(is.StableRevision == was.StableRevision, "C10.statusSync.recordedStableRevisionKept")
	verifrt.Assert(is.CurrentStepIndex == was.CurrentStepIndex && is.CurrentStepState == was.CurrentStepState && is.NextStepIndex == was.NextStepIndex && is.FinalisingStep == was.FinalisingStep, "C10.statusSync.cursorKept")
	if w.CanaryRevision == before.GetCanaryRevision() {
		verifrt.Cover("same-revision")
		verifrt.Assert(is.ObservedWorkloadGeneration == w.Generation && is.ObservedRolloutID == getRolloutID(w), "C10.statusSync.observedRefreshedForTheRecordedRevision")
	} else {
		verifrt.Cover("other-revision")
		verifrt.Assert(is.ObservedWorkloadGeneration == was.ObservedWorkloadGeneration && is.ObservedRolloutID == was.ObservedRolloutID, "C10.statusSync.observedNotRefreshedForAnotherRevision")
	}
	cond := util.GetRolloutCondition(*newStatus, v1beta1.RolloutConditionProgressing)
	verifrt.Assert(cond != nil && cond.Reason == r.Status.Conditions[0].Reason, "C10.statusSync.reasonKept")
}

func VerifC07_PendingCleanupComesWithAWakeUp() { VerifC10_CancellationOutcome() }

// VerifC07_TerminatingAndDisablingWaitsHaveAWakeUp: the clean-up of a deleted or disabled rollout waits for the same
// grace periods; while it is not finished the reconcile hands back a wake-up in the future, and none of its outcomes
// is reported early (Terminating completed / phase Disabled only when the clean-up said done).
func VerifC07_TerminatingAndDisablingWaitsHaveAWakeUp() {
	vSimple = true
	r := vCanaryRollout(1, 1)
	disabling := verifrt.Bool("disabling")
	if disabling {
		r.Spec.Disabled = true
		r.Status.Phase = v1beta1.RolloutPhaseDisabling
	} else {
		now := metav1.Now()
		r.DeletionTimestamp = &now
		r.Status.Phase = v1beta1.RolloutPhaseTerminating
		r.Status.Conditions = append(r.Status.Conditions, v1beta1.RolloutCondition{Type: v1beta1.RolloutConditionTerminating, Status: corev1.ConditionTrue, Reason: v1alpha1.TerminatingReasonInTerminating})
	}
	cli := &symclient.Client{}
	rec := c10Reconciler(cli)
	w := vWorkload()
	verifrt.Stub(stubGetWorkloadForRef, func(f *util.ControllerFinder, rollout *v1beta1.Rollout) (*util.Workload, error) { return w, nil })
	done, failed := verifrt.Bool("finalising.done"), verifrt.Bool("finalising.failed")
	verifrt.Stub(stubDoFinalising, func(rr *RolloutReconciler, c *RolloutContext) (bool, error) {
		if failed {
			return false, vErr
		}
		return done, nil
	})
	newStatus := r.Status.DeepCopy()
	entry := time.Now()
	var recheck *time.Time
	var err error
	if disabling {
		recheck, err = rec.reconcileRolloutDisabling(r, newStatus)
	} else {
		recheck, err = rec.reconcileRolloutTerminating(r, newStatus)
	}
	if failed {
		verifrt.Assert(err != nil, "C07.exit.errorPropagated")
		return
	}
	verifrt.Assert(err == nil, "C07.exit.noError")
	if !done {
		verifrt.Cover("pending")
		verifrt.Assert(recheck != nil && recheck.After(entry), "C07.exit.pendingCleanupComesWithAWakeUp")
	}
	if disabling {
		verifrt.Assert((newStatus.Phase == v1beta1.RolloutPhaseDisabled) == done, "C18.rollout.disabledOnlyAfterCleanupDone")
	} else {
		cond := util.GetRolloutCondition(*newStatus, v1beta1.RolloutConditionTerminating)
		verifrt.Assert(cond != nil && (cond.Reason == v1alpha1.TerminatingReasonCompleted) == done, "C18.rollout.terminationCompletedOnlyAfterCleanupDone")
	}
}
