package rollout

// C06 — the top-level contract of the Rollout reconciler: a reconcile in which a phase handler failed (an API error,
// a conflict) reports the failure, so the work queue retries it.  Reported as a finished reconcile, nothing retries:
// no status changed, so no watch event fires either, and the rollout stops where the error hit.

import (
	"context"
	"time"

	"github.com/openkruise/rollouts/api/v1alpha1"
	"github.com/openkruise/rollouts/api/v1beta1"
	"github.com/openkruise/rollouts/pkg/util"
	"github.com/openkruise/rollouts/pkg/verifrt"
	"github.com/openkruise/rollouts/pkg/verifrt/symclient"
	metav1 "k8s.io/apimachinery/pkg/apis/meta/v1"
	"k8s.io/apimachinery/pkg/types"
	ctrl "sigs.k8s.io/controller-runtime"
	"sigs.k8s.io/controller-runtime/pkg/client"
)

const (
	stubReconcileProgressing = "(*github.com/openkruise/rollouts/pkg/controller/rollout.RolloutReconciler).reconcileRolloutProgressing"
	stubReconcileTerminating = "(*github.com/openkruise/rollouts/pkg/controller/rollout.RolloutReconciler).reconcileRolloutTerminating"
	stubReconcileDisabling   = "(*github.com/openkruise/rollouts/pkg/controller/rollout.RolloutReconciler).reconcileRolloutDisabling"
)

func VerifC06_ReconcileReportsAHandlerFailure() {
	vSimple = true
	r := vCanaryRollout(1, 1)
	r.Finalizers = []string{util.KruiseRolloutFinalizer}
	phase := verifrt.IntRange("phase", 0, 2)
	switch phase {
	case 1:
		now := metav1.Now()
		r.DeletionTimestamp = &now
		r.Status.Phase = v1beta1.RolloutPhaseTerminating
		r.Status.Conditions = append(r.Status.Conditions, v1beta1.RolloutCondition{Type: v1beta1.RolloutConditionTerminating, Status: "True", Reason: v1alpha1.TerminatingReasonInTerminating})
	case 2:
		r.Spec.Disabled = true
		r.Status.Phase = v1beta1.RolloutPhaseDisabling
	}
	fails := verifrt.Bool("handler.fails")
	wake := verifrt.Bool("handler.asksToBeCalledAgain")
	called := 0
	handler := func(rec *RolloutReconciler, rollout *v1beta1.Rollout, newStatus *v1beta1.RolloutStatus) (*time.Time, error) {
		called++
		if fails {
			return nil, vErr
		}
		if wake {
			t := time.Now().Add(5 * time.Second)
			return &t, nil
		}
		return nil, nil
	}
	verifrt.Stub(stubCalculateRolloutHash, func(r *RolloutReconciler, rollout *v1beta1.Rollout) error { return nil })
	verifrt.Stub(stubReconcileProgressing, handler)
	verifrt.Stub(stubReconcileTerminating, handler)
	verifrt.Stub(stubReconcileDisabling, handler)
	cli := &symclient.Client{Objects: []client.Object{r}}
	rec := c10Reconciler(cli)
	gvk := util.GetGVKFrom(&r.Spec.WorkloadRef)
	watchedWorkload.Store(gvk.String(), struct{}{})
	res, err := rec.Reconcile(context.TODO(), ctrl.Request{NamespacedName: types.NamespacedName{Namespace: r.Namespace, Name: r.Name}})
	if called == 0 {
		return
	}
	verifrt.Cover("handler-ran")
	if fails {
		verifrt.Cover("handler-failed")
		verifrt.Assert(err != nil, "C06.reconcile.handlerFailureIsReported")
	} else if wake && err == nil {
		verifrt.Assert(res.RequeueAfter > 0 || res.Requeue, "C07.reconcile.handlerWakeUpIsPassedOn")
	}
}
