package rollout

// C05 — an exit taken while another exit's clean-up is under way (the rollout is deleted, or disabled, while a
// rollback or a completion is being finalised): the persisted clean-up cursor was advanced along the *other* reason's
// task sequence, and the sequences order the tasks differently.  Whatever cursor the earlier clean-up left, once the
// rollout turns Terminating (the real calculateRolloutStatus is run for that) and its clean-up has been driven to
// done with every task succeeding, each restoring task has been executed under the new reason — none is skipped
// because the old sequence had it later (or earlier) than the new one.

import (
	"context"

	"github.com/openkruise/rollouts/api/v1alpha1"
	"github.com/openkruise/rollouts/api/v1beta1"
	"github.com/openkruise/rollouts/pkg/trafficrouting"
	"github.com/openkruise/rollouts/pkg/util"
	"github.com/openkruise/rollouts/pkg/verifrt"
	"github.com/openkruise/rollouts/pkg/verifrt/symclient"
	apps "k8s.io/api/apps/v1"
	corev1 "k8s.io/api/core/v1"
	metav1 "k8s.io/apimachinery/pkg/apis/meta/v1"
	"k8s.io/apimachinery/pkg/types"
	ctrl "sigs.k8s.io/controller-runtime"
	"sigs.k8s.io/controller-runtime/pkg/client"
)

const stubCalculateRolloutHash = "(*github.com/openkruise/rollouts/pkg/controller/rollout.RolloutReconciler).calculateRolloutHash"

func c05StubAllTasksSucceed(calls *vCalls) {
	for _, n := range []string{stubRestoreStableService, stubRestoreGateway, stubRemoveCanaryService, stubRouteAllTrafficToNew} {
		name := n
		verifrt.Stub(name, func(m *trafficrouting.Manager, c *trafficrouting.TrafficRoutingContext) (bool, error) {
			calls.add(name, false, false)
			return false, nil
		})
	}
	for _, n := range []string{stubFinalizingBatchRelease, stubRemoveBatchRelease} {
		name := n
		verifrt.Stub(name, func(cli client.Client, c *RolloutContext) (bool, error) {
			calls.add(name, false, false)
			return false, nil
		})
	}
	verifrt.Stub(stubCalculateRolloutHash, func(r *RolloutReconciler, rollout *v1beta1.Rollout) error { return nil })
	verifrt.Stub("(*github.com/openkruise/rollouts/pkg/util.ControllerFinder).GetWorkloadForRef", func(r *util.ControllerFinder, rollout *v1beta1.Rollout) (*util.Workload, error) {
		return vWorkload(), nil
	})
}

func c05DeletionDuringCleanup(blueGreen bool, prefix string) {
	c05ExitDuringCleanup(blueGreen, false, prefix)
}

func c05ExitDuringCleanup(blueGreen, disable bool, prefix string) {
	vSimple = true
	var r *v1beta1.Rollout
	if blueGreen {
		r = vBlueGreenRollout(1, 1)
	} else {
		r = vCanaryRollout(1, 1)
	}
	// the clean-up that was under way: a rollback or a completion that has finished the first i tasks of its own
	// sequence (i = 0: it had not started; its cursor is then still empty)
	next := nextCanaryTask
	if blueGreen {
		next = nextBlueGreenTask
	}
	oldReason := v1beta1.FinaliseReasonRollback
	if verifrt.Bool("earlier.wasCompletion") {
		oldReason = v1beta1.FinaliseReasonSuccess
	}
	oldSeq := c04Sequence(next, oldReason, prefix)
	i := verifrt.Concrete(verifrt.IntRange("earlier.tasksDone", 0, len(oldSeq)-1))
	doneBefore := map[string]bool{}
	for _, t := range oldSeq[:i] {
		doneBefore[c04TaskStub(t)] = true
	}
	if i > 0 || verifrt.Bool("earlier.cursorAlreadySet") {
		r.Status.GetSubStatus().FinalisingStep = oldSeq[i]
	}
	if disable {
		r.Spec.Disabled = true
	} else {
		now := metav1.Now()
		r.DeletionTimestamp = &now
		r.Finalizers = []string{"rollouts.kruise.io/rollout-finalizer"}
	}
	cli := &symclient.Client{Objects: []client.Object{r}}
	calls := &vCalls{}
	c05StubAllTasksSucceed(calls)
	rec := c10Reconciler(cli)
	retry, newStatus, err := rec.calculateRolloutStatus(r)
	wantPhase, reason := v1beta1.RolloutPhaseTerminating, v1beta1.FinaliseReasonDelete
	if disable {
		wantPhase, reason = v1beta1.RolloutPhaseDisabling, v1beta1.FinaliseReasonDisalbed
	}
	verifrt.Assert(err == nil && !retry && newStatus != nil && newStatus.Phase == wantPhase, prefix+".turnsTerminating")
	if err != nil || newStatus == nil {
		return
	}
	c := &RolloutContext{Rollout: r, NewStatus: newStatus, Workload: vWorkload(), FinalizeReason: reason}
	done := false
	for i := 0; i < 14 && !done; i++ {
		var e error
		if blueGreen {
			done, e = rec.blueGreenManager.doCanaryFinalising(c)
		} else {
			done, e = rec.canaryManager.doCanaryFinalising(c)
		}
		if e != nil {
			return
		}
	}
	verifrt.Assert(done, prefix+".cleanupTerminates")
	if !done {
		return
	}
	for _, task := range []string{stubRestoreGateway, stubRestoreStableService, stubRemoveCanaryService, stubFinalizingBatchRelease, stubRemoveBatchRelease} {
		verifrt.Assert(doneBefore[task] || calls.count(task) > 0, prefix+".noRestoringTaskLostWhenTheExitReasonChanges")
	}
	verifrt.Cover(prefix + ".done")
}

func VerifC05_CanaryDeletionDuringAnotherCleanup() {
	c05DeletionDuringCleanup(false, "C05.canary.reasonChange")
}
func VerifC05_BlueGreenDeletionDuringAnotherCleanup() {
	c05DeletionDuringCleanup(true, "C05.bluegreen.reasonChange")
}
func VerifC05_CanaryDisableDuringAnotherCleanup() {
	c05ExitDuringCleanup(false, true, "C05.canary.reasonChange.disable")
}
func VerifC05_BlueGreenDisableDuringAnotherCleanup() {
	c05ExitDuringCleanup(true, true, "C05.bluegreen.reasonChange.disable")
}

// VerifC05_AbortedResetLeavesNoCursorBehind: a continuous release (a third revision pushed mid-rollout) starts the
// reset sequence, which keeps its position in the same persisted finalising cursor; when that revision is withdrawn
// again before the reset finished, the rollout simply goes on rolling.  When it later completes, its clean-up must
// still run every restoring task — it must not resume from the position the aborted reset left in the cursor.
func VerifC05_AbortedResetLeavesNoCursorBehind() {
	vSimple = true
	r := vCanaryRollout(1, 1)
	r.Status.CanaryStatus.CurrentStepState = v1beta1.CanaryStepStateCompleted
	// the position an aborted reset (gateway -> BatchRelease -> canary Service) may have left, or none
	stale := []v1beta1.FinalisingStepType{"", v1beta1.FinalisingStepRouteTrafficToStable, v1beta1.FinalisingStepReleaseWorkloadControl, v1beta1.FinalisingStepRemoveCanaryService}
	r.Status.CanaryStatus.FinalisingStep = stale[verifrt.IntRange("reset.cursorLeft", 0, len(stale)-1)]
	c := vContext(r)
	cli := &symclient.Client{Objects: []client.Object{r}}
	calls := &vCalls{}
	c05StubAllTasksSucceed(calls)
	rec := c10Reconciler(cli)
	// normal rolling: the last step is completed, the rollout turns to finalising
	err := rec.doProgressingInRolling(c)
	cond := util.GetRolloutCondition(*c.NewStatus, v1beta1.RolloutConditionProgressing)
	verifrt.Assert(err == nil && cond != nil && cond.Reason == v1alpha1.ProgressingReasonFinalising, "C05.abortedReset.completedEntersFinalising")
	if err != nil || cond == nil || cond.Reason != v1alpha1.ProgressingReasonFinalising {
		return
	}
	c.FinalizeReason = v1beta1.FinaliseReasonSuccess
	done := false
	for i := 0; i < 14 && !done; i++ {
		var e error
		done, e = rec.canaryManager.doCanaryFinalising(c)
		if e != nil {
			return
		}
	}
	verifrt.Assert(done, "C05.abortedReset.cleanupTerminates")
	if !done {
		return
	}
	for _, task := range []string{stubRestoreGateway, stubRestoreStableService, stubRemoveCanaryService, stubFinalizingBatchRelease, stubRemoveBatchRelease} {
		verifrt.Assert(calls.count(task) > 0, "C05.abortedReset.everyRestoringTaskStillRuns")
	}
	verifrt.Cover("C05.abortedReset.done")
}

// c05ExitViaReconcile: the same obligation driven through the real Reconcile — the reconcile in which the rollout
// turns Terminating / Disabling is still dispatched on the phase it had when it was read, so the clean-up of the exit
// that was under way gets one more pass with the freshly reset cursor before the new exit's own clean-up starts.
// Whatever that pass leaves behind, once the terminating (disabling) clean-up has been driven to its end every
// restoring task has run.
func c05ExitViaReconcile(blueGreen, disable bool, prefix string) {
	vSimple = true
	var r *v1beta1.Rollout
	if blueGreen {
		r = vBlueGreenRollout(1, 1)
	} else {
		r = vCanaryRollout(1, 1)
	}
	next := nextCanaryTask
	if blueGreen {
		next = nextBlueGreenTask
	}
	// the exit that was under way
	oldReason, condReason := v1beta1.FinaliseReasonRollback, v1alpha1.ProgressingReasonCancelling
	if verifrt.Bool("earlier.wasCompletion") {
		oldReason, condReason = v1beta1.FinaliseReasonSuccess, v1alpha1.ProgressingReasonFinalising
	}
	r.Status.Conditions[0].Reason = condReason
	oldSeq := c04Sequence(next, oldReason, prefix)
	i := verifrt.Concrete(verifrt.IntRange("earlier.tasksDone", 0, len(oldSeq)-1))
	doneBefore := map[string]bool{}
	for _, t := range oldSeq[:i] {
		doneBefore[c04TaskStub(t)] = true
	}
	if i > 0 || verifrt.Bool("earlier.cursorAlreadySet") {
		r.Status.GetSubStatus().FinalisingStep = oldSeq[i]
	}
	r.Finalizers = []string{util.KruiseRolloutFinalizer}
	if disable {
		r.Spec.Disabled = true
	} else {
		now := metav1.Now()
		r.DeletionTimestamp = &now
	}
	cli := &symclient.Client{Objects: []client.Object{r}}
	cli.ApplyFn = func(w symclient.Write) {
		if ro, ok := w.Obj.(*v1beta1.Rollout); ok && (w.Verb == "status-update" || w.Verb == "update") {
			cli.Objects = []client.Object{ro.DeepCopy()}
		}
	}
	calls := &vCalls{}
	c05StubAllTasksSucceed(calls)
	rec := c10Reconciler(cli)
	gvk := util.GetGVKFrom(&r.Spec.WorkloadRef)
	watchedWorkload.Store(gvk.String(), struct{}{})
	req := ctrl.Request{NamespacedName: types.NamespacedName{Namespace: r.Namespace, Name: r.Name}}
	done := false
	for k := 0; k < 16 && !done; k++ {
		if _, err := rec.Reconcile(context.TODO(), req); err != nil {
			return
		}
		cur, _ := cli.Objects[0].(*v1beta1.Rollout)
		if disable {
			done = cur.Status.Phase == v1beta1.RolloutPhaseDisabled
		} else {
			cond := util.GetRolloutCondition(cur.Status, v1beta1.RolloutConditionTerminating)
			done = cond != nil && cond.Reason == v1alpha1.TerminatingReasonCompleted
		}
	}
	verifrt.Assert(done, prefix+".cleanupTerminates")
	if !done {
		return
	}
	for _, task := range []string{stubRestoreGateway, stubRestoreStableService, stubRemoveCanaryService, stubFinalizingBatchRelease, stubRemoveBatchRelease} {
		verifrt.Assert(doneBefore[task] || calls.count(task) > 0, prefix+".noRestoringTaskLostWhenTheExitReasonChanges")
	}
	verifrt.Cover(prefix + ".done")
}

func VerifC05_CanaryDeletionDuringAnotherCleanupViaReconcile() {
	c05ExitViaReconcile(false, false, "C05.canary.reasonChange.reconcile")
}
func VerifC05_BlueGreenDeletionDuringAnotherCleanupViaReconcile() {
	c05ExitViaReconcile(true, false, "C05.bluegreen.reasonChange.reconcile")
}
func VerifC05_CanaryDisableDuringAnotherCleanupViaReconcile() {
	c05ExitViaReconcile(false, true, "C05.canary.reasonChange.reconcile.disable")
}
func VerifC05_BlueGreenDisableDuringAnotherCleanupViaReconcile() {
	c05ExitViaReconcile(true, true, "C05.bluegreen.reasonChange.reconcile.disable")
}

// VerifC05_StableServiceUnpinnedWhenTheWorkloadIsGone: a rollout can be deleted after (or together with) its workload.
// The stable Service it pinned to a revision is still there, and un-pinning it is part of the clean-up whether or not
// the workload can still be read — a Service left selecting a revision hash selects nothing once the application is
// deployed again.  The real traffic-routing manager is driven with the context the terminating rollout builds.
func VerifC05_StableServiceUnpinnedWhenTheWorkloadIsGone() {
	vSimple = true
	r := vCanaryRollout(1, 1)
	trs := []v1beta1.TrafficRoutingRef{{Service: "svc", Ingress: &v1beta1.IngressTrafficRouting{Name: "ing"}, GracePeriodSeconds: 0}}
	r.Spec.Strategy.Canary.TrafficRoutings = trs
	// the key the rollout pinned the Service with depends on the workload kind
	key := apps.DefaultDeploymentUniqueLabelKey
	if verifrt.Bool("workload.statefulSetLike") {
		key = apps.ControllerRevisionHashLabelKey
		r.Spec.WorkloadRef = v1beta1.ObjectRef{APIVersion: "apps/v1", Kind: "StatefulSet", Name: "w"}
	}
	svc := &corev1.Service{ObjectMeta: metav1.ObjectMeta{Namespace: "ns", Name: "svc", UID: "svc-uid"}}
	svc.Spec.Selector = map[string]string{"app": "w", key: "stable-rev"}
	cli := &symclient.Client{Objects: []client.Object{svc}}
	rec := c10Reconciler(cli)
	workloadGone := verifrt.Bool("workload.gone")
	c := &RolloutContext{Rollout: r, NewStatus: r.Status.DeepCopy(), FinalizeReason: v1beta1.FinaliseReasonDelete}
	if !workloadGone {
		c.Workload = vWorkload()
		c.Workload.RevisionLabelKey = key
	}
	_, err := rec.trafficRoutingManager.RestoreStableService(newTrafficRoutingContext(c))
	verifrt.Assert(err == nil, "C05.stableService.restore.noError")
	unpinned := false
	for _, w := range cli.Writes("patch", "Service") {
		if v, has := verifrt.JSONGet(w.Body, "spec", "selector", key); has && v == "null" && w.Obj.GetName() == "svc" {
			unpinned = true
		}
		_, touchesApp := verifrt.JSONGet(w.Body, "spec", "selector", "app")
		verifrt.Assert(!touchesApp, "C05.stableService.restore.usersSelectorUntouched")
	}
	if workloadGone {
		verifrt.Cover("workload-gone")
	}
	verifrt.Assert(unpinned, "C05.stableService.restore.unpinnedWhetherOrNotTheWorkloadStillExists")
}

// VerifC06_FinalizingBatchReleaseWaitsUntilCompleted: the ResumeWorkload task asks the BatchRelease to finalise
// (batchPartition removed, the finalizing policy set) and then *waits* for it: it reports finished only when the
// BatchRelease is gone or has completed with the partition removed.  Re-executed any number of times — the next
// reconcile, the first reconcile after a crash that followed the patch, a retry after a conflict — it writes the request
// once and keeps waiting; it never takes "already asked" for "done".
func VerifC06_FinalizingBatchReleaseWaitsUntilCompleted() {
	vSimple = true
	r := vCanaryRollout(1, 1)
	cli := &symclient.Client{}
	exists := verifrt.Bool("br.exists")
	br := &v1beta1.BatchRelease{ObjectMeta: metav1.ObjectMeta{Namespace: r.Namespace, Name: r.Name}}
	hasPartition := verifrt.Bool("br.hasBatchPartition")
	if hasPartition {
		p := int32(verifrt.IntRange("br.batchPartition", 0, 3))
		br.Spec.ReleasePlan.BatchPartition = &p
	}
	br.Spec.ReleasePlan.FinalizingPolicy = []v1beta1.FinalizingPolicyType{"", v1beta1.ImmediateFinalizingPolicyType, v1beta1.WaitResumeFinalizingPolicyType}[verifrt.IntRange("br.finalizingPolicy", 0, 2)]
	br.Status.Phase = []v1beta1.RolloutPhase{v1beta1.RolloutPhaseProgressing, v1beta1.RolloutPhaseFinalizing, v1beta1.RolloutPhaseCompleted}[verifrt.IntRange("br.phase", 0, 2)]
	if exists {
		cli.Objects = append(cli.Objects, br)
	}
	c := &RolloutContext{Rollout: r, NewStatus: r.Status.DeepCopy(), Workload: vWorkload(), WaitReady: verifrt.Bool("ctx.waitReady")}
	retry, err := finalizingBatchRelease(cli, c)
	verifrt.Assert(err == nil, "C06.finalizingBR.noError")
	if !exists {
		verifrt.Assert(!retry && len(cli.Log) == 0, "C06.finalizingBR.goneMeansFinished")
		return
	}
	completed := !hasPartition && br.Status.Phase == v1beta1.RolloutPhaseCompleted
	verifrt.Assert(retry == !completed, "C06.finalizingBR.finishedOnlyWhenTheBatchReleaseCompleted")
	wantPolicy := v1beta1.ImmediateFinalizingPolicyType
	if c.WaitReady {
		wantPolicy = v1beta1.WaitResumeFinalizingPolicyType
	}
	asked := !hasPartition && (br.Spec.ReleasePlan.FinalizingPolicy == v1beta1.WaitResumeFinalizingPolicyType) == c.WaitReady
	ws := cli.Writes("patch", "BatchRelease")
	if completed || asked {
		verifrt.Cover("already-asked")
		verifrt.Assert(len(cli.Log) == 0, "C06.finalizingBR.requestWrittenOnce")
	} else {
		verifrt.Cover("asks")
		verifrt.Assert(len(ws) == 1 && len(cli.Log) == 1, "C06.finalizingBR.asksWithOnePatch")
		if len(ws) == 1 {
			p, hasP := verifrt.JSONGet(ws[0].Body, "spec", "releasePlan", "batchPartition")
			pol, _ := verifrt.JSONGet(ws[0].Body, "spec", "releasePlan", "finalizingPolicy")
			verifrt.Assert(hasP && p == "null" && pol == string(wantPolicy), "C06.finalizingBR.requestRemovesThePartitionAndSetsThePolicy")
		}
	}
}

// C05: the ResumeWorkload task is what hands the workload back on every exit — success, rollback, disable, delete: as
// long as the BatchRelease still holds a batchPartition the request to finalise is written, whatever finalizing policy
// it happens to carry (obligations asksWithOnePatch / requestRemovesThePartitionAndSetsThePolicy of the C06 relation).
func VerifC05_ResumeWorkloadAsksTheBatchReleaseToFinalise() {
	VerifC06_FinalizingBatchReleaseWaitsUntilCompleted()
}

// VerifC05_InProgressMarkerRemovedByTheEndOfEveryCleanup: whichever exit is taken and wherever its clean-up is picked
// up (the persisted cursor empty, or left at any task by an earlier reconcile or by a reset that was under way), by the
// time the clean-up reports done the workload's in-rollout-progressing marker has been removed — as long as it is
// there the workload webhook keeps holding the workload back.
func c05MarkerRemoved(blueGreen bool, prefix string) {
	vSimple = true
	var r *v1beta1.Rollout
	if blueGreen {
		r = vBlueGreenRollout(1, 1)
	} else {
		r = vCanaryRollout(1, 1)
	}
	r.Status.GetSubStatus().FinalisingStep = c04Steps[verifrt.IntRange("finalisingStep", 0, len(c04Steps)-1)]
	c := vContext(r)
	c.FinalizeReason = c04Reason()
	c.Workload.Annotations = map[string]string{util.InRolloutProgressingAnnotation: `{"rolloutName":"ro"}`}
	cli := &symclient.Client{}
	calls := &vCalls{}
	c05StubAllTasksSucceed(calls)
	done := false
	for i := 0; i < 14 && !done; i++ {
		var e error
		if blueGreen {
			done, e = vBlueGreenManager(cli).doCanaryFinalising(c)
		} else {
			done, e = vCanaryManager(cli).doCanaryFinalising(c)
		}
		if e != nil {
			return
		}
	}
	verifrt.Assert(done, prefix+".cleanupTerminates")
	removed := false
	for _, w := range cli.Writes("patch", "") {
		if v, has := verifrt.JSONGet(w.Body, "metadata", "annotations", util.InRolloutProgressingAnnotation); has && v == "null" && w.Obj.GetName() == c.Workload.Name {
			removed = true
		}
	}
	verifrt.Assert(removed, prefix+".inProgressMarkerRemovedByTheEnd")
}

func VerifC05_CanaryInProgressMarkerRemovedByTheEndOfEveryCleanup() {
	c05MarkerRemoved(false, "C05.canary.marker")
}
func VerifC05_BlueGreenInProgressMarkerRemovedByTheEndOfEveryCleanup() {
	c05MarkerRemoved(true, "C05.bluegreen.marker")
}
