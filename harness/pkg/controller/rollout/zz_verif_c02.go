package rollout

// C02 — steps are gated (DESIGN.md §6 C02); C03 ordering obligations ride on the same harness.

import (
	"fmt"
	"strconv"
	"strings"
	"time"

	"github.com/openkruise/rollouts/api/v1alpha1"
	"github.com/openkruise/rollouts/api/v1beta1"
	"github.com/openkruise/rollouts/pkg/util"
	"github.com/openkruise/rollouts/pkg/verifrt"
	"github.com/openkruise/rollouts/pkg/verifrt/symclient"
	metav1 "k8s.io/apimachinery/pkg/apis/meta/v1"
	"k8s.io/apimachinery/pkg/util/intstr"
	"k8s.io/client-go/tools/record"
	"sigs.k8s.io/controller-runtime/pkg/client"
)

// c02CheckStep asserts the one-step transition relation of runCanary (canary and blue-green share it).
// c02StepPods: reference for the pods a step asks for on a workload of R pods (percentages round up).
func c02StepPods(st v1beta1.CanaryStep, R int) int {
	if st.Replicas == nil {
		return 0
	}
	if st.Replicas.Type == intstr.Int {
		return int(st.Replicas.IntVal)
	}
	p, _ := strconv.Atoi(strings.TrimSuffix(st.Replicas.StrVal, "%"))
	return (p*R + 99) / 100
}

func c02CheckStep(prefix string, r *v1beta1.Rollout, pre, post *v1beta1.CommonStatus, steps []v1beta1.CanaryStep, calls *vCalls, br *vBRResult, err error, hasTraffic bool, allowLastFull bool, wlReplicas int, recheck *time.Time) {
	n := int32(len(steps))
	if err != nil {
		// Reconcile returns before persisting the status when a step function fails (checked by C06): the in-memory
		// status of a failed step is never observable
		verifrt.Cover("error-path")
		return
	}
	expectedNext := vNextStep(r, pre.CurrentStepIndex)
	isJump := pre.NextStepIndex != expectedNext && pre.NextStepIndex > 0
	if isJump {
		verifrt.Cover("jump")
		// an explicit user request (step jump): lands on the requested step, at its beginning or at traffic routing
		verifrt.Assert(post.CurrentStepIndex == pre.NextStepIndex, prefix+".jump.landsOnRequestedStep")
		verifrt.Assert(post.CurrentStepState == v1beta1.CanaryStepStateInit || post.CurrentStepState == v1beta1.CanaryStepStateTrafficRouting, prefix+".jump.state")
		verifrt.Assert(len(calls.names) == 0, prefix+".jump.noSideEffects")
		// the upgrade of the target step may be skipped only if it asks for exactly the replicas of the step that was
		// left (whose pods are out already); otherwise the target step starts at its beginning and is gated like any other
		if pre.CurrentStepIndex >= 1 && pre.CurrentStepIndex <= n && post.CurrentStepIndex >= 1 && post.CurrentStepIndex <= n {
			left, target := steps[pre.CurrentStepIndex-1].Replicas, steps[post.CurrentStepIndex-1].Replicas
			same := (left == nil) == (target == nil)
			if left != nil && target != nil {
				same = *left == *target
			}
			if !same {
				verifrt.Assert(post.CurrentStepState == v1beta1.CanaryStepStateInit, prefix+".jump.differentReplicasStartAtTheBeginning")
			}
		}
		return
	}
	cur := steps[pre.CurrentStepIndex-1]
	stepHasTraffic := cur.Traffic != nil || len(cur.Matches) > 0
	preS, postS := pre.CurrentStepState, post.CurrentStepState
	// the step index moves only from Ready, by exactly one, into Init
	if post.CurrentStepIndex != pre.CurrentStepIndex {
		verifrt.Cover("index-advanced")
		verifrt.Assert(preS == v1beta1.CanaryStepStateReady && post.CurrentStepIndex == pre.CurrentStepIndex+1 && postS == v1beta1.CanaryStepStateInit, prefix+".indexMovesOnlyFromReadyByOne")
		// the persisted cursor does not fabricate a step-jump request: nextStepIndex follows the new current step
		verifrt.Assert(post.NextStepIndex == vNextStep(r, post.CurrentStepIndex), prefix+".advanceLeavesNoJumpRequestBehind")
	}
	// C04: a step without traffic that replaces every stable pod of a partition-style workload follows steps that may
	// have pinned the stable Service: the workload is only touched (the BatchRelease is driven) after the clean-up in
	// front of the step — which un-pins the stable Service — has been run in this reconcile and reported done
	if allowLastFull && hasTraffic && !stepHasTraffic && v1beta1.IsRealPartition(r) && c02StepPods(cur, wlReplicas) >= wlReplicas && calls.count(stubRunBatchRelease) > 0 {
		verifrt.Cover("full-step-without-traffic-upgrades")
		done, failed, called := calls.last(stubFinalisingTrafficRouting)
		verifrt.Assert(called && done && !failed && calls.index(stubFinalisingTrafficRouting) < calls.index(stubRunBatchRelease), "C04.step.cleanupDoneBeforeAllStablePodsReplaced")
	}
	if preS == postS {
		// C07: a wait that no watch event will end comes with a wake-up in the future — the grace wait of the
		// TrafficRouting sub-state, and a pause with a duration that has not elapsed yet
		// (the clean-up a step without traffic runs first is stubbed here; its own wake-up comes from the grace
		// wrapper inside the real manager, C07.grace.retryComesWithAPositiveWait)
		cleanupPending := calls.count(stubFinalisingTrafficRouting) > 0
		if done, failed, called := calls.last(stubFinalisingTrafficRouting); called && !failed && !done && len(calls.names) == 1 {
			// the clean-up in front of a step without traffic is not finished: nothing else happens in this
			// reconcile, and the wake-up lies in the future (the remaining grace time counted from now)
			verifrt.Cover("cleanup-wait")
			verifrt.Assert(recheck != nil && recheck.After(vEntry), "C07.step.cleanupWaitHasAWakeUpInTheFuture")
		}
		if preS == v1beta1.CanaryStepStateTrafficRouting && !cleanupPending && calls.count(stubDoTrafficRouting) > 0 {
			verifrt.Assert(recheck != nil && recheck.After(time.Now()), "C07.step.trafficRoutingWaitHasAWakeUp")
		}
		if preS == v1beta1.CanaryStepStatePaused && !cleanupPending && pre.CurrentStepIndex >= 1 && pre.CurrentStepIndex <= n && steps[pre.CurrentStepIndex-1].Pause.Duration != nil {
			// the step stayed paused, i.e. the pause's end (lastUpdateTime + duration) had not passed when the step
			// looked at the clock; the wake-up is set no earlier than that end
			end := pre.LastUpdateTime.Add(time.Duration(*steps[pre.CurrentStepIndex-1].Pause.Duration) * time.Second)
			verifrt.Assert(recheck != nil && !recheck.Before(end), "C07.step.timedPauseHasAWakeUp")
		}
		return
	}
	// C03: the TrafficRouting sub-state is skipped (upgrade done -> MetricsAnalysis) only for a partition-style step
	// that replaces every stable pod (its stable Service was un-pinned in Init instead); every other step, and every
	// canary-style or blue-green step, has its traffic rule applied before it counts as routed
	if allowLastFull && (preS == v1beta1.CanaryStepStateInit || preS == v1beta1.CanaryStepStateUpgrade) && postS == v1beta1.CanaryStepStateMetricsAnalysis {
		verifrt.Assert(v1beta1.IsRealPartition(r) && c02StepPods(cur, wlReplicas) >= wlReplicas, "C03.trafficRoutingSkippedOnlyForFullPartitionStep")
	}
	switch preS {
	case v1beta1.CanaryStepStateInit:
		verifrt.Assert(postS == v1beta1.CanaryStepStateUpgrade || postS == v1beta1.CanaryStepStateTrafficRouting || postS == v1beta1.CanaryStepStateMetricsAnalysis, prefix+".init.successors")
		if postS != v1beta1.CanaryStepStateUpgrade {
			// Init fell through Upgrade in the same reconcile: the upgrade gate below applies
			verifrt.Assert(br.done && !br.failed && br.consistent && br.ready && br.currentBatch+1 >= pre.CurrentStepIndex, prefix+".upgradeDoneOnlyIfBatchReleaseReady")
		}
		// C04: a partition-style step that replaces every stable pod un-pins the stable Service first
		if stepHasTraffic && allowLastFull && v1beta1.IsRealPartition(r) && c02StepPods(cur, wlReplicas) >= wlReplicas {
			verifrt.Cover("all-stable-pods-replaced")
			retry, failed, called := calls.last(stubRestoreStableService)
			verifrt.Assert(called && !retry && !failed, "C04.stableServiceRestoredBeforeAllStablePodsReplaced")
			if called && calls.count(stubRunBatchRelease) > 0 {
				verifrt.Assert(calls.index(stubRestoreStableService) < calls.index(stubRunBatchRelease), "C04.restoreBeforeBatchRelease")
			}
		}
		// C03: first step with traffic — the stable Service is pinned before any pod is upgraded
		if stepHasTraffic && pre.CurrentStepIndex == 1 && !r.Spec.Strategy.DisableGenerateCanaryService() && hasTraffic {
			retry, failed, called := calls.last(stubPatchStableService)
			verifrt.Assert(called && !retry && !failed, "C03.firstStep.stableServicePinnedBeforeUpgrade")
			if called && calls.count(stubRunBatchRelease) > 0 {
				verifrt.Assert(calls.index(stubPatchStableService) < calls.index(stubRunBatchRelease), "C03.firstStep.pinBeforeBatchRelease")
			}
		}
	case v1beta1.CanaryStepStateUpgrade:
		verifrt.Cover("upgrade-done")
		verifrt.Assert(postS == v1beta1.CanaryStepStateTrafficRouting || postS == v1beta1.CanaryStepStateMetricsAnalysis, prefix+".upgrade.successors")
		verifrt.Assert(br.done && !br.failed && br.consistent && br.ready && br.currentBatch+1 >= pre.CurrentStepIndex, prefix+".upgradeDoneOnlyIfBatchReleaseReady")
	case v1beta1.CanaryStepStateTrafficRouting:
		verifrt.Cover("traffic-done")
		verifrt.Assert(postS == v1beta1.CanaryStepStateMetricsAnalysis, prefix+".trafficRouting.successor")
		done, failed, called := calls.last(stubDoTrafficRouting)
		verifrt.Assert(called && done && !failed, prefix+".trafficDoneOnlyIfRoutingVerified")
		// the step's pause (and its duration) counts from the moment the traffic rule was verified: the status'
		// lastUpdateTime is stamped in this very reconcile, not carried over from the upgrade or an earlier patch
		verifrt.Assert(post.LastUpdateTime != nil && !post.LastUpdateTime.Time.Before(vEntry), prefix+".pauseClockStartsWhenTrafficIsApplied")
	case v1beta1.CanaryStepStateMetricsAnalysis:
		verifrt.Assert(postS == v1beta1.CanaryStepStatePaused, prefix+".metrics.successor")
	case v1beta1.CanaryStepStatePaused:
		verifrt.Cover("pause-done")
		verifrt.Assert(postS == v1beta1.CanaryStepStateReady, prefix+".paused.successor")
		lastFull := allowLastFull && pre.CurrentStepIndex == n && cur.Replicas != nil && cur.Replicas.StrVal == "100%"
		verifrt.Assert(lastFull || cur.Pause.Duration != nil, prefix+".pauseNeedsApprovalOrDuration")
		if !lastFull && cur.Pause.Duration != nil && pre.LastUpdateTime != nil {
			// the configured duration is counted from the moment this step started to pause (the status' own
			// lastUpdateTime), not from any older timestamp
			waited := time.Now().Sub(pre.LastUpdateTime.Time)
			verifrt.Assert(waited >= time.Duration(*cur.Pause.Duration)*time.Second, prefix+".pauseDurationElapsedSinceTheStepPaused")
		}
	case v1beta1.CanaryStepStateReady:
		if post.CurrentStepIndex == pre.CurrentStepIndex {
			verifrt.Assert(postS == v1beta1.CanaryStepStateCompleted && pre.CurrentStepIndex == n, prefix+".completedOnlyAfterLastStep")
		}
	case v1beta1.CanaryStepStateCompleted:
		verifrt.Fail(prefix + ".completed.isTerminal")
	default:
		verifrt.Fail(prefix + ".unknownState.mustNotMove")
	}
	// C03: DoTrafficRouting is only invoked in the TrafficRouting sub-state
	if calls.count(stubDoTrafficRouting) > 0 {
		verifrt.Assert(preS == v1beta1.CanaryStepStateTrafficRouting, "C03.routesWrittenOnlyInTrafficRoutingState")
	}
}

// One reconcile of the canary release manager from an arbitrary persisted status; one harness per starting sub-state
// (they run in parallel).
func VerifC02_CanaryRunCanary_Init()            { c02Canary(0) }
func VerifC02_CanaryRunCanary_Upgrade()         { c02Canary(1) }
func VerifC02_CanaryRunCanary_TrafficRouting()  { c02Canary(2) }
func VerifC02_CanaryRunCanary_MetricsAnalysis() { c02Canary(3) }
func VerifC02_CanaryRunCanary_Paused()          { c02Canary(4) }
func VerifC02_CanaryRunCanary_Ready()           { c02Canary(5) }
func VerifC02_CanaryRunCanary_Completed()       { c02Canary(6) }
func VerifC02_CanaryRunCanary_Unknown()         { c02Canary(7) }

func c02Canary(state int) {
	vState = state
	// Init and Upgrade behave differently for a canary-style Deployment (not a "real partition") and a partition-style
	// workload: both are offered there
	if state <= 1 {
		vKindChoice, vKindMax = true, 1
	}
	n := verifrt.Concrete(verifrt.IntRange("nSteps", 1, verifrt.Bound("steps", 2, 3)))
	cur := verifrt.Concrete(verifrt.IntRange("st.currentStepIndex", 1, n))
	r := vCanaryRollout(n, cur)
	// values outside 1..n are corrected by handleNormalRolling before runCanary (C09 checks that path)
	verifrt.Assume(r.Status.CanaryStatus.NextStepIndex <= int32(n))
	c := vContext(r)
	cli := &symclient.Client{}
	calls := &vCalls{}
	br := &vBRResult{}
	vStubAllTR(calls)
	vStubRunBatchRelease(calls, br)
	m := vCanaryManager(cli)
	pre := r.Status.CanaryStatus.CommonStatus
	// the status cursor the controller itself maintains: nextStepIndex may be anything a user can patch in
	vEntry = time.Now()
	err := m.runCanary(c)
	post := c.NewStatus.CanaryStatus.CommonStatus
	c02CheckStep("C02.canary", r, &pre, &post, r.Spec.Strategy.Canary.Steps, calls, br, err, r.Spec.Strategy.HasTrafficRoutings(), true, int(c.Workload.Replicas), c.RecheckTime)
	verifrt.Cover("done")
}

// Same relation for the blue-green release manager (no "last step covers 100%" shortcut: every pause needs a duration
// or an approval).
func VerifC02_BlueGreenRunCanary_Init()            { c02BlueGreen(0) }
func VerifC02_BlueGreenRunCanary_Upgrade()         { c02BlueGreen(1) }
func VerifC02_BlueGreenRunCanary_TrafficRouting()  { c02BlueGreen(2) }
func VerifC02_BlueGreenRunCanary_MetricsAnalysis() { c02BlueGreen(3) }
func VerifC02_BlueGreenRunCanary_Paused()          { c02BlueGreen(4) }
func VerifC02_BlueGreenRunCanary_Ready()           { c02BlueGreen(5) }
func VerifC02_BlueGreenRunCanary_Completed()       { c02BlueGreen(6) }
func VerifC02_BlueGreenRunCanary_Unknown()         { c02BlueGreen(7) }

func c02BlueGreen(state int) {
	vState = state
	n := verifrt.Concrete(verifrt.IntRange("nSteps", 1, verifrt.Bound("steps", 2, 3)))
	cur := verifrt.Concrete(verifrt.IntRange("st.currentStepIndex", 1, n))
	r := vBlueGreenRollout(n, cur)
	verifrt.Assume(r.Status.BlueGreenStatus.NextStepIndex <= int32(n))
	c := vContext(r)
	cli := &symclient.Client{}
	calls := &vCalls{}
	br := &vBRResult{}
	vStubAllTR(calls)
	vStubRunBatchRelease(calls, br)
	m := vBlueGreenManager(cli)
	pre := r.Status.BlueGreenStatus.CommonStatus
	vEntry = time.Now()
	err := m.runCanary(c)
	post := c.NewStatus.BlueGreenStatus.CommonStatus
	c02CheckStep("C02.bluegreen", r, &pre, &post, r.Spec.Strategy.BlueGreen.Steps, calls, br, err, r.Spec.Strategy.HasTrafficRoutings(), false, int(c.Workload.Replicas), c.RecheckTime)
	verifrt.Cover("done")
}

// VerifC02_PausedMakesNoProgress: while spec.strategy.paused is set (and the workload is not being rolled back
// directly) a reconcile calls no collaborator, writes nothing and leaves the step cursor untouched.
func VerifC02_PausedMakesNoProgress() {
	n := verifrt.Concrete(verifrt.IntRange("nSteps", 1, 2))
	cur := verifrt.Concrete(verifrt.IntRange("st.currentStepIndex", 1, n))
	var r *v1beta1.Rollout
	if verifrt.Bool("blueGreen") {
		r = vBlueGreenRollout(n, cur)
	} else {
		r = vCanaryRollout(n, cur)
	}
	r.Spec.Strategy.Paused = true
	c := vContext(r)
	c.Workload.IsInRollback = verifrt.Bool("wl.inRollback")
	if verifrt.Bool("wl.revisionChanged") {
		c.Workload.CanaryRevision = "another-rev"
	}
	cli := &symclient.Client{}
	calls := &vCalls{}
	br := &vBRResult{}
	vStubAllTR(calls)
	vStubRunBatchRelease(calls, br)
	rec := &RolloutReconciler{Client: cli, Recorder: record.NewFakeRecorder(10), canaryManager: vCanaryManager(cli), blueGreenManager: vBlueGreenManager(cli), trafficRoutingManager: vCanaryManager(cli).trafficRoutingManager}
	pre := *r.Status.GetSubStatus()
	rollingBack := isRollingBackDirectly(r, c.Workload)
	err := rec.doProgressingInRolling(c)
	post := *c.NewStatus.GetSubStatus()
	if !rollingBack {
		verifrt.Cover("paused")
		verifrt.Assert(err == nil, "C02.paused.noerror")
		verifrt.Assert(len(calls.names) == 0 && len(cli.Log) == 0, "C02.paused.noCollaboratorNoWrite")
		verifrt.Assert(post.CurrentStepIndex == pre.CurrentStepIndex && post.CurrentStepState == pre.CurrentStepState && post.NextStepIndex == pre.NextStepIndex, "C02.paused.cursorUntouched")
	}
}

// The step index moves otherwise only on an explicit user request: the dispatch relation of C10 (rollback in batches
// restarts at step one with the matching next-step index, plan edits and supersession are recognised as such).
func VerifC02_Dispatch() { VerifC10_Dispatch() }

// C07: the waits of the step machine that no watch event ends (traffic-routing grace wait, timed pause) always come
// with a wake-up in the future (obligations C07.step.* of the same one-step relation).
func VerifC07_CanaryTrafficRoutingWaitHasAWakeUp()    { c02Canary(2) }
func VerifC07_BlueGreenTrafficRoutingWaitHasAWakeUp() { c02BlueGreen(2) }
func VerifC07_CanaryTimedPauseHasAWakeUp()            { c02Canary(4) }
func VerifC07_BlueGreenTimedPauseHasAWakeUp()         { c02BlueGreen(4) }

// VerifC02_InitializingRecordsTheRevisionBeingReleased: the first reconcile of a new release rebuilds the release
// sub-status from scratch.  Every later decision compares against what is written here: the step cursor starts at the
// first step in the Init state, the next index is the one the step sequence gives, and the revision recorded as the one
// being released is the workload's update revision (not the pod-template hash, which differs for Deployments and is
// what the pods are *labelled* with) — otherwise the next reconcile sees "a different revision was pushed" and treats
// the release as a continuous release, or a rollback to the stable revision is not recognised.
func VerifC02_InitializingRecordsTheRevisionBeingReleased() {
	vSimple = true
	n := verifrt.Concrete(verifrt.IntRange("steps", 1, verifrt.Bound("steps.max", 3, 5)))
	blueGreen := verifrt.Bool("blueGreen")
	var r *v1beta1.Rollout
	if blueGreen {
		r = vBlueGreenRollout(n, 1)
	} else {
		r = vCanaryRollout(n, 1)
	}
	r.Status.Conditions[0].Reason = v1alpha1.ProgressingReasonInitializing
	// whatever an earlier release left in the status
	stale := r.Status.GetSubStatus()
	stale.CurrentStepIndex = int32(verifrt.IntRange("stale.currentStepIndex", 0, n+1))
	stale.NextStepIndex = int32(verifrt.IntRange("stale.nextStepIndex", -1, n+1))
	stale.CurrentStepState = v1beta1.CanaryStepStateCompleted
	stale.StableRevision = "old-stable"
	if blueGreen {
		r.Status.BlueGreenStatus.UpdatedRevision = "old-canary"
	} else {
		r.Status.CanaryStatus.CanaryRevision = "old-canary"
	}
	w := vWorkload()
	if verifrt.Bool("wl.noPodTemplateHash") {
		w.PodTemplateHash = ""
	}
	if verifrt.Bool("wl.hasRolloutID") {
		w.Labels = map[string]string{v1beta1.RolloutIDLabel: "id-7"}
	}
	w.IsInRollback = verifrt.Bool("wl.inRollback")
	w.Generation = int64(verifrt.IntRange("wl.generation", 1, 9))
	verifrt.Stub(stubGetWorkloadForRef, func(f *util.ControllerFinder, rollout *v1beta1.Rollout) (*util.Workload, error) { return w, nil })
	initDone := verifrt.Bool("initializing.done")
	initFailed := verifrt.Bool("initializing.failed")
	verifrt.Stub("(*github.com/openkruise/rollouts/pkg/controller/rollout.RolloutReconciler).doProgressingInitializing", func(rr *RolloutReconciler, c *RolloutContext) (bool, error) {
		if initFailed {
			return false, vErr
		}
		return initDone, nil
	})
	cli := &symclient.Client{}
	rec := c10Reconciler(cli)
	newStatus := r.Status.DeepCopy()
	recheck, err := rec.reconcileRolloutProgressing(r, newStatus)
	if initFailed {
		verifrt.Assert(err != nil, "C02.initializing.errorPropagated")
		return
	}
	verifrt.Assert(err == nil, "C02.initializing.noError")
	sub := newStatus.GetSubStatus()
	verifrt.Assert(sub != nil, "C02.initializing.subStatusCreated")
	if sub == nil {
		return
	}
	if blueGreen {
		verifrt.Assert(newStatus.CanaryStatus == nil && newStatus.BlueGreenStatus != nil, "C02.initializing.subStatusMatchesStrategy")
		verifrt.Assert(newStatus.BlueGreenStatus.UpdatedRevision == w.CanaryRevision, "C02.initializing.recordsTheUpdateRevision")
		verifrt.Assert(newStatus.GetCanaryRevision() == w.CanaryRevision, "C02.initializing.recordsTheUpdateRevision")
	} else {
		verifrt.Assert(newStatus.BlueGreenStatus == nil && newStatus.CanaryStatus != nil, "C02.initializing.subStatusMatchesStrategy")
		verifrt.Assert(newStatus.CanaryStatus.CanaryRevision == w.CanaryRevision, "C02.initializing.recordsTheUpdateRevision")
	}
	verifrt.Assert(sub.StableRevision == w.StableRevision, "C02.initializing.recordsTheStableRevision")
	verifrt.Assert(sub.CurrentStepIndex == 1 && sub.CurrentStepState == v1beta1.CanaryStepStateInit, "C02.initializing.startsAtTheFirstStepInInit")
	verifrt.Assert(newStatus.CurrentStepIndex == 1 && newStatus.CurrentStepState == v1beta1.CanaryStepStateInit, "C02.initializing.topLevelCursorAgrees")
	verifrt.Assert(sub.NextStepIndex == vNextStep(r, 1), "C02.initializing.nextIndexFollowsTheSequence")
	if n >= 2 {
		verifrt.Assert(sub.NextStepIndex == 2, "C02.initializing.nextIndexFollowsTheSequence")
	} else {
		verifrt.Assert(sub.NextStepIndex == -1, "C02.initializing.nextIndexFollowsTheSequence")
	}
	verifrt.Assert(sub.ObservedWorkloadGeneration == w.Generation, "C02.initializing.recordsTheWorkloadGeneration")
	verifrt.Assert(sub.RolloutHash == r.Annotations[util.RolloutHashAnnotation], "C02.initializing.recordsThePlanHash")
	wantID := w.CanaryRevision
	if w.IsInRollback {
		wantID = "rollback-" + w.CanaryRevision
	}
	if w.Labels[v1beta1.RolloutIDLabel] != "" {
		wantID = w.Labels[v1beta1.RolloutIDLabel]
	}
	verifrt.Assert(sub.ObservedRolloutID == wantID, "C02.initializing.recordsTheRolloutID")
	verifrt.Assert(sub.FinalisingStep == "" && sub.PodTemplateHash == "" && sub.Message == "", "C02.initializing.nothingStaleCarriedOver")
	cond := util.GetRolloutCondition(*newStatus, v1beta1.RolloutConditionProgressing)
	verifrt.Assert(cond != nil, "C02.initializing.conditionKept")
	if cond == nil {
		return
	}
	if initDone {
		verifrt.Cover("C02.initializing.done")
		verifrt.Assert(cond.Reason == v1alpha1.ProgressingReasonInRolling, "C02.initializing.doneMovesToInRolling")
	} else {
		verifrt.Cover("C02.initializing.pending")
		verifrt.Assert(cond.Reason == v1alpha1.ProgressingReasonInitializing, "C02.initializing.pendingStaysInitializing")
		verifrt.Assert(recheck != nil, "C02.initializing.pendingComesWithAWakeUp")
	}
}

// the clean-up a step without traffic runs first (canary Service, routes of the previous step) waits for grace
// periods too: C07.step.cleanupWaitHasAWakeUpInTheFuture of the same relation, from the Init and Upgrade sub-states
func VerifC07_CanaryCleanupWaitHasAWakeUp()    { c02Canary(0) }
func VerifC07_BlueGreenCleanupWaitHasAWakeUp() { c02BlueGreen(0) }

// VerifC02_PlanChangeContinuesFromTheStepThatCoversWhatIsOut: when the plan is edited in the middle of a release the
// rollout continues from the step of the *new* plan that covers the pods already released (percentages round up, on
// both sides): the current step if it still covers them — so a rollout waiting for approval there keeps waiting —
// otherwise the first step in plan order that does.  It never lands on a later step: every step in between would be
// skipped without its pods having been reported ready and without its approval.
func VerifC02_PlanChangeContinuesFromTheStepThatCoversWhatIsOut() {
	vSimple = true
	n := verifrt.Concrete(verifrt.IntRange("nSteps", 1, verifrt.Bound("nSteps.max", 2, 3)))
	cur := verifrt.Concrete(verifrt.IntRange("st.currentStepIndex", 1, n))
	blueGreen := verifrt.Bool("blueGreen")
	var r *v1beta1.Rollout
	if blueGreen {
		r = vBlueGreenRollout(n, cur)
	} else {
		r = vCanaryRollout(n, cur)
	}
	R := verifrt.Concrete(verifrt.IntRange("wl.replicas.small", 1, verifrt.Bound("R", 6, 12)))
	w := vWorkload()
	w.Replicas = int32(R)
	// what is out: the batch the BatchRelease is at, under the plan it was created with
	outPercent := verifrt.IntRange("released.percent", 0, 100)
	br := &v1beta1.BatchRelease{ObjectMeta: metav1.ObjectMeta{Namespace: r.Namespace, Name: r.Name}}
	br.Spec.ReleasePlan.Batches = []v1beta1.ReleaseBatch{{CanaryReplicas: intstr.FromString(fmt.Sprintf("%d%%", outPercent))}}
	zero := int32(0)
	br.Spec.ReleasePlan.BatchPartition = &zero
	cli := &symclient.Client{Objects: []client.Object{br}}
	rec := c10Reconciler(cli)
	c := &RolloutContext{Rollout: r, NewStatus: r.Status.DeepCopy(), Workload: w}
	got, err := rec.recalculateCanaryStep(c)
	verifrt.Assert(err == nil, "C02.planChange.noError")
	if err != nil {
		return
	}
	ceil := func(p int) int { return (p*R + 99) / 100 }
	released := ceil(outPercent)
	steps := r.Spec.Strategy.GetSteps()
	covers := func(i int) bool {
		p, _ := strconv.Atoi(strings.TrimSuffix(steps[i].Replicas.StrVal, "%"))
		return released <= ceil(p)
	}
	verifrt.Assert(got >= 1 && int(got) <= n, "C02.planChange.landsOnAStepOfThePlan")
	if covers(cur - 1) {
		verifrt.Cover("stays")
		verifrt.Assert(int(got) == cur, "C02.planChange.staysOnTheCurrentStepWhileItCoversWhatIsOut")
		return
	}
	for i := 0; i < n; i++ {
		if i == cur-1 {
			continue
		}
		if covers(i) {
			verifrt.Cover("moves")
			verifrt.Assert(int(got) == i+1, "C02.planChange.firstStepThatCoversWhatIsOut")
			return
		}
	}
	verifrt.Cover("nothing-covers")
}

// A nextStepIndex that names no step (0, negative, beyond the plan — a user can patch anything into the status) is no
// request at all: the rollout stays on its step, or moves on by exactly one from Ready; it never lands anywhere else.
func c02OutOfRangeNextStepIndex(blueGreen bool, prefix string) {
	vSimple = true
	vState = -1
	// three steps at least: landing two steps ahead must be expressible
	nSteps := verifrt.Concrete(verifrt.IntRange("nSteps", 1, verifrt.Bound("stepsForJump", 3, 4)))
	cur := verifrt.Concrete(verifrt.IntRange("st.currentStepIndex", 1, nSteps))
	var r *v1beta1.Rollout
	if blueGreen {
		r = vBlueGreenRollout(nSteps, cur)
	} else {
		r = vCanaryRollout(nSteps, cur)
	}
	c := vContext(r)
	calls := &vCalls{}
	c04StubTasks(calls)
	vStubRunBatchRelease(calls, &vBRResult{})
	rec := c10Reconciler(&symclient.Client{})
	pre := *c.Rollout.Status.GetSubStatus()
	n := int32(len(c.Rollout.Spec.Strategy.GetSteps()))
	verifrt.Assume(pre.NextStepIndex <= 0 || pre.NextStepIndex > n)
	verifrt.Assume(pre.CurrentStepState != v1beta1.CanaryStepStateCompleted)
	err := rec.handleNormalRolling(c)
	if err != nil {
		return
	}
	post := *c.NewStatus.GetSubStatus()
	if post.CurrentStepIndex != pre.CurrentStepIndex {
		verifrt.Cover("advanced")
		verifrt.Assert(pre.CurrentStepState == v1beta1.CanaryStepStateReady && post.CurrentStepIndex == pre.CurrentStepIndex+1, prefix+".noStepNamedMeansNoJump")
	} else {
		verifrt.Cover("stayed")
	}
}

func VerifC02_CanaryNextStepIndexNamingNoStepIsNoJump()    { c02OutOfRangeNextStepIndex(false, "C02.canary") }
func VerifC02_BlueGreenNextStepIndexNamingNoStepIsNoJump() { c02OutOfRangeNextStepIndex(true, "C02.bluegreen") }

// VerifC02_PlanEditThatKeepsTheStepDoesNotPassItsGate: a plan edit made while a step waits at its pause gate (or is
// still upgrading / routing) is re-evaluated by handleRolloutPlanChanged.  If the recalculated step is the step the
// rollout is on — the edit changed a weight, a later step, a pause — and the user did not ask for that step as the
// next one, the step is not marked Ready: it is re-entered or left as it is, and its gate is still to be passed.
// (Seed C02-15: the "same as NextStepIndex" shortcut compared CurrentStepIndex, so such an edit marked the paused
// step Ready and the next reconcile moved on unapproved.)
func VerifC02_PlanEditThatKeepsTheStepDoesNotPassItsGate() {
	vSimple = true
	vState = verifrt.Concrete(verifrt.IntRange("st.state", 1, 4)) // Upgrade, TrafficRouting, MetricsAnalysis, Paused
	rec, c, _ := c09Setup(verifrt.Bool("blueGreen"))
	cli := rec.Client.(*symclient.Client)
	if verifrt.Bool("batchReleaseExists") {
		m, _ := rec.getReleaseManager(c.Rollout)
		part := verifrt.IntRange("br.partition", 0, len(c.Rollout.Spec.Strategy.GetSteps())-1)
		cli.Objects = append(cli.Objects, m.createBatchRelease(c.Rollout, "id", int32(part), false))
	}
	pre := c.NewStatus.GetSubStatus().DeepCopy()
	target, terr := rec.recalculateCanaryStep(c)
	if terr != nil || pre.CurrentStepState == v1beta1.CanaryStepStateReady {
		return
	}
	err := rec.handleRolloutPlanChanged(c)
	if err != nil {
		return
	}
	post := c.NewStatus.GetSubStatus()
	if target == pre.CurrentStepIndex && pre.NextStepIndex != target {
		verifrt.Cover("edit-keeps-the-step")
		verifrt.Assert(post.CurrentStepState != v1beta1.CanaryStepStateReady, "C02.planEdit.sameStepIsNotMarkedReady")
		verifrt.Assert(post.CurrentStepIndex == pre.CurrentStepIndex, "C02.planEdit.sameStepStaysCurrent")
	} else {
		verifrt.Cover("edit-moves-the-step-or-names-the-next")
	}
}
