package deployment

// C17 — the ReplicaSet write itself: scaleReplicaSet stamps every ReplicaSet it writes with the Deployment's size
// (desired-replicas) and size plus surge (max-replicas).  isScalingEvent compares exactly that stamp with
// spec.replicas: with a wrong stamp every later sync of an un-scaled Deployment is mistaken for a scaling event and
// handled by scale(), which knows nothing of partition, maxUnavailable or availability.

import (
	"context"
	"fmt"
	"time"

	rolloutsv1alpha1 "github.com/openkruise/rollouts/api/v1alpha1"
	deploymentutil "github.com/openkruise/rollouts/pkg/controller/deployment/util"
	"github.com/openkruise/rollouts/pkg/verifrt"
	apps "k8s.io/api/apps/v1"
	metav1 "k8s.io/apimachinery/pkg/apis/meta/v1"
	"k8s.io/apimachinery/pkg/types"
	"k8s.io/apimachinery/pkg/util/intstr"
	clientset "k8s.io/client-go/kubernetes"
	appsv1client "k8s.io/client-go/kubernetes/typed/apps/v1"
	"k8s.io/client-go/tools/record"
)

// the three levels of the typed clientset the controller writes ReplicaSets through; only Update is implemented
type c17Clientset struct {
	clientset.Interface
	written *[]*apps.ReplicaSet
}
type c17Apps struct {
	appsv1client.AppsV1Interface
	written *[]*apps.ReplicaSet
}
type c17ReplicaSets struct {
	appsv1client.ReplicaSetInterface
	written *[]*apps.ReplicaSet
}

func (c c17Clientset) AppsV1() appsv1client.AppsV1Interface { return c17Apps{written: c.written} }
func (c c17Apps) ReplicaSets(ns string) appsv1client.ReplicaSetInterface {
	return c17ReplicaSets{written: c.written}
}
func (c c17ReplicaSets) Update(ctx context.Context, rs *apps.ReplicaSet, opts metav1.UpdateOptions) (*apps.ReplicaSet, error) {
	*c.written = append(*c.written, rs)
	return rs, nil
}
func (c c17ReplicaSets) Create(ctx context.Context, rs *apps.ReplicaSet, opts metav1.CreateOptions) (*apps.ReplicaSet, error) {
	*c.written = append(*c.written, rs)
	return rs, nil
}

type c17Deployments struct {
	appsv1client.DeploymentInterface
}

func (c c17Apps) Deployments(ns string) appsv1client.DeploymentInterface { return c17Deployments{} }
func (c c17Deployments) UpdateStatus(ctx context.Context, d *apps.Deployment, opts metav1.UpdateOptions) (*apps.Deployment, error) {
	return d, nil
}

func VerifC17_ScaleReplicaSetStampsSizeAndSurge() {
	maxR := verifrt.Bound("R", 200, 100000)
	R := int32(verifrt.IntRange("R", 0, maxR))
	d := &apps.Deployment{ObjectMeta: metav1.ObjectMeta{Namespace: "ns", Name: "w"}}
	d.Spec.Replicas = &R
	ms := intstr.FromInt(verifrt.IntRange("maxSurge.int", 0, maxR))
	mu := intstr.FromInt(1)
	strategy := rolloutsv1alpha1.DeploymentStrategy{RollingStyle: rolloutsv1alpha1.PartitionRollingStyle,
		RollingUpdate: &apps.RollingUpdateDeployment{MaxSurge: &ms, MaxUnavailable: &mu}}
	cur := int32(verifrt.IntRange("rs.replicas", 0, 2*maxR))
	rs := &apps.ReplicaSet{ObjectMeta: metav1.ObjectMeta{Namespace: "ns", Name: "rs-1"}}
	rs.Spec.Replicas = &cur
	if verifrt.Bool("rs.stampedBefore") {
		rs.Annotations = map[string]string{deploymentutil.ReplicasAnnotation: fmt.Sprintf("%d", verifrt.IntRange("rs.oldDesired", 0, maxR)),
			deploymentutil.MaxReplicasAnnotation: fmt.Sprintf("%d", verifrt.IntRange("rs.oldMax", 0, 2*maxR))}
	}
	newScale := int32(verifrt.IntRange("newScale", 0, 2*maxR))
	var written []*apps.ReplicaSet
	dc := &DeploymentController{eventRecorder: record.NewFakeRecorder(10), strategy: strategy, client: c17Clientset{written: &written}}
	_, out, err := dc.scaleReplicaSet(context.TODO(), rs, newScale, d, "up")
	verifrt.Assert(err == nil, "C17.write.noerror")
	verifrt.Assert(len(written) <= 1, "C17.write.atMostOne")
	if len(written) == 1 {
		w := written[0]
		verifrt.Assert(*w.Spec.Replicas == newScale, "C17.write.replicasAsAsked")
		verifrt.Assert(w.Annotations[deploymentutil.ReplicasAnnotation] == fmt.Sprintf("%d", R), "C17.write.desiredReplicasStampIsTheDeploymentSize")
		verifrt.Assert(w.Annotations[deploymentutil.MaxReplicasAnnotation] == fmt.Sprintf("%d", int(R)+int(ms.IntVal)), "C17.write.maxReplicasStampIsSizePlusSurge")
		verifrt.Assert(out == w, "C17.write.returnsWhatWasWritten")
	} else {
		// nothing written: size and stamps were already right
		verifrt.Assert(cur == newScale && rs.Annotations[deploymentutil.ReplicasAnnotation] == fmt.Sprintf("%d", R), "C17.write.skippedOnlyWhenAlreadyRight")
	}
}

// VerifC17_ScaleAbsorbsTheScalingEvent: a change of spec.replicas in the middle of a release is handled by scale(),
// which spreads the difference over the active ReplicaSets — and which must leave *every* active ReplicaSet stamped
// with the new size, also one whose share of the difference is zero.  isScalingEvent compares exactly that stamp: a
// ReplicaSet left with the old one makes every later sync look like a scaling event again, rolloutRolling is never
// reached, and the release never converges however the partition is raised.  (GetProportion — float rounding of a
// symbolic quotient — is replaced by its contract: a share between 0 and what is still to be distributed.)
func VerifC17_ScaleAbsorbsTheScalingEvent() {
	maxR := verifrt.Bound("R", 50, 1000)
	R := int32(verifrt.IntRange("R", 1, maxR))
	Rold := int32(verifrt.IntRange("R.before", 1, maxR))
	verifrt.Assume(R != Rold)
	d := &apps.Deployment{ObjectMeta: metav1.ObjectMeta{Namespace: "ns", Name: "w"}}
	d.Spec.Replicas = &R
	ms := intstr.FromInt(verifrt.IntRange("maxSurge.int", 0, 10))
	mu := intstr.FromInt(1)
	strategy := rolloutsv1alpha1.DeploymentStrategy{RollingStyle: rolloutsv1alpha1.PartitionRollingStyle,
		RollingUpdate: &apps.RollingUpdateDeployment{MaxSurge: &ms, MaxUnavailable: &mu}}
	now := time.Now()
	mk := func(name string, size int32, minute int) *apps.ReplicaSet {
		rs := &apps.ReplicaSet{ObjectMeta: metav1.ObjectMeta{Namespace: "ns", Name: name, CreationTimestamp: metav1.NewTime(now.Add(time.Duration(minute) * time.Minute))}}
		s := size
		rs.Spec.Replicas = &s
		rs.Status.Replicas, rs.Status.ReadyReplicas, rs.Status.AvailableReplicas = size, size, size
		rs.Annotations = map[string]string{deploymentutil.ReplicasAnnotation: fmt.Sprintf("%d", Rold), deploymentutil.MaxReplicasAnnotation: fmt.Sprintf("%d", int(Rold)+int(ms.IntVal))}
		return rs
	}
	// the release is under way: both ReplicaSets have pods, together the size before the scale event
	oldSize := int32(verifrt.IntRange("old.replicas", 1, maxR))
	newSize := int32(verifrt.IntRange("new.replicas", 1, maxR))
	verifrt.Assume(oldSize+newSize == Rold)
	oldRS, newRS := mk("rs-old", oldSize, 1), mk("rs-new", newSize, 2)
	verifrt.Stub("github.com/openkruise/rollouts/pkg/controller/deployment/util.GetProportion", func(rs *apps.ReplicaSet, dd apps.Deployment, st *rolloutsv1alpha1.DeploymentStrategy, toAdd, added int32) int32 {
		allowed := toAdd - added
		if rs == nil || *(rs.Spec.Replicas) == 0 || toAdd == 0 || allowed == 0 {
			return 0
		}
		p := int32(verifrt.IntRange("proportion", -int(maxR), int(maxR)))
		if allowed > 0 {
			verifrt.Assume(0 <= p && p <= allowed)
		} else {
			// the real share is round(size * new/old) - size: never below -size
			verifrt.Assume(allowed <= p && p <= 0 && p >= -*(rs.Spec.Replicas))
		}
		return p
	})
	var written []*apps.ReplicaSet
	dc := &DeploymentController{eventRecorder: record.NewFakeRecorder(10), strategy: strategy, client: c17Clientset{written: &written}}
	err := dc.scale(context.TODO(), d, newRS, []*apps.ReplicaSet{oldRS})
	verifrt.Assert(err == nil, "C17.scale.noerror")
	if err != nil {
		return
	}
	final := map[string]*apps.ReplicaSet{"rs-old": oldRS, "rs-new": newRS}
	for _, w := range written {
		final[w.Name] = w
	}
	total := int32(0)
	for _, name := range []string{"rs-old", "rs-new"} {
		rs := final[name]
		total += *rs.Spec.Replicas
		if *rs.Spec.Replicas > 0 {
			verifrt.Assert(rs.Annotations[deploymentutil.ReplicasAnnotation] == fmt.Sprintf("%d", R), "C17.scale.everyActiveReplicaSetCarriesTheNewSize")
		}
	}
	// (that the sizes add up to the new size depends on the exact rounding of the shares, which the contract stub
	// does not reproduce; it is not claimed here)
	_ = total
	if R > Rold {
		verifrt.Cover("scale-up")
	} else {
		verifrt.Cover("scale-down")
	}
}

// VerifC17_NewReplicaSetIsCreatedWithinPartitionAndSurge: the first sync after a template change creates the new
// ReplicaSet.  Its initial size obeys the same two limits as every later scale-up: not more pods of the new revision
// than the partition allows, and not more pods in total (old ReplicaSets included) than replicas + maxSurge.
func VerifC17_NewReplicaSetIsCreatedWithinPartitionAndSurge() {
	maxR := verifrt.Bound("R", 200, 100000)
	R := int32(verifrt.IntRange("R", 1, maxR))
	d := &apps.Deployment{ObjectMeta: metav1.ObjectMeta{Namespace: "ns", Name: "w", UID: "uid-w"}}
	d.Spec.Replicas = &R
	d.Spec.Selector = &metav1.LabelSelector{MatchLabels: map[string]string{"app": "w"}}
	d.Spec.Template.Labels = map[string]string{"app": "w", "ver": "v2"}
	ms := intstr.FromInt(verifrt.IntRange("maxSurge.int", 0, maxR))
	mu := intstr.FromInt(verifrt.IntRange("maxUnavailable.int", 0, maxR))
	verifrt.Assume(ms.IntVal > 0 || mu.IntVal > 0)
	part := intstr.FromInt(verifrt.IntRange("partition.int", 0, maxR))
	strategy := rolloutsv1alpha1.DeploymentStrategy{RollingStyle: rolloutsv1alpha1.PartitionRollingStyle, Partition: part,
		RollingUpdate: &apps.RollingUpdateDeployment{MaxSurge: &ms, MaxUnavailable: &mu}}
	// pods of the old revision exist (with none left the new ReplicaSet is simply the Deployment: the controller then
	// creates it at full size by design, there is nothing for a partition to hold back)
	oldSize := int32(verifrt.IntRange("old.replicas", 1, 2*maxR))
	verifrt.Assume(oldSize <= R+ms.IntVal)
	oldRS := &apps.ReplicaSet{ObjectMeta: metav1.ObjectMeta{Namespace: "ns", Name: "w-old", Annotations: map[string]string{deploymentutil.RevisionAnnotation: "1"}}}
	oldRS.Spec.Replicas = &oldSize
	oldRS.Spec.Template.Labels = map[string]string{"app": "w", "ver": "v1", apps.DefaultDeploymentUniqueLabelKey: "hash-v1"}
	oldRS.Status.Replicas, oldRS.Status.AvailableReplicas = oldSize, oldSize
	var written []*apps.ReplicaSet
	dc := &DeploymentController{eventRecorder: record.NewFakeRecorder(10), strategy: strategy, client: c17Clientset{written: &written}}
	rs, err := dc.getNewReplicaSet(context.TODO(), d, []*apps.ReplicaSet{oldRS}, []*apps.ReplicaSet{oldRS}, true)
	verifrt.Assert(err == nil && rs != nil && len(written) == 1, "C17.create.createsTheNewReplicaSet")
	if err != nil || rs == nil || len(written) != 1 {
		return
	}
	newSize := *written[0].Spec.Replicas
	// an integer partition is the number of new-revision pods the step allows, capped by the Deployment's size
	limit := part.IntVal
	if limit > R {
		limit = R
	}
	// (the controller keeps at least one pod in the new ReplicaSet when there is no surge, so that the native controller
	// does not fight it; that single pod is the only excess the limits admit — stated here, not taken from the helper
	// that computes it)
	lower := int32(1)
	verifrt.Assert(newSize <= limit || newSize <= lower, "C17.create.withinThePartition")
	verifrt.Assert(oldSize+newSize <= R+ms.IntVal || newSize <= lower, "C17.create.withinReplicasPlusSurge")
	verifrt.Assert(written[0].Spec.Template.Labels["ver"] == "v2", "C17.create.carriesTheNewTemplate")
}

// C01: the new ReplicaSet of a partition-style Deployment comes into being within what the current step allows (the
// partition), one pod at most beyond it — the same creation relation, under the exposure property.
func VerifC01_NewReplicaSetIsCreatedWithinThePartition() {
	VerifC17_NewReplicaSetIsCreatedWithinPartitionAndSurge()
}

// VerifC17_ScalingEventMeansSpecReplicasChanged: every sync first asks "is this a scaling event?" and hands a yes to
// scale(), which knows nothing of partition, maxUnavailable or availability.  The answer is yes exactly when an active
// ReplicaSet is stamped with a desired size other than the Deployment's *spec* replicas — it does not depend on
// status.replicas, which moves all through an ordinary rollout (surge).
func VerifC17_ScalingEventMeansSpecReplicasChanged() {
	maxR := verifrt.Bound("R", 200, 100000)
	R := int32(verifrt.IntRange("R", 1, maxR))
	d := &apps.Deployment{ObjectMeta: metav1.ObjectMeta{Namespace: "ns", Name: "w", UID: "uid-w"}}
	d.Spec.Replicas = &R
	d.Spec.Template.Labels = map[string]string{"app": "w", "ver": "v2"}
	d.Status.Replicas = int32(verifrt.IntRange("status.replicas", 0, 2*maxR))
	ms := intstr.FromInt(verifrt.IntRange("maxSurge.int", 0, 10))
	mu := intstr.FromInt(1)
	strategy := rolloutsv1alpha1.DeploymentStrategy{RollingStyle: rolloutsv1alpha1.PartitionRollingStyle,
		RollingUpdate: &apps.RollingUpdateDeployment{MaxSurge: &ms, MaxUnavailable: &mu}}
	now := time.Now()
	stamped := func(tag string) (int32, bool) {
		if !verifrt.Bool(tag + ".stamped") {
			return 0, false
		}
		return int32(verifrt.IntRange(tag+".desired", 0, maxR)), true
	}
	mk := func(name, ver, uid string, minute int, size int32, tag string) (*apps.ReplicaSet, bool) {
		rs := &apps.ReplicaSet{ObjectMeta: metav1.ObjectMeta{Namespace: "ns", Name: name, UID: types.UID(uid), CreationTimestamp: metav1.NewTime(now.Add(time.Duration(minute) * time.Minute)),
			Annotations: map[string]string{deploymentutil.RevisionAnnotation: fmt.Sprintf("%d", minute)}}}
		s := size
		rs.Spec.Replicas = &s
		rs.Spec.Template.Labels = map[string]string{"app": "w", "ver": ver, apps.DefaultDeploymentUniqueLabelKey: "hash-" + ver}
		differs := false
		if desired, ok := stamped(tag); ok {
			rs.Annotations[deploymentutil.ReplicasAnnotation] = fmt.Sprintf("%d", desired)
			rs.Annotations[deploymentutil.MaxReplicasAnnotation] = fmt.Sprintf("%d", int(desired)+int(ms.IntVal))
			differs = size > 0 && desired != R
		}
		return rs, differs
	}
	oldRS, d1 := mk("w-old", "v1", "uid-old", 1, int32(verifrt.IntRange("old.replicas", 0, maxR)), "old")
	newRS, d2 := mk("w-new", "v2", "uid-new", 2, int32(verifrt.IntRange("new.replicas", 0, maxR)), "new")
	var written []*apps.ReplicaSet
	dc := &DeploymentController{eventRecorder: record.NewFakeRecorder(10), strategy: strategy, client: c17Clientset{written: &written}}
	got, err := dc.isScalingEvent(context.TODO(), d, []*apps.ReplicaSet{oldRS, newRS})
	verifrt.Assert(err == nil, "C17.scalingEvent.noError")
	verifrt.Assert(got == (d1 || d2), "C17.scalingEvent.iffAnActiveReplicaSetIsStampedWithAnotherSpecSize")
}
