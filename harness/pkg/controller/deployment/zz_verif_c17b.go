package deployment

// C17 — the ReplicaSet write itself: scaleReplicaSet stamps every ReplicaSet it writes with the Deployment's size
// (desired-replicas) and size plus surge (max-replicas).  isScalingEvent compares exactly that stamp with
// spec.replicas: with a wrong stamp every later sync of an un-scaled Deployment is mistaken for a scaling event and
// handled by scale(), which knows nothing of partition, maxUnavailable or availability.

import (
	"context"
	"fmt"

	rolloutsv1alpha1 "github.com/openkruise/rollouts/api/v1alpha1"
	deploymentutil "github.com/openkruise/rollouts/pkg/controller/deployment/util"
	"github.com/openkruise/rollouts/pkg/verifrt"
	apps "k8s.io/api/apps/v1"
	metav1 "k8s.io/apimachinery/pkg/apis/meta/v1"
	"k8s.io/apimachinery/pkg/util/intstr"
	clientset "k8s.io/client-go/kubernetes"
	appsv1client "k8s.io/client-go/kubernetes/typed/apps/v1"
	"k8s.io/client-go/tools/record"
)

// the three levels of the typed clientset the controller writes ReplicaSets through; only Update is implemented
type c17Clientset struct {
	clientset.Interface
	written *[]*apps.ReplicaSet
}
type c17Apps struct {
	appsv1client.AppsV1Interface
	written *[]*apps.ReplicaSet
}
type c17ReplicaSets struct {
	appsv1client.ReplicaSetInterface
	written *[]*apps.ReplicaSet
}

func (c c17Clientset) AppsV1() appsv1client.AppsV1Interface { return c17Apps{written: c.written} }
func (c c17Apps) ReplicaSets(ns string) appsv1client.ReplicaSetInterface {
	return c17ReplicaSets{written: c.written}
}
func (c c17ReplicaSets) Update(ctx context.Context, rs *apps.ReplicaSet, opts metav1.UpdateOptions) (*apps.ReplicaSet, error) {
	*c.written = append(*c.written, rs)
	return rs, nil
}

func VerifC17_ScaleReplicaSetStampsSizeAndSurge() {
	maxR := verifrt.Bound("R", 200, 100000)
	R := int32(verifrt.IntRange("R", 0, maxR))
	d := &apps.Deployment{ObjectMeta: metav1.ObjectMeta{Namespace: "ns", Name: "w"}}
	d.Spec.Replicas = &R
	ms := intstr.FromInt(verifrt.IntRange("maxSurge.int", 0, maxR))
	mu := intstr.FromInt(1)
	strategy := rolloutsv1alpha1.DeploymentStrategy{RollingStyle: rolloutsv1alpha1.PartitionRollingStyle,
		RollingUpdate: &apps.RollingUpdateDeployment{MaxSurge: &ms, MaxUnavailable: &mu}}
	cur := int32(verifrt.IntRange("rs.replicas", 0, 2*maxR))
	rs := &apps.ReplicaSet{ObjectMeta: metav1.ObjectMeta{Namespace: "ns", Name: "rs-1"}}
	rs.Spec.Replicas = &cur
	if verifrt.Bool("rs.stampedBefore") {
		rs.Annotations = map[string]string{deploymentutil.ReplicasAnnotation: fmt.Sprintf("%d", verifrt.IntRange("rs.oldDesired", 0, maxR)),
			deploymentutil.MaxReplicasAnnotation: fmt.Sprintf("%d", verifrt.IntRange("rs.oldMax", 0, 2*maxR))}
	}
	newScale := int32(verifrt.IntRange("newScale", 0, 2*maxR))
	var written []*apps.ReplicaSet
	dc := &DeploymentController{eventRecorder: record.NewFakeRecorder(10), strategy: strategy, client: c17Clientset{written: &written}}
	_, out, err := dc.scaleReplicaSet(context.TODO(), rs, newScale, d, "up")
	verifrt.Assert(err == nil, "C17.write.noerror")
	verifrt.Assert(len(written) <= 1, "C17.write.atMostOne")
	if len(written) == 1 {
		w := written[0]
		verifrt.Assert(*w.Spec.Replicas == newScale, "C17.write.replicasAsAsked")
		verifrt.Assert(w.Annotations[deploymentutil.ReplicasAnnotation] == fmt.Sprintf("%d", R), "C17.write.desiredReplicasStampIsTheDeploymentSize")
		verifrt.Assert(w.Annotations[deploymentutil.MaxReplicasAnnotation] == fmt.Sprintf("%d", int(R)+int(ms.IntVal)), "C17.write.maxReplicasStampIsSizePlusSurge")
		verifrt.Assert(out == w, "C17.write.returnsWhatWasWritten")
	} else {
		// nothing written: size and stamps were already right
		verifrt.Assert(cur == newScale && rs.Annotations[deploymentutil.ReplicasAnnotation] == fmt.Sprintf("%d", R), "C17.write.skippedOnlyWhenAlreadyRight")
	}
}
