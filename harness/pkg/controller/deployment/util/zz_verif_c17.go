package util

// C17 — the budgets every scaling decision of the advanced deployment controller rests on: maxSurge rounds a
// percentage up, maxUnavailable rounds it down (so that replicas - maxUnavailable pods are really kept available),
// both zero resolves to maxUnavailable 1, maxUnavailable never exceeds replicas, and the new-ReplicaSet limit of a
// partition is ceil(percent * replicas) clamped so that a percentage below 100 never covers everything.

import (
	"fmt"

	rolloutsv1alpha1 "github.com/openkruise/rollouts/api/v1alpha1"
	"github.com/openkruise/rollouts/pkg/verifrt"
	apps "k8s.io/api/apps/v1"
	metav1 "k8s.io/apimachinery/pkg/apis/meta/v1"
	"k8s.io/apimachinery/pkg/util/intstr"
)

func c17Val(name string, max int) (intstr.IntOrString, int, bool) {
	if verifrt.Bool(name + ".isPercent") {
		p := verifrt.IntRange(name+".percent", 0, 100)
		return intstr.FromString(fmt.Sprintf("%d%%", p)), p, true
	}
	n := verifrt.IntRange(name+".int", 0, max)
	return intstr.FromInt(n), n, false
}

func VerifC17_Fenceposts() {
	maxR := verifrt.Bound("R", 1000, 1000000)
	R := verifrt.IntRange("R", 1, maxR)
	R32 := int32(R)
	d := &apps.Deployment{ObjectMeta: metav1.ObjectMeta{Namespace: "ns", Name: "w"}}
	d.Spec.Replicas = &R32
	ms, msv, mspct := c17Val("maxSurge", maxR)
	mu, muv, mupct := c17Val("maxUnavailable", maxR)
	strategy := &rolloutsv1alpha1.DeploymentStrategy{RollingStyle: rolloutsv1alpha1.PartitionRollingStyle,
		RollingUpdate: &apps.RollingUpdateDeployment{MaxSurge: &ms, MaxUnavailable: &mu}}
	wantSurge := msv
	if mspct {
		wantSurge = (msv*R + 99) / 100
	}
	wantUnavail := muv
	if mupct {
		wantUnavail = muv * R / 100
	}
	if wantSurge == 0 && wantUnavail == 0 {
		wantUnavail = 1
	}
	if wantUnavail > R {
		wantUnavail = R
	}
	verifrt.Assert(int(MaxSurge(d, strategy)) == wantSurge, "C17.fenceposts.maxSurgeRoundsUp")
	verifrt.Assert(int(MaxUnavailable(d, strategy)) == wantUnavail, "C17.fenceposts.maxUnavailableRoundsDown")
	verifrt.Assert(int(MinAvailable(d, strategy)) == R-wantUnavail, "C17.fenceposts.minAvailable")
}

func VerifC17_NewRSReplicasLimit() {
	maxR := verifrt.Bound("R", 1000, 1000000)
	R := verifrt.IntRange("R", 0, maxR)
	R32 := int32(R)
	d := &apps.Deployment{ObjectMeta: metav1.ObjectMeta{Namespace: "ns", Name: "w"}}
	d.Spec.Replicas = &R32
	part, pv, ppct := c17Val("partition", maxR)
	want := pv
	if ppct {
		want = (pv*R + 99) / 100
		if want > R {
			want = R
		}
		if R > 1 && pv != 100 && want > R-1 {
			want = R - 1
		}
	} else if want > R {
		want = R
	}
	verifrt.Assert(int(NewRSReplicasLimit(part, d)) == want, "C17.limit.partitionResolvesToPods")
}

// VerifC17_NewReplicaSetIsStampedWithSizeAndSurge: a ReplicaSet about to be created is stamped desired-replicas = the
// Deployment's size and max-replicas = size + surge, in that order.  isScalingEvent compares desired-replicas with
// spec.replicas on every sync: a fresh ReplicaSet stamped with anything else turns the next sync of an un-scaled
// Deployment into a "scaling event", handled by scale() — which takes the surge away from the largest (old) ReplicaSet
// without regard to partition or availability.  An existing ReplicaSet keeps its stamps (scaleReplicaSet owns them).
func VerifC17_NewReplicaSetIsStampedWithSizeAndSurge() {
	maxR := verifrt.Bound("R", 1000, 1000000)
	R := int32(verifrt.IntRange("R", 0, maxR))
	d := &apps.Deployment{ObjectMeta: metav1.ObjectMeta{Namespace: "ns", Name: "w"}}
	d.Spec.Replicas = &R
	if verifrt.Bool("deployment.hasAnnotations") {
		d.Annotations = map[string]string{"team": "a", ReplicasAnnotation: "77", MaxReplicasAnnotation: "78"}
	}
	ms, _, _ := c17Val("maxSurge", maxR)
	mu := intstr.FromInt(1)
	strategy := &rolloutsv1alpha1.DeploymentStrategy{RollingStyle: rolloutsv1alpha1.PartitionRollingStyle,
		RollingUpdate: &apps.RollingUpdateDeployment{MaxSurge: &ms, MaxUnavailable: &mu}}
	rs := &apps.ReplicaSet{ObjectMeta: metav1.ObjectMeta{Namespace: "ns", Name: "rs-new"}}
	exists := verifrt.Bool("rs.exists")
	if exists {
		rs.Annotations = map[string]string{RevisionAnnotation: "1", ReplicasAnnotation: "5", MaxReplicasAnnotation: "6"}
	}
	SetNewReplicaSetAnnotations(d, rs, strategy, "2", exists, 2048)
	surge := MaxSurge(d, strategy)
	if exists {
		verifrt.Cover("existing")
		verifrt.Assert(rs.Annotations[ReplicasAnnotation] == "5" && rs.Annotations[MaxReplicasAnnotation] == "6", "C17.stamp.existingReplicaSetKeepsItsStamps")
	} else {
		verifrt.Cover("new")
		verifrt.Assert(rs.Annotations[ReplicasAnnotation] == fmt.Sprintf("%d", R), "C17.stamp.desiredReplicasIsTheDeploymentSize")
		verifrt.Assert(rs.Annotations[MaxReplicasAnnotation] == fmt.Sprintf("%d", R+surge), "C17.stamp.maxReplicasIsSizePlusSurge")
	}
	verifrt.Assert(rs.Annotations[RevisionAnnotation] == "2", "C17.stamp.revisionRecorded")
}
