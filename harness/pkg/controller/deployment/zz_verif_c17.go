package deployment

// C17 — partition-style Deployment scaling respects partition, surge and availability (DESIGN.md §6 C17).

import (
	"context"
	"fmt"
	"strconv"

	rolloutsv1alpha1 "github.com/openkruise/rollouts/api/v1alpha1"
	deploymentutil "github.com/openkruise/rollouts/pkg/controller/deployment/util"
	"github.com/openkruise/rollouts/pkg/verifrt"
	apps "k8s.io/api/apps/v1"
	v1 "k8s.io/api/core/v1"
	metav1 "k8s.io/apimachinery/pkg/apis/meta/v1"
	"k8s.io/apimachinery/pkg/util/intstr"
	"k8s.io/client-go/tools/record"
	"time"
)

const stubScaleReplicaSet = "(*github.com/openkruise/rollouts/pkg/controller/deployment.DeploymentController).scaleReplicaSet"

type c17State struct {
	dc      *DeploymentController
	d       *apps.Deployment
	newRS   *apps.ReplicaSet
	oldRSs  []*apps.ReplicaSet
	R       int
	limit   int // pods the partition allows on the new revision
	surge   int
	unavail int
	writes  map[string]int32 // ReplicaSet name -> replicas written
}

func c17IntOrPct(name string, max int) (intstr.IntOrString, int, bool) {
	// quick tier: maxSurge / maxUnavailable are integers, the partition is an integer or a percentage
	if (name == "partition" || verifrt.Bound("percentFenceposts", 0, 1) == 1) && verifrt.Bool(name+".isPercent") {
		p := verifrt.IntRange(name+".percent", 0, 100)
		return intstr.FromString(fmt.Sprintf("%d%%", p)), p, true
	}
	n := verifrt.IntRange(name+".int", 0, max)
	return intstr.FromInt(n), n, false
}

func c17RS(name string, rev int, label string, replicas, available int32, createdAgo int) *apps.ReplicaSet {
	rs := &apps.ReplicaSet{ObjectMeta: metav1.ObjectMeta{Namespace: "ns", Name: name, Annotations: map[string]string{deploymentutil.RevisionAnnotation: strconv.Itoa(rev)}}}
	rs.CreationTimestamp = metav1.Time{Time: time.Now().Add(-time.Duration(createdAgo) * time.Hour)}
	rs.Spec.Replicas = &replicas
	rs.Spec.Template.Labels = map[string]string{"app": "w", "ver": label}
	rs.Status.Replicas = replicas
	rs.Status.AvailableReplicas = available
	return rs
}

func c17Setup() *c17State {
	maxR := verifrt.Bound("R", 200, 100000)
	s := &c17State{writes: map[string]int32{}}
	s.R = verifrt.IntRange("R", 0, maxR)
	R32 := int32(s.R)
	d := &apps.Deployment{ObjectMeta: metav1.ObjectMeta{Namespace: "ns", Name: "w"}}
	d.Spec.Replicas = &R32
	d.Spec.Template.Labels = map[string]string{"app": "w", "ver": "new"}
	// the deployment status is written by an earlier sync and may be stale
	d.Status.AvailableReplicas = int32(verifrt.IntRange("d.status.available", 0, 3*maxR))
	d.Status.Replicas = int32(verifrt.IntRange("d.status.replicas", 0, 3*maxR))
	s.d = d
	part, pv, ppct := c17IntOrPct("partition", maxR)
	if ppct {
		s.limit = (pv*s.R + 99) / 100
		if s.limit > s.R {
			s.limit = s.R
		}
		if s.R > 1 && pv != 100 && s.limit > s.R-1 {
			s.limit = s.R - 1
		}
	} else {
		s.limit = pv
		if s.limit > s.R {
			s.limit = s.R
		}
	}
	ms, msv, mspct := c17IntOrPct("maxSurge", maxR)
	mu, muv, mupct := c17IntOrPct("maxUnavailable", maxR)
	if mspct {
		s.surge = (msv*s.R + 99) / 100
	} else {
		s.surge = msv
	}
	if mupct {
		s.unavail = muv * s.R / 100
	} else {
		s.unavail = muv
	}
	if s.surge == 0 && s.unavail == 0 {
		s.unavail = 1
	}
	if s.unavail > s.R {
		s.unavail = s.R
	}
	if s.R == 0 {
		s.unavail = 0
	}
	strategy := rolloutsv1alpha1.DeploymentStrategy{RollingStyle: rolloutsv1alpha1.PartitionRollingStyle, Partition: part,
		RollingUpdate: &apps.RollingUpdateDeployment{MaxSurge: &ms, MaxUnavailable: &mu}}
	newRep := int32(verifrt.IntRange("new.replicas", 0, maxR))
	newAvail := int32(verifrt.IntRange("new.available", 0, maxR))
	verifrt.Assume(newAvail <= newRep)
	s.newRS = c17RS("rs-new", 3, "new", newRep, newAvail, 1)
	nOld := verifrt.Concrete(verifrt.IntRange("nOld", 1, 2))
	for i := 0; i < nOld; i++ {
		rep := int32(verifrt.IntRange("old.replicas", 0, 2*maxR))
		av := int32(verifrt.IntRange("old.available", 0, 2*maxR))
		verifrt.Assume(av <= rep)
		ors := c17RS("rs-old-"+strconv.Itoa(i), i+1, "old"+strconv.Itoa(i), rep, av, 10-i)
		// the status may lag behind an earlier scale-down: it still counts pods that are on their way out
		// (status.replicas > spec.replicas); what is available is among the pods the spec keeps
		ors.Status.Replicas = rep + int32(verifrt.IntRange("old.statusLag", 0, 2))
		s.oldRSs = append(s.oldRSs, ors)
	}
	s.dc = &DeploymentController{eventRecorder: record.NewFakeRecorder(10), strategy: strategy}
	verifrt.Stub(stubScaleReplicaSet, func(dc *DeploymentController, ctx context.Context, rs *apps.ReplicaSet, newScale int32, deployment *apps.Deployment, op string) (bool, *apps.ReplicaSet, error) {
		s.writes[rs.Name] = newScale
		if *(rs.Spec.Replicas) == newScale {
			return false, rs, nil
		}
		c := rs.DeepCopy()
		*(c.Spec.Replicas) = newScale
		return true, c, nil
	})
	return s
}

func (s *c17State) oldSum() int {
	n := 0
	for _, rs := range s.oldRSs {
		n += int(*rs.Spec.Replicas)
	}
	return n
}

func (s *c17State) replicasAfter(rs *apps.ReplicaSet) int {
	if v, ok := s.writes[rs.Name]; ok {
		return int(v)
	}
	return int(*rs.Spec.Replicas)
}

func c17Max(a, b int) int {
	if a > b {
		return a
	}
	return b
}

func c17Min(a, b int) int {
	if a < b {
		return a
	}
	return b
}

// the state the invariant describes: the size is not being changed, so the old ReplicaSets still hold what the
// partition reserves for them and the new one is within the deployment size
func (s *c17State) assumeInvariant() {
	nw := int(*s.newRS.Spec.Replicas)
	verifrt.Assume(nw <= s.R)
	verifrt.Assume(s.oldSum() >= s.R-c17Max(s.limit, nw))
}

// VerifC17_ReconcileNewReplicaSet: the new ReplicaSet never grows beyond what the partition allows, a scale-up keeps
// the total within replicas + maxSurge, and the invariant is preserved.
func VerifC17_ReconcileNewReplicaSet() {
	s := c17Setup()
	s.assumeInvariant()
	nw := int(*s.newRS.Spec.Replicas)
	all := append(append([]*apps.ReplicaSet{}, s.oldRSs...), s.newRS)
	_, err := s.dc.reconcileNewReplicaSet(context.TODO(), all, s.newRS, s.d)
	verifrt.Assert(err == nil, "C17.new.noerror")
	nw2 := s.replicasAfter(s.newRS)
	verifrt.Assert(nw2 <= c17Max(nw, s.limit), "C17.new.neverBeyondPartition")
	if nw2 > nw {
		verifrt.Cover("scaled-up")
		verifrt.Assert(s.oldSum()+nw2 <= s.R+s.surge, "C17.new.scaleUpWithinMaxSurge")
	}
	for _, rs := range s.oldRSs {
		_, touched := s.writes[rs.Name]
		verifrt.Assert(!touched, "C17.new.oldReplicaSetsUntouched")
	}
	verifrt.Assert(nw2 <= s.R && s.oldSum() >= s.R-c17Max(s.limit, nw2), "C17.new.invariantPreserved")
}

// VerifC17_ReconcileOldReplicaSets: old ReplicaSets are never shrunk below what the partition reserves for them, and
// available old pods are never scaled down below replicas - maxUnavailable available pods in total.
func VerifC17_ReconcileOldReplicaSets() {
	s := c17Setup()
	s.assumeInvariant()
	nw := int(*s.newRS.Spec.Replicas)
	old := s.oldSum()
	availBefore := int(s.newRS.Status.AvailableReplicas)
	for _, rs := range s.oldRSs {
		availBefore += int(rs.Status.AvailableReplicas)
	}
	all := append(append([]*apps.ReplicaSet{}, s.oldRSs...), s.newRS)
	active := deploymentutil.FilterActiveReplicaSets(append([]*apps.ReplicaSet{}, s.oldRSs...))
	_, err := s.dc.reconcileOldReplicaSets(context.TODO(), all, active, s.newRS, s.d)
	verifrt.Assert(err == nil, "C17.old.noerror")
	old2, availAfter := 0, int(s.newRS.Status.AvailableReplicas)
	for _, rs := range s.oldRSs {
		r2 := s.replicasAfter(rs)
		old2 += r2
		// the ReplicaSet controller removes unavailable pods first
		availAfter += c17Min(int(rs.Status.AvailableReplicas), r2)
	}
	_, newTouched := s.writes[s.newRS.Name]
	verifrt.Assert(!newTouched, "C17.old.newReplicaSetUntouched")
	reserve := s.R - c17Max(s.limit, nw)
	verifrt.Assert(old2 >= c17Min(old, reserve), "C17.old.neverBelowPartitionReserve")
	if old2 < old {
		verifrt.Cover("scaled-down")
	}
	verifrt.Assert(availAfter >= c17Min(availBefore, s.R-s.unavail), "C17.old.availableNeverBelowMinAvailable")
	verifrt.Assert(old2 >= s.R-c17Max(s.limit, nw), "C17.old.invariantPreserved")
}

// VerifC17_ConvergesWhenPartitionCoversAll: with the partition covering all replicas and all pods available, a sync
// of a not-yet-converged deployment changes something (no fixed point short of new = replicas, old = 0).
func VerifC17_ConvergesWhenPartitionCoversAll() {
	s := c17Setup()
	s.assumeInvariant()
	verifrt.Assume(s.limit == s.R && s.R > 0)
	nw := int(*s.newRS.Spec.Replicas)
	old := s.oldSum()
	// healthy pods: everything created is available
	verifrt.Assume(s.newRS.Status.AvailableReplicas == *s.newRS.Spec.Replicas)
	for _, rs := range s.oldRSs {
		verifrt.Assume(rs.Status.AvailableReplicas == *rs.Spec.Replicas)
	}
	all := append(append([]*apps.ReplicaSet{}, s.oldRSs...), s.newRS)
	scaledUp, _ := s.dc.reconcileNewReplicaSet(context.TODO(), all, s.newRS, s.d)
	if scaledUp {
		verifrt.Cover("progress-new")
		return
	}
	active := deploymentutil.FilterActiveReplicaSets(append([]*apps.ReplicaSet{}, s.oldRSs...))
	scaledDown, _ := s.dc.reconcileOldReplicaSets(context.TODO(), all, active, s.newRS, s.d)
	if scaledDown {
		verifrt.Cover("progress-old")
		return
	}
	verifrt.Assert(nw == s.R && old == 0, "C17.convergence.fixedPointOnlyWhenFullyNew")
	_ = v1.EventTypeNormal
}

// VerifC17_RolloutRollingCountsTheNewReplicaSet: rolloutRolling as a whole, on the sync that has just created the new
// ReplicaSet (it is then not yet in the lister snapshot handed to rolloutRolling) as well as on later syncs: the pods
// of the new ReplicaSet count against replicas + maxSurge whichever list they came from, so a scale-up of the new
// ReplicaSet keeps the total within replicas + maxSurge and within the partition.
func VerifC17_RolloutRollingCountsTheNewReplicaSet() {
	s := c17Setup()
	s.assumeInvariant()
	nw := int(*s.newRS.Spec.Replicas)
	justCreated := verifrt.Bool("new.justCreated")
	rsList := append([]*apps.ReplicaSet{}, s.oldRSs...)
	if !justCreated {
		rsList = append(rsList, s.newRS)
	}
	verifrt.Stub("(*github.com/openkruise/rollouts/pkg/controller/deployment.DeploymentController).getAllReplicaSetsAndSyncRevision",
		func(dc *DeploymentController, ctx context.Context, d *apps.Deployment, rsList []*apps.ReplicaSet, createIfNotExisted bool) (*apps.ReplicaSet, []*apps.ReplicaSet, error) {
			return s.newRS, s.oldRSs, nil
		})
	verifrt.Stub("(*github.com/openkruise/rollouts/pkg/controller/deployment.DeploymentController).syncRolloutStatus",
		func(dc *DeploymentController, ctx context.Context, allRSs []*apps.ReplicaSet, newRS *apps.ReplicaSet, d *apps.Deployment) error {
			return nil
		})
	err := s.dc.rolloutRolling(context.TODO(), s.d, rsList)
	verifrt.Assert(err == nil, "C17.rolling.noerror")
	nw2 := s.replicasAfter(s.newRS)
	verifrt.Assert(nw2 <= c17Max(nw, s.limit), "C17.rolling.newNeverBeyondPartition")
	if nw2 > nw {
		verifrt.Cover("scaled-up")
		verifrt.Assert(s.oldSum()+nw2 <= s.R+s.surge, "C17.rolling.scaleUpWithinMaxSurge")
		for _, rs := range s.oldRSs {
			_, touched := s.writes[rs.Name]
			verifrt.Assert(!touched, "C17.rolling.oldUntouchedWhenNewScaledUp")
		}
	}
}
