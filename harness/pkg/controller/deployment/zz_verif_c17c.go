package deployment

// C17 — the strategy a DeploymentController works to (partition, maxSurge, maxUnavailable, paused) is the one written
// in *this* Deployment's strategy annotation as it is now: nothing of what the factory decoded for another
// Deployment, or for this one before its annotation was edited, survives into it.

import (
	rolloutsv1alpha1 "github.com/openkruise/rollouts/api/v1alpha1"
	"github.com/openkruise/rollouts/pkg/util"
	"github.com/openkruise/rollouts/pkg/verifrt"
	apps "k8s.io/api/apps/v1"
	metav1 "k8s.io/apimachinery/pkg/apis/meta/v1"
	"k8s.io/apimachinery/pkg/util/intstr"
)

func c17Strategy(tag string) rolloutsv1alpha1.DeploymentStrategy {
	st := rolloutsv1alpha1.DeploymentStrategy{RollingStyle: rolloutsv1alpha1.PartitionRollingStyle}
	if verifrt.Bool(tag + ".blueGreenStyle") {
		st.RollingStyle = rolloutsv1alpha1.BlueGreenRollingStyle
	}
	st.Paused = verifrt.Bool(tag + ".paused")
	if verifrt.Bool(tag + ".hasPartition") {
		st.Partition = intstr.FromInt(verifrt.IntRange(tag+".partition", 1, 100))
	}
	if verifrt.Bool(tag + ".hasRollingUpdate") {
		st.RollingUpdate = &apps.RollingUpdateDeployment{}
		if verifrt.Bool(tag + ".hasMaxSurge") {
			v := intstr.FromInt(verifrt.IntRange(tag+".maxSurge", 0, 100))
			st.RollingUpdate.MaxSurge = &v
		}
		if verifrt.Bool(tag + ".hasMaxUnavailable") {
			v := intstr.FromInt(verifrt.IntRange(tag+".maxUnavailable", 0, 100))
			st.RollingUpdate.MaxUnavailable = &v
		}
	}
	return st
}

func c17Controlled(name string, st *rolloutsv1alpha1.DeploymentStrategy) *apps.Deployment {
	ten := int32(10)
	d := &apps.Deployment{ObjectMeta: metav1.ObjectMeta{Namespace: "ns", Name: name, Annotations: map[string]string{
		util.BatchReleaseControlAnnotation:           "{}",
		rolloutsv1alpha1.DeploymentStrategyAnnotation: util.DumpJSON(st),
	}}}
	d.Spec.Replicas = &ten
	d.Spec.Paused = true
	d.Spec.Strategy.Type = apps.RecreateDeploymentStrategyType
	return d
}

func c17SameIntOrStringPtr(a, b *intstr.IntOrString) bool {
	if a == nil || b == nil {
		return a == nil && b == nil
	}
	return *a == *b
}

func VerifC17_StrategyIsDecodedPerDeployment() {
	first, second := c17Strategy("first"), c17Strategy("second")
	f := &controllerFactory{}
	// an earlier reconcile (another Deployment, or this one before an edit)
	f.NewController(c17Controlled("a", &first))
	got := f.NewController(c17Controlled("b", &second))
	if got == nil {
		verifrt.Cover("not-processed")
		return
	}
	verifrt.Cover("processed")
	s := got.strategy
	verifrt.Assert(s.RollingStyle == second.RollingStyle && s.Paused == second.Paused && s.Partition == second.Partition, "C17.strategy.isThisDeploymentsOwn")
	if second.RollingUpdate == nil {
		verifrt.Assert(s.RollingUpdate == nil, "C17.strategy.noRollingUpdateInherited")
	} else {
		verifrt.Assert(s.RollingUpdate != nil && c17SameIntOrStringPtr(s.RollingUpdate.MaxSurge, second.RollingUpdate.MaxSurge) &&
			c17SameIntOrStringPtr(s.RollingUpdate.MaxUnavailable, second.RollingUpdate.MaxUnavailable), "C17.strategy.surgeAndUnavailableAreThisDeploymentsOwn")
	}
}
