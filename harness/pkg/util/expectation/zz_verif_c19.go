package expectations

// C19 — the creation-expectation registry is one process-wide object whose maps hold the records of every
// BatchRelease; the workers of different releases and the informer goroutines call into it concurrently, and the only
// thing that keeps them apart is its mutex.  The discipline is decided here for every path of every operation, from a
// registry that already holds symbolic records of other releases: nothing reachable from the registry (the record
// map, the per-release records, their per-action name sets, the first-unsatisfied timestamps) is read or written
// unless the mutex is held at that moment, no operation tries to take the mutex twice, and every operation has
// released it when it returns.  Concurrent executions whose accesses all happen under one mutex are free of data races
// on that state; a path that touches it outside the critical section is the race.

import (
	"time"

	"github.com/openkruise/rollouts/pkg/verifrt"
	"k8s.io/apimachinery/pkg/util/sets"
)

var c19Keys = []string{"ns/orders", "ns/orders-v2", "ns2/orders"}

func c19Registry() *realResourceExpectations {
	r := NewResourceExpectations().(*realResourceExpectations)
	for i, k := range c19Keys[:2] {
		tag := []string{"a", "b"}[i]
		if !verifrt.Bool(tag + ".recorded") {
			continue
		}
		rec := &realControllerResourceExpectations{objsCache: map[Action]sets.String{}}
		if verifrt.Bool(tag + ".create.pending") {
			rec.objsCache[Create] = sets.NewString("canary-1")
		} else if verifrt.Bool(tag + ".create.emptied") {
			rec.objsCache[Create] = sets.NewString()
		}
		if verifrt.Bool(tag + ".delete.pending") {
			rec.objsCache[Delete] = sets.NewString("canary-0")
		}
		if verifrt.Bool(tag + ".alreadyTimed") {
			rec.firstUnsatisfiedTimestamp = time.Now().Add(-time.Duration(verifrt.IntRange(tag+".timedAgo", 1, 600)) * time.Second)
		}
		r.controllerCache[k] = rec
	}
	return r
}

func VerifC19_ExpectationRegistryOnlyTouchedUnderItsLock() {
	r := c19Registry()
	key := c19Keys[verifrt.IntRange("op.key", 0, 2)]
	action := Create
	if verifrt.Bool("op.delete") {
		action = Delete
	}
	name := "canary-1"
	if verifrt.Bool("op.otherName") {
		name = "canary-2"
	}
	n := verifrt.Bound("ops", 1, 2)
	verifrt.GuardedBy("C19.expectations", &r.Mutex, r)
	for i := 0; i < n; i++ {
		switch verifrt.IntRange("op", 0, 4) {
		case 0:
			verifrt.Cover("expect")
			r.Expect(key, action, name)
		case 1:
			verifrt.Cover("observe")
			r.Observe(key, action, name)
		case 2:
			verifrt.Cover("satisfied")
			r.SatisfiedExpectations(key)
		case 3:
			verifrt.Cover("delete")
			r.DeleteExpectations(key)
		case 4:
			verifrt.Cover("get")
			got := r.GetExpectations(key)
			// the copy handed out is the caller's: it must not alias the registry's own sets
			verifrt.EndGuard()
			if rec := r.controllerCache[key]; rec != nil && got != nil {
				for a, s := range got {
					s.Insert("scribble")
					verifrt.Assert(!rec.objsCache[a].Has("scribble"), "C19.expectations.getReturnsACopy")
				}
			}
			return
		}
	}
	verifrt.EndGuard()
}
