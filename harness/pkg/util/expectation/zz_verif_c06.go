package expectations

// C06 — the expectation that stands between "canary Deployment created" and "the informer has seen it": while it is
// unsatisfied the create step is not executed again, unless it has been unsatisfied for longer than the caller's
// timeout.  The age reported for an unsatisfied expectation therefore counts from the first query that found it
// unsatisfied: the first query reports (next to) nothing, a later one no more than the time that has passed since.

import (
	"time"

	"github.com/openkruise/rollouts/pkg/verifrt"
)

func VerifC06_UnsatisfiedExpectationAgesFromItsFirstQuery() {
	r := NewResourceExpectations()
	key := "ns/release"
	r.Expect(key, Create, "canary-1")
	if verifrt.Bool("otherActionToo") {
		r.Expect(key, Delete, "canary-0")
	}
	t0 := time.Now()
	ok, age, _ := r.SatisfiedExpectations(key)
	verifrt.Assert(!ok, "C06.expectation.pendingIsUnsatisfied")
	verifrt.Assert(age >= 0 && age <= time.Since(t0), "C06.expectation.firstQueryStartsTheClock")
	// a later query, any time afterwards
	n := verifrt.Bound("queries", 1, 2)
	for i := 0; i < n; i++ {
		ok, age, _ = r.SatisfiedExpectations(key)
		verifrt.Assert(!ok, "C06.expectation.staysUnsatisfiedUntilObserved")
		verifrt.Assert(age >= 0 && age <= time.Since(t0), "C06.expectation.ageIsTimeSinceFirstQuery")
	}
	// observed: satisfied, and a new expectation starts its own clock
	r.Observe(key, Create, "canary-1")
	r.Observe(key, Delete, "canary-0")
	ok, _, _ = r.SatisfiedExpectations(key)
	verifrt.Assert(ok, "C06.expectation.observedIsSatisfied")
	r.Expect(key, Create, "canary-2")
	t1 := time.Now()
	ok, age, _ = r.SatisfiedExpectations(key)
	verifrt.Assert(!ok && age >= 0 && age <= time.Since(t1), "C06.expectation.newExpectationStartsItsOwnClock")
}
