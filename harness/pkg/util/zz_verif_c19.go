package util

// C19 — the discovery question behind the dynamic workload watch ("is this kind served?") is asked by every rollout
// and release of a not yet watched kind.  Its answer must come from the API server as it is *now*: what an earlier
// rollout (another kind of the same group/version, asked before a CRD was installed) was told must not decide whether
// this rollout's workload gets watched.

import (
	utilclient "github.com/openkruise/rollouts/pkg/util/client"
	"github.com/openkruise/rollouts/pkg/verifrt"
	apierrors "k8s.io/apimachinery/pkg/api/errors"
	metav1 "k8s.io/apimachinery/pkg/apis/meta/v1"
	"k8s.io/apimachinery/pkg/runtime/schema"
	"k8s.io/client-go/discovery"
)

type c19Discovery struct {
	discovery.DiscoveryInterface
	served map[string]bool // kinds served in demo.verif.io/v1
	asked  int
}

func (d *c19Discovery) ServerResourcesForGroupVersion(gv string) (*metav1.APIResourceList, error) {
	d.asked++
	if gv != "demo.verif.io/v1" {
		return nil, apierrors.NewNotFound(schema.GroupResource{Group: gv}, "")
	}
	l := &metav1.APIResourceList{GroupVersion: gv}
	for _, k := range []string{"Alpha", "Beta"} {
		if d.served[k] {
			l.APIResources = append(l.APIResources, metav1.APIResource{Kind: k})
		}
	}
	return l, nil
}

func VerifC19_DiscoveryAnswersFromTheServerAsItIsNow() {
	d := &c19Discovery{served: map[string]bool{"Alpha": true}}
	verifrt.Stub("github.com/openkruise/rollouts/pkg/util/client.GetGenericClient", func() *utilclient.GenericClientset {
		return &utilclient.GenericClientset{DiscoveryClient: d}
	})
	alpha := schema.GroupVersionKind{Group: "demo.verif.io", Version: "v1", Kind: "Alpha"}
	beta := schema.GroupVersionKind{Group: "demo.verif.io", Version: "v1", Kind: "Beta"}
	// history: another rollout's kind may have been looked up before; this rollout's own kind may have been looked
	// up before it was installed
	if verifrt.Bool("earlier.otherKindAsked") {
		verifrt.Assert(DiscoverGVK(alpha), "C19.discovery.servedKindFound")
	}
	if verifrt.Bool("earlier.ownKindAskedTooEarly") {
		verifrt.Assert(!DiscoverGVK(beta), "C19.discovery.unservedKindNotFound")
	}
	installed := verifrt.Bool("crd.installedSince")
	if installed {
		d.served["Beta"] = true
	}
	if verifrt.Bool("other.crdRemovedSince") {
		delete(d.served, "Alpha")
	}
	got := DiscoverGVK(beta)
	verifrt.Assert(got == installed, "C19.discovery.answerReflectsTheServerNowWhateverWasAskedBefore")
}
