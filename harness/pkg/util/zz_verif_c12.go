package util

// C12 — the revision test every batch-label decision rests on: a pod counts as "of the update revision" only if it
// carries a non-empty pod-template-hash or controller-revision-hash label that is a suffix of the revision; a pod
// without revision labels (not managed by the workload's current controller revision) never does.

import (
	"strings"

	"github.com/openkruise/rollouts/pkg/verifrt"
	appsv1 "k8s.io/api/apps/v1"
)

func VerifC12_IsConsistentWithRevision() {
	labels := map[string]string{"app": "w"}
	tmpl, hasTmpl := "", verifrt.Bool("pod.hasTemplateHash")
	if hasTmpl {
		tmpl = verifrt.String("pod.templateHash")
		labels[appsv1.DefaultDeploymentUniqueLabelKey] = tmpl
	}
	crh, hasCrh := "", verifrt.Bool("pod.hasRevisionHash")
	if hasCrh {
		crh = verifrt.String("pod.revisionHash")
		labels[appsv1.ControllerRevisionHashLabelKey] = crh
	}
	revision := verifrt.String("revision")
	verifrt.Assume(revision != "")
	got := IsConsistentWithRevision(labels, revision)
	want := verifrt.Or(verifrt.And(tmpl != "", strings.HasSuffix(revision, tmpl)), verifrt.And(crh != "", strings.HasSuffix(revision, crh)))
	verifrt.Assert(got == want, "C12.revision.consistentIffNonEmptyHashIsSuffix")
	if !hasTmpl && !hasCrh {
		verifrt.Assert(!got, "C12.revision.unlabelledPodIsNeverOfTheUpdateRevision")
	}
}
