package util

// C12 — the revision test every batch-label decision rests on: a pod counts as "of the update revision" only if it
// carries a non-empty pod-template-hash or controller-revision-hash label that is a suffix of the revision; a pod
// without revision labels (not managed by the workload's current controller revision) never does.

import (
	"strings"

	kruiseappsv1alpha1 "github.com/openkruise/kruise-api/apps/v1alpha1"
	"github.com/openkruise/rollouts/pkg/verifrt"
	"github.com/openkruise/rollouts/pkg/verifrt/symclient"
	appsv1 "k8s.io/api/apps/v1"
	corev1 "k8s.io/api/core/v1"
	metav1 "k8s.io/apimachinery/pkg/apis/meta/v1"
	"sigs.k8s.io/controller-runtime/pkg/client"
)

func VerifC12_IsConsistentWithRevision() {
	labels := map[string]string{"app": "w"}
	tmpl, hasTmpl := "", verifrt.Bool("pod.hasTemplateHash")
	if hasTmpl {
		tmpl = verifrt.String("pod.templateHash")
		labels[appsv1.DefaultDeploymentUniqueLabelKey] = tmpl
	}
	crh, hasCrh := "", verifrt.Bool("pod.hasRevisionHash")
	if hasCrh {
		crh = verifrt.String("pod.revisionHash")
		labels[appsv1.ControllerRevisionHashLabelKey] = crh
	}
	revision := verifrt.String("revision")
	verifrt.Assume(revision != "")
	got := IsConsistentWithRevision(labels, revision)
	want := verifrt.Or(verifrt.And(tmpl != "", strings.HasSuffix(revision, tmpl)), verifrt.And(crh != "", strings.HasSuffix(revision, crh)))
	verifrt.Assert(got == want, "C12.revision.consistentIffNonEmptyHashIsSuffix")
	if !hasTmpl && !hasCrh {
		verifrt.Assert(!got, "C12.revision.unlabelledPodIsNeverOfTheUpdateRevision")
	}
}

// VerifC12_ListOwnedPodsReturnsOnlyLiveOwnedPods: the pod listing that feeds every batch-label decision.  The label
// patcher trusts this list (it only re-checks deletion timestamp and revision hash), so the list itself must contain
// exactly the pods the API server returned for the selector that (a) have not completed (Failed / Succeeded) and
// (b) are controlled by the workload — directly, or through a ReplicaSet the workload controls.  A live pod of a
// shadow workload with the same selector, or an evicted pod of the new revision, would otherwise take a batch label
// and use up the batch budget.
func VerifC12_ListOwnedPodsReturnsOnlyLiveOwnedPods() {
	isCtrl := true
	deployment := verifrt.Bool("workload.isDeployment")
	var workload client.Object
	sel := &metav1.LabelSelector{MatchLabels: map[string]string{"app": "w"}}
	if deployment {
		d := &appsv1.Deployment{ObjectMeta: metav1.ObjectMeta{Namespace: "ns", Name: "w", UID: "uid-w"}}
		d.Spec.Selector = sel
		workload = d
	} else {
		cs := &kruiseappsv1alpha1.CloneSet{ObjectMeta: metav1.ObjectMeta{Namespace: "ns", Name: "w", UID: "uid-w"}}
		cs.Spec.Selector = sel
		workload = cs
	}
	// ReplicaSets in the namespace: one controlled by the workload (when it is a Deployment), one by a shadow Deployment
	rsOwn := &appsv1.ReplicaSet{ObjectMeta: metav1.ObjectMeta{Namespace: "ns", Name: "w-rs", UID: "uid-rs-own",
		OwnerReferences: []metav1.OwnerReference{{APIVersion: "apps/v1", Kind: "Deployment", Name: "w", UID: "uid-w", Controller: &isCtrl}}}}
	rsShadow := &appsv1.ReplicaSet{ObjectMeta: metav1.ObjectMeta{Namespace: "ns", Name: "shadow-rs", UID: "uid-rs-shadow",
		OwnerReferences: []metav1.OwnerReference{{APIVersion: "apps/v1", Kind: "Deployment", Name: "shadow", UID: "uid-shadow", Controller: &isCtrl}}}}
	shadow := &appsv1.Deployment{ObjectMeta: metav1.ObjectMeta{Namespace: "ns", Name: "shadow", UID: "uid-shadow"}}
	n := verifrt.Bound("pods", 2, 3)
	pods := make([]corev1.Pod, n)
	wantOwned := make([]bool, n)
	wantLive := make([]bool, n)
	for i := range pods {
		p := &pods[i]
		p.Namespace, p.Name = "ns", []string{"p0", "p1", "p2"}[i]
		p.Labels = map[string]string{"app": "w"}
		switch verifrt.IntRange("pod.phase", 0, 3) {
		case 0:
			p.Status.Phase = corev1.PodRunning
		case 1:
			p.Status.Phase = corev1.PodPending
		case 2:
			p.Status.Phase = corev1.PodFailed
		case 3:
			p.Status.Phase = corev1.PodSucceeded
		}
		wantLive[i] = p.Status.Phase != corev1.PodFailed && p.Status.Phase != corev1.PodSucceeded
		switch verifrt.IntRange("pod.owner", 0, 4) {
		case 0: // nobody
		case 1: // the workload itself
			kind, api := "CloneSet", "apps.kruise.io/v1alpha1"
			if deployment {
				kind, api = "Deployment", "apps/v1"
			}
			p.OwnerReferences = []metav1.OwnerReference{{APIVersion: api, Kind: kind, Name: "w", UID: "uid-w", Controller: &isCtrl}}
			wantOwned[i] = true
		case 2: // a ReplicaSet of the workload
			p.OwnerReferences = []metav1.OwnerReference{{APIVersion: "apps/v1", Kind: "ReplicaSet", Name: "w-rs", UID: "uid-rs-own", Controller: &isCtrl}}
			wantOwned[i] = deployment
		case 3: // a ReplicaSet of the shadow Deployment (same selector)
			p.OwnerReferences = []metav1.OwnerReference{{APIVersion: "apps/v1", Kind: "ReplicaSet", Name: "shadow-rs", UID: "uid-rs-shadow", Controller: &isCtrl}}
		case 4: // another workload of the same kind, directly
			p.OwnerReferences = []metav1.OwnerReference{{APIVersion: "apps.kruise.io/v1alpha1", Kind: "CloneSet", Name: "other", UID: "uid-other", Controller: &isCtrl}}
		}
	}
	objs := []client.Object{shadow, rsShadow}
	if deployment {
		objs = append(objs, rsOwn)
	}
	cli := &symclient.Client{Objects: objs}
	cli.ListFn = func(list client.ObjectList, opts []client.ListOption) error {
		if l, ok := list.(*corev1.PodList); ok {
			l.Items = pods
		}
		return nil
	}
	got, err := ListOwnedPods(cli, workload)
	verifrt.Assert(err == nil, "C12.listing.noError")
	if err != nil {
		return
	}
	want := 0
	for i := range pods {
		in := false
		for _, g := range got {
			if g.Name == pods[i].Name {
				in = true
			}
		}
		if wantOwned[i] && wantLive[i] {
			want++
			verifrt.Assert(in, "C12.listing.everyLiveOwnedPodListed")
		} else {
			if !wantOwned[i] {
				verifrt.Assert(!in, "C12.listing.foreignPodsNeverListed")
			}
			if !wantLive[i] {
				verifrt.Assert(!in, "C12.listing.completedPodsNeverListed")
			}
		}
	}
	verifrt.Assert(len(got) == want, "C12.listing.exactlyTheLiveOwnedPods")
	verifrt.Cover("C12.listing.done")
}
