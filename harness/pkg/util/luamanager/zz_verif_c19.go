package luamanager

// C19 — every script run gets a Lua state of its own: what one rollout's script leaves behind (globals it set,
// values on the stack) is invisible to the next script, whichever rollout it belongs to; and the state handed back to
// the caller carries this run's result, not an earlier one's.

import (
	"github.com/openkruise/rollouts/pkg/verifrt"
	"k8s.io/apimachinery/pkg/apis/meta/v1/unstructured"
)

// the first rollout's script: sets a global (as the shipped VirtualService script does with matchType, conditionally)
const c19ScriptA = `
if obj.mark then
	leaked = obj.name
end
return { who = obj.name }
`

// the second rollout's script: reads the global without having set it
const c19ScriptB = `
local seen = "clean"
if leaked ~= nil then
	seen = leaked
end
return { who = obj.name, seen = seen }
`

func c19Field(m *LuaManager, obj map[string]interface{}, script, field string) (string, bool) {
	l, err := m.RunLuaScript(&unstructured.Unstructured{Object: obj}, script)
	if err != nil {
		return "", false
	}
	out, err := Encode(l.Get(-1))
	if err != nil {
		return "", false
	}
	v, has := verifrt.JSONGet(string(out), field)
	return v, has
}

func VerifC19_LuaRunsShareNothing() {
	m := &LuaManager{}
	nameA, nameB := verifrt.String("a.name"), verifrt.String("b.name")
	verifrt.Assume(nameA != "clean" && nameA != nameB)
	objA := map[string]interface{}{"name": nameA}
	if verifrt.Bool("a.mark") {
		objA["mark"] = true
	}
	who, ok := c19Field(m, objA, c19ScriptA, "who")
	verifrt.Assert(ok && who == nameA, "C19.lua.resultIsThisRuns")
	// another rollout's run, afterwards (any number of A runs before make no difference)
	if verifrt.Bool("a.twice") {
		c19Field(m, objA, c19ScriptA, "who")
	}
	objB := map[string]interface{}{"name": nameB}
	who, ok = c19Field(m, objB, c19ScriptB, "who")
	verifrt.Assert(ok && who == nameB, "C19.lua.resultIsThisRuns")
	seen, ok := c19Field(m, objB, c19ScriptB, "seen")
	verifrt.Assert(ok && seen == "clean", "C19.lua.globalsOfAnEarlierRunAreInvisible")
	verifrt.Cover("done")
}
