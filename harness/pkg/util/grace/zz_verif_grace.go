package grace

// C07 (a wait always comes with a wake-up) and C19 (operations of different rollouts on the process-wide grace
// expectations do not influence each other) on the real grace wrapper.

import (
	"fmt"
	"time"

	"github.com/openkruise/rollouts/pkg/verifrt"
)

var vErr = fmt.Errorf("injected")

func vPrepopulate(e *realGraceExpectations, key string, action Action, tag string) bool {
	if !verifrt.Bool(tag + ".pending") {
		return false
	}
	t := time.Now().Add(-time.Duration(verifrt.IntRange(tag+".ago", 0, 20)) * time.Second)
	e.controllerCache[key] = timeCache{action: &t}
	return true
}

// VerifC07_GraceWrapperAlwaysSchedulesAWakeUp: whenever the wrapper tells its caller to retry without an error it
// also tells it a positive time to wait (the callers turn exactly that into their requeue); with gracePeriodSeconds 0
// it never asks to wait; and "done" leaves no expectation behind.
func VerifC07_GraceWrapperAlwaysSchedulesAWakeUp() {
	e := NewGraceExpectations()
	vPrepopulate(e, "k", "act", "pre")
	g := int32(verifrt.IntRange("graceSeconds", 0, 10))
	modified, failed := verifrt.Bool("f.modified"), verifrt.Bool("f.failed")
	retry, remaining, err := runWithGraceSeconds(e, "k", "act", g, func() (bool, error) {
		if failed {
			return modified, vErr
		}
		return modified, nil
	})
	if failed {
		verifrt.Assert(err != nil && retry, "C07.grace.errorPropagated")
		return
	}
	verifrt.Assert(err == nil, "C07.grace.noerror")
	if retry {
		verifrt.Cover("wait")
		verifrt.Assert(remaining > 0, "C07.grace.retryComesWithAPositiveWait")
		verifrt.Assert(g > 0, "C07.grace.zeroGraceNeverWaits")
	} else {
		verifrt.Cover("done")
		verifrt.Assert(!modified || g == 0, "C07.grace.modificationWaitsForGrace")
		_, pending := e.controllerCache["k"]["act"]
		verifrt.Assert(!pending, "C07.grace.doneLeavesNoExpectation")
	}
}

// VerifC07_GraceWaitIsNotRestartedByReChecks: the callers re-check a running grace period on their own schedule
// (doFinalising requeues every 3 s whatever gracePeriodSeconds is; watch events arrive at any time).  A re-check
// that finds the period still running only reports it: the pending record — the instant the wait is measured from —
// is the same record afterwards, so the deadline does not move and the wait ends after gracePeriodSeconds however
// often it is looked at.  (Seed C07-14: the unsatisfied branch re-recorded the expectation with time.Now().)
func VerifC07_GraceWaitIsNotRestartedByReChecks() {
	e := NewGraceExpectations()
	ago := verifrt.IntRange("pre.ago", 0, 20)
	t0 := time.Now().Add(-time.Duration(ago) * time.Second)
	e.controllerCache["k"] = timeCache{"act": &t0}
	before := e.controllerCache["k"]["act"]
	g := int32(verifrt.IntRange("graceSeconds", 1, 10))
	n := verifrt.Bound("rechecks", 1, 2)
	for i := 0; i < n; i++ {
		retry, remaining, err := runWithGraceSeconds(e, "k", "act", g, func() (bool, error) { return false, nil })
		verifrt.Assert(err == nil, "C07.grace.recheck.noerror")
		if !retry {
			verifrt.Cover("expired")
			return
		}
		verifrt.Cover("stillWaiting")
		after, pending := e.controllerCache["k"]["act"]
		verifrt.Assert(pending, "C07.grace.recheck.recordKeptWhileWaiting")
		verifrt.Assert(after == before, "C07.grace.recheck.waitNotRestarted")
		verifrt.Assert(pending && after.Equal(t0), "C07.grace.recheck.deadlineDoesNotMove")
		verifrt.Assert(remaining <= time.Duration(g)*time.Second, "C07.grace.recheck.waitBoundedByGracePeriod")
	}
}

// VerifC19_GraceOperationsOnDifferentKeysCommute: the outcome of one rollout's call does not depend on whether
// another rollout's call (different key) ran before it, and it leaves the other rollout's entry untouched.
func VerifC19_GraceOperationsOnDifferentKeysCommute() {
	g := int32(verifrt.IntRange("graceSeconds", 0, 10))
	modA, modB := verifrt.Bool("a.modified"), verifrt.Bool("b.modified")
	agoA, pendA := verifrt.IntRange("a.ago", 0, 20), verifrt.Bool("a.pending")
	agoB, pendB := verifrt.IntRange("b.ago", 0, 20), verifrt.Bool("b.pending")
	now := time.Now()
	build := func() *realGraceExpectations {
		e := NewGraceExpectations()
		if pendA {
			t := now.Add(-time.Duration(agoA) * time.Second)
			e.controllerCache["key-a"] = timeCache{"act": &t}
		}
		if pendB {
			t := now.Add(-time.Duration(agoB) * time.Second)
			e.controllerCache["key-b"] = timeCache{"act": &t}
		}
		return e
	}
	// A alone
	e1 := build()
	r1, _, _ := runWithGraceSeconds(e1, "key-a", "act", g, func() (bool, error) { return modA, nil })
	// B first, then A
	e2 := build()
	runWithGraceSeconds(e2, "key-b", "act", g, func() (bool, error) { return modB, nil })
	r2, _, _ := runWithGraceSeconds(e2, "key-a", "act", g, func() (bool, error) { return modA, nil })
	verifrt.Assert(r1 == r2, "C19.grace.resultIndependentOfOtherRollouts")
	_, a1 := e1.controllerCache["key-a"]["act"]
	_, a2 := e2.controllerCache["key-a"]["act"]
	verifrt.Assert(a1 == a2, "C19.grace.ownEntryIndependentOfOtherRollouts")
	_, b1 := e1.controllerCache["key-b"]["act"]
	verifrt.Assert(b1 == pendB, "C19.grace.otherRolloutsEntryUntouched")
	verifrt.Cover("done")
}

// C06: an API error inside the wrapped (idempotent) closure is handed back to the caller with "retry", whatever the
// grace period — it is never turned into "done" (the same obligation as C07.grace.errorPropagated).
func VerifC06_GraceWrapperNeverSwallowsErrors() { VerifC07_GraceWrapperAlwaysSchedulesAWakeUp() }

// VerifC19_GraceQueryIsReadOnly: SatisfiedExpectations runs under the registry's *read* lock, side by side with the
// queries of other rollouts' workers; it must therefore leave the shared registry exactly as it found it, whatever
// the answer (a query that cleans up behind itself would write to the map other workers are reading).
func VerifC19_GraceQueryIsReadOnly() {
	e := NewGraceExpectations()
	pendA := vPrepopulate(e, "key-a", "act", "a")
	pendB := vPrepopulate(e, "key-b", "act", "b")
	g := int32(verifrt.IntRange("graceSeconds", 0, 10))
	e.SatisfiedExpectations("key-a", "act", g)
	_, a := e.controllerCache["key-a"]["act"]
	_, b := e.controllerCache["key-b"]["act"]
	verifrt.Assert(a == pendA, "C19.grace.queryLeavesOwnEntryInPlace")
	verifrt.Assert(b == pendB, "C19.grace.queryLeavesOtherEntriesInPlace")
	_, ka := e.controllerCache["key-a"]
	verifrt.Assert(ka == pendA, "C19.grace.queryLeavesKeysInPlace")
}

// VerifC19_GraceRegistryOnlyTouchedUnderItsLock: the grace registry is shared by every rollout's traffic-routing
// operations.  For every path of every operation, from a registry that holds symbolic records of two other keys: the
// record map and the per-key action maps are read only with the RWMutex held (read or write) and written only with it
// write-locked; no operation takes the lock twice; every operation has released it on return.  (The *time.Time values
// are published once and never modified, they are not part of the guarded state.)
func VerifC19_GraceRegistryOnlyTouchedUnderItsLock() {
	e := NewGraceExpectations()
	vPrepopulate(e, "ns/orders/svc", "act", "a")
	vPrepopulate(e, "ns/orders-v2/svc", "act", "b")
	key := []string{"ns/orders/svc", "ns/orders-v2/svc", "ns2/orders/svc"}[verifrt.IntRange("op.key", 0, 2)]
	action := Action("act")
	if verifrt.Bool("op.otherAction") {
		action = "other"
	}
	n := verifrt.Bound("ops", 1, 2)
	verifrt.GuardedBy("C19.grace", &e.RWMutex, e)
	for i := 0; i < n; i++ {
		switch verifrt.IntRange("op", 0, 6) {
		case 0:
			verifrt.Cover("expect")
			e.Expect(key, action)
		case 1:
			verifrt.Cover("observe")
			e.Observe(key, action)
		case 2:
			verifrt.Cover("satisfied")
			e.SatisfiedExpectations(key, action, int32(verifrt.IntRange("graceSeconds", 0, 10)))
		case 3:
			verifrt.Cover("delete")
			e.DeleteExpectations(key)
		case 4:
			verifrt.Cover("get")
			e.GetExpectations(key)
		case 5:
			verifrt.Cover("clean")
			e.CleanOutdatedItems(time.Duration(verifrt.IntRange("clean.interval", 0, 30)) * time.Second)
		case 6:
			verifrt.Cover("wrapper")
			done, failed := verifrt.Bool("f.done"), verifrt.Bool("f.failed")
			runWithGraceSeconds(e, key, string(action), int32(verifrt.IntRange("graceSeconds", 0, 10)), func() (bool, error) {
				if failed {
					return false, vErr
				}
				return done, nil
			})
		}
	}
	verifrt.EndGuard()
}

// VerifC19_GraceCleanerOnlyRemovesOutdatedRecords: the periodic cleaner walks the records of every rollout.  What it
// removes is decided record by record: a record older than the interval goes, a younger one stays — whatever other
// keys hold, and in whichever order the registry is walked.  (A fresh record removed because *another* rollout left a
// stale one of the same action makes that rollout skip its grace period.)
func VerifC19_GraceCleanerOnlyRemovesOutdatedRecords() {
	e := NewGraceExpectations()
	keys := []string{"ns/orders/svc", "ns/orders-v2/svc", "ns2/orders/svc"}
	actions := []Action{"patchService", "restoreGateway"}
	interval := 300
	type rec struct {
		key    string
		action Action
		age    int
	}
	var recs []rec
	now := time.Now()
	for _, k := range keys[:verifrt.Bound("keys", 2, 3)] {
		for _, a := range actions {
			if !verifrt.Bool("record.exists") {
				continue
			}
			age := verifrt.IntRange("record.ageSeconds", 0, 600)
			verifrt.Assume(age != interval) // the boundary second itself is not claimed either way
			t := now.Add(-time.Duration(age) * time.Second)
			if e.controllerCache[k] == nil {
				e.controllerCache[k] = timeCache{}
			}
			e.controllerCache[k][a] = &t
			recs = append(recs, rec{k, a, age})
		}
	}
	e.CleanOutdatedItems(time.Duration(interval) * time.Second)
	for _, r := range recs {
		_, still := e.controllerCache[r.key][r.action]
		if r.age < interval {
			verifrt.Assert(still, "C19.grace.cleaner.freshRecordsSurviveWhateverOtherKeysHold")
		} else {
			verifrt.Assert(!still, "C19.grace.cleaner.outdatedRecordsRemoved")
		}
	}
	for k, c := range e.controllerCache {
		verifrt.Assert(len(c) > 0, "C19.grace.cleaner.noEmptyKeyLeftBehind")
		_ = k
	}
}
