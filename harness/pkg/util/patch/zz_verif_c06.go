package patch

// C06 — every controller write that claims, advances or releases a workload is a patch body produced by these
// builders; a step re-executed after a crash or an API error reaches the same final state only if the body says
// exactly what the step asked for, in whatever order the step happened to call the builder.  For every sequence of up
// to three label / annotation operations (insert or delete, two keys) on a fresh patch, the body carries for each key
// the effect of the *last* operation on it — the value for an insert, JSON null (= remove) for a delete — and nothing
// for a key never mentioned.  A delete that comes first in a patch is the case every Finalize produces.

import (
	"github.com/openkruise/rollouts/pkg/verifrt"
)

func VerifC06_PatchBodySaysWhatWasAsked() {
	p := NewStrategicPatch()
	if verifrt.Bool("mergePatch") {
		p = NewMergePatch()
	}
	keys := []string{"rollouts.kruise.io/a", "rollouts.kruise.io/b"}
	vals := []string{"v1", "v2"}
	// last effect per (map, key): "" untouched, "null" deleted, otherwise the value
	want := map[string]string{}
	n := verifrt.Concrete(verifrt.IntRange("ops", 1, verifrt.Bound("ops.max", 3, 4)))
	for i := 0; i < n; i++ {
		k := keys[verifrt.IntRange("op.key", 0, 1)]
		v := vals[verifrt.IntRange("op.value", 0, 1)]
		switch verifrt.IntRange("op.kind", 0, 3) {
		case 0:
			p.InsertLabel(k, v)
			want["labels/"+k] = v
		case 1:
			p.DeleteLabel(k)
			want["labels/"+k] = "null"
		case 2:
			p.InsertAnnotation(k, v)
			want["annotations/"+k] = v
		case 3:
			p.DeleteAnnotation(k)
			want["annotations/"+k] = "null"
		}
	}
	body := p.String()
	data, err := p.Data(nil)
	verifrt.Assert(err == nil && string(data) == body, "C06.patch.dataIsTheBody")
	for _, m := range []string{"labels", "annotations"} {
		for _, k := range keys {
			got, has := verifrt.JSONGet(body, "metadata", m, k)
			w := want[m+"/"+k]
			if w == "" {
				verifrt.Assert(!has, "C06.patch.untouchedKeysAreNotMentioned")
			} else {
				verifrt.Assert(has && got == w, "C06.patch.lastOperationOnAKeyIsWhatTheBodySays")
			}
		}
	}
}
