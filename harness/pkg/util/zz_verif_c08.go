package util

// C08 — StatefulSet-like workloads are held back through SetStatefulSetPartition: whatever shape the submitted
// object's updateStrategy has (typed or unstructured), the partition written is the one the controllers read back.

import (
	"math"

	appsv1beta1 "github.com/openkruise/kruise-api/apps/v1beta1"
	"github.com/openkruise/rollouts/pkg/verifrt"
	apps "k8s.io/api/apps/v1"
	"k8s.io/apimachinery/pkg/apis/meta/v1/unstructured"
	"sigs.k8s.io/controller-runtime/pkg/client"
)

func VerifC08_SetStatefulSetPartition() {
	var obj client.Object
	switch verifrt.IntRange("kind", 0, 2) {
	case 0:
		s := &apps.StatefulSet{}
		if verifrt.Bool("hasRollingUpdate") {
			s.Spec.UpdateStrategy.RollingUpdate = &apps.RollingUpdateStatefulSetStrategy{}
		}
		obj = s
	case 1:
		s := &appsv1beta1.StatefulSet{}
		if verifrt.Bool("hasRollingUpdate") {
			s.Spec.UpdateStrategy.RollingUpdate = &appsv1beta1.RollingUpdateStatefulSetStrategy{}
		}
		obj = s
	default:
		spec := map[string]interface{}{"replicas": int64(3)}
		switch verifrt.IntRange("unstructuredShape", 0, 3) {
		case 1:
			spec["updateStrategy"] = map[string]interface{}{"type": "RollingUpdate"}
		case 2:
			spec["updateStrategy"] = map[string]interface{}{"type": "RollingUpdate", "rollingUpdate": nil}
		case 3:
			spec["updateStrategy"] = map[string]interface{}{"type": "RollingUpdate", "rollingUpdate": map[string]interface{}{"partition": int64(2)}}
		}
		obj = &unstructured.Unstructured{Object: map[string]interface{}{"apiVersion": "apps.example.com/v1", "kind": "MyStatefulSet", "spec": spec}}
	}
	SetStatefulSetPartition(obj, math.MaxInt16)
	verifrt.Assert(GetStatefulSetPartition(obj) == math.MaxInt16, "C08.statefulsetlike.partitionWrittenIsPartitionRead")
	verifrt.Cover("done")
}
