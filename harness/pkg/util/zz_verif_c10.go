package util

// C10 — a rollback can only be handled if it is seen: for a CloneSet under rollout the finder reports IsInRollback
// exactly when the update revision is the stable (current) revision again while pods of another revision still exist
// — whatever the relation between spec.replicas and the pods that exist (a blue-green release runs with
// status.replicas = spec.replicas + surge).

import (
	kruiseappsv1alpha1 "github.com/openkruise/kruise-api/apps/v1alpha1"
	rolloutv1beta1 "github.com/openkruise/rollouts/api/v1beta1"
	"github.com/openkruise/rollouts/pkg/verifrt"
	"github.com/openkruise/rollouts/pkg/verifrt/symclient"
	metav1 "k8s.io/apimachinery/pkg/apis/meta/v1"
	"sigs.k8s.io/controller-runtime/pkg/client"
)

func VerifC10_CloneSetRollbackIsDetected() {
	cs := &kruiseappsv1alpha1.CloneSet{TypeMeta: metav1.TypeMeta{APIVersion: "apps.kruise.io/v1alpha1", Kind: "CloneSet"},
		ObjectMeta: metav1.ObjectMeta{Namespace: "ns", Name: "w", Generation: 4}}
	R := int32(verifrt.IntRange("spec.replicas", 0, 1000))
	cs.Spec.Replicas = &R
	cs.Status.ObservedGeneration = 4
	cs.Status.Replicas = int32(verifrt.IntRange("status.replicas", 0, 2000))
	cs.Status.UpdatedReplicas = int32(verifrt.IntRange("status.updated", 0, 2000))
	verifrt.Assume(cs.Status.UpdatedReplicas <= cs.Status.Replicas)
	revs := []string{"w-7d8c9f", "w-5b6a4e"}
	cs.Status.CurrentRevision = revs[0]
	cs.Status.UpdateRevision = revs[verifrt.IntRange("updateRevision", 0, 1)]
	inProgress := verifrt.Bool("inRolloutProgressing")
	if inProgress {
		cs.Annotations = map[string]string{InRolloutProgressingAnnotation: `{"rolloutName":"ro"}`}
	}
	cli := &symclient.Client{Objects: []client.Object{cs}}
	f := NewControllerFinder(cli)
	w, err := f.getKruiseCloneSet("ns", &rolloutv1beta1.ObjectRef{APIVersion: "apps.kruise.io/v1alpha1", Kind: "CloneSet", Name: "w"})
	verifrt.Assert(err == nil && w != nil && w.IsStatusConsistent, "C10.finder.cloneset.found")
	if err != nil || w == nil {
		return
	}
	revertedToStable := cs.Status.UpdateRevision == cs.Status.CurrentRevision
	otherRevisionPodsExist := cs.Status.UpdatedReplicas != cs.Status.Replicas
	verifrt.Assert(w.IsInRollback == (inProgress && revertedToStable && otherRevisionPodsExist), "C10.finder.cloneset.rollbackDetectedIffRevertedWhilePodsOfAnotherRevisionExist")
	verifrt.Assert(w.InRolloutProgressing == inProgress, "C10.finder.cloneset.inProgressFlag")
	verifrt.Assert(w.Replicas == R, "C10.finder.cloneset.replicasAreTheDesiredSize")
}
