package util

// C10 — a rollback can only be handled if it is seen: for a CloneSet under rollout the finder reports IsInRollback
// exactly when the update revision is the stable (current) revision again while pods of another revision still exist
// — whatever the relation between spec.replicas and the pods that exist (a blue-green release runs with
// status.replicas = spec.replicas + surge).

import (
	kruiseappsv1alpha1 "github.com/openkruise/kruise-api/apps/v1alpha1"
	kruiseappsv1beta1 "github.com/openkruise/kruise-api/apps/v1beta1"
	rolloutv1beta1 "github.com/openkruise/rollouts/api/v1beta1"
	"github.com/openkruise/rollouts/pkg/verifrt"
	"github.com/openkruise/rollouts/pkg/verifrt/symclient"
	apps "k8s.io/api/apps/v1"
	metav1 "k8s.io/apimachinery/pkg/apis/meta/v1"
	"sigs.k8s.io/controller-runtime/pkg/client"
)

func VerifC10_CloneSetRollbackIsDetected() {
	cs := &kruiseappsv1alpha1.CloneSet{TypeMeta: metav1.TypeMeta{APIVersion: "apps.kruise.io/v1alpha1", Kind: "CloneSet"},
		ObjectMeta: metav1.ObjectMeta{Namespace: "ns", Name: "w", Generation: 4}}
	R := int32(verifrt.IntRange("spec.replicas", 0, 1000))
	cs.Spec.Replicas = &R
	cs.Status.ObservedGeneration = 4
	cs.Status.Replicas = int32(verifrt.IntRange("status.replicas", 0, 2000))
	cs.Status.UpdatedReplicas = int32(verifrt.IntRange("status.updated", 0, 2000))
	verifrt.Assume(cs.Status.UpdatedReplicas <= cs.Status.Replicas)
	revs := []string{"w-7d8c9f", "w-5b6a4e"}
	cs.Status.CurrentRevision = revs[0]
	cs.Status.UpdateRevision = revs[verifrt.IntRange("updateRevision", 0, 1)]
	inProgress := verifrt.Bool("inRolloutProgressing")
	if inProgress {
		cs.Annotations = map[string]string{InRolloutProgressingAnnotation: `{"rolloutName":"ro"}`}
	}
	cli := &symclient.Client{Objects: []client.Object{cs}}
	f := NewControllerFinder(cli)
	w, err := f.getKruiseCloneSet("ns", &rolloutv1beta1.ObjectRef{APIVersion: "apps.kruise.io/v1alpha1", Kind: "CloneSet", Name: "w"})
	verifrt.Assert(err == nil && w != nil && w.IsStatusConsistent, "C10.finder.cloneset.found")
	if err != nil || w == nil {
		return
	}
	revertedToStable := cs.Status.UpdateRevision == cs.Status.CurrentRevision
	otherRevisionPodsExist := cs.Status.UpdatedReplicas != cs.Status.Replicas
	verifrt.Assert(w.IsInRollback == (inProgress && revertedToStable && otherRevisionPodsExist), "C10.finder.cloneset.rollbackDetectedIffRevertedWhilePodsOfAnotherRevisionExist")
	verifrt.Assert(w.InRolloutProgressing == inProgress, "C10.finder.cloneset.inProgressFlag")
	verifrt.Assert(w.Replicas == R, "C10.finder.cloneset.replicasAreTheDesiredSize")
}

// VerifC10_DeploymentRollbackIsDetected: for a native Deployment under rollout the finder reports IsInRollback exactly
// when the Deployment's template is the stable ReplicaSet's template again — whether or not a canary Deployment (or
// its ReplicaSet) exists at that moment.  A revert made before the first batch created the canary, or after the canary
// was removed, is still a rollback; reported as a plain revision change it would be handled as a new release of the
// stable revision against itself.
func VerifC10_DeploymentRollbackIsDetected() {
	d := &apps.Deployment{TypeMeta: metav1.TypeMeta{APIVersion: "apps/v1", Kind: "Deployment"},
		ObjectMeta: metav1.ObjectMeta{Namespace: "ns", Name: "w", Generation: 4, UID: "uid-w"}}
	R := int32(verifrt.IntRange("spec.replicas", 0, 1000))
	d.Spec.Replicas = &R
	d.Status.ObservedGeneration = 4
	vers := []string{"v1", "v2"}
	d.Spec.Template.Labels = map[string]string{"app": "w", "ver": vers[verifrt.IntRange("deployment.templateVersion", 0, 1)]}
	inProgress := verifrt.Bool("inRolloutProgressing")
	if inProgress {
		d.Annotations = map[string]string{InRolloutProgressingAnnotation: `{"rolloutName":"ro"}`}
	}
	stableRs := &apps.ReplicaSet{ObjectMeta: metav1.ObjectMeta{Namespace: "ns", Name: "w-stable", Labels: map[string]string{apps.DefaultDeploymentUniqueLabelKey: "hash-v1"}}}
	stableRs.Spec.Template.Labels = map[string]string{"app": "w", "ver": "v1", apps.DefaultDeploymentUniqueLabelKey: "hash-v1"}
	// the canary side: 0 no canary Deployment yet (or any more), 1 canary Deployment without its ReplicaSet, 2 both
	canaryState := verifrt.IntRange("canary.state", 0, 2)
	canary := &apps.Deployment{ObjectMeta: metav1.ObjectMeta{Namespace: "ns", Name: "w-canary", UID: "uid-canary"}}
	canaryRs := &apps.ReplicaSet{ObjectMeta: metav1.ObjectMeta{Namespace: "ns", Name: "w-canary-rs", Labels: map[string]string{apps.DefaultDeploymentUniqueLabelKey: "hash-canary"}}}
	verifrt.Stub("(*github.com/openkruise/rollouts/pkg/util.ControllerFinder).GetDeploymentStableRs", func(r *ControllerFinder, obj *apps.Deployment) (*apps.ReplicaSet, error) {
		if obj.Name == "w" {
			return stableRs, nil
		}
		if canaryState == 2 {
			return canaryRs, nil
		}
		return nil, nil
	})
	verifrt.Stub("(*github.com/openkruise/rollouts/pkg/util.ControllerFinder).getLatestCanaryDeployment", func(r *ControllerFinder, stable *apps.Deployment) (*apps.Deployment, error) {
		if canaryState == 0 {
			return nil, nil
		}
		return canary, nil
	})
	cli := &symclient.Client{Objects: []client.Object{d}}
	f := NewControllerFinder(cli)
	w, err := f.getDeployment("ns", &rolloutv1beta1.ObjectRef{APIVersion: "apps/v1", Kind: "Deployment", Name: "w"})
	verifrt.Assert(err == nil && w != nil && w.IsStatusConsistent, "C10.finder.deployment.found")
	if err != nil || w == nil {
		return
	}
	reverted := d.Spec.Template.Labels["ver"] == "v1"
	verifrt.Assert(w.IsInRollback == (inProgress && reverted), "C10.finder.deployment.rollbackDetectedIffTemplateIsTheStableOneAgain")
	verifrt.Assert(w.InRolloutProgressing == inProgress, "C10.finder.deployment.inProgressFlag")
	verifrt.Assert(w.StableRevision == "hash-v1" && w.Replicas == R, "C10.finder.deployment.stableRevisionAndSize")
	if inProgress && !reverted && canaryState == 2 {
		verifrt.Assert(w.PodTemplateHash == "hash-canary", "C10.finder.deployment.podTemplateHashFromTheCanaryReplicaSet")
	} else if canaryState != 2 {
		verifrt.Assert(w.PodTemplateHash == "", "C10.finder.deployment.noPodTemplateHashWithoutACanaryReplicaSet")
	}
}

// VerifC10_StatefulSetRollbackIsDetected: the same for the StatefulSet-like workloads (native and Advanced
// StatefulSet): reverted to the stable revision while pods of another revision still exist is a rollback — reported
// as a plain revision change it would be handled as a new release of the stable revision.
func VerifC10_StatefulSetRollbackIsDetected() {
	revs := []string{"w-7d8c9f", "w-5b6a4e"}
	R := int32(verifrt.IntRange("spec.replicas", 0, 1000))
	replicas := int32(verifrt.IntRange("status.replicas", 0, 2000))
	updated := int32(verifrt.IntRange("status.updated", 0, 2000))
	verifrt.Assume(updated <= replicas)
	update := revs[verifrt.IntRange("updateRevision", 0, 1)]
	inProgress := verifrt.Bool("inRolloutProgressing")
	meta := metav1.ObjectMeta{Namespace: "ns", Name: "w", Generation: 4}
	if inProgress {
		meta.Annotations = map[string]string{InRolloutProgressingAnnotation: `{"rolloutName":"ro"}`}
	}
	var obj client.Object
	ref := &rolloutv1beta1.ObjectRef{APIVersion: "apps/v1", Kind: "StatefulSet", Name: "w"}
	if verifrt.Bool("advanced") {
		ref.APIVersion = "apps.kruise.io/v1beta1"
		s := &kruiseappsv1beta1.StatefulSet{TypeMeta: metav1.TypeMeta{APIVersion: ref.APIVersion, Kind: "StatefulSet"}, ObjectMeta: meta}
		s.Spec.Replicas = &R
		s.Status.ObservedGeneration = 4
		s.Status.Replicas, s.Status.UpdatedReplicas = replicas, updated
		s.Status.CurrentRevision, s.Status.UpdateRevision = revs[0], update
		obj = s
	} else {
		s := &apps.StatefulSet{TypeMeta: metav1.TypeMeta{APIVersion: ref.APIVersion, Kind: "StatefulSet"}, ObjectMeta: meta}
		s.Spec.Replicas = &R
		s.Status.ObservedGeneration = 4
		s.Status.Replicas, s.Status.UpdatedReplicas = replicas, updated
		s.Status.CurrentRevision, s.Status.UpdateRevision = revs[0], update
		obj = s
	}
	cli := &symclient.Client{Objects: []client.Object{obj}}
	f := NewControllerFinder(cli)
	w, err := f.getStatefulSetLikeWorkload("ns", ref)
	verifrt.Assert(err == nil && w != nil && w.IsStatusConsistent, "C10.finder.statefulset.found")
	if err != nil || w == nil {
		return
	}
	verifrt.Assert(w.IsInRollback == (inProgress && update == revs[0] && updated != replicas), "C10.finder.statefulset.rollbackDetectedIffRevertedWhilePodsOfAnotherRevisionExist")
	verifrt.Assert(w.InRolloutProgressing == inProgress, "C10.finder.statefulset.inProgressFlag")
	verifrt.Assert(w.Replicas == R && w.StableRevision == revs[0] && w.CanaryRevision == update, "C10.finder.statefulset.sizeAndRevisions")
}
