package main

// One persistent solver process per exploration, spoken to in SMT-LIB2 text.

import (
	"bufio"
	"fmt"
	"io"
	"math/big"
	"os"
	"os/exec"
	"strings"
	"time"
)

type Solver struct {
	name    string
	cmd     *exec.Cmd
	in      io.WriteCloser
	out     *bufio.Reader
	Queries int
	Time    time.Duration
	Errors  []string
	logf    *os.File
	dead    bool
	scopes  [][]string // live commands per push level (for restart after a hard timeout)
	timeoutMs int
	Restarts int
	Timeouts int
	logPath string
}

func solverArgs(kind string, timeoutMs int) (string, []string) {
	switch kind {
	case "z3-new":
		return "z3-new", []string{"-in", fmt.Sprintf("-t:%d", timeoutMs)}
	case "cvc5":
		return "cvc5", []string{"--incremental", "--produce-models", "--lang=smt2", fmt.Sprintf("--tlimit-per=%d", timeoutMs), "--strings-exp"}
	}
	return "z3", []string{"-in", fmt.Sprintf("-t:%d", timeoutMs)}
}

func NewSolver(kind string, timeoutMs int, logPath string) (*Solver, error) {
	s := &Solver{name: kind, timeoutMs: timeoutMs, logPath: logPath, scopes: [][]string{nil}}
	if logPath != "" {
		s.logf, _ = os.Create(logPath)
	}
	if err := s.start(); err != nil {
		return nil, err
	}
	return s, nil
}

func (s *Solver) start() error {
	bin, args := solverArgs(s.name, s.timeoutMs)
	cmd := exec.Command(bin, args...)
	in, err := cmd.StdinPipe()
	if err != nil {
		return err
	}
	out, err := cmd.StdoutPipe()
	if err != nil {
		return err
	}
	cmd.Stderr = cmd.Stdout
	if err := cmd.Start(); err != nil {
		return err
	}
	s.cmd, s.in, s.out = cmd, in, bufio.NewReaderSize(out, 1<<20)
	s.dead = false
	if s.name == "cvc5" {
		s.raw("(set-logic ALL)")
	}
	s.raw(smtPreamble)
	return nil
}

// restart kills the solver process and rebuilds the live context in a new one.
func (s *Solver) restart() {
	s.cmd.Process.Kill()
	s.cmd.Wait()
	s.Restarts++
	if err := s.start(); err != nil {
		s.dead = true
		s.Errors = append(s.Errors, "solver restart failed: "+err.Error())
		return
	}
	for i, sc := range s.scopes {
		if i > 0 {
			s.raw("(push 1)")
		}
		for _, c := range sc {
			s.raw(c)
		}
	}
}

func (s *Solver) raw(cmd string) {
	if s.logf != nil {
		fmt.Fprintln(s.logf, cmd)
	}
	io.WriteString(s.in, cmd)
	io.WriteString(s.in, "\n")
}

func (s *Solver) Close() {
	if s.dead {
		return
	}
	s.dead = true
	s.in.Close()
	done := make(chan struct{})
	go func() { s.cmd.Wait(); close(done) }()
	select {
	case <-done:
	case <-time.After(2 * time.Second):
		s.cmd.Process.Kill()
	}
	if s.logf != nil {
		s.logf.Close()
	}
}

func (s *Solver) Send(cmd string) {
	switch {
	case cmd == "(push 1)":
		s.scopes = append(s.scopes, nil)
	case cmd == "(pop 1)":
		if len(s.scopes) > 1 {
			s.scopes = s.scopes[:len(s.scopes)-1]
		}
	case strings.HasPrefix(cmd, "(check-sat") || strings.HasPrefix(cmd, "(get-"):
	default:
		s.scopes[len(s.scopes)-1] = append(s.scopes[len(s.scopes)-1], cmd)
	}
	s.raw(cmd)
}

func (s *Solver) readLine() string {
	line, err := s.out.ReadString('\n')
	if err != nil {
		s.Errors = append(s.Errors, "solver died: "+err.Error())
		s.dead = true
		return "unknown"
	}
	return strings.TrimSpace(line)
}

// Check runs (check-sat) and returns "sat", "unsat" or "unknown".
// Any (error ...) line makes the answer "unknown" (inconclusive).
func (s *Solver) Check() string {
	t0 := time.Now()
	s.Send("(check-sat)")
	res := ""
	sawErr := false
	// hard watchdog: some string queries ignore the solver's own soft timeout
	timedOut := false
	done := make(chan struct{})
	proc := s.cmd.Process
	go func() {
		select {
		case <-done:
		case <-time.After(time.Duration(s.timeoutMs+5000) * time.Millisecond):
			timedOut = true
			proc.Kill()
		}
	}()
	defer func() {
		close(done)
	}()
	for {
		l := s.readLine()
		if timedOut {
			s.Queries++
			s.Time += time.Since(t0)
			s.Timeouts++
			s.Errors = s.Errors[:len(s.Errors)-1] // the "solver died" entry of readLine
			s.restart()
			return "unknown"
		}
		if s.logf != nil {
			fmt.Fprintln(s.logf, "; -> "+l)
		}
		if strings.HasPrefix(l, "(error") {
			s.Errors = append(s.Errors, l)
			sawErr = true
			continue
		}
		if l == "sat" || l == "unsat" || l == "unknown" || strings.HasPrefix(l, "timeout") {
			res = l
			break
		}
		if s.dead {
			res = "unknown"
			break
		}
	}
	s.Queries++
	s.Time += time.Since(t0)
	if s.logf != nil {
		fmt.Fprintf(s.logf, "; time_ms=%d\n", time.Since(t0).Milliseconds())
	}
	if sawErr || (res != "sat" && res != "unsat") {
		return "unknown"
	}
	return res
}

// CheckWith checks the current context plus extra assertions in a temporary scope.
func (s *Solver) CheckWith(extra ...*Term) string {
	s.Send("(push 1)")
	for _, e := range extra {
		s.Send("(assert " + e.SMT() + ")")
	}
	r := s.Check()
	s.Send("(pop 1)")
	return r
}

// readSexp reads one balanced s-expression from the solver.
func (s *Solver) readSexp() string {
	var sb strings.Builder
	depth := 0
	inStr := false
	started := false
	for {
		c, err := s.out.ReadByte()
		if err != nil {
			s.dead = true
			return sb.String()
		}
		if !started {
			if c == ' ' || c == '\n' || c == '\r' || c == '\t' {
				continue
			}
			started = true
		}
		sb.WriteByte(c)
		if inStr {
			if c == '"' {
				inStr = false
			}
			continue
		}
		switch c {
		case '"':
			inStr = true
		case '(':
			depth++
		case ')':
			depth--
			if depth == 0 {
				return sb.String()
			}
		case '\n':
			if depth == 0 {
				return sb.String()
			}
		}
	}
}

// GetValues evaluates the given terms in the current model (must follow a sat answer in the same scope).
func (s *Solver) GetValues(ts []*Term) ([]*Term, error) {
	if len(ts) == 0 {
		return nil, nil
	}
	var sb strings.Builder
	sb.WriteString("(get-value (")
	for _, t := range ts {
		sb.WriteString(t.SMT())
		sb.WriteByte(' ')
	}
	sb.WriteString("))")
	s.Send(sb.String())
	resp := s.readSexp()
	if s.logf != nil {
		fmt.Fprintln(s.logf, "; -> "+resp)
	}
	if strings.HasPrefix(resp, "(error") {
		s.Errors = append(s.Errors, resp)
		return nil, fmt.Errorf("get-value: %s", resp)
	}
	sx, _, err := parseSexp(resp, 0)
	if err != nil {
		return nil, err
	}
	if len(sx.list) != len(ts) {
		return nil, fmt.Errorf("get-value: expected %d results, got %d: %s", len(ts), len(sx.list), resp)
	}
	out := make([]*Term, len(ts))
	for i, pair := range sx.list {
		if len(pair.list) != 2 {
			return nil, fmt.Errorf("get-value: bad pair in %s", resp)
		}
		v, err := sexpToConst(pair.list[1], ts[i].sort)
		if err != nil {
			return nil, err
		}
		out[i] = v
	}
	return out, nil
}

type sexp struct {
	atom string
	str  bool
	list []*sexp
	isL  bool
}

func parseSexp(s string, i int) (*sexp, int, error) {
	for i < len(s) && (s[i] == ' ' || s[i] == '\n' || s[i] == '\t' || s[i] == '\r') {
		i++
	}
	if i >= len(s) {
		return nil, i, fmt.Errorf("unexpected end")
	}
	if s[i] == '(' {
		i++
		n := &sexp{isL: true}
		for {
			for i < len(s) && (s[i] == ' ' || s[i] == '\n' || s[i] == '\t' || s[i] == '\r') {
				i++
			}
			if i >= len(s) {
				return nil, i, fmt.Errorf("unbalanced")
			}
			if s[i] == ')' {
				return n, i + 1, nil
			}
			c, j, err := parseSexp(s, i)
			if err != nil {
				return nil, j, err
			}
			n.list = append(n.list, c)
			i = j
		}
	}
	if s[i] == '"' {
		j := i + 1
		var sb strings.Builder
		for j < len(s) {
			if s[j] == '"' {
				if j+1 < len(s) && s[j+1] == '"' {
					sb.WriteByte('"')
					j += 2
					continue
				}
				break
			}
			sb.WriteByte(s[j])
			j++
		}
		return &sexp{atom: sb.String(), str: true}, j + 1, nil
	}
	if s[i] == '|' {
		j := i + 1
		for j < len(s) && s[j] != '|' {
			j++
		}
		return &sexp{atom: s[i+1 : j]}, j + 1, nil
	}
	j := i
	for j < len(s) && !strings.ContainsRune(" \n\t\r()", rune(s[j])) {
		j++
	}
	return &sexp{atom: s[i:j]}, j, nil
}

func unescapeSMT(s string) string {
	var sb strings.Builder
	for i := 0; i < len(s); i++ {
		if s[i] == '\\' && i+1 < len(s) && s[i+1] == 'u' {
			// \u{X..} or \uXXXX
			if i+2 < len(s) && s[i+2] == '{' {
				j := strings.IndexByte(s[i+3:], '}')
				if j >= 0 {
					var v int
					fmt.Sscanf(s[i+3:i+3+j], "%x", &v)
					if v < 256 {
						sb.WriteByte(byte(v))
					} else {
						sb.WriteRune(rune(v))
					}
					i = i + 3 + j
					continue
				}
			} else if i+5 < len(s) {
				var v int
				if _, err := fmt.Sscanf(s[i+2:i+6], "%x", &v); err == nil {
					if v < 256 {
						sb.WriteByte(byte(v))
					} else {
						sb.WriteRune(rune(v))
					}
					i += 5
					continue
				}
			}
		}
		if s[i] == '\\' && i+1 < len(s) && s[i+1] == 'x' && i+3 < len(s) {
			var v int
			if _, err := fmt.Sscanf(s[i+2:i+4], "%x", &v); err == nil {
				sb.WriteByte(byte(v))
				i += 3
				continue
			}
		}
		sb.WriteByte(s[i])
	}
	return sb.String()
}

func sexpToConst(x *sexp, sort Sort) (*Term, error) {
	switch sort {
	case SBool:
		if x.atom == "true" {
			return tTrue, nil
		}
		if x.atom == "false" {
			return tFalse, nil
		}
	case SInt:
		if !x.isL {
			v, ok := new(big.Int).SetString(x.atom, 10)
			if ok {
				return mkIntBig(v), nil
			}
		} else if len(x.list) == 2 && x.list[0].atom == "-" {
			v, err := sexpToConst(x.list[1], SInt)
			if err == nil {
				return mkNeg(v), nil
			}
		}
	case SStr:
		if x.str {
			return mkStr(unescapeSMT(x.atom)), nil
		}
	}
	return nil, fmt.Errorf("cannot parse model value %+v as %v", x, sort)
}
