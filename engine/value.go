package main

// Value model: concrete shape, symbolic leaves (DESIGN.md §2.3).

import (
	"fmt"
	"go/types"

	"golang.org/x/tools/go/ssa"
)

type Value interface{}

// scalars (bool / integers / strings) are *Term.

// strings are *Term of sort String; JSON-token structure of a string is kept in
// Exec.jsonTok keyed by the term pointer.

type PtrV struct {
	c *Cell // nil pointer when c == nil
}

type StructV struct {
	fields []Value
}

type ArrayV struct {
	elems []Value
}

type SliceV struct {
	arr      *Cell // array cell; nil for nil slice
	off      int
	len, cap int
	str      *Term // non-nil: a []byte that is the conversion of this string (opaque)
	nonNil   bool  // empty non-nil slice without backing array
}

type MapObj struct {
	keyT, valT types.Type
	keys       []Value
	vals       []Value
	id         int
}

type MapV struct {
	m *MapObj // nil map when m == nil
}

type IfaceV struct {
	t types.Type // dynamic type; nil => nil interface
	v Value
}

type FuncV struct {
	fn      *ssa.Function
	env     []Value
	builtin string // intercepted pseudo function
	recv    Value  // bound receiver for method values created by intercepts
}

type TupleV []Value

// Float values are only supported as constants.
// FloatV: a constant float64, or (it != nil) a float64 whose value is the integer term it (JSON numbers decoded into
// interface{}); no other symbolic floats exist.
type FloatV struct {
	f  float64
	it *Term
}

// intTerm returns the integer term of an integer-valued float.
func (f FloatV) intTerm() (*Term, bool) {
	if f.it != nil {
		return f.it, true
	}
	if f.f == float64(int64(f.f)) && f.f > -1e15 && f.f < 1e15 {
		return mkInt(int64(f.f)), true
	}
	return nil, false
}

// Opaque native Go value (used by a few intercepts, e.g. compiled Lua chunks).
type NativeV struct{ v interface{} }

// Cell is a memory location.
type Cell struct {
	typ  types.Type
	val  Value   // scalar-like content
	subs []*Cell // struct fields / array elements
	id   int
}

func isStructLike(t types.Type) bool {
	switch t.Underlying().(type) {
	case *types.Struct, *types.Array:
		return true
	}
	return false
}

func (ex *Exec) newCell(t types.Type) *Cell {
	ex.cellSeq++
	c := &Cell{typ: t, id: ex.cellSeq}
	switch u := t.Underlying().(type) {
	case *types.Struct:
		c.subs = make([]*Cell, u.NumFields())
		for i := 0; i < u.NumFields(); i++ {
			c.subs[i] = ex.newCell(u.Field(i).Type())
		}
	case *types.Array:
		n := int(u.Len())
		if n > 4096 {
			ex.unsupported(fmt.Sprintf("array of %d elements", n))
		}
		c.subs = make([]*Cell, n)
		for i := 0; i < n; i++ {
			c.subs[i] = ex.newCell(u.Elem())
		}
	default:
		c.val = ex.zero(t)
	}
	return c
}

func (ex *Exec) zero(t types.Type) Value {
	switch u := t.Underlying().(type) {
	case *types.Basic:
		info := u.Info()
		switch {
		case info&types.IsBoolean != 0:
			return tFalse
		case info&types.IsInteger != 0:
			return mkInt(0)
		case info&types.IsString != 0:
			return mkStr("")
		case info&types.IsFloat != 0:
			return FloatV{f: 0}
		case u.Kind() == types.UnsafePointer:
			return PtrV{}
		case u.Kind() == types.UntypedNil:
			return PtrV{}
		case u.Kind() == types.Invalid:
			return nil // unused component of a range tuple
		}
		ex.unsupported("zero of basic type " + u.String())
	case *types.Pointer:
		return PtrV{}
	case *types.Slice:
		return SliceV{}
	case *types.Map:
		return MapV{}
	case *types.Interface:
		return IfaceV{}
	case *types.Signature:
		return FuncV{}
	case *types.Chan:
		return PtrV{}
	case *types.Struct:
		fs := make([]Value, u.NumFields())
		for i := range fs {
			fs[i] = ex.zero(u.Field(i).Type())
		}
		return StructV{fs}
	case *types.Array:
		es := make([]Value, u.Len())
		for i := range es {
			es[i] = ex.zero(u.Elem())
		}
		return ArrayV{es}
	case *types.Tuple:
		vs := make(TupleV, u.Len())
		for i := range vs {
			vs[i] = ex.zero(u.At(i).Type())
		}
		return vs
	}
	ex.unsupported("zero of type " + t.String())
	return nil
}

func (ex *Exec) load(c *Cell) Value {
	if ex.guards != nil {
		ex.guardCellAccess(c, false, nil)
	}
	return ex.loadRec(c)
}

func (ex *Exec) loadRec(c *Cell) Value {
	if c.subs != nil || isStructLike(c.typ) {
		vs := make([]Value, len(c.subs))
		for i, s := range c.subs {
			vs[i] = ex.loadRec(s)
		}
		if _, ok := c.typ.Underlying().(*types.Struct); ok {
			return StructV{vs}
		}
		return ArrayV{vs}
	}
	return c.val
}

func (ex *Exec) store(c *Cell, v Value) {
	if ex.guards != nil {
		ex.guardCellAccess(c, true, v)
	}
	ex.storeRec(c, v)
}

func (ex *Exec) storeRec(c *Cell, v Value) {
	if c.subs != nil || isStructLike(c.typ) {
		switch x := v.(type) {
		case StructV:
			if len(x.fields) != len(c.subs) {
				panic(fmt.Sprintf("store: struct arity mismatch %d vs %d for %s", len(x.fields), len(c.subs), c.typ))
			}
			for i, s := range c.subs {
				ex.storeRec(s, x.fields[i])
			}
		case ArrayV:
			for i, s := range c.subs {
				ex.storeRec(s, x.elems[i])
			}
		default:
			panic(fmt.Sprintf("store: aggregate cell %s got %T", c.typ, v))
		}
		return
	}
	c.val = v
}

// asTerm extracts the SMT term of a scalar value.
func asTerm(v Value) *Term {
	switch x := v.(type) {
	case *Term:
		return x
	}
	panic(fmt.Sprintf("asTerm: not a scalar: %T", v))
}

func isNilValue(v Value) (isnil bool, known bool) {
	switch x := v.(type) {
	case PtrV:
		return x.c == nil, true
	case SliceV:
		return x.arr == nil && x.str == nil && !x.nonNil, true
	case MapV:
		return x.m == nil, true
	case IfaceV:
		return x.t == nil, true
	case FuncV:
		return x.fn == nil && x.builtin == "", true
	}
	return false, false
}

func floatEq(a, b FloatV) *Term {
	if a.it == nil && b.it == nil {
		return mkBool(a.f == b.f)
	}
	ia, oka := a.intTerm()
	ib, okb := b.intTerm()
	if !oka || !okb {
		return tFalse
	}
	return mkEq(ia, ib)
}
