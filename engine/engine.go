package main

// Engine: package loading, harness discovery, DFS driver, verdict bookkeeping.

import (
	"fmt"
	"go/ast"
	"go/types"
	"os"
	"path/filepath"
	"sort"
	"strings"
	"sync"
	"time"

	"golang.org/x/tools/go/packages"
	"golang.org/x/tools/go/ssa"
	"golang.org/x/tools/go/ssa/ssautil"
)

const repoMod = "github.com/openkruise/rollouts"

type interceptFn func(ex *Exec, fr *frame, fn *ssa.Function, args []Value, pos tokenPos) Value

type Engine struct {
	luaTypes *luaGoTypes // gopher-lua value types (luaboundary.go), resolved on first use
	prog        *ssa.Program
	pkgs        []*packages.Package
	ssaPkgs     map[string]*ssa.Package
	mu          sync.Mutex
	buildMu     sync.Mutex
	built       map[*ssa.Package]bool
	initSlices  map[*ssa.Global][]ssa.Instruction
	icCache     sync.Map
	builtFast   sync.Map
	maxDecisions int
	maxSteps    int
	maxPaths    int
	reverseMaps bool
	tier        string
	solverKind  string
	timeoutMs   int
	repoDir     string
	verifDir    string
	outDir      string // where evidence/ and replays/ are written (verifDir unless VERIF_OUT is set)
	overlay     map[string][]byte
	overlayReal map[string]string // virtual path -> real path
	debug       bool
	luaFiles    map[string]string
	astFiles    map[string]*ast.File
	workers     int
	only        string
	budgetS     float64
}

func (e *Engine) allPkgs() []*packages.Package {
	var out []*packages.Package
	packages.Visit(e.pkgs, nil, func(p *packages.Package) {
		if strings.HasPrefix(p.PkgPath, repoMod) {
			out = append(out, p)
		}
	})
	return out
}

type Stats struct {
	Paths        int     `json:"paths"`
	Pruned       int     `json:"pruned"`
	Branches     int     `json:"branches"`
	UnitDecided  int     `json:"branches_decided_on_unit_domain"`
	Asserts      int     `json:"asserts"`
	Discharged   int     `json:"discharged"`
	TrivialTrue  int     `json:"trivially_true"`
	Queries      int     `json:"queries"`
	SolverS      float64 `json:"solver_s"`
	Steps        int     `json:"ssa_steps"`
	WallS        float64 `json:"wall_s"`
}

type HarnessRun struct {
	Name        string
	usesGuard   bool // the harness declared lock-guarded state (validated under the race detector)
	stats       Stats
	violations  []*Violation
	vioSeen     map[string]int
	inconclusive []string
	unknowns    []string
	covers      map[string]int
	funcs       map[string]int
	stubCalls   map[string]int
	samples     []map[string]string
	assertLabels map[string]int
	solverErrs  []string
	passModels  []passModel
	inconclusivePaths int
}

type passModel struct {
	Values   map[string]string
	Observed map[string]string
	Covers   []string
}

func (h *HarnessRun) noteUnknown(s string) {
	if len(h.unknowns) < 50 {
		h.unknowns = append(h.unknowns, s)
	} else if len(h.unknowns) == 50 {
		h.unknowns = append(h.unknowns, "...")
	}
}

func (h *HarnessRun) noteFunc(fn *ssa.Function) {
	h.funcs[fn.String()]++
}

func NewEngine(repoDir, verifDir, tier string) *Engine {
	maxPaths := 200000
	if tier == "thorough" {
		maxPaths = 3000000
	}
	return &Engine{
		ssaPkgs:      map[string]*ssa.Package{},
		built:        map[*ssa.Package]bool{},
		initSlices:   map[*ssa.Global][]ssa.Instruction{},
		maxDecisions: 4000,
		maxSteps:     3000000,
		maxPaths:     maxPaths,
		tier:         tier,
		solverKind:   "z3",
		timeoutMs:    60000,
		repoDir:      repoDir,
		verifDir:     verifDir,
		overlay:      map[string][]byte{},
		overlayReal:  map[string]string{},
		workers:      12,
	}
}

// addOverlays maps /verif/harness/<pkgpath>/*.go into /repo/<pkgpath>/ and the runtime into /repo/pkg/verifrt.
func (e *Engine) addOverlays(pkgDirs []string) error {
	rtFiles, _ := filepath.Glob(filepath.Join(e.verifDir, "rt", "*.go"))
	if len(rtFiles) == 0 {
		return fmt.Errorf("runtime sources not found under %s/rt", e.verifDir)
	}
	for _, f := range rtFiles {
		b, err := os.ReadFile(f)
		if err != nil {
			return err
		}
		v := filepath.Join(e.repoDir, "pkg", "verifrt", filepath.Base(f))
		e.overlay[v] = b
		e.overlayReal[v] = f
	}
	// common helper package(s) living under rt/<name>/ are mapped to pkg/verifrt/<name>/
	ents, _ := os.ReadDir(filepath.Join(e.verifDir, "rt"))
	for _, en := range ents {
		if !en.IsDir() {
			continue
		}
		files, _ := filepath.Glob(filepath.Join(e.verifDir, "rt", en.Name(), "*.go"))
		for _, f := range files {
			b, err := os.ReadFile(f)
			if err != nil {
				return err
			}
			v := filepath.Join(e.repoDir, "pkg", "verifrt", en.Name(), filepath.Base(f))
			e.overlay[v] = b
			e.overlayReal[v] = f
		}
	}
	for _, d := range pkgDirs {
		files, _ := filepath.Glob(filepath.Join(e.verifDir, "harness", d, "*.go"))
		for _, f := range files {
			if strings.HasSuffix(f, "_test.go") {
				continue
			}
			b, err := os.ReadFile(f)
			if err != nil {
				return err
			}
			v := filepath.Join(e.repoDir, d, filepath.Base(f))
			e.overlay[v] = b
			e.overlayReal[v] = f
		}
	}
	return nil
}

func (e *Engine) Load(pkgDirs []string) error {
	if err := e.addOverlays(pkgDirs); err != nil {
		return err
	}
	pats := []string{"./pkg/verifrt/..."}
	for _, d := range pkgDirs {
		pats = append(pats, "./"+d)
	}
	cfg := &packages.Config{
		Mode:    packages.LoadAllSyntax,
		Dir:     e.repoDir,
		Env:     append(os.Environ(), "GOFLAGS=-mod=mod", "GOPROXY=off", "GOSUMDB=off", "GOTOOLCHAIN=local"),
		Overlay: e.overlay,
	}
	t0 := time.Now()
	pkgs, err := packages.Load(cfg, pats...)
	if err != nil {
		return err
	}
	nerr := 0
	packages.Visit(pkgs, nil, func(p *packages.Package) {
		for _, er := range p.Errors {
			if strings.HasPrefix(p.PkgPath, repoMod) {
				fmt.Fprintf(os.Stderr, "load error in %s: %v\n", p.PkgPath, er)
				nerr++
			}
		}
	})
	if nerr > 0 {
		return fmt.Errorf("%d package load errors", nerr)
	}
	e.pkgs = pkgs
	prog, _ := ssautil.AllPackages(pkgs, ssa.InstantiateGenerics)
	e.prog = prog
	for _, p := range prog.AllPackages() {
		e.ssaPkgs[p.Pkg.Path()] = p
	}
	if e.debug {
		fmt.Fprintf(os.Stderr, "loaded %d packages in %.1fs\n", len(e.ssaPkgs), time.Since(t0).Seconds())
	}
	return nil
}

func (e *Engine) buildPkg(p *ssa.Package) {
	if _, ok := e.builtFast.Load(p); ok {
		return
	}
	e.buildMu.Lock()
	defer e.buildMu.Unlock()
	if e.built[p] {
		return
	}
	p.Build()
	e.built[p] = true
	e.builtFast.Store(p, true)
}

// findHarnesses returns exported functions named Verif<prefix>... in the loaded repo packages.
func (e *Engine) findHarnesses(prefix string) []*ssa.Function {
	var out []*ssa.Function
	for path, p := range e.ssaPkgs {
		if !strings.HasPrefix(path, repoMod) {
			continue
		}
		for name, m := range p.Members {
			fn, ok := m.(*ssa.Function)
			if !ok || !strings.HasPrefix(name, "Verif"+prefix) {
				continue
			}
			if fn.Signature.Params().Len() != 0 {
				continue
			}
			if e.only != "" && !strings.Contains(name, e.only) {
				continue
			}
			out = append(out, fn)
		}
	}
	sort.Slice(out, func(i, j int) bool { return out[i].String() < out[j].String() })
	return out
}

func (e *Engine) newExec(h *HarnessRun, solver *Solver) *Exec {
	return &Exec{eng: e, prog: e.prog, solver: solver, h: h}
}

func (ex *Exec) resetPath() {
	ex.pos = 0
	ex.cellSeq = 0
	ex.symSeq = 0
	ex.mapSeq = 0
	ex.syncMaps = nil
	ex.locks, ex.guards, ex.guardedMaps = nil, nil, nil
	ex.luaLI, ex.pools, ex.luaCells, ex.nestedMarshal = nil, nil, nil, 0
	ex.globals = map[*ssa.Global]*Cell{}
	ex.nondets = nil
	ex.occ = map[string]int{}
	ex.steps = 0
	ex.depth = 0
	ex.stubs = map[string]FuncV{}
	ex.jsonTok = map[*Term]*JNode{}
	ex.jsonEsc = map[*Term]*Term{}
	ex.pcCount = 0
	ex.declared = map[string]bool{}
	ex.observes = nil
	ex.callStack = nil
	ex.panicking = nil
	ex.ufDecl = map[string]bool{}
	ex.timeNow = nil
	ex.pathNotes = nil
	ex.pathCovers = nil
	ex.lastInstr = ""
	ex.hashOf = nil
	ex.hashedNodes = nil
	ex.doms = map[string]*varDom{}
	ex.curInstr = nil
}

// model extracts values of all nondet symbols in the current solver scope (after a sat check).
func (ex *Exec) model(extra ...*Term) (map[string]string, Model, error) {
	r := ex.solver.CheckWith() // establishes a model for the current context
	_ = r
	return nil, nil, nil
}

// getModel must be called right after a check that returned sat *in the scope where that check ran*.
func (ex *Exec) readModel() (map[string]string, Model) {
	ts := make([]*Term, len(ex.nondets))
	for i, n := range ex.nondets {
		ts[i] = n.T
	}
	vals, err := ex.solver.GetValues(ts)
	out := map[string]string{}
	m := Model{}
	if err != nil {
		ex.h.noteUnknown("get-value failed: " + err.Error())
		return out, m
	}
	for i, n := range ex.nondets {
		m[n.T.s] = vals[i]
		switch vals[i].sort {
		case SBool:
			out[n.Name] = fmt.Sprint(vals[i].b)
		case SInt:
			out[n.Name] = vals[i].i.String()
		default:
			out[n.Name] = vals[i].s
		}
	}
	return out, m
}

// satModel checks pc ∧ extra and, when sat, returns the model of the nondet symbols.
func (ex *Exec) satModel(extra ...*Term) (string, map[string]string, Model) {
	ex.solver.Send("(push 1)")
	for _, e := range extra {
		ex.solver.Send("(assert " + e.SMT() + ")")
	}
	r := ex.solver.Check()
	var vals map[string]string
	var m Model
	if r == "sat" {
		vals, m = ex.readModel()
	}
	ex.solver.Send("(pop 1)")
	return r, vals, m
}

func (h *HarnessRun) addViolation(v *Violation) {
	key := v.Kind + "|" + v.Label + "|" + v.Site
	h.vioSeen[key]++
	if h.vioSeen[key] == 1 {
		h.violations = append(h.violations, v)
	}
}

// RunHarness explores all paths of one harness function.
func (e *Engine) RunHarness(fn *ssa.Function, logDir string) *HarnessRun {
	h := &HarnessRun{Name: fn.Name(), vioSeen: map[string]int{}, covers: map[string]int{}, funcs: map[string]int{}, stubCalls: map[string]int{}, assertLabels: map[string]int{}}
	t0 := time.Now()
	logPath := ""
	if logDir != "" {
		logPath = filepath.Join(logDir, fn.Name()+".smt2")
	}
	solver, err := NewSolver(e.solverKind, e.timeoutMs, logPath)
	if err != nil {
		h.inconclusive = append(h.inconclusive, "cannot start solver: "+err.Error())
		return h
	}
	defer solver.Close()
	ex := e.newExec(h, solver)
	for {
		ex.resetPath()
		solver.Send("(push 1)")
		ex.runPath(fn)
		solver.Send("(pop 1)")
		h.stats.Steps += ex.steps
		if solver.dead {
			h.inconclusive = append(h.inconclusive, "solver process died")
			break
		}
		// backtrack
		for len(ex.decisions) > 0 && !ex.decisions[len(ex.decisions)-1].hasAlt {
			ex.decisions = ex.decisions[:len(ex.decisions)-1]
		}
		if len(ex.decisions) == 0 {
			break
		}
		last := &ex.decisions[len(ex.decisions)-1]
		last.choice = !last.choice
		last.hasAlt = false
		if e.budgetS > 0 && time.Since(t0).Seconds() > e.budgetS {
			h.inconclusive = append(h.inconclusive, fmt.Sprintf("time budget %.0fs exhausted after %d paths (bound too large for this tier)", e.budgetS, h.stats.Paths))
			break
		}
		if h.stats.Paths+h.stats.Pruned >= e.maxPaths {
			h.inconclusive = append(h.inconclusive, fmt.Sprintf("path bound %d reached", e.maxPaths))
			break
		}
		if h.inconclusivePaths > 300 {
			h.inconclusive = append(h.inconclusive, fmt.Sprintf("%d paths ended inconclusive, stopping the exploration", h.inconclusivePaths))
			break
		}
		if len(h.inconclusive) > 20 {
			h.inconclusive = append(h.inconclusive, "too many inconclusive paths, stopping")
			break
		}
	}
	h.stats.Queries = solver.Queries
	h.stats.SolverS = solver.Time.Seconds()
	h.stats.WallS = time.Since(t0).Seconds()
	h.solverErrs = solver.Errors
	if len(solver.Errors) > 0 {
		h.inconclusive = append(h.inconclusive, fmt.Sprintf("%d solver error lines, first: %s", len(solver.Errors), solver.Errors[0]))
	}
	return h
}

func (ex *Exec) runPath(fn *ssa.Function) {
	h := ex.h
	defer func() {
		r := recover()
		if r == nil {
			return
		}
		switch p := r.(type) {
		case pathEnd:
			switch p.kind {
			case "pruned":
				h.stats.Pruned++
			case "inconclusive":
				h.stats.Paths++
				h.inconclusivePaths++
				msg := p.msg
				dup := false
				for _, m := range h.inconclusive {
					if m == msg {
						dup = true
					}
				}
				if !dup {
					h.inconclusive = append(h.inconclusive, msg)
				}
			}
		case *goPanic:
			h.stats.Paths++
			res, vals, _ := ex.satModel()
			if res != "sat" {
				h.noteUnknown("model for panic path: " + res)
			}
			h.addViolation(&Violation{Harness: h.Name, Kind: "panic", Label: "uncaught-panic", Site: p.site, Msg: p.msg, Values: vals, Stack: lastN(p.stack, 12), Path: h.stats.Paths})
		default:
			// internal error of the engine: never a verdict
			h.stats.Paths++
			where := ""
			if len(ex.callStack) > 0 {
				where = " while executing " + ex.callStack[len(ex.callStack)-1]
			}
			msg := fmt.Sprintf("engine internal error: %v%s (at %s)", r, where, ex.lastInstr)
			dup := false
			for _, m := range h.inconclusive {
				if m == msg {
					dup = true
				}
			}
			if !dup {
				h.inconclusive = append(h.inconclusive, msg)
			}
		}
	}()
	ex.callFunction(fn, nil, nil)
	h.stats.Paths++
	if ex.pos < len(ex.decisions) {
		h.inconclusive = append(h.inconclusive, "engine non-determinism: path ended before consuming its decision prefix")
	}
	for _, c := range ex.pathCovers {
		h.covers[c]++
	}
	// sample / passing-path model for translator validation
	if len(h.passModels) < ex.eng.wantPassModels() {
		res, vals, m := ex.satModel()
		if res == "sat" {
			obs := map[string]string{}
			occ := map[string]int{}
			okAll := true
			for _, o := range ex.observes {
				occ[o.Name]++
				v := evalTerm(o.T, m)
				if v == nil {
					okAll = false
					continue
				}
				obs[fmt.Sprintf("%s#%d", o.Name, occ[o.Name])] = constString(v)
			}
			_ = okAll
			h.passModels = append(h.passModels, passModel{Values: vals, Observed: obs, Covers: append([]string(nil), ex.pathCovers...)})
		}
	}
}

func constString(v *Term) string {
	switch v.sort {
	case SBool:
		return fmt.Sprint(v.b)
	case SInt:
		return v.i.String()
	}
	return v.s
}

func lastN(s []string, n int) []string {
	if len(s) > n {
		return s[len(s)-n:]
	}
	return s
}

func (e *Engine) wantPassModels() int {
	if e.tier == "thorough" {
		return 12
	}
	return 4
}

// ---- type helpers ----

func (e *Engine) lookupType(pkgPath, name string) types.Type {
	p := e.ssaPkgs[pkgPath]
	if p == nil {
		return nil
	}
	m := p.Members[name]
	if t, ok := m.(*ssa.Type); ok {
		return t.Type()
	}
	return nil
}
