package main

// admission.Decoder: the scheme-driven decoder is reflection code; decoding the raw JSON of an admission request into
// a typed object is modelled by the JSON token model (json.go), i.e. exactly like json.Unmarshal of the same bytes.

import (
	"go/types"

	"golang.org/x/tools/go/ssa"
)

func structFieldByName(v Value, t types.Type, name string) (Value, types.Type, bool) {
	sv, ok := v.(StructV)
	st, ok2 := t.Underlying().(*types.Struct)
	if !ok || !ok2 {
		return nil, nil, false
	}
	for i := 0; i < st.NumFields(); i++ {
		if st.Field(i).Name() == name {
			return sv.fields[i], st.Field(i).Type(), true
		}
	}
	for i := 0; i < st.NumFields(); i++ {
		if st.Field(i).Embedded() {
			if r, rt, ok := structFieldByName(sv.fields[i], st.Field(i).Type(), name); ok {
				return r, rt, true
			}
		}
	}
	return nil, nil, false
}

func (ex *Exec) decodeRawExtension(raw Value, rawT types.Type, into Value) Value {
	rv, _, ok := structFieldByName(raw, rawT, "Raw")
	if !ok {
		ex.unsupported("admission decode: RawExtension without Raw field")
	}
	data := rv.(SliceV)
	if data.str == nil {
		if data.len == 0 {
			return ex.newError(mkStr("there is no content to decode"))
		}
		ex.unsupported("admission decode of a concrete byte slice")
	}
	target := into.(IfaceV)
	if target.t == nil {
		ex.unsupported("admission decode into nil")
	}
	pt, ok := target.t.Underlying().(*types.Pointer)
	if !ok {
		ex.unsupported("admission decode into non-pointer")
	}
	p := target.v.(PtrV)
	n, known, perr := ex.nodeOfString(data.str)
	if !known {
		ex.unsupported("admission decode of a symbolic string that is not a registered JSON token")
	}
	if perr != "" {
		return ex.newError(mkStr(perr))
	}
	if e := ex.jsonDecodeInto(n, pt.Elem(), p.c, 0); e != nil {
		return ex.newError(mkStr(e.msg))
	}
	return IfaceV{}
}

func init() {
	const dec = "(*sigs.k8s.io/controller-runtime/pkg/webhook/admission.Decoder)"
	interceptTable[dec+".DecodeRaw"] = func(ex *Exec, fr *frame, fn *ssa.Function, args []Value, pos tokenPos) Value {
		return ex.decodeRawExtension(args[1], fn.Signature.Params().At(0).Type(), args[2])
	}
	interceptTable[dec+".Decode"] = func(ex *Exec, fr *frame, fn *ssa.Function, args []Value, pos tokenPos) Value {
		obj, ot, ok := structFieldByName(args[1], fn.Signature.Params().At(0).Type(), "Object")
		if !ok {
			ex.unsupported("admission.Request without Object")
		}
		return ex.decodeRawExtension(obj, ot, args[2])
	}
}
