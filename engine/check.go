package main

// check driver: runs all harnesses of a property, replays counterexamples and
// passing models natively, writes evidence, prints the verdict lines.

import (
	"encoding/json"
	"fmt"
	"os"
	"os/exec"
	"path/filepath"
	"sort"
	"strings"
	"sync"
	"time"

	"golang.org/x/tools/go/ssa"
)

type PropConfig struct {
	Pkgs    []string `json:"pkgs"`
	Assumes []string `json:"assumptions"`
	Bounds  string   `json:"bounds"`
	Outside string   `json:"outside"`
}

type KnownFinding struct {
	Kind     string `json:"kind"` // "finding" | "fixed"
	Property string `json:"property"`
	Match    string `json:"match"` // substring of "<harness> <label> <site>"
	What     string `json:"what"`
	Commit   string `json:"commit,omitempty"`
	Restrict string `json:"restrict,omitempty"` // additional substring that must also occur
}

type replayOutcome struct {
	Failed         []string          `json:"failed"`
	Panic          string            `json:"panic"`
	Observed       map[string]string `json:"observed"`
	Covers         []string          `json:"covers"`
	AssumeViolated []string          `json:"assume_violated"`
	Race           string            `json:"race,omitempty"` // first data race reported by the Go race detector (race replays only)
}

func loadJSON(path string, v interface{}) error {
	b, err := os.ReadFile(path)
	if err != nil {
		return err
	}
	return json.Unmarshal(b, v)
}

func pkgDirOf(fn *ssa.Function) string {
	p := fn.Pkg.Pkg.Path()
	return strings.TrimPrefix(strings.TrimPrefix(p, repoMod), "/")
}

// replayer builds one native test binary per package (lazily) and runs replays with it.
type replayer struct {
	e       *Engine
	tmp     string
	mu      sync.Mutex
	bins    map[string]string
	binErr  map[string]error
	harness map[string][]string // pkgDir -> harness names
	stubs   map[string]map[string]bool
}

func (r *replayer) binFor(pkgDir string) (string, error) { return r.binForMode(pkgDir, false) }

// binForMode: race = build the replay binary with the Go race detector (used to confirm lock-discipline violations).
func (r *replayer) binForMode(pkgDirReal string, race bool) (string, error) {
	r.mu.Lock()
	defer r.mu.Unlock()
	pkgDir := pkgDirReal
	binKey := pkgDir
	if race {
		binKey += "#race"
	}
	if b, ok := r.bins[binKey]; ok {
		return b, r.binErr[binKey]
	}
	// generate test file
	pkgName := ""
	for _, p := range r.e.pkgs {
		if strings.TrimPrefix(strings.TrimPrefix(p.PkgPath, repoMod), "/") == pkgDir {
			pkgName = p.Name
		}
	}
	var sb strings.Builder
	fmt.Fprintf(&sb, "package %s\n\nimport (\n\t\"os\"\n\t\"testing\"\n\n\t\"%s\"\n)\n\n", pkgName, rtPkg)
	sb.WriteString("var verifHarnesses = map[string]func(){\n")
	for _, h := range r.harness[pkgDir] {
		fmt.Fprintf(&sb, "\t%q: %s,\n", h, h)
	}
	sb.WriteString("}\n\nfunc TestVerifReplay(t *testing.T) {\n\tf := verifHarnesses[os.Getenv(\"VERIF_HARNESS\")]\n\tif f == nil {\n\t\tt.Fatal(\"unknown harness\")\n\t}\n\tverifrt.Run(f)\n}\n")
	safe := strings.ReplaceAll(pkgDir, "/", "_")
	testFile := filepath.Join(r.tmp, safe+"_replay_test.go")
	os.WriteFile(testFile, []byte(sb.String()), 0644)
	repl := map[string]string{}
	for v, real := range r.e.overlayReal {
		repl[v] = real
	}
	repl[filepath.Join(r.e.repoDir, pkgDir, "zz_verif_replay_test.go")] = testFile
	// stub rewriting
	if err := r.e.rewriteStubs(r.tmp, repl); err != nil {
		r.bins[binKey] = ""
		r.binErr[binKey] = err
		return "", err
	}
	ob, _ := json.Marshal(map[string]interface{}{"Replace": repl})
	ovFile := filepath.Join(r.tmp, safe+"_overlay.json")
	os.WriteFile(ovFile, ob, 0644)
	bin := filepath.Join(r.tmp, safe+".test")
	cmd := exec.Command("go", "test", "-c", "-vet=off", "-overlay", ovFile, "-o", bin, "./"+pkgDir)
	if race {
		bin = filepath.Join(r.tmp, safe+".race.test")
		cmd = exec.Command("go", "test", "-c", "-race", "-vet=off", "-overlay", ovFile, "-o", bin, "./"+pkgDir)
	}
	cmd.Dir = r.e.repoDir
	cmd.Env = append(os.Environ(), "GOFLAGS=-mod=mod", "GOPROXY=off", "GOSUMDB=off", "GOTOOLCHAIN=local")
	out, err := cmd.CombinedOutput()
	if err != nil {
		err = fmt.Errorf("native replay build failed for %s: %v\n%s", pkgDir, err, trunc(string(out), 3000))
	}
	r.bins[binKey] = bin
	r.binErr[binKey] = err
	return bin, err
}

func (r *replayer) run(pkgDir, harness string, values map[string]string, tag string) (*replayOutcome, string, error) {
	return r.runMode(pkgDir, harness, values, tag, false)
}

func (r *replayer) runMode(pkgDir, harness string, values map[string]string, tag string, race bool) (*replayOutcome, string, error) {
	bin, err := r.binForMode(pkgDir, race)
	if err != nil {
		return nil, "", err
	}
	rf := map[string]interface{}{"harness": harness, "values": values, "bounds": map[string]int{}, "tier": r.e.tier}
	if r.e.tier == "thorough" {
		rf["thorough"] = true
	}
	b, _ := json.MarshalIndent(rf, "", " ")
	in := filepath.Join(r.tmp, fmt.Sprintf("%s-%s.json", harness, tag))
	outp := in + ".out"
	os.WriteFile(in, b, 0644)
	cmd := exec.Command(bin, "-test.run", "^TestVerifReplay$", "-test.count=1", "-test.timeout=120s")
	cmd.Dir = filepath.Join(r.e.repoDir, pkgDir)
	cmd.Env = append(os.Environ(), "VERIF_REPLAY="+in, "VERIF_REPLAY_OUT="+outp, "VERIF_HARNESS="+harness, "VERIF_TIER="+r.e.tier, "VERIF_REPO="+r.e.repoDir)
	if race {
		cmd.Env = append(cmd.Env, "VERIF_RACE=1", "GORACE=halt_on_error=0")
	}
	co, err := cmd.CombinedOutput()
	var oc replayOutcome
	if e2 := loadJSON(outp, &oc); e2 != nil {
		return nil, in, fmt.Errorf("native replay produced no outcome (%v): %s", err, trunc(string(co), 1500))
	}
	if race && strings.Contains(string(co), "WARNING: DATA RACE") {
		oc.Race = raceSummary(string(co))
	}
	return &oc, in, nil
}

// raceSummary keeps the first report's access lines.
func raceSummary(out string) string {
	i := strings.Index(out, "WARNING: DATA RACE")
	lines := strings.Split(out[i:], "\n")
	var keep []string
	for _, l := range lines {
		t := strings.TrimSpace(l)
		if strings.HasPrefix(t, "WARNING") || strings.HasPrefix(t, "Read at") || strings.HasPrefix(t, "Write at") || strings.HasPrefix(t, "Previous") || strings.Contains(t, repoMod) {
			keep = append(keep, t)
		}
		if len(keep) >= 8 || strings.HasPrefix(t, "=====") && len(keep) > 1 {
			break
		}
	}
	return strings.Join(keep, " | ")
}

// runReplay re-runs a recorded counterexample against the native build of the current tree.
func runReplay(e *Engine, prop, path string) int {
	var rec struct {
		Harness string            `json:"harness"`
		Package string            `json:"package"`
		Label   string            `json:"label"`
		Kind    string            `json:"kind"`
		Values  map[string]string `json:"values"`
	}
	if err := loadJSON(path, &rec); err != nil {
		fmt.Printf("INCONCLUSIVE property=%s cannot read replay file: %v\n", prop, err)
		return 3
	}
	tmp, _ := os.MkdirTemp("", "verif-replay-")
	if os.Getenv("VERIF_KEEP") == "" {
		defer os.RemoveAll(tmp)
	} else {
		fmt.Println("keeping scratch dir", tmp)
	}
	rp := &replayer{e: e, tmp: tmp, bins: map[string]string{}, binErr: map[string]error{}, harness: map[string][]string{}}
	pkgDir := ""
	for _, fn := range e.findHarnesses(prop + "_") {
		d := pkgDirOf(fn)
		rp.harness[d] = append(rp.harness[d], fn.Name())
		if fn.Name() == rec.Harness {
			pkgDir = d
		}
	}
	if pkgDir == "" {
		fmt.Printf("INCONCLUSIVE property=%s harness %s not found\n", prop, rec.Harness)
		return 3
	}
	oc, _, err := rp.runMode(pkgDir, rec.Harness, rec.Values, "replay", rec.Kind == "unguarded")
	if err != nil {
		fmt.Printf("INCONCLUSIVE property=%s %v\n", prop, err)
		return 3
	}
	fmt.Printf("replay harness=%s failed=%v panic=%q race=%q assume_violated=%v covers=%v\n", rec.Harness, oc.Failed, oc.Panic, oc.Race, oc.AssumeViolated, oc.Covers)
	if len(oc.AssumeViolated) == 0 && (len(oc.Failed) > 0 || oc.Panic != "" || oc.Race != "") {
		fmt.Printf("VIOLATION property=%s replay=%s\n", prop, path)
		return 1
	}
	fmt.Printf("property=%s replay does not violate the property on this tree\n", prop)
	return 0
}

type checkResult struct {
	exit int
}

func runCheck(e *Engine, prop string, cfg PropConfig, known []KnownFinding, seed int, logDir string) int {
	t0 := time.Now()
	hs := e.findHarnesses(prop + "_")
	if len(hs) == 0 {
		fmt.Printf("INCONCLUSIVE property=%s no harness found\n", prop)
		return 3
	}
	tmp, _ := os.MkdirTemp("", "verif-"+prop+"-")
	if os.Getenv("VERIF_KEEP") == "" {
		defer os.RemoveAll(tmp)
	} else {
		fmt.Println("keeping scratch dir", tmp)
	}
	if old, _ := filepath.Glob(filepath.Join(e.outDir, "replays", prop+"-*.json")); len(old) > 0 {
		for _, f := range old {
			os.Remove(f)
		}
	}
	rp := &replayer{e: e, tmp: tmp, bins: map[string]string{}, binErr: map[string]error{}, harness: map[string][]string{}}
	for _, fn := range hs {
		d := pkgDirOf(fn)
		rp.harness[d] = append(rp.harness[d], fn.Name())
	}
	// start native builds early, in the background
	for d := range rp.harness {
		go rp.binFor(d)
	}
	runs := make([]*HarnessRun, len(hs))
	var wg sync.WaitGroup
	sem := make(chan struct{}, e.workers)
	for i, fn := range hs {
		wg.Add(1)
		go func(i int, fn *ssa.Function) {
			defer wg.Done()
			sem <- struct{}{}
			defer func() { <-sem }()
			runs[i] = e.RunHarness(fn, logDir)
		}(i, fn)
	}
	wg.Wait()

	exit := 0
	var inconclusive []string
	var lines []string
	violations := 0
	knownPrinted := map[string]bool{}
	validated := 0
	mismatches := 0
	os.MkdirAll(filepath.Join(e.outDir, "replays"), 0755)
	type sample = map[string]interface{}
	var samples []sample
	total := Stats{}
	funcs := map[string]int{}
	stubsUsed := map[string]int{}
	covers := map[string]int{}
	perHarness := []map[string]interface{}{}
	for i, h := range runs {
		fn := hs[i]
		pkgDir := pkgDirOf(fn)
		total.Paths += h.stats.Paths
		total.Pruned += h.stats.Pruned
		total.Branches += h.stats.Branches
		total.Asserts += h.stats.Asserts
		total.Discharged += h.stats.Discharged
		total.TrivialTrue += h.stats.TrivialTrue
		total.Queries += h.stats.Queries
		total.SolverS += h.stats.SolverS
		total.Steps += h.stats.Steps
		for f, n := range h.funcs {
			funcs[f] += n
		}
		for f, n := range h.stubCalls {
			stubsUsed[f] += n
		}
		for c, n := range h.covers {
			covers[h.Name+":"+c] += n
		}
		for _, m := range h.inconclusive {
			inconclusive = append(inconclusive, h.Name+": "+m)
		}
		for _, m := range h.unknowns {
			inconclusive = append(inconclusive, h.Name+": solver unknown: "+m)
		}
		if h.stats.Paths == 0 {
			inconclusive = append(inconclusive, h.Name+": no path completed (vacuous)")
		}
		ph := map[string]interface{}{"harness": h.Name, "package": pkgDir, "paths": h.stats.Paths, "pruned": h.stats.Pruned, "asserts": h.stats.Asserts, "discharged": h.stats.Discharged, "queries": h.stats.Queries, "solver_s": round3(h.stats.SolverS), "wall_s": round3(h.stats.WallS), "assert_labels": h.assertLabels, "covers": h.covers}
		perHarness = append(perHarness, ph)
		// counterexamples: replay before reporting
		for vi, v := range h.violations {
			desc := fmt.Sprintf("%s %s %s", h.Name, v.Label, v.Site)
			oc, inFile, err := rp.runMode(pkgDir, h.Name, v.Values, fmt.Sprintf("cex%d", vi), v.Kind == "unguarded")
			reproduced := false
			if err != nil {
				inconclusive = append(inconclusive, fmt.Sprintf("%s: replay of %s failed to run: %v", h.Name, v.Label, err))
			} else {
				switch v.Kind {
				case "assert":
					for _, f := range oc.Failed {
						if f == v.Label {
							reproduced = true
						}
					}
				case "panic":
					reproduced = oc.Panic != ""
				case "unguarded":
					// confirmed by the Go race detector: the native harness keeps touching the guarded state under
					// the lock from a second goroutine
					reproduced = oc.Race != ""
				}
				if !reproduced {
					inconclusive = append(inconclusive, fmt.Sprintf("%s: counterexample for %s (%s) did NOT reproduce natively (failed=%v panic=%q assumeViolated=%v notes=%v values=%v) — engine/model defect, not reported as violation", h.Name, v.Label, v.Site, oc.Failed, oc.Panic, oc.AssumeViolated, v.Notes, v.Values))
				}
			}
			if !reproduced {
				continue
			}
			// known finding?
			kf := matchKnown(known, prop, desc)
			if kf != nil {
				key := kf.Match
				if !knownPrinted[key] {
					knownPrinted[key] = true
					lines = append(lines, fmt.Sprintf("KNOWN-FINDING: property=%s %s [%s]", prop, kf.What, desc))
				}
				samples = append(samples, sample{"harness": h.Name, "kind": "known-finding counterexample (replayed natively)", "label": v.Label, "site": v.Site, "values": v.Values})
				continue
			}
			violations++
			keep := filepath.Join(e.outDir, "replays", fmt.Sprintf("%s-%s-%d.json", prop, h.Name, vi))
			full := map[string]interface{}{"property": prop, "harness": h.Name, "package": pkgDir, "kind": v.Kind, "label": v.Label, "site": v.Site, "msg": v.Msg, "values": v.Values, "stack": v.Stack, "native": oc}
			fb, _ := json.MarshalIndent(full, "", " ")
			os.WriteFile(keep, fb, 0644)
			_ = inFile
			lines = append(lines, fmt.Sprintf("VIOLATION property=%s replay=%s", prop, keep))
			lines = append(lines, fmt.Sprintf("  harness=%s kind=%s label=%s site=%s msg=%s", h.Name, v.Kind, v.Label, v.Site, v.Msg))
			samples = append(samples, sample{"harness": h.Name, "kind": "VIOLATION (replayed natively)", "label": v.Label, "site": v.Site, "values": v.Values})
			exit = 1
		}
		// translator validation: passing models replayed natively
		for mi, pm := range h.passModels {
			// harnesses that declare guarded state are validated under the race detector: a path the engine found
			// to respect the lock discipline must not race natively either
			oc, _, err := rp.runMode(pkgDir, h.Name, pm.Values, fmt.Sprintf("pass%d", mi), h.usesGuard)
			if err != nil {
				inconclusive = append(inconclusive, fmt.Sprintf("%s: replay of passing model failed to run: %v", h.Name, err))
				continue
			}
			ok := true
			var why []string
			// a passing path may still contain recorded (known) assertion failures only if the engine reported them
			engineFailed := map[string]bool{}
			for _, v := range h.violations {
				engineFailed[v.Label] = true
				if v.Kind == "unguarded" {
					engineFailed["unguarded"] = true
				}
			}
			for _, f := range oc.Failed {
				if !engineFailed[f] {
					ok = false
					why = append(why, "native assertion failed: "+f)
				}
			}
			if oc.Panic != "" && !engineFailed["uncaught-panic"] {
				ok = false
				why = append(why, "native panic: "+oc.Panic)
			}
			if len(oc.AssumeViolated) > 0 {
				ok = false
				why = append(why, "native run violated an assumption")
			}
			if oc.Race != "" && !engineFailed["unguarded"] {
				ok = false
				why = append(why, "native data race on a path the engine found disciplined: "+oc.Race)
			}
			for k, want := range pm.Observed {
				if got, present := oc.Observed[k]; !present || got != want {
					ok = false
					why = append(why, fmt.Sprintf("observe %s: engine=%q native=%q", k, want, got))
				}
			}
			if strings.Join(pm.Covers, ",") != strings.Join(oc.Covers, ",") && len(oc.Failed) == 0 && oc.Panic == "" {
				ok = false
				why = append(why, fmt.Sprintf("covers differ: engine=%v native=%v", pm.Covers, oc.Covers))
			}
			if ok {
				validated++
			} else {
				mismatches++
				inconclusive = append(inconclusive, fmt.Sprintf("%s: translator validation mismatch on model %v: %s", h.Name, pm.Values, strings.Join(why, "; ")))
			}
			if len(samples) < 12 {
				samples = append(samples, sample{"harness": h.Name, "kind": "passing path model (replayed natively)", "values": pm.Values, "observed": pm.Observed, "covers": pm.Covers})
			}
		}
	}
	if len(inconclusive) > 0 && exit == 0 {
		exit = 3
	}
	for _, l := range lines {
		fmt.Println(l)
	}
	for _, m := range inconclusive {
		fmt.Printf("INCONCLUSIVE property=%s %s\n", prop, trunc(m, 1200))
	}
	// evidence
	fnames := make([]string, 0, len(funcs))
	for f := range funcs {
		if strings.Contains(f, repoMod) && !strings.Contains(f, "/pkg/verifrt") && !strings.Contains(f, ".Verif") {
			fnames = append(fnames, f)
		}
	}
	sort.Strings(fnames)
	stubNames := make([]string, 0)
	for f := range stubsUsed {
		stubNames = append(stubNames, f)
	}
	sort.Strings(stubNames)
	if len(samples) == 0 {
		samples = append(samples, sample{"note": "no model sampled"})
	}
	assum := append([]string{
		"A1 objects read from the API server are well-typed, names DNS-1123/ASCII",
		"A2 one reconcile at a time per object key",
		"A3 workload controllers behave as documented for the knobs set",
		"A4 solver soundness (" + e.solverKind + ")",
		"Go ints encoded in SMT Int with explicit two's-complement wrap; intstr percent scaling summarised as exact integer ceil/floor under |v*t|<2^53 (DESIGN.md appendix A)",
		"klog/record/fmt-to-stdout are no-ops; execution is single-threaded: sync mutexes only keep a per-path hold count, against which accesses to state declared guarded (verifrt.GuardedBy) are checked",
	}, cfg.Assumes...)
	ev := map[string]interface{}{
		"property_id": prop,
		"tier":        e.tier,
		"seed":        seed,
		"level":       "model_checking",
		"wall_s":      round3(time.Since(t0).Seconds()),
		"violations":  violations,
		"assumptions": assum,
		"coverage": map[string]interface{}{
			"states":                        total.Paths,
			"transitions":                   total.Branches,
			"traces_validated_against_impl": validated,
			"samples":                       samples,
			"obligations":                   total.Asserts,
			"discharged":                    total.Discharged,
			"trivially_true_obligations":    total.TrivialTrue,
			"paths_pruned_infeasible":       total.Pruned,
			"solver_queries":                total.Queries,
			"solver_seconds":                round3(total.SolverS),
			"solver":                        e.solverKind,
			"ssa_instructions_executed":     total.Steps,
			"functions_encoded":             fnames,
			"functions_encoded_count":       len(fnames),
			"stubs_used":                    stubNames,
			"cover_points":                  covers,
			"per_harness":                   perHarness,
			"bounds":                        cfg.Bounds,
			"outside_the_claim":             cfg.Outside,
			"inconclusive":                  inconclusive,
			"known_findings_printed":        len(knownPrinted),
			"translator_validation_mismatches": mismatches,
			"explanation":                   "states = complete symbolic paths explored (each a set of concrete executions decided by the solver); transitions = symbolic branch decisions; obligations = Assert instances checked by the solver over all values on their path; traces_validated = solver models of passing paths replayed against the native build with all Observe values and cover points compared",
			"exhaustive":                    len(inconclusive) == 0,
		},
	}
	eb, _ := json.MarshalIndent(ev, "", " ")
	os.MkdirAll(filepath.Join(e.outDir, "evidence"), 0755)
	os.WriteFile(filepath.Join(e.outDir, "evidence", prop+".json"), eb, 0644)
	fmt.Printf("property=%s tier=%s harnesses=%d paths=%d obligations=%d discharged=%d queries=%d solver_s=%.1f validated=%d wall_s=%.1f exit=%d\n",
		prop, e.tier, len(hs), total.Paths, total.Asserts, total.Discharged, total.Queries, total.SolverS, validated, time.Since(t0).Seconds(), exit)
	return exit
}

func round3(f float64) float64 { return float64(int64(f*1000)) / 1000 }

func matchKnown(known []KnownFinding, prop, desc string) *KnownFinding {
	for i := range known {
		k := &known[i]
		if k.Kind != "finding" || k.Property != prop {
			continue
		}
		if k.Match != "" && strings.Contains(desc, k.Match) && (k.Restrict == "" || strings.Contains(desc, k.Restrict)) {
			return k
		}
	}
	return nil
}

// rewriteStubs: see stubs.go
