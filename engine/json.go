package main

// JSON-in-annotations model (DESIGN.md §2.5) — filled in below.

type JNode struct {
	kind   string // "obj" "arr" "str" "num" "bool" "null"
	keys   []string
	vals   []*JNode
	scalar *Term
}

func icJSONGet(ex *Exec, fr *frame, fn *ssaFunction, args []Value, pos tokenPos) Value {
	ex.unsupported("JSONGet not implemented yet")
	return nil
}
