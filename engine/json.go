package main

// JSON-in-annotations model (DESIGN.md §2.5).

import (
	"bytes"
	"encoding/json"
	"fmt"
	"strings"
)

type JNode struct {
	kind   string // "obj" "arr" "str" "num" "bool" "null"
	keys   []string
	vals   []*JNode
	scalar *Term
}

// flattenConcat returns the parts of a string term: constants and opaque sub-terms.
func flattenConcat(t *Term) []*Term {
	if t.op == "str.++" {
		var out []*Term
		for _, a := range t.args {
			out = append(out, flattenConcat(a)...)
		}
		return out
	}
	return []*Term{t}
}

// jsonSkeleton renders a (partly symbolic) JSON text with markers for the symbolic parts.
func jsonSkeleton(t *Term) (string, []*Term) {
	parts := flattenConcat(t)
	var sb strings.Builder
	var holes []*Term
	inStr := false
	esc := false
	for _, p := range parts {
		if p.op == "c" {
			for i := 0; i < len(p.s); i++ {
				c := p.s[i]
				if inStr {
					if esc {
						esc = false
					} else if c == '\\' {
						esc = true
					} else if c == '"' {
						inStr = false
					}
				} else if c == '"' {
					inStr = true
				}
			}
			sb.WriteString(p.s)
			continue
		}
		idx := len(holes)
		holes = append(holes, p)
		if inStr {
			fmt.Fprintf(&sb, "@@H%d@@", idx)
		} else {
			fmt.Fprintf(&sb, "\"@@B%d@@\"", idx)
		}
	}
	return sb.String(), holes
}

// markerTerm rebuilds the term of a JSON string value that may contain hole markers.
func markerTerm(s string, holes []*Term) *Term {
	var r *Term = mkStr("")
	for {
		i := strings.Index(s, "@@")
		if i < 0 {
			return mkConcat(r, mkStr(s))
		}
		j := strings.Index(s[i+2:], "@@")
		if j < 0 {
			return mkConcat(r, mkStr(s))
		}
		tag := s[i+2 : i+2+j]
		var idx int
		if _, err := fmt.Sscanf(tag[1:], "%d", &idx); err != nil || idx >= len(holes) || (tag[0] != 'H' && tag[0] != 'B') {
			r = mkConcat(r, mkStr(s[:i+2]))
			s = s[i+2:]
			continue
		}
		r = mkConcat(r, mkStr(s[:i]))
		r = mkConcat(r, holes[idx])
		s = s[i+2+j+2:]
	}
}

func parseJSONText(text string) (interface{}, error) {
	d := json.NewDecoder(bytes.NewReader([]byte(text)))
	d.UseNumber()
	var v interface{}
	if err := d.Decode(&v); err != nil {
		return nil, err
	}
	return v, nil
}

// icJSONGet implements verifrt.JSONGet(doc, path...) (string, bool).
func icJSONGet(ex *Exec, fr *frame, fn *ssaFunction, args []Value, pos tokenPos) Value {
	doc := asTerm(args[0])
	var path []string
	for _, p := range ex.sliceElems(args[1].(SliceV)) {
		path = append(path, constStr(ex, p, "JSONGet path element"))
	}
	if tok, ok := ex.jsonTok[doc]; ok {
		n := tok
		for _, p := range path {
			if n.kind == "obj" {
				found := false
				for i, k := range n.keys {
					if k == p {
						n = n.vals[i]
						found = true
						break
					}
				}
				if !found {
					return TupleV{mkStr(""), tFalse}
				}
				continue
			}
			if n.kind == "arr" {
				var i int
				if _, err := fmt.Sscanf(p, "%d", &i); err != nil || i < 0 || i >= len(n.vals) {
					return TupleV{mkStr(""), tFalse}
				}
				n = n.vals[i]
				continue
			}
			return TupleV{mkStr(""), tFalse}
		}
		switch n.kind {
		case "str":
			return TupleV{n.scalar, tTrue}
		case "num":
			return TupleV{mkFromInt(n.scalar), tTrue}
		case "bool":
			return TupleV{mkIte(n.scalar, mkStr("true"), mkStr("false")), tTrue}
		case "null":
			return TupleV{mkStr("null"), tTrue}
		case "obj":
			return TupleV{mkStr("{...}"), tTrue}
		}
		return TupleV{mkStr("[...]"), tTrue}
	}
	text, holes := jsonSkeleton(doc)
	v, err := parseJSONText(text)
	if err != nil {
		if len(holes) > 0 {
			ex.unsupported("JSONGet: cannot parse JSON skeleton: " + trunc(text, 200))
		}
		return TupleV{mkStr(""), tFalse}
	}
	for _, p := range path {
		switch x := v.(type) {
		case map[string]interface{}:
			y, ok := x[p]
			if !ok {
				return TupleV{mkStr(""), tFalse}
			}
			v = y
		case []interface{}:
			var i int
			if _, err := fmt.Sscanf(p, "%d", &i); err != nil || i < 0 || i >= len(x) {
				return TupleV{mkStr(""), tFalse}
			}
			v = x[i]
		default:
			return TupleV{mkStr(""), tFalse}
		}
	}
	switch x := v.(type) {
	case string:
		return TupleV{markerTerm(x, holes), tTrue}
	case json.Number:
		return TupleV{mkStr(x.String()), tTrue}
	case bool:
		return TupleV{mkStr(fmt.Sprint(x)), tTrue}
	case nil:
		return TupleV{mkStr("null"), tTrue}
	case map[string]interface{}:
		return TupleV{mkStr("{...}"), tTrue}
	}
	return TupleV{mkStr("[...]"), tTrue}
}
