package main

// JSON-in-annotations model (DESIGN.md §2.5).

import (
	"bytes"
	"encoding/json"
	"fmt"
	"go/types"
	"strconv"
	"strings"
)

type JNode struct {
	kind     string // "obj" "arr" "str" "num" "bool" "null" | "float" "intstr" "time" "raw"
	keyTerms []*Term
	vals     []*JNode
	scalar   *Term
	raw      Value
	typ      types.Type
}

// flattenConcat returns the parts of a string term: constants and opaque sub-terms.
func flattenConcat(t *Term) []*Term {
	if t.op == "str.++" {
		var out []*Term
		for _, a := range t.args {
			out = append(out, flattenConcat(a)...)
		}
		return out
	}
	return []*Term{t}
}

// jsonSkeleton renders a (partly symbolic) JSON text with markers for the symbolic parts.
func jsonSkeleton(t *Term) (string, []*Term) {
	parts := flattenConcat(t)
	var sb strings.Builder
	var holes []*Term
	inStr := false
	esc := false
	for _, p := range parts {
		if p.op == "c" {
			for i := 0; i < len(p.s); i++ {
				c := p.s[i]
				if inStr {
					if esc {
						esc = false
					} else if c == '\\' {
						esc = true
					} else if c == '"' {
						inStr = false
					}
				} else if c == '"' {
					inStr = true
				}
			}
			sb.WriteString(p.s)
			continue
		}
		idx := len(holes)
		holes = append(holes, p)
		if inStr {
			fmt.Fprintf(&sb, "@@H%d@@", idx)
		} else {
			fmt.Fprintf(&sb, "\"@@B%d@@\"", idx)
		}
	}
	return sb.String(), holes
}

// markerTerm rebuilds the term of a JSON string value that may contain hole markers.
func markerTerm(s string, holes []*Term) *Term {
	var r *Term = mkStr("")
	for {
		i := strings.Index(s, "@@")
		if i < 0 {
			return mkConcat(r, mkStr(s))
		}
		j := strings.Index(s[i+2:], "@@")
		if j < 0 {
			return mkConcat(r, mkStr(s))
		}
		tag := s[i+2 : i+2+j]
		var idx int
		if _, err := fmt.Sscanf(tag[1:], "%d", &idx); err != nil || idx >= len(holes) || (tag[0] != 'H' && tag[0] != 'B') {
			r = mkConcat(r, mkStr(s[:i+2]))
			s = s[i+2:]
			continue
		}
		r = mkConcat(r, mkStr(s[:i]))
		r = mkConcat(r, holes[idx])
		s = s[i+2+j+2:]
		_ = tag
	}
}

func parseJSONText(text string) (interface{}, error) {
	d := json.NewDecoder(bytes.NewReader([]byte(text)))
	d.UseNumber()
	var v interface{}
	if err := d.Decode(&v); err != nil {
		return nil, err
	}
	return v, nil
}

// jsonGetNode walks a JSON tree of the value model.
func (ex *Exec) jsonGetNode(n *JNode, path []string) Value {
	for _, p := range path {
		if n.kind == "obj" {
			found := false
			for i, k := range n.keyTerms {
				if k.op == "c" && k.s == p {
					n = n.vals[i]
					found = true
					break
				}
			}
			if !found {
				return TupleV{mkStr(""), tFalse}
			}
			continue
		}
		if n.kind == "arr" {
			var i int
			if _, err := fmt.Sscanf(p, "%d", &i); err != nil || i < 0 || i >= len(n.vals) {
				return TupleV{mkStr(""), tFalse}
			}
			n = n.vals[i]
			continue
		}
		return TupleV{mkStr(""), tFalse}
	}
	switch n.kind {
	case "intstr":
		sv := n.vals[0].raw.(StructV)
		return TupleV{mkIte(mkEq(asTerm(sv.fields[0]), mkInt(0)), mkFromInt(asTerm(sv.fields[1])), asTerm(sv.fields[2])), tTrue}
	case "str":
		return TupleV{n.scalar, tTrue}
	case "num":
		return TupleV{mkFromInt(n.scalar), tTrue}
	case "float":
		if fv, ok := n.raw.(FloatV); ok {
			if it, ok := fv.intTerm(); ok {
				return TupleV{mkFromInt(it), tTrue}
			}
			if b, err := json.Marshal(fv.f); err == nil {
				return TupleV{mkStr(string(b)), tTrue}
			}
			return TupleV{mkStr(strconv.FormatFloat(fv.f, 'g', -1, 64)), tTrue}
		}
	case "bool":
		return TupleV{mkIte(n.scalar, mkStr("true"), mkStr("false")), tTrue}
	case "null":
		return TupleV{mkStr("null"), tTrue}
	case "obj":
		return TupleV{mkStr("{...}"), tTrue}
	}
	return TupleV{mkStr("[...]"), tTrue}
}

// icJSONGet implements verifrt.JSONGet(doc, path...) (string, bool).
func icJSONGet(ex *Exec, fr *frame, fn *ssaFunction, args []Value, pos tokenPos) Value {
	doc := asTerm(args[0])
	var path []string
	for _, p := range ex.sliceElems(args[1].(SliceV)) {
		path = append(path, constStr(ex, p, "JSONGet path element"))
	}
	if tok, ok := ex.jsonTok[doc]; ok {
		return ex.jsonGetNode(tok, path)
	}
	text, holes := jsonSkeleton(doc)
	v, err := parseJSONText(text)
	if err != nil {
		if len(holes) > 0 {
			ex.unsupported("JSONGet: cannot parse JSON skeleton: " + trunc(text, 200))
		}
		return TupleV{mkStr(""), tFalse}
	}
	for pi, p := range path {
		if str, ok := v.(string); ok && strings.HasPrefix(str, "@@B") && strings.HasSuffix(str, "@@") {
			// a bare hole in value position: when it is a JSON token of the value model, continue inside its tree
			var idx int
			if _, err := fmt.Sscanf(str[3:len(str)-2], "%d", &idx); err == nil && idx < len(holes) {
				if tok, ok := ex.jsonTok[holes[idx]]; ok {
					return ex.jsonGetNode(tok, path[pi:])
				}
			}
		}
		switch x := v.(type) {
		case map[string]interface{}:
			y, ok := x[p]
			if !ok {
				return TupleV{mkStr(""), tFalse}
			}
			v = y
		case []interface{}:
			var i int
			if _, err := fmt.Sscanf(p, "%d", &i); err != nil || i < 0 || i >= len(x) {
				return TupleV{mkStr(""), tFalse}
			}
			v = x[i]
		default:
			return TupleV{mkStr(""), tFalse}
		}
	}
	switch x := v.(type) {
	case string:
		mt := markerTerm(x, holes)
		if orig, ok := ex.jsonEsc[mt]; ok {
			mt = orig
		}
		return TupleV{mt, tTrue}
	case json.Number:
		return TupleV{mkStr(x.String()), tTrue}
	case bool:
		return TupleV{mkStr(fmt.Sprint(x)), tTrue}
	case nil:
		return TupleV{mkStr("null"), tTrue}
	case map[string]interface{}:
		return TupleV{mkStr("{...}"), tTrue}
	}
	return TupleV{mkStr("[...]"), tTrue}
}

// ---------------------------------------------------------------------------
// json.Marshal / json.Unmarshal over the value model
// ---------------------------------------------------------------------------

// JNode extensions: keyTerms parallel to vals for "obj"; special kinds "intstr", "time", "float".
type jsonField struct {
	name      string
	omitempty bool
	index     int
	embedded  bool
	typ       types.Type
	asString  bool
}

func parseTag(tag string) (name string, omitempty, skip, asString bool) {
	st := reflectStructTag(tag)
	if st == "-" {
		return "", false, true, false
	}
	parts := strings.Split(st, ",")
	name = parts[0]
	for _, p := range parts[1:] {
		if p == "omitempty" {
			omitempty = true
		}
		if p == "string" {
			asString = true
		}
		if p == "inline" {
		}
	}
	return
}

func reflectStructTag(tag string) string {
	// minimal struct tag lookup for key "json"
	for tag != "" {
		i := 0
		for i < len(tag) && tag[i] == ' ' {
			i++
		}
		tag = tag[i:]
		if tag == "" {
			break
		}
		i = 0
		for i < len(tag) && tag[i] > ' ' && tag[i] != ':' && tag[i] != '"' {
			i++
		}
		if i == 0 || i+1 >= len(tag) || tag[i] != ':' || tag[i+1] != '"' {
			break
		}
		name := tag[:i]
		tag = tag[i+1:]
		i = 1
		for i < len(tag) && tag[i] != '"' {
			if tag[i] == '\\' {
				i++
			}
			i++
		}
		if i >= len(tag) {
			break
		}
		q := tag[:i+1]
		tag = tag[i+1:]
		if name == "json" {
			return q[1 : len(q)-1]
		}
	}
	return ""
}

func jsonFields(st *types.Struct) []jsonField {
	var out []jsonField
	for i := 0; i < st.NumFields(); i++ {
		f := st.Field(i)
		name, omit, skip, asStr := parseTag(st.Tag(i))
		if skip {
			continue
		}
		if !f.Exported() && !f.Embedded() {
			continue
		}
		if f.Embedded() && name == "" {
			out = append(out, jsonField{index: i, embedded: true, typ: f.Type()})
			continue
		}
		if name == "" {
			name = f.Name()
		}
		out = append(out, jsonField{name: name, omitempty: omit, index: i, typ: f.Type(), asString: asStr})
	}
	return out
}

func namedPath(t types.Type) string {
	if n, ok := t.(*types.Named); ok && n.Obj().Pkg() != nil {
		return n.Obj().Pkg().Path() + "." + n.Obj().Name()
	}
	return ""
}

func (ex *Exec) hasMethod(t types.Type, name string) bool {
	if ex.prog.MethodSets.MethodSet(t).Lookup(nil, name) != nil {
		return true
	}
	if _, ok := t.(*types.Pointer); !ok {
		return ex.prog.MethodSets.MethodSet(types.NewPointer(t)).Lookup(nil, name) != nil
	}
	return false
}

func (ex *Exec) jsonEncode(v Value, t types.Type, depth int) *JNode {
	if depth > 80 {
		ex.unsupported("json encode depth")
	}
	switch namedPath(t) {
	case "k8s.io/apimachinery/pkg/util/intstr.IntOrString":
		return &JNode{kind: "intstr", vals: []*JNode{{kind: "raw", raw: v}}}
	case "k8s.io/apimachinery/pkg/apis/meta/v1.Time", "k8s.io/apimachinery/pkg/apis/meta/v1.MicroTime", "time.Time":
		return &JNode{kind: "time", vals: []*JNode{{kind: "raw", raw: v}}, typ: t}
	case "k8s.io/apimachinery/pkg/apis/meta/v1.Duration":
		return &JNode{kind: "time", vals: []*JNode{{kind: "raw", raw: v}}, typ: t}
	}
	if namedPath(t) == "k8s.io/apimachinery/pkg/apis/meta/v1/unstructured.Unstructured" {
		// Unstructured.MarshalJSON encodes the content map
		return ex.jsonEncode(v.(StructV).fields[0], tyMapStrIface, depth+1)
	}
	if np := namedPath(t); np != "" && ex.hasMethod(t, "MarshalJSON") {
		if strings.HasPrefix(np, repoMod+"/") {
			return ex.jsonEncodeViaMethod(v, t)
		}
		ex.unsupported("json.Marshal of type with custom MarshalJSON: " + np)
	}
	switch u := t.Underlying().(type) {
	case *types.Basic:
		info := u.Info()
		switch {
		case info&types.IsString != 0:
			return &JNode{kind: "str", scalar: asTerm(v)}
		case info&types.IsBoolean != 0:
			return &JNode{kind: "bool", scalar: asTerm(v)}
		case info&types.IsInteger != 0:
			return &JNode{kind: "num", scalar: asTerm(v)}
		case info&types.IsFloat != 0:
			if fv, ok := v.(FloatV); ok && fv.it != nil {
				return &JNode{kind: "num", scalar: fv.it}
			}
			return &JNode{kind: "float", raw: v}
		}
	case *types.Pointer:
		p := v.(PtrV)
		if p.c == nil {
			return &JNode{kind: "null"}
		}
		return ex.jsonEncode(ex.load(p.c), u.Elem(), depth+1)
	case *types.Interface:
		iv := v.(IfaceV)
		if iv.t == nil {
			return &JNode{kind: "null"}
		}
		return ex.jsonEncode(iv.v, iv.t, depth+1)
	case *types.Struct:
		n := &JNode{kind: "obj"}
		ex.jsonEncodeStruct(n, v.(StructV), u, depth)
		return n
	case *types.Slice:
		s := v.(SliceV)
		if nilv, _ := isNilValue(s); nilv {
			return &JNode{kind: "null"}
		}
		if s.str != nil {
			ex.unsupported("json.Marshal of []byte")
		}
		if b, ok := u.Elem().Underlying().(*types.Basic); ok && b.Kind() == types.Uint8 && s.len > 0 {
			ex.unsupported("json.Marshal of []byte")
		}
		n := &JNode{kind: "arr"}
		for i := 0; i < s.len; i++ {
			n.vals = append(n.vals, ex.jsonEncode(ex.load(s.arr.subs[s.off+i]), u.Elem(), depth+1))
		}
		return n
	case *types.Array:
		a := v.(ArrayV)
		n := &JNode{kind: "arr"}
		for _, e := range a.elems {
			n.vals = append(n.vals, ex.jsonEncode(e, u.Elem(), depth+1))
		}
		return n
	case *types.Map:
		m := v.(MapV)
		if m.m == nil {
			return &JNode{kind: "null"}
		}
		if !isString(u.Key()) {
			ex.unsupported("json.Marshal of map with non-string keys")
		}
		n := &JNode{kind: "obj"}
		for i, k := range m.m.keys {
			n.keyTerms = append(n.keyTerms, asTerm(k))
			n.vals = append(n.vals, ex.jsonEncode(m.m.vals[i], u.Elem(), depth+1))
		}
		return n
	}
	ex.unsupported("json.Marshal of " + t.String())
	return nil
}

func (ex *Exec) jsonEncodeStruct(n *JNode, sv StructV, st *types.Struct, depth int) {
	for _, f := range jsonFields(st) {
		fv := sv.fields[f.index]
		if f.embedded {
			ft := f.typ
			if p, ok := ft.Underlying().(*types.Pointer); ok {
				pv := fv.(PtrV)
				if pv.c == nil {
					continue
				}
				fv = ex.load(pv.c)
				ft = p.Elem()
			}
			if est, ok := ft.Underlying().(*types.Struct); ok && !ex.hasMethod(ft, "MarshalJSON") {
				ex.jsonEncodeStruct(n, fv.(StructV), est, depth+1)
				continue
			}
			// embedded non-struct or custom marshaler: encoded under its type name
			f.name = ft.(*types.Named).Obj().Name()
		}
		if f.omitempty {
			if z, known := ex.isEmptyJSON(fv); known && z {
				continue
			}
		}
		n.keyTerms = append(n.keyTerms, mkStr(f.name))
		n.vals = append(n.vals, ex.jsonEncode(fv, f.typ, depth+1))
	}
}

// isEmptyJSON: encoding/json's omitempty emptiness, when it is concretely known.
func (ex *Exec) isEmptyJSON(v Value) (bool, bool) {
	switch x := v.(type) {
	case *Term:
		if x.op != "c" {
			return false, false
		}
		switch x.sort {
		case SBool:
			return !x.b, true
		case SInt:
			return x.i.Sign() == 0, true
		default:
			return x.s == "", true
		}
	case FloatV:
		if x.it != nil {
			if k, ok := x.it.constInt(); ok {
				return k == 0, true
			}
			return false, false
		}
		return x.f == 0, true
	case PtrV:
		return x.c == nil, true
	case IfaceV:
		return x.t == nil, true
	case SliceV:
		if x.str != nil {
			return false, false
		}
		return x.len == 0, true
	case MapV:
		return x.m == nil || len(x.m.keys) == 0, true
	}
	return false, true
}

func (ex *Exec) newToken(n *JNode) *Term {
	if ex.nestedMarshal > 0 {
		// the result of a json.Marshal made inside a MarshalJSON method: consumed by jsonEncodeViaMethod as the node it
		// stands for, never seen as a string by the solver
		ex.symSeq++
		t := mkVar(fmt.Sprintf("json!nested!%d", ex.symSeq), SStr)
		ex.jsonTok[t] = n
		return t
	}
	t := ex.fresh("json", SStr)
	ex.solver.Send(fmt.Sprintf("(assert (>= (str.len %s) 2))", smtSym(t.s)))
	ex.jsonTok[t] = n
	return t
}

// jsonMarshalErr carries the error a custom MarshalJSON returned up to the json.Marshal call that triggered it.
type jsonMarshalErr struct{ err Value }

func icJSONMarshal(ex *Exec, fr *frame, fn *ssaFunction, args []Value, pos tokenPos) (result Value) {
	iv := args[0].(IfaceV)
	var n *JNode
	if iv.t == nil {
		n = &JNode{kind: "null"}
	} else {
		depth := ex.depth
		nested := ex.nestedMarshal
		stack := len(ex.callStack)
		defer func() {
			if r := recover(); r != nil {
				if me, ok := r.(jsonMarshalErr); ok {
					ex.nestedMarshal = nested
					ex.depth = depth
					ex.callStack = ex.callStack[:stack]
					result = TupleV{SliceV{}, me.err}
					return
				}
				panic(r)
			}
		}()
		n = ex.jsonEncode(iv.v, iv.t, 0)
	}
	return TupleV{SliceV{str: ex.newToken(n)}, IfaceV{}}
}

// jsonEncodeViaMethod: a repository type with its own MarshalJSON is encoded by running that method from its SSA; the
// bytes it returns are a token of the value model (the result of a nested json.Marshal) or constant text.
func (ex *Exec) jsonEncodeViaMethod(v Value, t types.Type) *JNode {
	sel := ex.prog.MethodSets.MethodSet(t).Lookup(nil, "MarshalJSON")
	recv := v
	if sel == nil {
		ex.unsupported("json.Marshal: MarshalJSON with a pointer receiver on a non-addressable " + t.String())
	}
	m := ex.prog.MethodValue(sel)
	if m == nil {
		ex.unsupported("json.Marshal: no body for MarshalJSON of " + t.String())
	}
	ex.nestedMarshal++
	out := ex.callFunction(m, []Value{recv}, nil)
	ex.nestedMarshal--
	res, ok := out.(TupleV)
	if !ok || len(res) != 2 {
		ex.unsupported("json.Marshal: unexpected MarshalJSON result")
	}
	if e, isI := res[1].(IfaceV); isI && e.t != nil {
		panic(jsonMarshalErr{res[1]})
	}
	data, ok := res[0].(SliceV)
	if !ok {
		ex.unsupported("json.Marshal: MarshalJSON returned no bytes")
	}
	if data.str != nil {
		if n, isTok := ex.jsonTok[data.str]; isTok {
			return n
		}
		if data.str.op == "c" {
			g, err := parseJSONText(data.str.s)
			if err != nil {
				ex.unsupported("json.Marshal: MarshalJSON returned invalid JSON text")
			}
			return genericToJNode(g)
		}
	}
	ex.unsupported("json.Marshal: MarshalJSON returned bytes the value model cannot follow")
	return nil
}

// genericToJNode converts a natively parsed JSON document into a node with constant leaves.
func genericToJNode(v interface{}) *JNode {
	switch x := v.(type) {
	case nil:
		return &JNode{kind: "null"}
	case bool:
		return &JNode{kind: "bool", scalar: mkBool(x)}
	case string:
		return &JNode{kind: "str", scalar: mkStr(x)}
	case json.Number:
		if i, err := x.Int64(); err == nil {
			return &JNode{kind: "num", scalar: mkInt(i)}
		}
		f, _ := x.Float64()
		return &JNode{kind: "float", raw: FloatV{f: f}}
	case []interface{}:
		n := &JNode{kind: "arr"}
		for _, e := range x {
			n.vals = append(n.vals, genericToJNode(e))
		}
		return n
	case map[string]interface{}:
		n := &JNode{kind: "obj"}
		keys := make([]string, 0, len(x))
		for k := range x {
			keys = append(keys, k)
		}
		sortStrings(keys)
		for _, k := range keys {
			n.keyTerms = append(n.keyTerms, mkStr(k))
			n.vals = append(n.vals, genericToJNode(x[k]))
		}
		return n
	}
	return &JNode{kind: "null"}
}

func sortStrings(s []string) {
	for i := 1; i < len(s); i++ {
		for j := i; j > 0 && s[j] < s[j-1]; j-- {
			s[j], s[j-1] = s[j-1], s[j]
		}
	}
}

type jsonDecodeError struct{ msg string }

// nodeOfString finds the JSON structure of a string term: registered token, constant text, or a format skeleton.
func (ex *Exec) nodeOfString(t *Term) (*JNode, bool, string) {
	if n, ok := ex.jsonTok[t]; ok {
		return n, true, ""
	}
	if t.op == "c" {
		v, err := parseJSONText(t.s)
		if err != nil {
			return nil, true, err.Error()
		}
		return genericToJNode(v), true, ""
	}
	return nil, false, ""
}

func icJSONUnmarshal(ex *Exec, fr *frame, fn *ssaFunction, args []Value, pos tokenPos) Value {
	data := args[0].(SliceV)
	if data.str == nil {
		if data.len == 0 {
			return ex.newError(mkStr("unexpected end of JSON input"))
		}
		ex.unsupported("json.Unmarshal of concrete byte slice")
	}
	target := args[1].(IfaceV)
	if target.t == nil {
		return ex.newError(mkStr("json: Unmarshal(nil)"))
	}
	pt, ok := target.t.Underlying().(*types.Pointer)
	if !ok {
		return ex.newError(mkStr("json: Unmarshal(non-pointer)"))
	}
	p := target.v.(PtrV)
	if p.c == nil {
		return ex.newError(mkStr("json: Unmarshal(nil pointer)"))
	}
	n, known, perr := ex.nodeOfString(data.str)
	if !known {
		ex.unsupported("json.Unmarshal of a symbolic string that is not a registered JSON token: " + trunc(data.str.SMT(), 120))
	}
	if perr != "" {
		return ex.newError(mkStr(perr))
	}
	if e := ex.jsonDecodeInto(n, pt.Elem(), p.c, 0); e != nil {
		return ex.newError(mkStr(e.msg))
	}
	return IfaceV{}
}

func (ex *Exec) jsonDecodeInto(n *JNode, t types.Type, c *Cell, depth int) *jsonDecodeError {
	if depth > 80 {
		ex.unsupported("json decode depth")
	}
	switch namedPath(t) {
	case "k8s.io/apimachinery/pkg/util/intstr.IntOrString":
		switch n.kind {
		case "intstr":
			ex.store(c, n.vals[0].raw)
		case "num":
			ex.store(c.subs[0], mkInt(0))
			ex.store(c.subs[1], mkWrap(n.scalar, 32, true))
			ex.store(c.subs[2], mkStr(""))
		case "str":
			ex.store(c.subs[0], mkInt(1))
			ex.store(c.subs[1], mkInt(0))
			ex.store(c.subs[2], n.scalar)
		case "null":
		default:
			return &jsonDecodeError{"json: cannot unmarshal " + n.kind + " into IntOrString"}
		}
		return nil
	case "k8s.io/apimachinery/pkg/apis/meta/v1.Time", "k8s.io/apimachinery/pkg/apis/meta/v1.MicroTime", "time.Time", "k8s.io/apimachinery/pkg/apis/meta/v1.Duration":
		switch n.kind {
		case "time":
			if !types.Identical(n.typ, t) {
				ex.unsupported("json: time value decoded into a different time type")
			}
			ex.store(c, n.vals[0].raw)
		case "null":
		default:
			ex.unsupported("json: decoding " + n.kind + " into " + t.String())
		}
		return nil
	}
	if namedPath(t) == "k8s.io/apimachinery/pkg/apis/meta/v1/unstructured.Unstructured" {
		// Unstructured.UnmarshalJSON: the document becomes the content map (Object map[string]interface{}); a
		// document that is not an object is an error in the real decoder too
		if n.kind != "obj" && n.kind != "null" {
			return &jsonDecodeError{"json: cannot unmarshal " + n.kind + " into Unstructured"}
		}
		if len(c.subs) != 1 {
			ex.unsupported("unexpected layout of unstructured.Unstructured")
		}
		return ex.jsonDecodeInto(n, c.subs[0].typ, c.subs[0], depth+1)
	}
	if np := namedPath(t); np != "" && ex.hasMethod(t, "UnmarshalJSON") {
		ex.unsupported("json.Unmarshal into type with custom UnmarshalJSON: " + np)
	}
	if n.kind == "null" {
		switch t.Underlying().(type) {
		case *types.Pointer, *types.Slice, *types.Map, *types.Interface:
			ex.store(c, ex.zero(t))
		}
		return nil
	}
	switch u := t.Underlying().(type) {
	case *types.Basic:
		info := u.Info()
		switch {
		case info&types.IsString != 0:
			if n.kind != "str" {
				return &jsonDecodeError{"json: cannot unmarshal " + n.kind + " into Go value of type string"}
			}
			ex.store(c, n.scalar)
		case info&types.IsBoolean != 0:
			if n.kind != "bool" {
				return &jsonDecodeError{"json: cannot unmarshal " + n.kind + " into Go value of type bool"}
			}
			ex.store(c, n.scalar)
		case info&types.IsInteger != 0:
			if n.kind != "num" {
				return &jsonDecodeError{"json: cannot unmarshal " + n.kind + " into Go value of integer type"}
			}
			bits, signed, _ := typeBits(t)
			lo, hi := intRange(bits, signed)
			if ex.branch(mkOr(mkLt(n.scalar, mkIntBig(lo)), mkGt(n.scalar, mkIntBig(hi)))) {
				return &jsonDecodeError{"json: number out of range"}
			}
			ex.store(c, mkWrap(n.scalar, bits, signed))
		case info&types.IsFloat != 0:
			switch n.kind {
			case "float":
				ex.store(c, n.raw)
			case "num":
				if k, ok := n.scalar.constInt(); ok {
					ex.store(c, FloatV{f: float64(k)})
				} else {
					ex.unsupported("json: symbolic number into float")
				}
			default:
				return &jsonDecodeError{"json: cannot unmarshal " + n.kind + " into float"}
			}
		default:
			ex.unsupported("json decode into " + t.String())
		}
		return nil
	case *types.Pointer:
		p := ex.load(c).(PtrV)
		if p.c == nil {
			p = PtrV{ex.newCell(u.Elem())}
			ex.store(c, p)
		}
		return ex.jsonDecodeInto(n, u.Elem(), p.c, depth+1)
	case *types.Struct:
		if n.kind != "obj" {
			return &jsonDecodeError{"json: cannot unmarshal " + n.kind + " into Go struct"}
		}
		return ex.jsonDecodeStruct(n, u, c, depth)
	case *types.Slice:
		if n.kind != "arr" {
			return &jsonDecodeError{"json: cannot unmarshal " + n.kind + " into Go slice"}
		}
		arr := ex.newCell(types.NewArray(u.Elem(), int64(len(n.vals))))
		for i, e := range n.vals {
			if err := ex.jsonDecodeInto(e, u.Elem(), arr.subs[i], depth+1); err != nil {
				return err
			}
		}
		ex.store(c, SliceV{arr: arr, len: len(n.vals), cap: len(n.vals), nonNil: true})
		return nil
	case *types.Map:
		if n.kind != "obj" {
			return &jsonDecodeError{"json: cannot unmarshal " + n.kind + " into Go map"}
		}
		m := ex.load(c).(MapV)
		if m.m == nil {
			ex.mapSeq++
			m = MapV{&MapObj{keyT: u.Key(), valT: u.Elem(), id: ex.mapSeq}}
			ex.store(c, m)
		}
		for i, k := range n.keyTerms {
			tmp := ex.newCell(u.Elem())
			if err := ex.jsonDecodeInto(n.vals[i], u.Elem(), tmp, depth+1); err != nil {
				return err
			}
			ex.mapUpdate(m.m, k, ex.load(tmp))
		}
		return nil
	case *types.Interface:
		if u.NumMethods() != 0 {
			return &jsonDecodeError{"json: cannot unmarshal into non-empty interface"}
		}
		ex.store(c, ex.jsonToGeneric(n, depth))
		return nil
	}
	ex.unsupported("json decode into " + t.String())
	return nil
}

var (
	tyMapStrIface = types.NewMap(types.Typ[types.String], types.NewInterfaceType(nil, nil))
	tySliceIface  = types.NewSlice(types.NewInterfaceType(nil, nil))
)

// jsonToGeneric builds the interface{} form (map[string]interface{}, []interface{}, string, float64/int64, bool).
func (ex *Exec) jsonToGeneric(n *JNode, depth int) Value {
	switch n.kind {
	case "null":
		return IfaceV{}
	case "str":
		return IfaceV{t: types.Typ[types.String], v: n.scalar}
	case "bool":
		return IfaceV{t: types.Typ[types.Bool], v: n.scalar}
	case "num":
		// encoding/json decodes numbers into float64; kept as an integer-valued term tagged float64
		if k, ok := n.scalar.constInt(); ok {
			return IfaceV{t: types.Typ[types.Float64], v: FloatV{f: float64(k)}}
		}
		return IfaceV{t: types.Typ[types.Float64], v: FloatV{it: n.scalar}}
	case "float":
		return IfaceV{t: types.Typ[types.Float64], v: n.raw}
	case "arr":
		var es []Value
		for _, e := range n.vals {
			es = append(es, ex.jsonToGeneric(e, depth+1))
		}
		return IfaceV{t: tySliceIface, v: ex.mkSlice(types.NewInterfaceType(nil, nil), es)}
	case "obj":
		ex.mapSeq++
		m := &MapObj{keyT: types.Typ[types.String], valT: types.NewInterfaceType(nil, nil), id: ex.mapSeq}
		for i, k := range n.keyTerms {
			ex.mapUpdate(m, k, ex.jsonToGeneric(n.vals[i], depth+1))
		}
		return IfaceV{t: tyMapStrIface, v: MapV{m}}
	case "intstr":
		sv := n.vals[0].raw.(StructV)
		if ex.branch(mkEq(asTerm(sv.fields[0]), mkInt(0))) {
			return ex.jsonToGeneric(&JNode{kind: "num", scalar: asTerm(sv.fields[1])}, depth)
		}
		return IfaceV{t: types.Typ[types.String], v: sv.fields[2]}
	}
	ex.unsupported("json: " + n.kind + " decoded into interface{}")
	return nil
}

func (ex *Exec) jsonDecodeStruct(n *JNode, st *types.Struct, c *Cell, depth int) *jsonDecodeError {
	fields := jsonFields(st)
	for _, f := range fields {
		if !f.embedded {
			continue
		}
		ft := f.typ
		fc := c.subs[f.index]
		if p, ok := ft.Underlying().(*types.Pointer); ok {
			pv := ex.load(fc).(PtrV)
			if pv.c == nil {
				pv = PtrV{ex.newCell(p.Elem())}
				ex.store(fc, pv)
			}
			fc = pv.c
			ft = p.Elem()
		}
		if est, ok := ft.Underlying().(*types.Struct); ok && !ex.hasMethod(ft, "UnmarshalJSON") {
			if err := ex.jsonDecodeStruct(n, est, fc, depth+1); err != nil {
				return err
			}
		}
	}
	for i, kt := range n.keyTerms {
		if kt.op != "c" {
			ex.unsupported("json: symbolic object key decoded into a struct")
		}
		var hit *jsonField
		for j := range fields {
			if !fields[j].embedded && fields[j].name == kt.s {
				hit = &fields[j]
				break
			}
		}
		if hit == nil {
			for j := range fields {
				if !fields[j].embedded && strings.EqualFold(fields[j].name, kt.s) {
					hit = &fields[j]
					break
				}
			}
		}
		if hit == nil {
			continue
		}
		if err := ex.jsonDecodeInto(n.vals[i], hit.typ, c.subs[hit.index], depth+1); err != nil {
			return err
		}
	}
	return nil
}

// jnodeEq: structural equality of two JSON nodes as a Bool term.
func (ex *Exec) jnodeEq(a, b *JNode) *Term {
	if a.kind != b.kind {
		return tFalse
	}
	switch a.kind {
	case "null":
		return tTrue
	case "str", "num", "bool":
		return mkEq(a.scalar, b.scalar)
	case "float":
		return ex.valEq(a.raw, b.raw)
	case "intstr", "time":
		return ex.valEq(a.vals[0].raw, b.vals[0].raw)
	case "arr":
		if len(a.vals) != len(b.vals) {
			return tFalse
		}
		r := tTrue
		for i := range a.vals {
			r = mkAnd(r, ex.jnodeEq(a.vals[i], b.vals[i]))
		}
		return r
	case "obj":
		if len(a.vals) != len(b.vals) {
			return tFalse
		}
		r := tTrue
		for i := range a.vals {
			var any *Term = tFalse
			for j := range b.vals {
				ke := mkEq(a.keyTerms[i], b.keyTerms[j])
				if ke == tFalse {
					continue
				}
				any = mkOr(any, mkAnd(ke, ex.jnodeEq(a.vals[i], b.vals[j])))
			}
			r = mkAnd(r, any)
		}
		return r
	}
	return tFalse
}

// jsonReplaceNullHolder implements strings.Replace(tok, "\"NULL_HOLDER\"", "null", -1) on a token.
func jsonMapNodes(n *JNode, f func(*JNode) *JNode) *JNode {
	m := f(n)
	if m != n {
		return m
	}
	if len(n.vals) == 0 || n.kind == "intstr" || n.kind == "time" {
		return n
	}
	c := *n
	c.vals = make([]*JNode, len(n.vals))
	for i, v := range n.vals {
		c.vals[i] = jsonMapNodes(v, f)
	}
	return &c
}
