package main

import (
	"fmt"
	"os"

	"golang.org/x/tools/go/packages"
	"golang.org/x/tools/go/ssa"
	"golang.org/x/tools/go/ssa/ssautil"
	_ "github.com/yuin/gopher-lua/parse"
)

func main() {
	cfg := &packages.Config{Mode: packages.LoadAllSyntax, Dir: "/repo", Env: append(os.Environ(), "GOFLAGS=-mod=mod", "GOPROXY=off")}
	pkgs, err := packages.Load(cfg, os.Args[1:]...)
	if err != nil {
		panic(err)
	}
	prog, spkgs := ssautil.AllPackages(pkgs, ssa.InstantiateGenerics)
	_ = prog
	for _, p := range spkgs {
		p.Build()
		fmt.Println(p.Pkg.Path(), len(p.Members))
	}
}
