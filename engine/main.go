package main

import (
	"flag"
	"fmt"
	"os"
	"path/filepath"
	"strconv"
)

func main() {
	repo := flag.String("repo", "/repo", "repository root")
	verif := flag.String("verif", "/verif", "verif root")
	tier := flag.String("tier", "quick", "quick|thorough")
	prop := flag.String("prop", "", "property id, e.g. C01")
	logDir := flag.String("smtlog", "", "directory for SMT logs")
	debug := flag.Bool("debug", false, "debug output")
	solver := flag.String("solver", "z3", "z3|z3-new|cvc5")
	only := flag.String("only", "", "only harnesses whose name contains this")
	budget := flag.Float64("budget", 0, "per-harness wall-clock budget in seconds (0 = tier default)")
	replay := flag.String("replay", "", "replay a recorded counterexample (replays/<...>.json) natively against the current tree")
	flag.Parse()
	if t := os.Getenv("VERIF_TIER"); t == "quick" || t == "thorough" {
		if !flagSet("tier") {
			*tier = t
		}
	}
	seed, _ := strconv.Atoi(os.Getenv("VERIF_SEED"))
	var cfgs map[string]PropConfig
	if err := loadJSON(filepath.Join(*verif, "checks.json"), &cfgs); err != nil {
		fmt.Fprintln(os.Stderr, "checks.json:", err)
		os.Exit(3)
	}
	cfg, ok := cfgs[*prop]
	if !ok {
		fmt.Fprintln(os.Stderr, "unknown property", *prop)
		os.Exit(3)
	}
	var known []KnownFinding
	loadJSON(filepath.Join(*verif, "known_findings.json"), &known)
	outDir := *verif
	if d := os.Getenv("VERIF_OUT"); d != "" {
		// scratch runs (seeded changes on a copy of the repository) keep their evidence and replays out of /verif
		outDir = d
	}
	e := NewEngine(*repo, *verif, *tier)
	e.outDir = outDir
	e.debug = *debug
	e.solverKind = *solver
	e.only = *only
	e.budgetS = *budget
	if e.budgetS == 0 {
		e.budgetS = 900
		if *tier == "thorough" {
			e.budgetS = 3600
		}
	}
	if *logDir != "" {
		os.MkdirAll(*logDir, 0755)
	}
	if err := e.Load(cfg.Pkgs); err != nil {
		fmt.Printf("INCONCLUSIVE property=%s cannot load packages: %v\n", *prop, err)
		os.Exit(3)
	}
	if *replay != "" {
		os.Exit(runReplay(e, *prop, *replay))
	}
	os.Exit(runCheck(e, *prop, cfg, known, seed, *logDir))
}

func flagSet(name string) bool {
	found := false
	flag.Visit(func(f *flag.Flag) {
		if f.Name == name {
			found = true
		}
	})
	return found
}
