package main

// sync.Map: modelled as an ordinary map from interface{} keys to interface{} values attached to the Map's cell
// (single-threaded execution: the interleavings of concurrent workers are not explored, only the sequential
// composition of their critical sections).

import (
	"go/types"

	"golang.org/x/tools/go/ssa"
)

func (ex *Exec) syncMapOf(recv Value, fr *frame, pos tokenPos) *MapObj {
	p := recv.(PtrV)
	if p.c == nil {
		ex.raise(fr, pos, "nil pointer dereference (sync.Map)")
	}
	if ex.syncMaps == nil {
		ex.syncMaps = map[*Cell]*MapObj{}
	}
	m, ok := ex.syncMaps[p.c]
	if !ok {
		ex.mapSeq++
		iface := types.NewInterfaceType(nil, nil)
		m = &MapObj{keyT: iface, valT: iface, id: ex.mapSeq}
		ex.syncMaps[p.c] = m
	}
	return m
}

func init() {
	add := func(name string, f interceptFn) { interceptTable[name] = f }
	add("(*sync.Map).Load", func(ex *Exec, fr *frame, fn *ssa.Function, args []Value, pos tokenPos) Value {
		m := ex.syncMapOf(args[0], fr, pos)
		if i := ex.mapFind(m, args[1]); i >= 0 {
			return TupleV{m.vals[i], tTrue}
		}
		return TupleV{IfaceV{}, tFalse}
	})
	add("(*sync.Map).Store", func(ex *Exec, fr *frame, fn *ssa.Function, args []Value, pos tokenPos) Value {
		ex.mapUpdate(ex.syncMapOf(args[0], fr, pos), args[1], args[2])
		return nil
	})
	add("(*sync.Map).LoadOrStore", func(ex *Exec, fr *frame, fn *ssa.Function, args []Value, pos tokenPos) Value {
		m := ex.syncMapOf(args[0], fr, pos)
		if i := ex.mapFind(m, args[1]); i >= 0 {
			return TupleV{m.vals[i], tTrue}
		}
		m.keys = append(m.keys, args[1])
		m.vals = append(m.vals, args[2])
		return TupleV{args[2], tFalse}
	})
	add("(*sync.Map).Delete", func(ex *Exec, fr *frame, fn *ssa.Function, args []Value, pos tokenPos) Value {
		ex.mapDelete(ex.syncMapOf(args[0], fr, pos), args[1])
		return nil
	})
	add("(*sync.Map).LoadAndDelete", func(ex *Exec, fr *frame, fn *ssa.Function, args []Value, pos tokenPos) Value {
		m := ex.syncMapOf(args[0], fr, pos)
		if i := ex.mapFind(m, args[1]); i >= 0 {
			v := m.vals[i]
			m.keys = append(m.keys[:i:i], m.keys[i+1:]...)
			m.vals = append(m.vals[:i:i], m.vals[i+1:]...)
			return TupleV{v, tTrue}
		}
		return TupleV{IfaceV{}, tFalse}
	})
}
