package main

// sync.Map: modelled as an ordinary map from interface{} keys to interface{} values attached to the Map's cell
// (single-threaded execution: the interleavings of concurrent workers are not explored, only the sequential
// composition of their critical sections).

import (
	"go/types"

	"golang.org/x/tools/go/ssa"
)

func (ex *Exec) syncMapOf(recv Value, fr *frame, pos tokenPos) *MapObj {
	p := recv.(PtrV)
	if p.c == nil {
		ex.raise(fr, pos, "nil pointer dereference (sync.Map)")
	}
	if ex.syncMaps == nil {
		ex.syncMaps = map[*Cell]*MapObj{}
	}
	m, ok := ex.syncMaps[p.c]
	if !ok {
		ex.mapSeq++
		iface := types.NewInterfaceType(nil, nil)
		m = &MapObj{keyT: iface, valT: iface, id: ex.mapSeq}
		ex.syncMaps[p.c] = m
	}
	return m
}

func init() {
	add := func(name string, f interceptFn) { interceptTable[name] = f }
	add("(*sync.Map).Load", func(ex *Exec, fr *frame, fn *ssa.Function, args []Value, pos tokenPos) Value {
		m := ex.syncMapOf(args[0], fr, pos)
		if i := ex.mapFind(m, args[1]); i >= 0 {
			return TupleV{m.vals[i], tTrue}
		}
		return TupleV{IfaceV{}, tFalse}
	})
	add("(*sync.Map).Store", func(ex *Exec, fr *frame, fn *ssa.Function, args []Value, pos tokenPos) Value {
		ex.mapUpdate(ex.syncMapOf(args[0], fr, pos), args[1], args[2])
		return nil
	})
	add("(*sync.Map).LoadOrStore", func(ex *Exec, fr *frame, fn *ssa.Function, args []Value, pos tokenPos) Value {
		m := ex.syncMapOf(args[0], fr, pos)
		if i := ex.mapFind(m, args[1]); i >= 0 {
			return TupleV{m.vals[i], tTrue}
		}
		m.keys = append(m.keys, args[1])
		m.vals = append(m.vals, args[2])
		return TupleV{args[2], tFalse}
	})
	add("(*sync.Map).Delete", func(ex *Exec, fr *frame, fn *ssa.Function, args []Value, pos tokenPos) Value {
		ex.mapDelete(ex.syncMapOf(args[0], fr, pos), args[1])
		return nil
	})
	add("(*sync.Map).LoadAndDelete", func(ex *Exec, fr *frame, fn *ssa.Function, args []Value, pos tokenPos) Value {
		m := ex.syncMapOf(args[0], fr, pos)
		if i := ex.mapFind(m, args[1]); i >= 0 {
			v := m.vals[i]
			m.keys = append(m.keys[:i:i], m.keys[i+1:]...)
			m.vals = append(m.vals[:i:i], m.vals[i+1:]...)
			return TupleV{v, tTrue}
		}
		return TupleV{IfaceV{}, tFalse}
	})
}

// metav1.LabelSelectorAsSelector: the selector only travels to the API server stand-in (which returns what the
// harness decides matches); its construction (regexp-validated requirements) is not modelled.  The result is an
// opaque non-nil labels.Selector, nil selector input gives labels.Nothing() — also opaque.
func init() {
	interceptTable["k8s.io/apimachinery/pkg/apis/meta/v1.LabelSelectorAsSelector"] = func(ex *Exec, fr *frame, fn *ssa.Function, args []Value, pos tokenPos) Value {
		t := ex.eng.lookupType("k8s.io/apimachinery/pkg/labels", "internalSelector")
		if t == nil {
			ex.unsupported("labels.internalSelector type not loaded")
		}
		return TupleV{IfaceV{t: t, v: ex.zero(t)}, IfaceV{}}
	}
}

// (*runtime.Scheme).ObjectKinds: the scheme's type registry is reflection-driven; for the typed workload objects the
// controllers handle the answer is the fixed registration of client-go / kruise-api, tabulated here.
var schemeKinds = map[string][3]string{
	"k8s.io/api/apps/v1.Deployment":                               {"apps", "v1", "Deployment"},
	"k8s.io/api/apps/v1.StatefulSet":                              {"apps", "v1", "StatefulSet"},
	"k8s.io/api/apps/v1.ReplicaSet":                               {"apps", "v1", "ReplicaSet"},
	"k8s.io/api/apps/v1.DaemonSet":                                {"apps", "v1", "DaemonSet"},
	"github.com/openkruise/kruise-api/apps/v1alpha1.CloneSet":     {"apps.kruise.io", "v1alpha1", "CloneSet"},
	"github.com/openkruise/kruise-api/apps/v1alpha1.DaemonSet":    {"apps.kruise.io", "v1alpha1", "DaemonSet"},
	"github.com/openkruise/kruise-api/apps/v1beta1.StatefulSet":   {"apps.kruise.io", "v1beta1", "StatefulSet"},
	"github.com/openkruise/rollouts/api/v1beta1.Rollout":          {"rollouts.kruise.io", "v1beta1", "Rollout"},
	"github.com/openkruise/rollouts/api/v1beta1.BatchRelease":     {"rollouts.kruise.io", "v1beta1", "BatchRelease"},
}

func init() {
	interceptTable["(*k8s.io/apimachinery/pkg/runtime.Scheme).ObjectKinds"] = func(ex *Exec, fr *frame, fn *ssa.Function, args []Value, pos tokenPos) Value {
		iv, ok := args[1].(IfaceV)
		if !ok || iv.t == nil {
			ex.unsupported("Scheme.ObjectKinds(nil)")
		}
		pt, ok := iv.t.(*types.Pointer)
		if !ok {
			ex.unsupported("Scheme.ObjectKinds on non-pointer " + iv.t.String())
		}
		nt, ok := pt.Elem().(*types.Named)
		if !ok || nt.Obj().Pkg() == nil {
			ex.unsupported("Scheme.ObjectKinds on " + iv.t.String())
		}
		k, ok := schemeKinds[nt.Obj().Pkg().Path()+"."+nt.Obj().Name()]
		if !ok {
			ex.unsupported("Scheme.ObjectKinds: type not tabulated: " + nt.String())
		}
		gvkT := ex.eng.lookupType("k8s.io/apimachinery/pkg/runtime/schema", "GroupVersionKind")
		if gvkT == nil {
			ex.unsupported("schema.GroupVersionKind type not loaded")
		}
		gvk := StructV{[]Value{mkStr(k[0]), mkStr(k[1]), mkStr(k[2])}}
		return TupleV{ex.mkSlice(gvkT, []Value{gvk}), tFalse, IfaceV{}}
	}
}
