package main

// Intercepted callees: the harness API (verifrt) and the summarised library
// functions of DESIGN.md §4.1.

import (
	"fmt"
	"go/token"
	"go/types"
	"math/big"
	"strconv"
	"strings"

	"golang.org/x/tools/go/ssa"
)

type tokenPos = token.Pos
type ssaFunction = ssa.Function

var pseudoBuiltins = map[string]func(ex *Exec, fr *frame, f FuncV, args []Value, pos tokenPos) Value{}

const rtPkg = repoMod + "/pkg/verifrt"

func (e *Engine) lookupIntercept(fn *ssa.Function, name string) interceptFn {
	if v, ok := e.icCache.Load(fn); ok {
		if v == nil {
			return nil
		}
		return v.(interceptFn)
	}
	ic := e.resolveIntercept(fn, name)
	if ic == nil {
		e.icCache.Store(fn, nil)
	} else {
		e.icCache.Store(fn, ic)
	}
	return ic
}

func pkgPathOf(fn *ssa.Function) string {
	if fn.Pkg != nil {
		return fn.Pkg.Pkg.Path()
	}
	if o := fn.Origin(); o != nil && o.Pkg != nil {
		return o.Pkg.Pkg.Path()
	}
	if obj := fn.Object(); obj != nil && obj.Pkg() != nil {
		return obj.Pkg().Path()
	}
	// synthetic wrappers: derive from receiver / name
	return ""
}

func (e *Engine) resolveIntercept(fn *ssa.Function, name string) interceptFn {
	if ic, ok := interceptTable[name]; ok {
		return ic
	}
	pp := pkgPathOf(fn)
	if deniedPkgs[pp] || strings.HasPrefix(pp, "crypto/") || strings.HasPrefix(pp, "hash/") || strings.HasPrefix(pp, "internal/") {
		return func(ex *Exec, fr *frame, fn *ssa.Function, args []Value, pos tokenPos) Value {
			ex.unsupported("call into un-modelled library function " + fn.String())
			return nil
		}
	}
	switch pp {
	case "k8s.io/klog/v2", "k8s.io/klog":
		return icZero
	case "k8s.io/client-go/tools/record":
		return icZero
	case "log":
		return icZero
	}
	return nil
}

// icZero returns the zero value of the result type (used for logging sinks).
func icZero(ex *Exec, fr *frame, fn *ssa.Function, args []Value, pos tokenPos) Value {
	res := fn.Signature.Results()
	switch res.Len() {
	case 0:
		return nil
	case 1:
		return ex.zero(res.At(0).Type())
	}
	return ex.zero(res)
}

func constStr(ex *Exec, v Value, what string) string {
	t := asTerm(v)
	if t.op != "c" {
		ex.unsupported(what + " must be a constant string")
	}
	return t.s
}

func (ex *Exec) nondet(name string, kind string) *Term {
	ex.occ[name]++
	full := fmt.Sprintf("%s#%d", name, ex.occ[name])
	var t *Term
	switch kind {
	case "bool":
		t = mkVar("n:"+full, SBool)
	case "string":
		t = mkVar("n:"+full, SStr)
	case "int32":
		lo, hi := intRange(32, true)
		t = mkVarBounded("n:"+full, lo, hi)
	default:
		lo, hi := intRange(64, true)
		t = mkVarBounded("n:"+full, lo, hi)
	}
	ex.declare(t)
	ex.nondets = append(ex.nondets, nondetRec{Name: full, T: t, Kind: kind})
	return t
}

func (ex *Exec) assume(c *Term) {
	if c.op == "c" {
		if !c.b {
			ex.prune("assume false")
		}
		return
	}
	if ex.replaying() {
		// this assumption was already found feasible on an earlier path with the same prefix
		ex.assert(c)
		return
	}
	if ex.unitConjFeasible(c) {
		ex.assert(c)
		return
	}
	r := ex.solver.CheckWith(c)
	if r == "unsat" {
		ex.prune("assumption infeasible")
	}
	if r == "unknown" {
		ex.h.noteUnknown("assume feasibility: " + trunc(c.SMT(), 200))
	}
	ex.assert(c)
}

// unitConjFeasible: c is a conjunction of unit literals over independent variables and all of them are feasible.
func (ex *Exec) unitConjFeasible(c *Term) bool {
	var lits []*Term
	var walk func(t *Term) bool
	walk = func(t *Term) bool {
		if t.op == "and" {
			for _, a := range t.args {
				if !walk(a) {
					return false
				}
			}
			return true
		}
		lits = append(lits, t)
		return true
	}
	walk(c)
	seen := map[string]bool{}
	for _, l := range lits {
		u, ok := unitLiteral(l)
		if !ok {
			return false
		}
		d := ex.domOf(u)
		if d.complex {
			return false
		}
		// two literals on the same variable interact: only accept the common IntRange shape lo<=v<=hi
		if seen[u.name] && !(u.op == "<=" || u.op == ">=") {
			return false
		}
		seen[u.name] = true
		if !d.feasible(u) {
			return false
		}
	}
	// bounds pairs lo<=v and v<=hi: check jointly
	for name := range seen {
		d := ex.doms[name]
		if d.isBool {
			continue
		}
		lo, hi := d.lo, d.hi
		for _, l := range lits {
			u, _ := unitLiteral(l)
			if u.name != name {
				continue
			}
			if u.op == "<=" {
				hi = minBig(hi, u.c)
			}
			if u.op == ">=" {
				lo = maxBig(lo, u.c)
			}
		}
		if !d.nonEmpty(lo, hi) {
			return false
		}
	}
	return true
}

// replaying reports whether execution is still inside the decision prefix shared with an earlier path:
// everything met here was already checked when that path ran.
func (ex *Exec) replaying() bool { return ex.pos < len(ex.decisions) }

func (ex *Exec) checkAssert(c *Term, label string, fr *frame, pos tokenPos) {
	h := ex.h
	if ex.replaying() {
		if c.op == "c" && !c.b {
			ex.prune("assertion failed concretely (seen before)")
		}
		ex.assert(c)
		return
	}
	h.stats.Asserts++
	h.assertLabels[label]++
	if c.op == "c" && c.b {
		h.stats.TrivialTrue++
		h.stats.Discharged++
		return
	}
	res, vals, _ := ex.satModel(mkNot(c))
	switch res {
	case "unsat":
		h.stats.Discharged++
	case "sat":
		h.addViolation(&Violation{Harness: h.Name, Kind: "assert", Label: label, Site: ex.site(fr.fn, pos), Values: vals, Path: h.stats.Paths + 1, Stack: lastN(ex.callStack, 6), Notes: append([]string(nil), ex.pathNotes...)})
	default:
		msg := "assertion " + label + ": solver answered unknown"
		dup := false
		for _, m := range h.inconclusive {
			if m == msg {
				dup = true
			}
		}
		if !dup {
			h.inconclusive = append(h.inconclusive, msg)
		}
	}
	// continue under the assumption that the assertion holds
	if c.op == "c" {
		ex.prune("assertion failed concretely")
	}
	if res != "unsat" {
		r := ex.solver.CheckWith(c)
		if r == "unsat" {
			ex.prune("assertion always fails here")
		}
	}
	ex.assert(c)
}

func boolArgs(args []Value) []*Term {
	// variadic bool: args[0] is a slice
	return nil
}

var interceptTable map[string]interceptFn

func init() {
	interceptTable = map[string]interceptFn{
		// ---------------- verifrt ----------------
		rtPkg + ".Symbolic": func(ex *Exec, fr *frame, fn *ssa.Function, args []Value, pos tokenPos) Value { return tTrue },
		rtPkg + ".Bool": func(ex *Exec, fr *frame, fn *ssa.Function, args []Value, pos tokenPos) Value {
			return ex.nondet(constStr(ex, args[0], "nondet name"), "bool")
		},
		rtPkg + ".Int": func(ex *Exec, fr *frame, fn *ssa.Function, args []Value, pos tokenPos) Value {
			return ex.nondet(constStr(ex, args[0], "nondet name"), "int")
		},
		rtPkg + ".Int64": func(ex *Exec, fr *frame, fn *ssa.Function, args []Value, pos tokenPos) Value {
			return ex.nondet(constStr(ex, args[0], "nondet name"), "int64")
		},
		rtPkg + ".Int32": func(ex *Exec, fr *frame, fn *ssa.Function, args []Value, pos tokenPos) Value {
			return ex.nondet(constStr(ex, args[0], "nondet name"), "int32")
		},
		rtPkg + ".String": func(ex *Exec, fr *frame, fn *ssa.Function, args []Value, pos tokenPos) Value {
			return ex.nondet(constStr(ex, args[0], "nondet name"), "string")
		},
		rtPkg + ".IntRange": func(ex *Exec, fr *frame, fn *ssa.Function, args []Value, pos tokenPos) Value {
			t := ex.nondet(constStr(ex, args[0], "nondet name"), "int")
			lo, hi := asTerm(args[1]), asTerm(args[2])
			ex.assume(mkAnd(mkLe(lo, t), mkLe(t, hi)))
			if lo.lo != nil && hi.hi != nil {
				// tighten interval knowledge
				t2 := mkVarBounded(t.s, lo.lo, hi.hi)
				return t2
			}
			return t
		},
		rtPkg + ".Concrete": func(ex *Exec, fr *frame, fn *ssa.Function, args []Value, pos tokenPos) Value {
			return mkInt(int64(ex.concretize(asTerm(args[0]), "verifrt.Concrete")))
		},
		rtPkg + ".Bound": func(ex *Exec, fr *frame, fn *ssa.Function, args []Value, pos tokenPos) Value {
			if ex.eng.tier == "thorough" {
				return args[2]
			}
			return args[1]
		},
		rtPkg + ".Assume": func(ex *Exec, fr *frame, fn *ssa.Function, args []Value, pos tokenPos) Value {
			ex.assume(asTerm(args[0]))
			return nil
		},
		rtPkg + ".Assert": func(ex *Exec, fr *frame, fn *ssa.Function, args []Value, pos tokenPos) Value {
			ex.checkAssert(asTerm(args[0]), constStr(ex, args[1], "assert label"), fr, pos)
			return nil
		},
		rtPkg + ".Fail": func(ex *Exec, fr *frame, fn *ssa.Function, args []Value, pos tokenPos) Value {
			ex.checkAssert(tFalse, constStr(ex, args[0], "fail label"), fr, pos)
			return nil
		},
		rtPkg + ".Cover": func(ex *Exec, fr *frame, fn *ssa.Function, args []Value, pos tokenPos) Value {
			ex.pathCovers = append(ex.pathCovers, constStr(ex, args[0], "cover label"))
			return nil
		},
		rtPkg + ".Observe": func(ex *Exec, fr *frame, fn *ssa.Function, args []Value, pos tokenPos) Value {
			name := constStr(ex, args[0], "observe name")
			iv := args[1].(IfaceV)
			if t, ok := iv.v.(*Term); ok {
				ex.observes = append(ex.observes, observeRec{Name: name, T: t})
			}
			return nil
		},
		rtPkg + ".NoPanic": func(ex *Exec, fr *frame, fn *ssa.Function, args []Value, pos tokenPos) (res Value) {
			f := args[0].(FuncV)
			depth, cs := ex.depth, len(ex.callStack)
			defer func() {
				if r := recover(); r != nil {
					gp, ok := r.(*goPanic)
					if !ok {
						panic(r)
					}
					ex.depth = depth
					ex.callStack = ex.callStack[:cs]
					ex.pathNotes = append(ex.pathNotes, "caught panic: "+gp.msg+" at "+gp.site)
					ex.lastPanic = gp
					res = tTrue
				}
			}()
			ex.callFn(fr, f, nil, pos)
			return tFalse
		},
		rtPkg + ".Stub": func(ex *Exec, fr *frame, fn *ssa.Function, args []Value, pos tokenPos) Value {
			name := constStr(ex, args[0], "stub name")
			f, ok := args[1].(IfaceV).v.(FuncV)
			if !ok {
				ex.unsupported("Stub: second argument must be a function")
			}
			if tf := ex.eng.findFunc(name); tf == nil || tf.String() != name {
				ex.unsupported("Stub: target not found: " + name)
			}
			ex.stubs[name] = f
			return nil
		},
		rtPkg + ".Implies": func(ex *Exec, fr *frame, fn *ssa.Function, args []Value, pos tokenPos) Value {
			return mkImplies(asTerm(args[0]), asTerm(args[1]))
		},
		rtPkg + ".And": func(ex *Exec, fr *frame, fn *ssa.Function, args []Value, pos tokenPos) Value {
			r := tTrue
			for _, a := range ex.sliceElems(args[0].(SliceV)) {
				r = mkAnd(r, asTerm(a))
			}
			return r
		},
		rtPkg + ".Or": func(ex *Exec, fr *frame, fn *ssa.Function, args []Value, pos tokenPos) Value {
			r := tFalse
			for _, a := range ex.sliceElems(args[0].(SliceV)) {
				r = mkOr(r, asTerm(a))
			}
			return r
		},
		rtPkg + ".IteInt": func(ex *Exec, fr *frame, fn *ssa.Function, args []Value, pos tokenPos) Value {
			return mkIte(asTerm(args[0]), asTerm(args[1]), asTerm(args[2]))
		},
		rtPkg + ".IteStr": func(ex *Exec, fr *frame, fn *ssa.Function, args []Value, pos tokenPos) Value {
			return mkIte(asTerm(args[0]), asTerm(args[1]), asTerm(args[2]))
		},
		rtPkg + ".IsNil": func(ex *Exec, fr *frame, fn *ssa.Function, args []Value, pos tokenPos) Value {
			iv := args[0].(IfaceV)
			if iv.t == nil {
				return tTrue
			}
			if n, known := isNilValue(iv.v); known {
				return mkBool(n)
			}
			return tFalse
		},
		rtPkg + ".JSONGet": icJSONGet,
		"encoding/json.Marshal":   icJSONMarshal,
		"encoding/json.Unmarshal": icJSONUnmarshal,
		"k8s.io/apimachinery/pkg/util/json.Marshal":   icJSONMarshal,
		"k8s.io/apimachinery/pkg/util/json.Unmarshal": icJSONUnmarshal,

		// ---------------- fmt / errors ----------------
		"fmt.Sprintf": func(ex *Exec, fr *frame, fn *ssa.Function, args []Value, pos tokenPos) Value {
			return ex.sprintf(asTerm(args[0]), ex.sliceElems(args[1].(SliceV)))
		},
		"fmt.Errorf": func(ex *Exec, fr *frame, fn *ssa.Function, args []Value, pos tokenPos) Value {
			s := ex.sprintf(asTerm(args[0]), ex.sliceElems(args[1].(SliceV)))
			return ex.newError(s)
		},
		"fmt.Sprint": func(ex *Exec, fr *frame, fn *ssa.Function, args []Value, pos tokenPos) Value {
			var r *Term = mkStr("")
			for _, a := range ex.sliceElems(args[0].(SliceV)) {
				r = mkConcat(r, ex.formatValue(a.(IfaceV), 'v'))
			}
			return r
		},
		"fmt.Sprintln": func(ex *Exec, fr *frame, fn *ssa.Function, args []Value, pos tokenPos) Value {
			var r *Term = mkStr("")
			for i, a := range ex.sliceElems(args[0].(SliceV)) {
				if i > 0 {
					r = mkConcat(r, mkStr(" "))
				}
				r = mkConcat(r, ex.formatValue(a.(IfaceV), 'v'))
			}
			return mkConcat(r, mkStr("\n"))
		},
		"(*sigs.k8s.io/controller-runtime/pkg/client.mergeFromPatch).Data": func(ex *Exec, fr *frame, fn *ssa.Function, args []Value, pos tokenPos) Value {
			// a reflection-driven JSON diff: opaque body (harnesses inspect the patched object instead)
			return TupleV{SliceV{str: ex.fresh("mergepatch", SStr)}, IfaceV{}}
		},
		"fmt.Println": icZero, "fmt.Printf": icZero, "fmt.Print": icZero, "fmt.Fprintf": icZero, "fmt.Fprintln": icZero,

		// ---------------- strings / strconv ----------------
		"strings.HasPrefix": func(ex *Exec, fr *frame, fn *ssa.Function, args []Value, pos tokenPos) Value {
			return mkPrefixOf(asTerm(args[1]), asTerm(args[0]))
		},
		"strings.HasSuffix": func(ex *Exec, fr *frame, fn *ssa.Function, args []Value, pos tokenPos) Value {
			return mkSuffixOf(asTerm(args[1]), asTerm(args[0]))
		},
		"strings.Contains": func(ex *Exec, fr *frame, fn *ssa.Function, args []Value, pos tokenPos) Value {
			return mkContains(asTerm(args[0]), asTerm(args[1]))
		},
		"strings.Index": func(ex *Exec, fr *frame, fn *ssa.Function, args []Value, pos tokenPos) Value {
			return mkIndexOf(asTerm(args[0]), asTerm(args[1]), mkInt(0))
		},
		"strings.TrimSuffix": func(ex *Exec, fr *frame, fn *ssa.Function, args []Value, pos tokenPos) Value {
			s, suf := asTerm(args[0]), asTerm(args[1])
			c := mkSuffixOf(suf, s)
			if suf.op == "c" {
				if c.op == "c" && !c.b {
					return s
				}
				return mkIte(c, mkDropLast(s, len(suf.s)), s)
			}
			return mkIte(c, mkSubstr(s, mkInt(0), mkSub(mkStrLen(s), mkStrLen(suf))), s)
		},
		"strings.TrimPrefix": func(ex *Exec, fr *frame, fn *ssa.Function, args []Value, pos tokenPos) Value {
			s, pre := asTerm(args[0]), asTerm(args[1])
			c := mkPrefixOf(pre, s)
			return mkIte(c, mkSubstr(s, mkStrLen(pre), mkSub(mkStrLen(s), mkStrLen(pre))), s)
		},
		"strings.Replace": func(ex *Exec, fr *frame, fn *ssa.Function, args []Value, pos tokenPos) Value {
			s, o, n, cnt := asTerm(args[0]), asTerm(args[1]), asTerm(args[2]), asTerm(args[3])
			if s.op == "c" && o.op == "c" && n.op == "c" && cnt.op == "c" {
				return mkStr(strings.Replace(s.s, o.s, n.s, int(cnt.i.Int64())))
			}
			if r := ex.replaceOnToken(s, o, n); r != nil {
				return r
			}
			if c, ok := cnt.constInt(); ok && c == 1 {
				return mkStrReplace(s, o, n)
			}
			if o.op == "c" && o.s != "" {
				if ex.branch(mkContains(s, o)) {
					ex.unsupported("strings.Replace(all) on symbolic string containing the pattern")
				}
				return s
			}
			ex.unsupported("strings.Replace on symbolic operands")
			return nil
		},
		"strings.ReplaceAll": func(ex *Exec, fr *frame, fn *ssa.Function, args []Value, pos tokenPos) Value {
			s, o, n := asTerm(args[0]), asTerm(args[1]), asTerm(args[2])
			if s.op == "c" && o.op == "c" && n.op == "c" {
				return mkStr(strings.ReplaceAll(s.s, o.s, n.s))
			}
			if o.op == "c" && o.s != "" {
				if ex.branch(mkContains(s, o)) {
					ex.unsupported("strings.ReplaceAll on symbolic string containing the pattern")
				}
				return s
			}
			ex.unsupported("strings.ReplaceAll on symbolic operands")
			return nil
		},
		"strings.Count": func(ex *Exec, fr *frame, fn *ssa.Function, args []Value, pos tokenPos) Value {
			s, sub := asTerm(args[0]), asTerm(args[1])
			if s.op == "c" && sub.op == "c" {
				return mkInt(int64(strings.Count(s.s, sub.s)))
			}
			ex.unsupported("strings.Count on symbolic strings")
			return nil
		},
		"strings.LastIndex": func(ex *Exec, fr *frame, fn *ssa.Function, args []Value, pos tokenPos) Value {
			s, sub := asTerm(args[0]), asTerm(args[1])
			if s.op == "c" && sub.op == "c" {
				return mkInt(int64(strings.LastIndex(s.s, sub.s)))
			}
			ex.unsupported("strings.LastIndex on symbolic strings")
			return nil
		},
		"strings.IndexByte": func(ex *Exec, fr *frame, fn *ssa.Function, args []Value, pos tokenPos) Value {
			s, c := asTerm(args[0]), asTerm(args[1])
			if cv, ok := c.constInt(); ok {
				return mkIndexOf(s, mkStr(string([]byte{byte(cv)})), mkInt(0))
			}
			ex.unsupported("strings.IndexByte on symbolic byte")
			return nil
		},
		"strings.Repeat": func(ex *Exec, fr *frame, fn *ssa.Function, args []Value, pos tokenPos) Value {
			s, n := asTerm(args[0]), asTerm(args[1])
			if nv, ok := n.constInt(); ok && s.op == "c" && nv >= 0 && nv < 10000 {
				return mkStr(strings.Repeat(s.s, int(nv)))
			}
			ex.unsupported("strings.Repeat on symbolic operands")
			return nil
		},
		"strings.SplitN": func(ex *Exec, fr *frame, fn *ssa.Function, args []Value, pos tokenPos) Value {
			s, sep, n := asTerm(args[0]), asTerm(args[1]), asTerm(args[2])
			if nv, ok := n.constInt(); ok && s.op == "c" && sep.op == "c" {
				parts := strings.SplitN(s.s, sep.s, int(nv))
				vs := make([]Value, len(parts))
				for k, p := range parts {
					vs[k] = mkStr(p)
				}
				return ex.mkSlice(types.Typ[types.String], vs)
			}
			ex.unsupported("strings.SplitN on symbolic operands")
			return nil
		},
		"strings.Fields": func(ex *Exec, fr *frame, fn *ssa.Function, args []Value, pos tokenPos) Value {
			s := asTerm(args[0])
			if s.op == "c" {
				parts := strings.Fields(s.s)
				vs := make([]Value, len(parts))
				for k, p := range parts {
					vs[k] = mkStr(p)
				}
				return ex.mkSlice(types.Typ[types.String], vs)
			}
			ex.unsupported("strings.Fields on symbolic string")
			return nil
		},
		"strings.Trim": func(ex *Exec, fr *frame, fn *ssa.Function, args []Value, pos tokenPos) Value {
			s, c := asTerm(args[0]), asTerm(args[1])
			if s.op == "c" && c.op == "c" {
				return mkStr(strings.Trim(s.s, c.s))
			}
			ex.unsupported("strings.Trim on symbolic strings")
			return nil
		},
		"strings.TrimLeft": func(ex *Exec, fr *frame, fn *ssa.Function, args []Value, pos tokenPos) Value {
			s, c := asTerm(args[0]), asTerm(args[1])
			if s.op == "c" && c.op == "c" {
				return mkStr(strings.TrimLeft(s.s, c.s))
			}
			ex.unsupported("strings.TrimLeft on symbolic strings")
			return nil
		},
		"strings.TrimRight": func(ex *Exec, fr *frame, fn *ssa.Function, args []Value, pos tokenPos) Value {
			s, c := asTerm(args[0]), asTerm(args[1])
			if s.op == "c" && c.op == "c" {
				return mkStr(strings.TrimRight(s.s, c.s))
			}
			ex.unsupported("strings.TrimRight on symbolic strings")
			return nil
		},
		"(*k8s.io/apimachinery/pkg/util/validation/field.Path).String": func(ex *Exec, fr *frame, fn *ssa.Function, args []Value, pos tokenPos) Value {
			return ex.fresh("fieldpath", SStr)
		},
		"(*k8s.io/apimachinery/pkg/util/validation/field.Error).Error": func(ex *Exec, fr *frame, fn *ssa.Function, args []Value, pos tokenPos) Value {
			return ex.fresh("fielderr", SStr)
		},
		"(*k8s.io/apimachinery/pkg/util/validation/field.Error).ErrorBody": func(ex *Exec, fr *frame, fn *ssa.Function, args []Value, pos tokenPos) Value {
			return ex.fresh("fielderr", SStr)
		},
		"strings.ToLower":   icStrConcrete1(strings.ToLower),
		"strings.ToUpper":   icStrConcrete1(strings.ToUpper),
		"strings.TrimSpace": icStrConcrete1(strings.TrimSpace),
		"strings.Title":     icStrConcrete1(strings.Title),
		"strings.EqualFold": func(ex *Exec, fr *frame, fn *ssa.Function, args []Value, pos tokenPos) Value {
			a, b := asTerm(args[0]), asTerm(args[1])
			if a.op == "c" && b.op == "c" {
				return mkBool(strings.EqualFold(a.s, b.s))
			}
			if a.op == "c" {
				a, b = b, a
			}
			if b.op != "c" || len(b.s) > 24 {
				ex.unsupported("strings.EqualFold on two symbolic strings")
			}
			// ASCII case folding (A1): same length and every byte equal up to case
			r := mkEq(mkStrLen(a), mkInt(int64(len(b.s))))
			for k := 0; k < len(b.s); k++ {
				ch := mkStrAt(a, mkInt(int64(k)))
				lo, up := strings.ToLower(b.s[k:k+1]), strings.ToUpper(b.s[k:k+1])
				e := mkEq(ch, mkStr(lo))
				if up != lo {
					e = mkOr(e, mkEq(ch, mkStr(up)))
				}
				r = mkAnd(r, e)
			}
			return r
		},
		"strings.Split": func(ex *Exec, fr *frame, fn *ssa.Function, args []Value, pos tokenPos) Value {
			s, sep := asTerm(args[0]), asTerm(args[1])
			if s.op == "c" && sep.op == "c" {
				parts := strings.Split(s.s, sep.s)
				vs := make([]Value, len(parts))
				for i, p := range parts {
					vs[i] = mkStr(p)
				}
				return ex.mkSlice(types.Typ[types.String], vs)
			}
			if sep.op == "c" && sep.s != "" {
				// symbolic string: fork on the number of separators (0, 1, 2); more is outside the bound
				if !ex.branch(mkContains(s, sep)) {
					return ex.mkSlice(types.Typ[types.String], []Value{s})
				}
				i := mkIndexOf(s, sep, mkInt(0))
				head := mkSubstr(s, mkInt(0), i)
				rest := mkSubstr(s, mkAdd(i, mkInt(int64(len(sep.s)))), mkStrLen(s))
				if !ex.branch(mkContains(rest, sep)) {
					return ex.mkSlice(types.Typ[types.String], []Value{head, rest})
				}
				j := mkIndexOf(rest, sep, mkInt(0))
				mid := mkSubstr(rest, mkInt(0), j)
				tail := mkSubstr(rest, mkAdd(j, mkInt(int64(len(sep.s)))), mkStrLen(rest))
				if !ex.branch(mkContains(tail, sep)) {
					return ex.mkSlice(types.Typ[types.String], []Value{head, mid, tail})
				}
				ex.prune("strings.Split: more than 2 separators (outside bound)")
			}
			ex.unsupported("strings.Split on symbolic separator")
			return nil
		},
		"strings.Join": func(ex *Exec, fr *frame, fn *ssa.Function, args []Value, pos tokenPos) Value {
			sep := asTerm(args[1])
			var r *Term = mkStr("")
			for i, e := range ex.sliceElems(args[0].(SliceV)) {
				if i > 0 {
					r = mkConcat(r, sep)
				}
				r = mkConcat(r, asTerm(e))
			}
			return r
		},
		"strconv.Itoa": func(ex *Exec, fr *frame, fn *ssa.Function, args []Value, pos tokenPos) Value {
			return mkFromInt(asTerm(args[0]))
		},
		"strconv.FormatInt": func(ex *Exec, fr *frame, fn *ssa.Function, args []Value, pos tokenPos) Value {
			if b, ok := asTerm(args[1]).constInt(); !ok || b != 10 {
				ex.unsupported("FormatInt base != 10")
			}
			return mkFromInt(asTerm(args[0]))
		},
		"strconv.Atoi": func(ex *Exec, fr *frame, fn *ssa.Function, args []Value, pos tokenPos) Value {
			return ex.atoi(asTerm(args[0]), 64)
		},
		"strconv.ParseInt": func(ex *Exec, fr *frame, fn *ssa.Function, args []Value, pos tokenPos) Value {
			bits := 64
			if b, ok := asTerm(args[2]).constInt(); ok && b > 0 {
				bits = int(b)
			}
			return ex.atoi(asTerm(args[0]), bits)
		},
		"strconv.ParseBool": func(ex *Exec, fr *frame, fn *ssa.Function, args []Value, pos tokenPos) Value {
			s := asTerm(args[0])
			if s.op == "c" {
				b, err := strconv.ParseBool(s.s)
				if err != nil {
					return TupleV{tFalse, ex.newError(mkStr(err.Error()))}
				}
				return TupleV{mkBool(b), IfaceV{}}
			}
			for _, cand := range []string{"true", "false", "1", "0", "t", "f", "T", "F", "TRUE", "FALSE", "True", "False"} {
				if ex.branch(mkEq(s, mkStr(cand))) {
					b, _ := strconv.ParseBool(cand)
					return TupleV{mkBool(b), IfaceV{}}
				}
			}
			return TupleV{tFalse, ex.newError(mkStr("strconv.ParseBool: invalid syntax"))}
		},
		"strconv.FormatBool": func(ex *Exec, fr *frame, fn *ssa.Function, args []Value, pos tokenPos) Value {
			return mkIte(asTerm(args[0]), mkStr("true"), mkStr("false"))
		},
		"strconv.Quote": func(ex *Exec, fr *frame, fn *ssa.Function, args []Value, pos tokenPos) Value {
			return mkConcat(mkConcat(mkStr("\""), asTerm(args[0])), mkStr("\""))
		},

		// ---------------- sync / context ----------------
		// sync.Mutex / sync.RWMutex: lockset.go
		"(*sync.Once).Do": func(ex *Exec, fr *frame, fn *ssa.Function, args []Value, pos tokenPos) Value {
			p := args[0].(PtrV)
			done := p.c.subs[0]
			if v, ok := asTerm(ex.load(done)).constInt(); ok && v != 0 {
				return nil
			}
			ex.store(done, mkInt(1))
			ex.callFn(fr, args[1].(FuncV), nil, pos)
			return nil
		},
		"context.TODO": icCtx, "context.Background": icCtx,
		"context.WithTimeout": func(ex *Exec, fr *frame, fn *ssa.Function, args []Value, pos tokenPos) Value {
			return TupleV{args[0], FuncV{builtin: "noop"}}
		},
		"context.WithCancel": func(ex *Exec, fr *frame, fn *ssa.Function, args []Value, pos tokenPos) Value {
			return TupleV{args[0], FuncV{builtin: "noop"}}
		},

		// ---------------- reflect ----------------
		"reflect.DeepEqual": func(ex *Exec, fr *frame, fn *ssa.Function, args []Value, pos tokenPos) Value {
			return ex.deepEqual(args[0], args[1])
		},
		"(k8s.io/apimachinery/third_party/forked/golang/reflect.Equalities).DeepEqual": func(ex *Exec, fr *frame, fn *ssa.Function, args []Value, pos tokenPos) Value {
			return ex.deepEqual(args[1], args[2])
		},
		"(k8s.io/apimachinery/third_party/forked/golang/reflect.Equalities).DeepDerivative": func(ex *Exec, fr *frame, fn *ssa.Function, args []Value, pos tokenPos) Value {
			a, ok := args[1].(IfaceV)
			if ok && a.t == nil {
				return tTrue
			}
			return ex.deepDerive(args[1], args[2], 0)
		},

		"reflect.TypeOf": func(ex *Exec, fr *frame, fn *ssa.Function, args []Value, pos tokenPos) Value {
			iv := args[0].(IfaceV)
			if iv.t == nil {
				return IfaceV{}
			}
			return IfaceV{t: types.Typ[types.UnsafePointer], v: NativeV{reflectType{iv.t}}}
		},
		"reflect.ValueOf": func(ex *Exec, fr *frame, fn *ssa.Function, args []Value, pos tokenPos) Value {
			return NativeV{reflectValue{args[0].(IfaceV)}}
		},
		"(reflect.Value).IsNil": func(ex *Exec, fr *frame, fn *ssa.Function, args []Value, pos tokenPos) Value {
			rv := args[0].(NativeV).v.(reflectValue)
			if rv.v.t == nil {
				ex.raise(fr, pos, "reflect: call of reflect.Value.IsNil on zero Value")
			}
			n, known := isNilValue(rv.v.v)
			if !known {
				ex.raise(fr, pos, "reflect: call of reflect.Value.IsNil on non-nillable value")
			}
			return mkBool(n)
		},
		"(reflect.Value).IsValid": func(ex *Exec, fr *frame, fn *ssa.Function, args []Value, pos tokenPos) Value {
			return mkBool(args[0].(NativeV).v.(reflectValue).v.t != nil)
		},
		// ---------------- sort ----------------
		"sort.Slice":       icSortSlice,
		"sort.SliceStable": icSortSlice,
		"sort.Sort":        icSortSort,
		"sort.Stable":      icSortSort,
		"sort.Strings": func(ex *Exec, fr *frame, fn *ssa.Function, args []Value, pos tokenPos) Value {
			s := args[0].(SliceV)
			ex.insertionSort(s.len, func(i, j int) bool {
				a, b := asTerm(ex.load(s.arr.subs[s.off+i])), asTerm(ex.load(s.arr.subs[s.off+j]))
				return ex.branch(mkStrLt(a, b))
			}, func(i, j int) {
				a, b := ex.load(s.arr.subs[s.off+i]), ex.load(s.arr.subs[s.off+j])
				ex.store(s.arr.subs[s.off+i], b)
				ex.store(s.arr.subs[s.off+j], a)
			})
			return nil
		},

		// ---------------- intstr ----------------
		"k8s.io/apimachinery/pkg/util/intstr.GetScaledValueFromIntOrPercent": icScaledValue,
		"k8s.io/apimachinery/pkg/util/intstr.GetValueFromIntOrPercent":       icScaledValue,

		"errors.As": func(ex *Exec, fr *frame, fn *ssa.Function, args []Value, pos tokenPos) Value {
			err := args[0].(IfaceV)
			tgt := args[1].(IfaceV)
			if tgt.t == nil {
				ex.raise(fr, pos, "errors: target cannot be nil")
			}
			pt, ok := tgt.t.Underlying().(*types.Pointer)
			if !ok {
				ex.raise(fr, pos, "errors: target must be a non-nil pointer")
			}
			p := tgt.v.(PtrV)
			T := pt.Elem()
			for depth := 0; err.t != nil && depth < 20; depth++ {
				match := false
				if types.IsInterface(T) {
					match = types.Implements(err.t, T.Underlying().(*types.Interface))
				} else {
					match = types.Identical(err.t, T)
				}
				if match {
					if types.IsInterface(T) {
						ex.store(p.c, err)
					} else {
						ex.store(p.c, err.v)
					}
					return tTrue
				}
				m := ex.lookupMethod(err.t, nil, "Unwrap")
				if m == nil || m.Signature.Results().Len() != 1 {
					break
				}
				next, ok := ex.callFn(fr, FuncV{fn: m}, []Value{err.v}, pos).(IfaceV)
				if !ok {
					break
				}
				err = next
			}
			return tFalse
		},
		"errors.Is": func(ex *Exec, fr *frame, fn *ssa.Function, args []Value, pos tokenPos) Value {
			err := args[0].(IfaceV)
			tgt := args[1].(IfaceV)
			for depth := 0; depth < 20; depth++ {
				if err.t == nil || tgt.t == nil {
					return mkBool(err.t == nil && tgt.t == nil)
				}
				if types.Identical(err.t, tgt.t) {
					if _, isPtr := err.v.(PtrV); isPtr {
						if ex.valEq(err.v, tgt.v) == tTrue {
							return tTrue
						}
					}
				}
				m := ex.lookupMethod(err.t, nil, "Unwrap")
				if m == nil || m.Signature.Results().Len() != 1 {
					break
				}
				next, ok := ex.callFn(fr, FuncV{fn: m}, []Value{err.v}, pos).(IfaceV)
				if !ok {
					break
				}
				err = next
			}
			return tFalse
		},
		"k8s.io/client-go/util/retry.RetryOnConflict": func(ex *Exec, fr *frame, fn *ssa.Function, args []Value, pos tokenPos) Value {
			// as many attempts as the backoff allows (retry.DefaultRetry: 5); the sleeps between them are skipped
			steps := int64(5)
			if sv, _, ok := structFieldByName(args[0], fn.Signature.Params().At(0).Type(), "Steps"); ok {
				if c, ok := asTerm(sv).constInt(); ok && c >= 1 && c <= 10 {
					steps = c
				}
			}
			f := args[1].(FuncV)
			var err Value
			for i := int64(0); i < steps; i++ {
				err = ex.callFn(fr, f, nil, pos)
				e, ok := err.(IfaceV)
				if !ok || e.t == nil {
					return err
				}
				isConflict := icReason("Conflict")(ex, fr, fn, []Value{e}, pos).(*Term)
				if !ex.branch(isConflict) {
					return err
				}
			}
			return err
		},
		"k8s.io/client-go/util/retry.OnError": func(ex *Exec, fr *frame, fn *ssa.Function, args []Value, pos tokenPos) Value {
			steps := int64(5)
			if sv, _, ok := structFieldByName(args[0], fn.Signature.Params().At(0).Type(), "Steps"); ok {
				if c, ok := asTerm(sv).constInt(); ok && c >= 1 && c <= 10 {
					steps = c
				}
			}
			retriable := args[1].(FuncV)
			f := args[2].(FuncV)
			var err Value
			for i := int64(0); i < steps; i++ {
				err = ex.callFn(fr, f, nil, pos)
				e, ok := err.(IfaceV)
				if !ok || e.t == nil {
					return err
				}
				if !ex.branch(asTerm(ex.callFn(fr, retriable, []Value{e}, pos))) {
					return err
				}
			}
			return err
		},
		// ---------------- k8s api errors ----------------
		"k8s.io/apimachinery/pkg/api/errors.IsNotFound":      icReason("NotFound"),
		"k8s.io/apimachinery/pkg/api/errors.IsAlreadyExists": icReason("AlreadyExists"),
		"k8s.io/apimachinery/pkg/api/errors.IsConflict":      icReason("Conflict"),
		"k8s.io/apimachinery/pkg/api/errors.IsInvalid":       icReason("Invalid"),
		"k8s.io/apimachinery/pkg/api/errors.IsBadRequest":    icReason("BadRequest"),
		"k8s.io/apimachinery/pkg/api/errors.IsForbidden":     icReason("Forbidden"),
		"k8s.io/apimachinery/pkg/api/errors.IsGone":          icReason("Gone"),

		// hashes are uninterpreted: the same template object gives the same hash, nothing else is assumed
		repoMod + "/pkg/util.ComputeHash": func(ex *Exec, fr *frame, fn *ssa.Function, args []Value, pos tokenPos) Value {
			p := args[0].(PtrV)
			if p.c == nil {
				ex.raise(fr, pos, "nil pointer dereference (ComputeHash(nil))")
			}
			if ex.hashOf == nil {
				ex.hashOf = map[int]*Term{}
			}
			if t, ok := ex.hashOf[p.c.id]; ok {
				return t
			}
			t := mkConcat(mkStr("#hash#"), ex.fresh("hash", SStr))
			ex.hashOf[p.c.id] = t
			return t
		},
		repoMod + "/pkg/util.HashReleasePlanBatches": func(ex *Exec, fr *frame, fn *ssa.Function, args []Value, pos tokenPos) Value {
			p := args[0].(PtrV)
			if p.c == nil {
				ex.raise(fr, pos, "nil pointer dereference (HashReleasePlanBatches(nil))")
			}
			node := ex.jsonEncode(ex.load(p.c), p.c.typ, 0)
			return ex.hashOfNode(node)
		},
		// ---------------- misc ----------------
		"os.Getenv": func(ex *Exec, fr *frame, fn *ssa.Function, args []Value, pos tokenPos) Value { return mkStr("") },
		"os.LookupEnv": func(ex *Exec, fr *frame, fn *ssa.Function, args []Value, pos tokenPos) Value {
			return TupleV{mkStr(""), tFalse}
		},
	}
	pseudoBuiltins["noop"] = func(ex *Exec, fr *frame, f FuncV, args []Value, pos tokenPos) Value { return nil }
}

var deniedPkgs = map[string]bool{"time": true, "reflect": true, "unsafe": true, "runtime": true, "syscall": true, "os": true, "net": true, "net/http": true,
	"encoding/json": true, "bytes": true, "strings": true, "strconv": true, "unicode/utf8": true, "unicode": true, "os/exec": true, "io/ioutil": true, "regexp": true, "math/rand": true, "sync/atomic": true, "encoding/hex": true,
	"github.com/davecgh/go-spew/spew": true, "github.com/evanphx/json-patch": true, "github.com/yuin/gopher-lua": true, "sigs.k8s.io/yaml": true,
	"k8s.io/apimachinery/pkg/util/json": true, "encoding/base64": true}

// reflectType / reflectValue are the engine-side stand-ins for reflect.Type / reflect.Value.
type reflectType struct{ t types.Type }
type reflectValue struct{ v IfaceV }

func (ex *Exec) invokeNative(fr *frame, nv NativeV, method string, args []Value, pos tokenPos) Value {
	switch r := nv.v.(type) {
	case luaValueBox:
		switch method {
		case "Type":
			return mkInt(luaTypeCode(r.v))
		case "String":
			if s, ok := r.v.(LStrV); ok {
				return s.t
			}
			return mkStr(luaTypeName(r.v))
		}
	case reflectType:
		switch method {
		case "Name":
			if n, ok := r.t.(*types.Named); ok {
				return mkStr(n.Obj().Name())
			}
			return mkStr("")
		case "String":
			return mkStr(types.TypeString(r.t, func(p *types.Package) string { return p.Name() }))
		case "Kind":
			ex.unsupported("reflect.Type.Kind")
		}
	}
	ex.unsupported(fmt.Sprintf("method %s on native %T", method, nv.v))
	return nil
}

func icTrue(ex *Exec, fr *frame, fn *ssa.Function, args []Value, pos tokenPos) Value { return tTrue }

func icCtx(ex *Exec, fr *frame, fn *ssa.Function, args []Value, pos tokenPos) Value {
	// an opaque non-nil context value
	t := ex.eng.lookupType("context", "emptyCtx")
	if t == nil {
		t = ex.eng.lookupType("context", "backgroundCtx")
	}
	if t == nil {
		return IfaceV{t: types.Typ[types.Int], v: mkInt(0)}
	}
	return IfaceV{t: types.NewPointer(t), v: PtrV{ex.newCell(t)}}
}

func icStrConcrete1(f func(string) string) interceptFn {
	return func(ex *Exec, fr *frame, fn *ssa.Function, args []Value, pos tokenPos) Value {
		s := asTerm(args[0])
		if s.op != "c" {
			ex.unsupported(fn.String() + " on symbolic string")
		}
		return mkStr(f(s.s))
	}
}

// newError builds an error value of dynamic type *errors.errorString.
func (ex *Exec) newError(msg *Term) Value {
	t := ex.eng.lookupType("errors", "errorString")
	if t == nil {
		ex.unsupported("errors.errorString type not loaded")
	}
	c := ex.newCell(t)
	ex.store(c.subs[0], msg)
	return IfaceV{t: types.NewPointer(t), v: PtrV{c}}
}

// atoi models strconv.Atoi / ParseInt(s,10,bits): optional sign, digits, range check.
func (ex *Exec) atoi(s *Term, bits int) Value {
	if s.op == "c" {
		v, err := strconv.ParseInt(s.s, 10, bits)
		if err != nil {
			return TupleV{mkInt(v), ex.newError(mkStr(err.Error()))}
		}
		return TupleV{mkInt(v), IfaceV{}}
	}
	// Itoa round trip (syntactic): Atoi(Itoa(x)) = x
	if x, ok := invFromInt(s); ok {
		lo, hi := intRange(bits, true)
		if x.lo != nil && x.hi != nil && x.lo.Cmp(lo) >= 0 && x.hi.Cmp(hi) <= 0 {
			return TupleV{x, IfaceV{}}
		}
		if ex.branch(mkOr(mkLt(x, mkIntBig(lo)), mkGt(x, mkIntBig(hi)))) {
			return TupleV{mkIte(mkLt(x, mkInt(0)), mkIntBig(lo), mkIntBig(hi)), ex.newError(mkStr("strconv: value out of range"))}
		}
		w := ex.freshInt("atoi", lo, hi)
		ex.assert(mkEq(w, x))
		return TupleV{w, IfaceV{}}
	}
	errV := func() Value { return ex.newError(mkConcat(mkStr("strconv.Atoi: parsing "), mkConcat(s, mkStr(": invalid syntax")))) }
	neg := mkPrefixOf(mkStr("-"), s)
	plus := mkPrefixOf(mkStr("+"), s)
	var body *Term
	sign := int64(1)
	if ex.branch(neg) {
		body = mkSubstr(s, mkInt(1), mkStrLen(s))
		sign = -1
	} else if ex.branch(plus) {
		body = mkSubstr(s, mkInt(1), mkStrLen(s))
	} else {
		body = s
	}
	n := mkToIntNat(body)
	if ex.branch(mkLt(n, mkInt(0))) {
		return TupleV{mkInt(0), errV()}
	}
	lo, hi := intRange(bits, true)
	val := n
	if sign < 0 {
		val = mkNeg(n)
	}
	if ex.branch(mkOr(mkLt(val, mkIntBig(lo)), mkGt(val, mkIntBig(hi)))) {
		return TupleV{mkIte(mkLt(val, mkInt(0)), mkIntBig(lo), mkIntBig(hi)), ex.newError(mkStr("strconv: value out of range"))}
	}
	// within range on this path: record bounds for wrap elision
	res := val
	if res.lo == nil || res.hi == nil || res.lo.Cmp(lo) < 0 || res.hi.Cmp(hi) > 0 {
		w := ex.freshInt("atoi", lo, hi)
		ex.assert(mkEq(w, val))
		res = w
	}
	return TupleV{res, IfaceV{}}
}

// invFromInt recognises the terms produced by mkFromInt and returns the integer.
func invFromInt(s *Term) (*Term, bool) {
	if s.op == "str.from_int" && s.args[0].lo != nil && s.args[0].lo.Sign() >= 0 {
		return s.args[0], true
	}
	if s.op == "ite" && s.args[2].op == "str.from_int" && s.args[0].op == "<" && sameTerm(s.args[0].args[0], s.args[2].args[0]) {
		if z, ok := s.args[0].args[1].constInt(); ok && z == 0 {
			return s.args[2].args[0], true
		}
	}
	return nil, false
}

// hashOfNode: an uninterpreted hash of a JSON document — structurally equal documents get equal hashes.
func (ex *Exec) hashOfNode(node *JNode) *Term {
	// hashes carry a constant marker prefix so that a hash never equals an unrelated literal
	var res *Term = mkConcat(mkStr("#hash#"), ex.fresh("hash", SStr))
	h := res
	for i := len(ex.hashedNodes) - 1; i >= 0; i-- {
		eq := ex.jnodeEq(node, ex.hashedNodes[i].node)
		h = mkIte(eq, ex.hashedNodes[i].hash, h)
	}
	ex.hashedNodes = append(ex.hashedNodes, hashedNode{node, h})
	return h
}

type hashedNode struct {
	node *JNode
	hash *Term
}

// replaceOnToken models the two whole-document rewrites the repository applies to marshalled JSON.
func (ex *Exec) replaceOnToken(s, o, n *Term) *Term {
	node, ok := ex.jsonTok[s]
	if !ok || o.op != "c" || n.op != "c" {
		return nil
	}
	switch {
	case o.s == "\"" && n.s == "\\\"":
		// escape quotes so that the document can be embedded in a JSON string literal
		t := ex.fresh("jsonesc", SStr)
		ex.jsonEsc[t] = s
		return t
	case o.s == "\"NULL_HOLDER\"" && n.s == "null":
		nn := jsonMapNodes(node, func(x *JNode) *JNode {
			if x.kind == "str" && x.scalar.op == "c" && x.scalar.s == "NULL_HOLDER" {
				return &JNode{kind: "null"}
			}
			return x
		})
		return ex.newToken(nn)
	}
	return nil
}

// ---- formatting ----

func (ex *Exec) formatValue(a IfaceV, verb byte) *Term {
	if a.t == nil {
		return mkStr("<nil>")
	}
	switch v := a.v.(type) {
	case *Term:
		switch v.sort {
		case SStr:
			if verb == 'q' {
				return mkConcat(mkConcat(mkStr("\""), v), mkStr("\""))
			}
			return v
		case SInt:
			return mkFromInt(v)
		case SBool:
			return mkIte(v, mkStr("true"), mkStr("false"))
		}
	case FloatV:
		if v.it != nil {
			return mkFromInt(v.it)
		}
		return mkStr(strconv.FormatFloat(v.f, 'g', -1, 64))
	case PtrV:
		if v.c == nil {
			return mkStr("<nil>")
		}
	}
	// Stringer / error
	if verb == 'v' || verb == 's' {
		for _, mname := range []string{"Error", "String"} {
			if m := ex.lookupMethod(a.t, nil, mname); m != nil && m.Signature.Params().Len() == 0 && m.Signature.Results().Len() == 1 && isString(m.Signature.Results().At(0).Type()) {
				if p, ok := a.v.(PtrV); ok && p.c == nil {
					return mkStr("<nil>")
				}
				var res *Term
				func() {
					defer func() {
						if r := recover(); r != nil {
							if _, ok := r.(*goPanic); ok {
								res = mkStr("%!v(PANIC)")
								return
							}
							panic(r)
						}
					}()
					res = asTerm(ex.callFn(nil, FuncV{fn: m}, []Value{a.v}, token.NoPos))
				}()
				return res
			}
		}
	}
	// opaque rendering: only ever used in messages
	return ex.fresh("fmt", SStr)
}

func (ex *Exec) sprintf(format *Term, args []Value) *Term {
	if format.op != "c" {
		ex.unsupported("Sprintf with symbolic format")
	}
	f := format.s
	var r *Term = mkStr("")
	ai := 0
	for i := 0; i < len(f); i++ {
		c := f[i]
		if c != '%' {
			j := i
			for j < len(f) && f[j] != '%' {
				j++
			}
			r = mkConcat(r, mkStr(f[i:j]))
			i = j - 1
			continue
		}
		// parse verb
		j := i + 1
		for j < len(f) && strings.IndexByte("+-# 0123456789.", f[j]) >= 0 {
			j++
		}
		if j >= len(f) {
			r = mkConcat(r, mkStr("%!(NOVERB)"))
			break
		}
		verb := f[j]
		flags := f[i+1 : j]
		i = j
		if verb == '%' {
			r = mkConcat(r, mkStr("%"))
			continue
		}
		if ai >= len(args) {
			r = mkConcat(r, mkStr("%!"+string(verb)+"(MISSING)"))
			continue
		}
		a := args[ai].(IfaceV)
		ai++
		switch verb {
		case 'd', 's', 'v', 'q', 't':
			if flags != "" && flags != "+" && flags != "#" {
				// width/precision: only exact for constants; otherwise opaque
				t := ex.formatValue(a, verb)
				if t.op == "c" {
					r = mkConcat(r, mkStr(fmt.Sprintf("%"+flags+"s", t.s)))
				} else {
					r = mkConcat(r, ex.fresh("fmtw", SStr))
				}
				continue
			}
			r = mkConcat(r, ex.formatValue(a, verb))
		default:
			if t, ok := a.v.(*Term); ok && t.op == "c" {
				switch t.sort {
				case SInt:
					r = mkConcat(r, mkStr(fmt.Sprintf("%"+flags+string(verb), t.i.Int64())))
					continue
				case SStr:
					r = mkConcat(r, mkStr(fmt.Sprintf("%"+flags+string(verb), t.s)))
					continue
				}
			}
			if fv, ok := a.v.(FloatV); ok && fv.it == nil {
				r = mkConcat(r, mkStr(fmt.Sprintf("%"+flags+string(verb), fv.f)))
				continue
			}
			r = mkConcat(r, ex.fresh("fmtx", SStr))
		}
	}
	return r
}

// ---- reflect.DeepEqual over the value model ----

func (ex *Exec) deepEqual(a, b Value) *Term {
	return ex.deepEq(a, b, 0)
}

func (ex *Exec) deepEq(a, b Value, depth int) *Term {
	if depth > 60 {
		ex.unsupported("DeepEqual depth")
	}
	switch x := a.(type) {
	case *Term:
		y, ok := b.(*Term)
		if !ok || x.sort != y.sort {
			return tFalse
		}
		return mkEq(x, y)
	case FloatV:
		y, ok := b.(FloatV)
		if !ok {
			return tFalse
		}
		return floatEq(x, y)
	case IfaceV:
		y, ok := b.(IfaceV)
		if !ok {
			return tFalse
		}
		if x.t == nil || y.t == nil {
			return mkBool(x.t == nil && y.t == nil)
		}
		if !types.Identical(x.t, y.t) {
			return tFalse
		}
		return ex.deepEq(x.v, y.v, depth+1)
	case PtrV:
		y, ok := b.(PtrV)
		if !ok {
			return tFalse
		}
		if x.c == nil || y.c == nil {
			return mkBool(x.c == nil && y.c == nil)
		}
		if x.c == y.c {
			return tTrue
		}
		return ex.deepEq(ex.load(x.c), ex.load(y.c), depth+1)
	case StructV:
		y, ok := b.(StructV)
		if !ok || len(x.fields) != len(y.fields) {
			return tFalse
		}
		r := tTrue
		for i := range x.fields {
			r = mkAnd(r, ex.deepEq(x.fields[i], y.fields[i], depth+1))
			if r == tFalse {
				return r
			}
		}
		return r
	case ArrayV:
		y, ok := b.(ArrayV)
		if !ok || len(x.elems) != len(y.elems) {
			return tFalse
		}
		r := tTrue
		for i := range x.elems {
			r = mkAnd(r, ex.deepEq(x.elems[i], y.elems[i], depth+1))
		}
		return r
	case SliceV:
		y, ok := b.(SliceV)
		if !ok {
			return tFalse
		}
		xn, _ := isNilValue(x)
		yn, _ := isNilValue(y)
		if xn != yn {
			return tFalse
		}
		if x.str != nil || y.str != nil {
			if x.str != nil && y.str != nil {
				return mkEq(x.str, y.str)
			}
			ex.unsupported("DeepEqual string-backed vs concrete bytes")
		}
		if x.len != y.len {
			return tFalse
		}
		r := tTrue
		for i := 0; i < x.len; i++ {
			r = mkAnd(r, ex.deepEq(ex.load(x.arr.subs[x.off+i]), ex.load(y.arr.subs[y.off+i]), depth+1))
			if r == tFalse {
				return r
			}
		}
		return r
	case MapV:
		y, ok := b.(MapV)
		if !ok {
			return tFalse
		}
		if (x.m == nil) != (y.m == nil) {
			return tFalse
		}
		if x.m == nil || x.m == y.m {
			return tTrue
		}
		if len(x.m.keys) != len(y.m.keys) {
			return tFalse
		}
		// every entry of x has an equal entry in y (keys distinct within a map)
		r := tTrue
		for i, k := range x.m.keys {
			var any *Term = tFalse
			for j, k2 := range y.m.keys {
				ke := ex.keyEq(k, k2)
				if ke == tFalse {
					continue
				}
				any = mkOr(any, mkAnd(ke, ex.deepEq(x.m.vals[i], y.m.vals[j], depth+1)))
			}
			r = mkAnd(r, any)
			if r == tFalse {
				return r
			}
		}
		return r
	case FuncV:
		y, ok := b.(FuncV)
		xn, _ := isNilValue(x)
		if ok {
			yn, _ := isNilValue(y)
			return mkBool(xn && yn)
		}
		return tFalse
	case nil:
		return mkBool(b == nil)
	}
	ex.unsupported(fmt.Sprintf("DeepEqual of %T", a))
	return nil
}

// deepDerive mirrors Equalities.deepValueDerive (apimachinery, third_party/forked/golang/reflect): like DeepEqual, but
// unset parts of the first argument (nil pointer / interface, empty string, nil or empty slice and map) are ignored,
// and a slice only has to be a prefix of the other.  Custom equality funcs of the Semantic table (Quantity, Time,
// selectors) are not distinguished: their values are compared structurally.
func (ex *Exec) deepDerive(a, b Value, depth int) *Term {
	if depth > 60 {
		ex.unsupported("DeepDerivative depth")
	}
	switch x := a.(type) {
	case *Term:
		y, ok := b.(*Term)
		if !ok || x.sort != y.sort {
			return tFalse
		}
		if x.sort == SStr {
			return mkOr(mkEq(x, mkStr("")), mkEq(x, y))
		}
		return mkEq(x, y)
	case FloatV:
		y, ok := b.(FloatV)
		if !ok {
			return tFalse
		}
		return floatEq(x, y)
	case IfaceV:
		y, ok := b.(IfaceV)
		if !ok {
			return tFalse
		}
		if x.t == nil {
			return tTrue
		}
		if y.t == nil || !types.Identical(x.t, y.t) {
			return tFalse
		}
		return ex.deepDerive(x.v, y.v, depth+1)
	case PtrV:
		y, ok := b.(PtrV)
		if !ok {
			return tFalse
		}
		if x.c == nil {
			return tTrue
		}
		if y.c == nil {
			return tFalse
		}
		if x.c == y.c {
			return tTrue
		}
		return ex.deepDerive(ex.load(x.c), ex.load(y.c), depth+1)
	case StructV:
		y, ok := b.(StructV)
		if !ok || len(x.fields) != len(y.fields) {
			return tFalse
		}
		r := tTrue
		for i := range x.fields {
			r = mkAnd(r, ex.deepDerive(x.fields[i], y.fields[i], depth+1))
			if r == tFalse {
				return r
			}
		}
		return r
	case ArrayV:
		y, ok := b.(ArrayV)
		if !ok || len(x.elems) != len(y.elems) {
			return tFalse
		}
		r := tTrue
		for i := range x.elems {
			r = mkAnd(r, ex.deepDerive(x.elems[i], y.elems[i], depth+1))
		}
		return r
	case SliceV:
		y, ok := b.(SliceV)
		if !ok {
			return tFalse
		}
		if x.str != nil || y.str != nil {
			if x.str != nil && y.str != nil {
				return mkOr(mkEq(x.str, mkStr("")), mkEq(x.str, y.str))
			}
			ex.unsupported("DeepDerivative string-backed vs concrete bytes")
		}
		if xn, _ := isNilValue(x); xn || x.len == 0 {
			return tTrue
		}
		if x.len > y.len {
			return tFalse
		}
		r := tTrue
		for i := 0; i < x.len; i++ {
			r = mkAnd(r, ex.deepDerive(ex.load(x.arr.subs[x.off+i]), ex.load(y.arr.subs[y.off+i]), depth+1))
			if r == tFalse {
				return r
			}
		}
		return r
	case MapV:
		y, ok := b.(MapV)
		if !ok {
			return tFalse
		}
		if x.m == nil || len(x.m.keys) == 0 {
			return tTrue
		}
		if y.m == nil || len(x.m.keys) > len(y.m.keys) {
			return tFalse
		}
		if x.m == y.m {
			return tTrue
		}
		r := tTrue
		for i, k := range x.m.keys {
			var any *Term = tFalse
			for j, k2 := range y.m.keys {
				ke := ex.keyEq(k, k2)
				if ke == tFalse {
					continue
				}
				any = mkOr(any, mkAnd(ke, ex.deepDerive(x.m.vals[i], y.m.vals[j], depth+1)))
			}
			r = mkAnd(r, any)
			if r == tFalse {
				return r
			}
		}
		return r
	case FuncV:
		y, ok := b.(FuncV)
		xn, _ := isNilValue(x)
		if ok {
			yn, _ := isNilValue(y)
			return mkBool(xn && yn)
		}
		return tFalse
	case nil:
		return tTrue
	}
	ex.unsupported(fmt.Sprintf("DeepDerivative of %T", a))
	return nil
}

// ---- sort ----

func (ex *Exec) insertionSort(n int, less func(i, j int) bool, swap func(i, j int)) {
	for i := 1; i < n; i++ {
		for j := i; j > 0 && less(j, j-1); j-- {
			swap(j, j-1)
		}
	}
}

func icSortSlice(ex *Exec, fr *frame, fn *ssa.Function, args []Value, pos tokenPos) Value {
	iv := args[0].(IfaceV)
	s, ok := iv.v.(SliceV)
	if !ok {
		ex.unsupported("sort.Slice of non-slice")
	}
	lessF := args[1].(FuncV)
	ex.insertionSort(s.len, func(i, j int) bool {
		r := ex.callFn(fr, lessF, []Value{mkInt(int64(i)), mkInt(int64(j))}, pos)
		return ex.branch(asTerm(r))
	}, func(i, j int) {
		a, b := ex.load(s.arr.subs[s.off+i]), ex.load(s.arr.subs[s.off+j])
		ex.store(s.arr.subs[s.off+i], b)
		ex.store(s.arr.subs[s.off+j], a)
	})
	return nil
}

func icSortSort(ex *Exec, fr *frame, fn *ssa.Function, args []Value, pos tokenPos) Value {
	iv := args[0].(IfaceV)
	if iv.t == nil {
		ex.raise(fr, pos, "sort.Sort(nil)")
	}
	lenM := ex.lookupMethod(iv.t, nil, "Len")
	lessM := ex.lookupMethod(iv.t, nil, "Less")
	swapM := ex.lookupMethod(iv.t, nil, "Swap")
	n := ex.concretize(asTerm(ex.callFn(fr, FuncV{fn: lenM}, []Value{iv.v}, pos)), "sort len")
	ex.insertionSort(n, func(i, j int) bool {
		r := ex.callFn(fr, FuncV{fn: lessM}, []Value{iv.v, mkInt(int64(i)), mkInt(int64(j))}, pos)
		return ex.branch(asTerm(r))
	}, func(i, j int) {
		ex.callFn(fr, FuncV{fn: swapM}, []Value{iv.v, mkInt(int64(i)), mkInt(int64(j))}, pos)
	})
	return nil
}

// ---- intstr summary (DESIGN.md §4.1, appendix A) ----

var two53 = new(big.Int).Lsh(big.NewInt(1), 53)

func icScaledValue(ex *Exec, fr *frame, fn *ssa.Function, args []Value, pos tokenPos) Value {
	p := args[0].(PtrV)
	if p.c == nil {
		return TupleV{mkInt(0), ex.newError(mkStr("nil value for IntOrString"))}
	}
	total := asTerm(args[1])
	roundUp := asTerm(args[2])
	typ := asTerm(ex.load(p.c.subs[0]))
	intVal := asTerm(ex.load(p.c.subs[1]))
	strVal := asTerm(ex.load(p.c.subs[2]))
	if ex.branch(mkEq(typ, mkInt(0))) {
		return TupleV{intVal, IfaceV{}}
	}
	if !ex.branch(mkEq(typ, mkInt(1))) {
		return TupleV{mkInt(0), ex.newError(mkStr("invalid type: neither int nor percentage"))}
	}
	// String: must end in %, Atoi of the rest
	if !ex.branch(mkSuffixOf(mkStr("%"), strVal)) {
		return TupleV{mkInt(0), ex.newError(mkStr("invalid value for IntOrString: invalid type: string is not a percentage"))}
	}
	body := mkDropLast(strVal, 1)
	r := ex.atoi(body, 64).(TupleV)
	if e := r[1].(IfaceV); e.t != nil {
		return TupleV{mkInt(0), ex.newError(mkStr("invalid value for IntOrString: invalid value"))}
	}
	v := asTerm(r[0])
	prod := mkMul(v, total)
	// side condition of the float lemma
	if ex.branch(mkOr(mkGe(prod, mkIntBig(two53)), mkLe(prod, mkIntBig(new(big.Int).Neg(two53))))) {
		panic(pathEnd{"inconclusive", "intstr summary outside |v*t| < 2^53"})
	}
	// floor(prod/100) with Euclidean div; ceil = -floor(-prod/100)
	floor := mk("div", SInt, prod, mkInt(100))
	ceil := mkNeg(mk("div", SInt, mkNeg(prod), mkInt(100)))
	if prod.lo != nil && prod.hi != nil {
		h := new(big.Int).Add(new(big.Int).Quo(maxBig(new(big.Int).Abs(prod.lo), new(big.Int).Abs(prod.hi)), big.NewInt(100)), big.NewInt(1))
		floor.lo, floor.hi = new(big.Int).Neg(h), h
		ceil.lo, ceil.hi = new(big.Int).Neg(h), h
		if prod.lo.Sign() >= 0 {
			floor.lo = big.NewInt(0)
			ceil.lo = big.NewInt(0)
		}
	}
	res := mkIte(roundUp, ceil, floor)
	return TupleV{res, IfaceV{}}
}

// ---- k8s api errors ----

func icReason(reason string) interceptFn {
	return func(ex *Exec, fr *frame, fn *ssa.Function, args []Value, pos tokenPos) Value {
		e := args[0].(IfaceV)
		if e.t == nil {
			return tFalse
		}
		// *StatusError{ErrStatus metav1.Status{... Reason}}
		pt, ok := e.t.(*types.Pointer)
		if !ok {
			return tFalse
		}
		named, ok := pt.Elem().(*types.Named)
		if !ok || named.Obj().Name() != "StatusError" {
			return tFalse
		}
		p := e.v.(PtrV)
		if p.c == nil {
			return tFalse
		}
		st := p.c.subs[0] // ErrStatus
		stT := st.typ.Underlying().(*types.Struct)
		for i := 0; i < stT.NumFields(); i++ {
			if stT.Field(i).Name() == "Reason" {
				return mkEq(asTerm(ex.load(st.subs[i])), mkStr(reason))
			}
		}
		return tFalse
	}
}
