package main

// Unit-domain tracking: while every constraint that mentions a nondeterministic variable is a unit literal
// (v, ¬v, v ⋈ c), the variable is independent of all others and the feasibility of a further unit literal is
// decided on its interval/excluded-points domain without calling the solver.

import "math/big"

type varDom struct {
	isBool  bool
	bval    int // 0 unknown, 1 true, -1 false
	lo, hi  *big.Int
	excl    map[string]bool
	complex bool
}

type unitLit struct {
	name string
	op   string // "b" (bool var true), "nb", "=", "!=", "<=", ">="
	c    *big.Int
	v    *Term
}

func unitLiteral(t *Term) (unitLit, bool) {
	neg := false
	for t.op == "not" {
		neg = !neg
		t = t.args[0]
	}
	if t.op == "v" && t.sort == SBool {
		if neg {
			return unitLit{name: t.s, op: "nb", v: t}, true
		}
		return unitLit{name: t.s, op: "b", v: t}, true
	}
	if len(t.args) != 2 {
		return unitLit{}, false
	}
	a, b := t.args[0], t.args[1]
	one := big.NewInt(1)
	// normalise (v ± k) ⋈ c  to  v ⋈ c ∓ k
	strip := func(x, other *Term) (*Term, *Term) {
		for (x.op == "+" || x.op == "-") && len(x.args) == 2 && other.op == "c" {
			if x.args[0].op == "v" && x.args[1].op == "c" {
				if x.op == "+" {
					other = mkIntBig(new(big.Int).Sub(other.i, x.args[1].i))
				} else {
					other = mkIntBig(new(big.Int).Add(other.i, x.args[1].i))
				}
				x = x.args[0]
				continue
			}
			if x.op == "+" && x.args[1].op == "v" && x.args[0].op == "c" {
				other = mkIntBig(new(big.Int).Sub(other.i, x.args[0].i))
				x = x.args[1]
				continue
			}
			break
		}
		return x, other
	}
	if a.sort == SInt {
		if b.op == "c" {
			a, b = strip(a, b)
		} else if a.op == "c" {
			b, a = strip(b, a)
		}
	}
	switch t.op {
	case "=":
		if a.sort != SInt {
			return unitLit{}, false
		}
		if a.op == "c" {
			a, b = b, a
		}
		if a.op != "v" || b.op != "c" {
			return unitLit{}, false
		}
		if neg {
			return unitLit{name: a.s, op: "!=", c: b.i, v: a}, true
		}
		return unitLit{name: a.s, op: "=", c: b.i, v: a}, true
	case "<", "<=":
		if a.op == "v" && b.op == "c" {
			// v < c  |  v <= c
			c := b.i
			if t.op == "<" {
				c = new(big.Int).Sub(c, one)
			}
			if neg { // v > c
				return unitLit{name: a.s, op: ">=", c: new(big.Int).Add(c, one), v: a}, true
			}
			return unitLit{name: a.s, op: "<=", c: c, v: a}, true
		}
		if a.op == "c" && b.op == "v" {
			// c < v | c <= v
			c := a.i
			if t.op == "<" {
				c = new(big.Int).Add(c, one)
			}
			if neg { // v < c
				return unitLit{name: b.s, op: "<=", c: new(big.Int).Sub(c, one), v: b}, true
			}
			return unitLit{name: b.s, op: ">=", c: c, v: b}, true
		}
	}
	return unitLit{}, false
}

func (ex *Exec) domOf(u unitLit) *varDom {
	d, ok := ex.doms[u.name]
	if !ok {
		d = &varDom{}
		if u.v.sort == SBool {
			d.isBool = true
		} else {
			d.lo, d.hi = u.v.lo, u.v.hi
			if d.lo == nil || d.hi == nil {
				d.complex = true
			}
		}
		ex.doms[u.name] = d
	}
	return d
}

// domFeasible: can the literal hold given the domain?
func (d *varDom) feasible(u unitLit) bool {
	switch u.op {
	case "b":
		return d.bval >= 0
	case "nb":
		return d.bval <= 0
	case "=":
		return u.c.Cmp(d.lo) >= 0 && u.c.Cmp(d.hi) <= 0 && !d.excl[u.c.String()]
	case "<=":
		return d.nonEmpty(d.lo, minBig(d.hi, u.c))
	case ">=":
		return d.nonEmpty(maxBig(d.lo, u.c), d.hi)
	case "!=":
		if u.c.Cmp(d.lo) < 0 || u.c.Cmp(d.hi) > 0 || d.excl[u.c.String()] {
			return d.nonEmpty(d.lo, d.hi)
		}
		// is there any other value left?
		size := new(big.Int).Sub(d.hi, d.lo)
		size.Add(size, big.NewInt(1))
		return size.Cmp(big.NewInt(int64(len(d.excl)+1))) > 0 || d.countExclInside() < len(d.excl) && size.Cmp(big.NewInt(int64(d.countExclInside()+1))) > 0
	}
	return true
}

func (d *varDom) countExclInside() int {
	n := 0
	for k := range d.excl {
		v, _ := new(big.Int).SetString(k, 10)
		if v.Cmp(d.lo) >= 0 && v.Cmp(d.hi) <= 0 {
			n++
		}
	}
	return n
}

func (d *varDom) nonEmpty(lo, hi *big.Int) bool {
	if lo.Cmp(hi) > 0 {
		return false
	}
	size := new(big.Int).Sub(hi, lo)
	size.Add(size, big.NewInt(1))
	if !size.IsInt64() || size.Int64() > int64(len(d.excl)) {
		return true
	}
	// small interval: count excluded points inside
	n := int64(0)
	for k := range d.excl {
		v, _ := new(big.Int).SetString(k, 10)
		if v.Cmp(lo) >= 0 && v.Cmp(hi) <= 0 {
			n++
		}
	}
	return size.Int64() > n
}

func (d *varDom) apply(u unitLit) {
	switch u.op {
	case "b":
		d.bval = 1
	case "nb":
		d.bval = -1
	case "=":
		d.lo, d.hi = u.c, u.c
	case "<=":
		d.hi = minBig(d.hi, u.c)
	case ">=":
		d.lo = maxBig(d.lo, u.c)
	case "!=":
		if d.excl == nil {
			d.excl = map[string]bool{}
		}
		d.excl[u.c.String()] = true
	}
}

// noteAssert updates the domains for an asserted constraint.
func (ex *Exec) noteAssert(t *Term) {
	if t.op == "and" {
		for _, a := range t.args {
			ex.noteAssert(a)
		}
		return
	}
	if u, ok := unitLiteral(t); ok {
		d := ex.domOf(u)
		if !d.complex {
			d.apply(u)
			return
		}
	}
	vs := map[string]Sort{}
	t.vars(vs)
	for name := range vs {
		d, ok := ex.doms[name]
		if !ok {
			d = &varDom{}
			ex.doms[name] = d
		}
		d.complex = true
	}
}

// unitDecide answers the feasibility of both polarities of a unit literal, when its variable is still independent.
func (ex *Exec) unitDecide(cond *Term) (feasT, feasF, ok bool) {
	u, isUnit := unitLiteral(cond)
	if !isUnit {
		return false, false, false
	}
	d := ex.domOf(u)
	if d.complex {
		return false, false, false
	}
	nu, _ := unitLiteral(mkNot(cond))
	return d.feasible(u), d.feasible(nu), true
}
