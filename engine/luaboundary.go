package main

// The Go <-> Lua boundary: ToUnstructured, RunLuaScript, LState.Get, LValue.Type, luamanager.Encode are intercepted
// and connected to the symbolic Lua interpreter (lua.go).

import (
	"crypto/sha256"
	"fmt"
	"go/types"
	"os"
	"path/filepath"
	"strings"
	"sync"

	"golang.org/x/tools/go/ssa"
)

var (
	luaSourcesMu sync.Mutex
	luaSources   = map[string]string{}
)

func noteLuaSource(text, rel string) {
	luaSourcesMu.Lock()
	luaSources[text] = rel
	luaSourcesMu.Unlock()
}

// luaSourceName names a Lua chunk for the evidence file: the repository path of a shipped script, or a digest of
// a harness-supplied plugin.
func luaSourceName(text string) string {
	luaSourcesMu.Lock()
	rel, ok := luaSources[text]
	luaSourcesMu.Unlock()
	if ok {
		return repoMod + "/" + rel + " (Lua chunk, executed symbolically)"
	}
	return fmt.Sprintf("%s harness-supplied Lua plugin sha256:%x (executed symbolically)", repoMod, sha256.Sum256([]byte(text)))[:len(repoMod)+60] + "…"
}

// luaStateBox stands for a *lua.LState: the interpreter state (its globals live as long as the LState does) and the
// value stack as far as the repository uses it (the returns of the chunks run in it).
type luaStateBox struct {
	ret []LVal
	li  *luaInterp
}

// luaGoFunc stands for the *lua.LFunction made from a Go function (LState.NewFunction).
type luaGoFunc struct{ name string }
type luaValueBox struct{ v LVal }

const (
	luaTNil    = 0
	luaTBool   = 1
	luaTNumber = 2
	luaTString = 3
	luaTFunc   = 4
	luaTTable  = 7
)

func luaTypeCode(v LVal) int64 {
	switch v.(type) {
	case LNilV, nil:
		return luaTNil
	case LBoolV:
		return luaTBool
	case LNumV, LRatV, LFltV:
		return luaTNumber
	case LStrV:
		return luaTString
	case *LFuncV:
		return luaTFunc
	case *LTableV:
		return luaTTable
	}
	return 5
}

// luaFromGo converts a gopher-lua LValue built by Go code that ran from its SSA (lua.LBool / LNumber / LString
// conversions, lua.LNil, tables from CreateTable) into the interpreter's value.
func (ex *Exec) luaFromGo(v Value, li *luaInterp) LVal {
	iv, ok := v.(IfaceV)
	if !ok {
		ex.unsupported(fmt.Sprintf("Go value of type %T where a lua.LValue is expected", v))
	}
	if iv.t == nil {
		// a nil LValue interface: gopher-lua would dereference it; the repository's code never produces one
		ex.unsupported("nil lua.LValue interface handed to Lua")
	}
	t := iv.t
	if p, ok := t.(*types.Pointer); ok {
		t = p.Elem()
	}
	switch namedPath(t) {
	case "github.com/yuin/gopher-lua.LBool":
		return LBoolV{asTerm(iv.v)}
	case "github.com/yuin/gopher-lua.LString":
		return LStrV{asTerm(iv.v)}
	case "github.com/yuin/gopher-lua.LNumber":
		switch x := iv.v.(type) {
		case FloatV:
			if it, ok := x.intTerm(); ok {
				return LNumV{it}
			}
			if x.f != x.f {
				ex.unsupported("opaque (symbolic) float passed to Lua")
			}
			return LFltV{x.f}
		case *Term:
			return LNumV{x}
		}
	case "github.com/yuin/gopher-lua.LFunction":
		if p, ok := iv.v.(PtrV); ok && p.c != nil {
			if nv, ok := p.c.val.(NativeV); ok {
				if f, ok := nv.v.(*LFuncV); ok {
					return f
				}
			}
		}
	case "github.com/yuin/gopher-lua.LNilType":
		return LNilV{}
	case "github.com/yuin/gopher-lua.LTable":
		if p, ok := iv.v.(PtrV); ok && p.c != nil {
			if nv, ok := p.c.val.(NativeV); ok {
				if tb, ok := nv.v.(*LTableV); ok {
					return tb
				}
			}
		}
	case "":
		if nv, ok := iv.v.(NativeV); ok {
			if box, ok := nv.v.(luaValueBox); ok {
				return box.v
			}
		}
	}
	ex.unsupported("lua.LValue of dynamic type " + iv.t.String() + " handed to Lua")
	return nil
}

// luaGoTypes resolves the gopher-lua value types and the lua.LNil singleton once per engine.
type luaGoTypes struct {
	lbool, lnumber, lstring, ltable, lfunction types.Type
	pkg                                        *ssa.Package
}

var luaTypesMu sync.Mutex

func (ex *Exec) luaTypes() *luaGoTypes {
	luaTypesMu.Lock()
	defer luaTypesMu.Unlock()
	if ex.eng.luaTypes != nil {
		return ex.eng.luaTypes
	}
	pkg := ex.prog.ImportedPackage("github.com/yuin/gopher-lua")
	if pkg == nil {
		ex.unsupported("gopher-lua is not part of the loaded program")
	}
	named := func(n string) types.Type {
		m := pkg.Type(n)
		if m == nil {
			ex.unsupported("gopher-lua type " + n + " not found")
		}
		return m.Type()
	}
	lt := &luaGoTypes{lbool: named("LBool"), lnumber: named("LNumber"), lstring: named("LString"),
		ltable: types.NewPointer(named("LTable")), lfunction: types.NewPointer(named("LFunction")), pkg: pkg}
	ex.eng.luaTypes = lt
	return lt
}

// luaToGo hands an interpreter value to Go code as the lua.LValue gopher-lua would hand out: the dynamic type is the
// real one (type switches and method calls of the repository's code dispatch on it), lua.LNil is the package's
// singleton, a table keeps its identity (one cell per table).
func (ex *Exec) luaToGo(v LVal) Value {
	lt := ex.luaTypes()
	switch x := v.(type) {
	case LNilV, nil:
		g := lt.pkg.Var("LNil")
		if g == nil {
			ex.unsupported("gopher-lua.LNil not found")
		}
		return ex.load(ex.globalCell(g))
	case LBoolV:
		return IfaceV{t: lt.lbool, v: x.t}
	case LStrV:
		return IfaceV{t: lt.lstring, v: x.t}
	case LNumV:
		return IfaceV{t: lt.lnumber, v: FloatV{it: x.t}}
	case LFltV:
		return IfaceV{t: lt.lnumber, v: FloatV{f: x.f}}
	case LRatV:
		li := &luaInterp{ex: ex}
		return ex.luaToGo(wrapFloat(li.toFloat(x)))
	case *LTableV:
		if ex.luaCells == nil {
			ex.luaCells = map[*LTableV]*Cell{}
		}
		c := ex.luaCells[x]
		if c == nil {
			c = ex.newCell(types.Typ[types.Int])
			c.val = NativeV{x}
			ex.luaCells[x] = c
		}
		return IfaceV{t: lt.ltable, v: PtrV{c}}
	case *LFuncV:
		c := ex.newCell(types.Typ[types.Int])
		c.val = NativeV{x}
		return IfaceV{t: lt.lfunction, v: PtrV{c}}
	}
	ex.unsupported(fmt.Sprintf("Lua value of type %T handed to Go", v))
	return nil
}

// goToLua converts a generic Go value (as produced by ToUnstructured / json decoding into interface{}) to Lua.
func (ex *Exec) goToLua(v Value, li *luaInterp) LVal {
	switch x := v.(type) {
	case IfaceV:
		if x.t == nil {
			return LNilV{}
		}
		return ex.goToLua(x.v, li)
	case *Term:
		switch x.sort {
		case SStr:
			return LStrV{x}
		case SInt:
			return LNumV{x}
		default:
			return LBoolV{x}
		}
	case FloatV:
		if it, ok := x.intTerm(); ok {
			return LNumV{it}
		}
		ex.unsupported("non-integral float passed to Lua")
	case MapV:
		t := li.newTable()
		if x.m != nil {
			for i, k := range x.m.keys {
				lv := ex.goToLua(x.m.vals[i], li)
				if _, isNil := lv.(LNilV); isNil {
					continue
				}
				t.keys = append(t.keys, LStrV{asTerm(k)})
				t.vals = append(t.vals, lv)
			}
		}
		return t
	case SliceV:
		t := li.newTable()
		for i, e := range ex.sliceElems(x) {
			t.keys = append(t.keys, LNumV{mkInt(int64(i + 1))})
			t.vals = append(t.vals, ex.goToLua(e, li))
		}
		return t
	case PtrV:
		if x.c == nil {
			return LNilV{}
		}
	case nil:
		return LNilV{}
	}
	ex.unsupported(fmt.Sprintf("value of type %T passed to Lua", v))
	return nil
}

// luaToJNode mirrors luamanager.Encode.
func (ex *Exec) luaToJNode(v LVal, depth int) (*JNode, string) {
	if depth > 60 {
		return nil, "cannot encode recursively nested tables to JSON"
	}
	switch x := v.(type) {
	case LNilV, nil:
		return &JNode{kind: "null"}, ""
	case LBoolV:
		return &JNode{kind: "bool", scalar: x.t}, ""
	case LNumV:
		return &JNode{kind: "num", scalar: x.t}, ""
	case LRatV, LFltV:
		li := &luaInterp{ex: ex}
		w := wrapFloat(li.toFloat(x))
		if n, ok := w.(LNumV); ok {
			return &JNode{kind: "num", scalar: n.t}, ""
		}
		return &JNode{kind: "float", raw: FloatV{f: w.(LFltV).f}}, ""
	case LStrV:
		return &JNode{kind: "str", scalar: x.t}, ""
	case *LTableV:
		if len(x.keys) == 0 {
			return &JNode{kind: "null"}, ""
		}
		if _, isNum := x.keys[0].(LNumV); isNum {
			n := &JNode{kind: "arr"}
			// keys must be 1..n (any order of insertion)
			for i := int64(1); i <= int64(len(x.keys)); i++ {
				found := false
				for j, k := range x.keys {
					kn, ok := k.(LNumV)
					if !ok {
						return nil, "cannot encode mixed or invalid key types"
					}
					if c, ok := kn.t.constInt(); ok && c == i {
						c2, e := ex.luaToJNode(x.vals[j], depth+1)
						if e != "" {
							return nil, e
						}
						n.vals = append(n.vals, c2)
						found = true
					}
				}
				if !found {
					return nil, "cannot encode sparse array"
				}
			}
			return n, ""
		}
		n := &JNode{kind: "obj"}
		for j, k := range x.keys {
			ks, ok := k.(LStrV)
			if !ok {
				return nil, "cannot encode mixed or invalid key types"
			}
			c, e := ex.luaToJNode(x.vals[j], depth+1)
			if e != "" {
				return nil, e
			}
			n.keyTerms = append(n.keyTerms, ks.t)
			n.vals = append(n.vals, c)
		}
		return n, ""
	}
	return nil, "cannot encode " + luaTypeName(v) + " to JSON"
}

// toUnstructured mirrors runtime.DefaultUnstructuredConverter.ToUnstructured on the value model.
func (ex *Exec) toUnstructured(v Value, t types.Type, depth int) Value {
	if depth > 60 {
		ex.unsupported("ToUnstructured depth")
	}
	iface := types.NewInterfaceType(nil, nil)
	switch namedPath(t) {
	case "k8s.io/apimachinery/pkg/util/intstr.IntOrString":
		sv := v.(StructV)
		if ex.branch(mkEq(asTerm(sv.fields[0]), mkInt(0))) {
			return IfaceV{t: types.Typ[types.Int64], v: sv.fields[1]}
		}
		return IfaceV{t: types.Typ[types.String], v: sv.fields[2]}
	case "k8s.io/apimachinery/pkg/apis/meta/v1.Time", "k8s.io/apimachinery/pkg/apis/meta/v1.MicroTime":
		if ex.branch(mkEq(timeNs(v.(StructV).fields[0]), mkInt(0))) {
			return IfaceV{}
		}
		return IfaceV{t: types.Typ[types.String], v: ex.fresh("rfc3339", SStr)}
	}
	if np := namedPath(t); np != "" && ex.hasMethod(t, "MarshalJSON") {
		ex.unsupported("ToUnstructured of type with custom MarshalJSON: " + np)
	}
	switch u := t.Underlying().(type) {
	case *types.Basic:
		info := u.Info()
		switch {
		case info&types.IsString != 0:
			return IfaceV{t: types.Typ[types.String], v: v}
		case info&types.IsBoolean != 0:
			return IfaceV{t: types.Typ[types.Bool], v: v}
		case info&types.IsInteger != 0:
			return IfaceV{t: types.Typ[types.Int64], v: v}
		case info&types.IsFloat != 0:
			return IfaceV{t: types.Typ[types.Float64], v: v}
		}
	case *types.Pointer:
		p := v.(PtrV)
		if p.c == nil {
			return IfaceV{}
		}
		return ex.toUnstructured(ex.load(p.c), u.Elem(), depth+1)
	case *types.Interface:
		iv := v.(IfaceV)
		if iv.t == nil {
			return IfaceV{}
		}
		return ex.toUnstructured(iv.v, iv.t, depth+1)
	case *types.Struct:
		ex.mapSeq++
		m := &MapObj{keyT: types.Typ[types.String], valT: iface, id: ex.mapSeq}
		ex.toUnstructuredStruct(m, v.(StructV), u, depth)
		return IfaceV{t: tyMapStrIface, v: MapV{m}}
	case *types.Slice:
		s := v.(SliceV)
		if isnil, _ := isNilValue(s); isnil {
			return IfaceV{}
		}
		var es []Value
		for _, e := range ex.sliceElems(s) {
			es = append(es, ex.toUnstructured(e, u.Elem(), depth+1))
		}
		return IfaceV{t: tySliceIface, v: ex.mkSlice(iface, es)}
	case *types.Map:
		mv := v.(MapV)
		if mv.m == nil {
			return IfaceV{}
		}
		ex.mapSeq++
		m := &MapObj{keyT: types.Typ[types.String], valT: iface, id: ex.mapSeq}
		for i, k := range mv.m.keys {
			m.keys = append(m.keys, k)
			m.vals = append(m.vals, ex.toUnstructured(mv.m.vals[i], u.Elem(), depth+1))
		}
		return IfaceV{t: tyMapStrIface, v: MapV{m}}
	}
	ex.unsupported("ToUnstructured of " + t.String())
	return nil
}

func (ex *Exec) toUnstructuredStruct(m *MapObj, sv StructV, st *types.Struct, depth int) {
	for i := 0; i < st.NumFields(); i++ {
		f := st.Field(i)
		tagName, omit, skip, _ := parseTag(st.Tag(i))
		if skip || (!f.Exported() && !f.Embedded()) {
			continue
		}
		hasTag := reflectStructTag(st.Tag(i)) != ""
		name := tagName
		if !hasTag {
			name = strings.ToLower(f.Name()[:1]) + f.Name()[1:]
		}
		fv := sv.fields[i]
		if hasTag && name == "" && f.Embedded() {
			// inline
			ft := f.Type()
			if p, ok := ft.Underlying().(*types.Pointer); ok {
				pv := fv.(PtrV)
				if pv.c == nil {
					continue
				}
				fv, ft = ex.load(pv.c), p.Elem()
			}
			if est, ok := ft.Underlying().(*types.Struct); ok {
				ex.toUnstructuredStruct(m, fv.(StructV), est, depth+1)
				continue
			}
		}
		if name == "" {
			name = f.Name()
		}
		if omit {
			if z, known := ex.isEmptyJSON(fv); known && z {
				continue
			} else if !known {
				if t, ok := fv.(*Term); ok {
					var zero *Term
					switch t.sort {
					case SStr:
						zero = mkEq(t, mkStr(""))
					case SInt:
						zero = mkEq(t, mkInt(0))
					default:
						zero = mkNot(t)
					}
					if ex.branch(zero) {
						continue
					}
				}
			}
		}
		m.keys = append(m.keys, mkStr(name))
		m.vals = append(m.vals, ex.toUnstructured(fv, f.Type(), depth+1))
	}
}

func init() {
	add := func(name string, f interceptFn) { interceptTable[name] = f }
	add("(*k8s.io/apimachinery/pkg/runtime.unstructuredConverter).ToUnstructured", func(ex *Exec, fr *frame, fn *ssa.Function, args []Value, pos tokenPos) Value {
		iv := args[1].(IfaceV)
		if iv.t == nil {
			return TupleV{MapV{}, ex.newError(mkStr("ToUnstructured requires a non-nil pointer to an object"))}
		}
		res := ex.toUnstructured(iv.v, iv.t, 0).(IfaceV)
		mv, ok := res.v.(MapV)
		if !ok {
			return TupleV{MapV{}, ex.newError(mkStr("ToUnstructured: not a struct"))}
		}
		return TupleV{mv, IfaceV{}}
	})
	add(rtPkg+".RepoFile", func(ex *Exec, fr *frame, fn *ssa.Function, args []Value, pos tokenPos) Value {
		rel := constStr(ex, args[0], "RepoFile path")
		b, err := os.ReadFile(filepath.Join(ex.eng.repoDir, rel))
		if err != nil {
			ex.unsupported("RepoFile: " + err.Error())
		}
		noteLuaSource(string(b), rel)
		return mkStr(string(b))
	})
	add(repoMod+"/pkg/util.GetLuaConfigurationContent", func(ex *Exec, fr *frame, fn *ssa.Function, args []Value, pos tokenPos) Value {
		rel := constStr(ex, args[0], "lua configuration key")
		b, err := os.ReadFile(filepath.Join(ex.eng.repoDir, rel))
		if err != nil {
			return mkStr("")
		}
		noteLuaSource(string(b), rel)
		return mkStr(string(b))
	})
	// luamanager.RunLuaScript runs from its SSA; the gopher-lua calls it makes are the boundary:
	//   lua.NewState -> a fresh interpreter state with empty globals
	//   NewFunction + CallByParam(Open*) -> the library becomes available in that state
	//   SetGlobal -> a global of that state; DoString -> the chunk runs in that state, its returns go on the stack
	stateOf := func(ex *Exec, fr *frame, v Value, pos tokenPos) *luaStateBox {
		p, ok := v.(PtrV)
		if !ok || p.c == nil {
			ex.raise(fr, pos, "nil pointer dereference (*lua.LState)")
		}
		nv, ok := p.c.val.(NativeV)
		if !ok {
			ex.unsupported("*lua.LState not created by lua.NewState")
		}
		return nv.v.(*luaStateBox)
	}
	add("github.com/yuin/gopher-lua.NewState", func(ex *Exec, fr *frame, fn *ssa.Function, args []Value, pos tokenPos) Value {
		skip := false
		if sl, ok := args[0].(SliceV); ok {
			for _, o := range ex.sliceElems(sl) {
				if f, _, ok := structFieldByName(o, fn.Signature.Params().At(0).Type().(*types.Slice).Elem(), "SkipOpenLibs"); ok {
					if t := asTerm(f); t.op == "c" && t.b {
						skip = true
					}
				}
			}
		}
		if !skip {
			ex.unsupported("lua.NewState without SkipOpenLibs (the io / os / package libraries are not modelled)")
		}
		c := ex.newCell(types.Typ[types.Int])
		c.val = NativeV{&luaStateBox{li: ex.newLuaState()}}
		return PtrV{c}
	})
	add("(*github.com/yuin/gopher-lua.LState).NewFunction", func(ex *Exec, fr *frame, fn *ssa.Function, args []Value, pos tokenPos) Value {
		name := ""
		if f, ok := args[1].(FuncV); ok && f.fn != nil {
			name = f.fn.String()
		}
		c := ex.newCell(types.Typ[types.Int])
		c.val = NativeV{luaGoFunc{name}}
		return PtrV{c}
	})
	add("(*github.com/yuin/gopher-lua.LState).CallByParam", func(ex *Exec, fr *frame, fn *ssa.Function, args []Value, pos tokenPos) Value {
		box := stateOf(ex, fr, args[0], pos)
		f, _, ok := structFieldByName(args[1], fn.Signature.Params().At(0).Type(), "Fn")
		name := ""
		if ok {
			if iv, isI := f.(IfaceV); isI && iv.t != nil {
				if p, isP := iv.v.(PtrV); isP && p.c != nil {
					if nv, isN := p.c.val.(NativeV); isN {
						if g, isG := nv.v.(luaGoFunc); isG {
							name = g.name
						}
					}
				}
			}
		}
		switch name {
		case "github.com/yuin/gopher-lua.OpenBase":
			box.li.openLib("base")
		case "github.com/yuin/gopher-lua.OpenString":
			box.li.openLib("string")
		case "github.com/yuin/gopher-lua.OpenTable":
			box.li.openLib("table")
		case "github.com/yuin/gopher-lua.OpenMath":
			box.li.openLib("math")
		case repoMod + "/pkg/util/luamanager.OpenJson":
			// the json library of the scripts is not modelled (no shipped script calls it); a script that does fails
			// on the nil global, which the native replay would contradict -> inconclusive
		default:
			ex.unsupported("LState.CallByParam of " + name)
		}
		return IfaceV{}
	})
	add("(*github.com/yuin/gopher-lua.LState).SetContext", icZero)
	add("(*github.com/yuin/gopher-lua.LState).SetTop", func(ex *Exec, fr *frame, fn *ssa.Function, args []Value, pos tokenPos) Value {
		box := stateOf(ex, fr, args[0], pos)
		n, ok := asTerm(args[1]).constInt()
		if !ok || n < 0 || int(n) > len(box.ret) {
			ex.unsupported("LState.SetTop with a symbolic or growing index")
		}
		box.ret = box.ret[:n]
		return nil
	})
	add("(*github.com/yuin/gopher-lua.LState).SetGlobal", func(ex *Exec, fr *frame, fn *ssa.Function, args []Value, pos tokenPos) Value {
		box := stateOf(ex, fr, args[0], pos)
		v := ex.luaFromGo(args[2], box.li)
		box.li.globals.vars[constStr(ex, args[1], "LState.SetGlobal name")] = &v
		return nil
	})
	add("(*github.com/yuin/gopher-lua.LState).DoString", func(ex *Exec, fr *frame, fn *ssa.Function, args []Value, pos tokenPos) Value {
		box := stateOf(ex, fr, args[0], pos)
		script := asTerm(args[1])
		if script.op != "c" {
			ex.unsupported("RunLuaScript with a symbolic script (ConfigMap-supplied programs are outside the claim)")
		}
		ex.h.funcs[luaSourceName(script.s)]++
		ret, errMsg := box.li.run(script.s)
		if errMsg != "" {
			return ex.newError(mkStr(errMsg))
		}
		box.ret = append(box.ret, ret...)
		return IfaceV{}
	})
	// sync.Pool, sequentially: Get hands back what was Put last, or makes a new one
	poolOf := func(ex *Exec, fr *frame, v Value, pos tokenPos) *Cell {
		p, ok := v.(PtrV)
		if !ok || p.c == nil {
			ex.raise(fr, pos, "nil pointer dereference (*sync.Pool)")
		}
		return p.c
	}
	add("(*sync.Pool).Put", func(ex *Exec, fr *frame, fn *ssa.Function, args []Value, pos tokenPos) Value {
		c := poolOf(ex, fr, args[0], pos)
		if iv, ok := args[1].(IfaceV); ok && iv.t == nil {
			return nil
		}
		if ex.pools == nil {
			ex.pools = map[*Cell][]Value{}
		}
		ex.pools[c] = append(ex.pools[c], args[1])
		return nil
	})
	add("(*sync.Pool).Get", func(ex *Exec, fr *frame, fn *ssa.Function, args []Value, pos tokenPos) Value {
		c := poolOf(ex, fr, args[0], pos)
		if items := ex.pools[c]; len(items) > 0 {
			v := items[len(items)-1]
			ex.pools[c] = items[:len(items)-1]
			return v
		}
		st, ok := c.typ.Underlying().(*types.Struct)
		if !ok || c.subs == nil {
			ex.unsupported("sync.Pool of unexpected shape")
		}
		for i := 0; i < st.NumFields(); i++ {
			if st.Field(i).Name() == "New" {
				if f, ok := ex.load(c.subs[i]).(FuncV); ok && (f.fn != nil || f.builtin != "") {
					return ex.callFn(fr, f, nil, pos)
				}
			}
		}
		return IfaceV{}
	})
	add("(*github.com/yuin/gopher-lua.LState).Get", func(ex *Exec, fr *frame, fn *ssa.Function, args []Value, pos tokenPos) Value {
		p := args[0].(PtrV)
		if p.c == nil {
			ex.raise(fr, pos, "nil pointer dereference (LState.Get)")
		}
		box := p.c.val.(NativeV).v.(*luaStateBox)
		idx, ok := asTerm(args[1]).constInt()
		if !ok || idx != -1 {
			ex.unsupported("LState.Get with an index other than -1")
		}
		var v LVal = LNilV{}
		if len(box.ret) > 0 {
			v = box.ret[len(box.ret)-1]
		}
		return ex.luaToGo(v)
	})
	add("(*github.com/yuin/gopher-lua.LState).Close", icZero)
	// gopher-lua table construction from Go (used by luamanager.decodeValue, which runs from its SSA)
	luaTableOf := func(ex *Exec, fr *frame, v Value, pos tokenPos) *LTableV {
		p, ok := v.(PtrV)
		if !ok || p.c == nil {
			ex.raise(fr, pos, "nil pointer dereference (*lua.LTable)")
		}
		nv, ok := p.c.val.(NativeV)
		if !ok {
			ex.unsupported("*lua.LTable not created by LState.CreateTable")
		}
		return nv.v.(*LTableV)
	}
	luaLI := func(ex *Exec) *luaInterp {
		if ex.luaLI == nil {
			ex.luaLI = &luaInterp{ex: ex}
		}
		return ex.luaLI
	}
	newTable := func(ex *Exec, fr *frame, fn *ssa.Function, args []Value, pos tokenPos) Value {
		li := luaLI(ex)
		if p, ok := args[0].(PtrV); ok && p.c != nil {
			if nv, ok := p.c.val.(NativeV); ok {
				if box, ok := nv.v.(*luaStateBox); ok && box.li != nil {
					li = box.li
				}
			}
		}
		c := ex.newCell(types.Typ[types.Int])
		c.val = NativeV{li.newTable()}
		return PtrV{c}
	}
	// pure predicates of gopher-lua's value.go, decided on the interpreter's value
	add("github.com/yuin/gopher-lua.LVIsFalse", func(ex *Exec, fr *frame, fn *ssa.Function, args []Value, pos tokenPos) Value {
		switch x := ex.luaFromGo(args[0], luaLI(ex)).(type) {
		case LNilV:
			return tTrue
		case LBoolV:
			return mkNot(x.t)
		}
		return tFalse
	})
	add("github.com/yuin/gopher-lua.LVAsBool", func(ex *Exec, fr *frame, fn *ssa.Function, args []Value, pos tokenPos) Value {
		switch x := ex.luaFromGo(args[0], luaLI(ex)).(type) {
		case LNilV:
			return tFalse
		case LBoolV:
			return x.t
		}
		return tTrue
	})
	add("(*github.com/yuin/gopher-lua.LState).CreateTable", newTable)
	add("(*github.com/yuin/gopher-lua.LState).NewTable", newTable)
	add("(*github.com/yuin/gopher-lua.LTable).Append", func(ex *Exec, fr *frame, fn *ssa.Function, args []Value, pos tokenPos) Value {
		t := luaTableOf(ex, fr, args[0], pos)
		li := luaLI(ex)
		v := ex.luaFromGo(args[1], li)
		if _, isNil := v.(LNilV); isNil {
			return nil
		}
		li.rawSet(t, LNumV{mkInt(li.length(t) + 1)}, v)
		return nil
	})
	rawSet := func(key func(ex *Exec, v Value, li *luaInterp) LVal) interceptFn {
		return func(ex *Exec, fr *frame, fn *ssa.Function, args []Value, pos tokenPos) Value {
			t := luaTableOf(ex, fr, args[0], pos)
			li := luaLI(ex)
			k := key(ex, args[1], li)
			if _, isNil := k.(LNilV); isNil {
				ex.raise(fr, pos, "table index is nil")
			}
			li.rawSet(t, k, ex.luaFromGo(args[2], li))
			return nil
		}
	}
	lvKey := func(ex *Exec, v Value, li *luaInterp) LVal { return ex.luaFromGo(v, li) }
	add("(*github.com/yuin/gopher-lua.LTable).RawSetH", rawSet(lvKey))
	add("(*github.com/yuin/gopher-lua.LTable).RawSet", rawSet(lvKey))
	add("(*github.com/yuin/gopher-lua.LTable).RawSetString", rawSet(func(ex *Exec, v Value, li *luaInterp) LVal { return LStrV{asTerm(v)} }))
	add("(*github.com/yuin/gopher-lua.LTable).RawSetInt", rawSet(func(ex *Exec, v Value, li *luaInterp) LVal { return LNumV{asTerm(v)} }))
	add("github.com/evanphx/json-patch.CreateMergePatch", func(ex *Exec, fr *frame, fn *ssa.Function, args []Value, pos tokenPos) Value {
		// RFC 7386 difference of two documents.  When both are JSON tokens of the value model the patch is computed on
		// their trees (changed / added members with the new value, removed members as null, recursively for
		// objects); otherwise the body stays opaque (harnesses then only look at the write target)
		if a, ok := args[0].(SliceV); ok && a.str != nil {
			if b, ok := args[1].(SliceV); ok && b.str != nil {
				na, okA := ex.jsonTok[a.str]
				nb, okB := ex.jsonTok[b.str]
				if okA && okB && na.kind == "obj" && nb.kind == "obj" {
					return TupleV{SliceV{str: ex.newToken(ex.mergePatchNode(na, nb, 0))}, IfaceV{}}
				}
			}
		}
		return TupleV{SliceV{str: ex.fresh("mergepatch", SStr)}, IfaceV{}}
	})
	// luamanager.Encode / jsonValue.MarshalJSON run from their SSA (json.go: jsonEncodeViaMethod); what they ask of a
	// Lua value is answered here
	typeCode := func(code int64) interceptFn {
		return func(ex *Exec, fr *frame, fn *ssa.Function, args []Value, pos tokenPos) Value { return mkInt(code) }
	}
	add("(github.com/yuin/gopher-lua.LBool).Type", typeCode(luaTBool))
	add("(github.com/yuin/gopher-lua.LNumber).Type", typeCode(luaTNumber))
	add("(github.com/yuin/gopher-lua.LString).Type", typeCode(luaTString))
	add("(*github.com/yuin/gopher-lua.LNilType).Type", typeCode(luaTNil))
	add("(*github.com/yuin/gopher-lua.LTable).Type", typeCode(luaTTable))
	add("(*github.com/yuin/gopher-lua.LFunction).Type", typeCode(luaTFunc))
	add("(github.com/yuin/gopher-lua.LString).String", func(ex *Exec, fr *frame, fn *ssa.Function, args []Value, pos tokenPos) Value {
		return asTerm(args[0])
	})
	add("(github.com/yuin/gopher-lua.LValueType).String", func(ex *Exec, fr *frame, fn *ssa.Function, args []Value, pos tokenPos) Value {
		c, ok := asTerm(args[0]).constInt()
		names := []string{"nil", "boolean", "number", "string", "function", "userdata", "thread", "table", "channel"}
		if !ok || c < 0 || int(c) >= len(names) {
			ex.unsupported("LValueType.String of a symbolic type code")
		}
		return mkStr(names[c])
	})
	add("(*github.com/yuin/gopher-lua.LTable).Len", func(ex *Exec, fr *frame, fn *ssa.Function, args []Value, pos tokenPos) Value {
		return mkInt(luaLI(ex).length(luaTableOf(ex, fr, args[0], pos)))
	})
	// Next: gopher-lua walks the array part (1..n) first, then the other keys in the order they were first set
	add("(*github.com/yuin/gopher-lua.LTable).Next", func(ex *Exec, fr *frame, fn *ssa.Function, args []Value, pos tokenPos) Value {
		t := luaTableOf(ex, fr, args[0], pos)
		li := luaLI(ex)
		n := int(li.length(t))
		var order []int
		used := make([]bool, len(t.keys))
		for i := 1; i <= n; i++ {
			for j, k := range t.keys {
				if kn, ok := k.(LNumV); ok && !used[j] {
					if c, isC := kn.t.constInt(); isC && c == int64(i) {
						order = append(order, j)
						used[j] = true
						break
					}
				}
			}
		}
		for j := range t.keys {
			if !used[j] {
				order = append(order, j)
			}
		}
		pair := func(pos int) Value {
			if pos >= len(order) {
				return TupleV{ex.luaToGo(LNilV{}), ex.luaToGo(LNilV{})}
			}
			return TupleV{ex.luaToGo(t.keys[order[pos]]), ex.luaToGo(t.vals[order[pos]])}
		}
		key := ex.luaFromGo(args[1], li)
		if _, isNil := key.(LNilV); isNil {
			return pair(0)
		}
		for pos, j := range order {
			if ex.branch(li.keyEq(t.keys[j], key)) {
				return pair(pos + 1)
			}
		}
		ex.raise(fr, pos, "invalid key to 'next'")
		return nil
	})
}

// mergePatchNode: the RFC 7386 patch that turns object a into object b.
func (ex *Exec) mergePatchNode(a, b *JNode, depth int) *JNode {
	if depth > 40 {
		ex.unsupported("merge patch depth")
	}
	out := &JNode{kind: "obj"}
	matched := make([]bool, len(a.vals))
	for i := range b.vals {
		j := -1
		for k := range a.vals {
			if matched[k] {
				continue
			}
			if ex.branch(mkEq(a.keyTerms[k], b.keyTerms[i])) {
				j = k
				break
			}
		}
		if j < 0 {
			out.keyTerms = append(out.keyTerms, b.keyTerms[i])
			out.vals = append(out.vals, b.vals[i])
			continue
		}
		matched[j] = true
		av, bv := a.vals[j], b.vals[i]
		if av.kind == "obj" && bv.kind == "obj" {
			sub := ex.mergePatchNode(av, bv, depth+1)
			if len(sub.vals) > 0 {
				out.keyTerms = append(out.keyTerms, b.keyTerms[i])
				out.vals = append(out.vals, sub)
			}
			continue
		}
		if !ex.branch(ex.jnodeEq(av, bv)) {
			out.keyTerms = append(out.keyTerms, b.keyTerms[i])
			out.vals = append(out.vals, bv)
		}
	}
	for k := range a.vals {
		if !matched[k] {
			out.keyTerms = append(out.keyTerms, a.keyTerms[k])
			out.vals = append(out.vals, &JNode{kind: "null"})
		}
	}
	return out
}
