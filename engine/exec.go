package main

// Symbolic interpreter for go/ssa with replay-based depth-first path exploration
// (DESIGN.md §2.4).

import (
	"fmt"
	"go/constant"
	"go/token"
	"go/types"
	"math/big"
	"sort"
	"strings"

	"golang.org/x/tools/go/ssa"
)

// ---- path control sentinels (Go panics used to unwind the interpreter) ----

type pathEnd struct {
	kind string // "pruned" | "inconclusive" | "done"
	msg  string
}

// goPanic models a Go panic propagating through target frames.
type goPanic struct {
	val   Value
	msg   string
	site  string // function + position of the panic
	stack []string
}

type decision struct {
	choice bool
	hasAlt bool // the other side is feasible and not yet explored
}

type nondetRec struct {
	Name string
	T    *Term
	Kind string // bool,int,int32,int64,string
}

type Violation struct {
	Harness string            `json:"harness"`
	Kind    string            `json:"kind"` // assert | panic
	Label   string            `json:"label"`
	Site    string            `json:"site,omitempty"`
	Msg     string            `json:"msg,omitempty"`
	Values  map[string]string `json:"values"`
	Stack   []string          `json:"stack,omitempty"`
	Path    int               `json:"path"`
	Notes   []string          `json:"notes,omitempty"`
}

type Exec struct {
	eng    *Engine
	prog   *ssa.Program
	solver *Solver
	h      *HarnessRun

	// exploration state
	decisions []decision
	pos       int

	// per-path state
	cellSeq   int
	symSeq    int
	mapSeq    int
	syncMaps  map[*Cell]*MapObj
	locks       map[*Cell]*lockHold
	guards      map[*Cell]*guardRec
	guardedMaps map[*MapObj]*guardRec
	luaLI       *luaInterp // the interpreter whose tables Go-side gopher-lua constructors create (luaboundary.go)
	pools       map[*Cell][]Value // sync.Pool contents on this path (luaboundary.go)
	luaCells    map[*LTableV]*Cell // one Go-side cell per Lua table handed to Go code (luaboundary.go)
	nestedMarshal int // >0 while a MarshalJSON method of the repository runs inside json.Marshal (json.go)
	globals   map[*ssa.Global]*Cell
	ginit     map[*ssa.Global]bool
	nondets   []nondetRec
	occ       map[string]int
	steps     int
	depth     int
	stubs     map[string]FuncV
	jsonTok   map[*Term]*JNode
	jsonEsc   map[*Term]*Term // escaped copy (quotes backslashed) -> original token
	pcCount   int
	declared  map[string]bool
	observes  []observeRec
	callStack []string
	panicking *goPanic
	ufDecl    map[string]bool
	timeNow   *Term
	pathNotes []string
	errType   types.Type
	pathCovers []string
	lastInstr  string
	hashOf     map[int]*Term
	hashedNodes []hashedNode
	doms map[string]*varDom
	curInstr   ssa.Instruction
	curFn      *ssa.Function
	lastPanic  *goPanic
}

type observeRec struct {
	Name string
	T    *Term
}

func (ex *Exec) unsupported(msg string) {
	where := ""
	if len(ex.callStack) > 0 {
		where = " in " + ex.callStack[len(ex.callStack)-1]
	}
	panic(pathEnd{"inconclusive", "unsupported: " + msg + where})
}

func (ex *Exec) prune(msg string) { panic(pathEnd{"pruned", msg}) }

// ---- solver-facing helpers ----

func (ex *Exec) declare(t *Term) {
	if ex.declared[t.s] {
		return
	}
	ex.declared[t.s] = true
	ex.solver.Send(fmt.Sprintf("(declare-const %s %s)", smtSym(t.s), t.sort))
	if t.sort == SInt {
		if t.lo != nil {
			ex.solver.Send(fmt.Sprintf("(assert (>= %s %s))", smtSym(t.s), smtInt(t.lo)))
		}
		if t.hi != nil {
			ex.solver.Send(fmt.Sprintf("(assert (<= %s %s))", smtSym(t.s), smtInt(t.hi)))
		}
	}
}

func (ex *Exec) fresh(prefix string, sort Sort) *Term {
	ex.symSeq++
	t := mkVar(fmt.Sprintf("%s!%d", prefix, ex.symSeq), sort)
	ex.declare(t)
	return t
}

func (ex *Exec) freshInt(prefix string, lo, hi *big.Int) *Term {
	ex.symSeq++
	t := mkVarBounded(fmt.Sprintf("%s!%d", prefix, ex.symSeq), lo, hi)
	ex.declare(t)
	return t
}

func (ex *Exec) assert(t *Term) {
	if t.op == "c" {
		if !t.b {
			ex.prune("assert false")
		}
		return
	}
	ex.pcCount++
	ex.noteAssert(t)
	ex.solver.Send("(assert " + t.SMT() + ")")
}

// branch decides a symbolic condition, forking the exploration when both sides are feasible.
func (ex *Exec) branch(cond *Term) bool {
	if cond.op == "c" {
		return cond.b
	}
	if ex.pos < len(ex.decisions) {
		d := ex.decisions[ex.pos]
		ex.pos++
		if d.choice {
			ex.assert(cond)
		} else {
			ex.assert(mkNot(cond))
		}
		return d.choice
	}
	if len(ex.decisions) >= ex.eng.maxDecisions {
		panic(pathEnd{"inconclusive", fmt.Sprintf("decision bound %d reached (unwinding bound too small)", ex.eng.maxDecisions)})
	}
	ex.h.stats.Branches++
	// unit literal on a variable that is still independent of all others: decided on its domain
	if ft, ff, ok := ex.unitDecide(cond); ok {
		ex.h.stats.UnitDecided++
		switch {
		case ft && ff:
			ex.decisions = append(ex.decisions, decision{choice: true, hasAlt: true})
			ex.pos++
			ex.assert(cond)
			return true
		case ft:
			ex.decisions = append(ex.decisions, decision{choice: true})
			ex.pos++
			ex.assert(cond)
			return true
		case ff:
			ex.decisions = append(ex.decisions, decision{choice: false})
			ex.pos++
			ex.assert(mkNot(cond))
			return false
		}
		ex.prune("unit domain empty")
	}
	rt := ex.solver.CheckWith(cond)
	if rt == "unknown" {
		ex.h.noteUnknown("branch feasibility: " + trunc(cond.SMT(), 200))
	}
	if rt == "unsat" {
		// pc is satisfiable by invariant, so the other side is feasible
		ex.decisions = append(ex.decisions, decision{choice: false})
		ex.pos++
		ex.assert(mkNot(cond))
		return false
	}
	rf := ex.solver.CheckWith(mkNot(cond))
	if rf == "unknown" {
		ex.h.noteUnknown("branch feasibility: " + trunc(cond.SMT(), 200))
	}
	if rf == "unsat" {
		ex.decisions = append(ex.decisions, decision{choice: true})
		ex.pos++
		ex.assert(cond)
		return true
	}
	ex.decisions = append(ex.decisions, decision{choice: true, hasAlt: true})
	ex.pos++
	ex.assert(cond)
	return true
}

func trunc(s string, n int) string {
	if len(s) > n {
		return s[:n] + "..."
	}
	return s
}

// feasible asks whether cond can hold on the current path (no fork).
func (ex *Exec) feasible(cond *Term) bool {
	if cond.op == "c" {
		return cond.b
	}
	r := ex.solver.CheckWith(cond)
	if r == "unknown" {
		ex.h.noteUnknown("feasibility: " + trunc(cond.SMT(), 200))
		return true
	}
	return r == "sat"
}

// concretize forks over the possible values of an integer term within [lo,hi].
func (ex *Exec) concretize(t *Term, what string) int {
	if v, ok := t.constInt(); ok {
		return int(v)
	}
	if t.lo == nil || t.hi == nil || new(big.Int).Sub(t.hi, t.lo).Cmp(big.NewInt(64)) > 0 {
		// ask the solver for bounds by probing small values
		for v := int64(0); v <= 64; v++ {
			if ex.branch(mkEq(t, mkInt(v))) {
				return int(v)
			}
		}
		ex.unsupported("cannot concretize " + what + ": " + trunc(t.SMT(), 120))
	}
	lo, hi := t.lo.Int64(), t.hi.Int64()
	for v := lo; v < hi; v++ {
		if ex.branch(mkEq(t, mkInt(v))) {
			return int(v)
		}
	}
	return int(hi)
}

// ---- frames ----

type deferred struct {
	fn   Value
	args []Value
	call *ssa.CallCommon
}

type frame struct {
	fn     *ssa.Function
	locals map[ssa.Value]Value
	env    []Value
	defers []deferred
	block  *ssa.BasicBlock
	prev   *ssa.BasicBlock
	result Value
	// for recover
	panicking *goPanic
}

func (ex *Exec) constValue(c *ssa.Const) Value {
	t := c.Type()
	if c.Value == nil {
		return ex.zero(t)
	}
	switch u := t.Underlying().(type) {
	case *types.Basic:
		info := u.Info()
		switch {
		case info&types.IsBoolean != 0:
			return mkBool(constant.BoolVal(c.Value))
		case info&types.IsInteger != 0:
			v := constant.ToInt(c.Value)
			bi, ok := new(big.Int).SetString(v.ExactString(), 10)
			if !ok {
				ex.unsupported("integer constant " + v.ExactString())
			}
			return mkIntBig(bi)
		case info&types.IsString != 0:
			return mkStr(constant.StringVal(c.Value))
		case info&types.IsFloat != 0:
			f, _ := constant.Float64Val(c.Value)
			return FloatV{f: f}
		}
	case *types.Interface:
		return IfaceV{}
	case *types.TypeParam:
		ex.unsupported("constant of type parameter")
	}
	ex.unsupported("constant of type " + t.String())
	return nil
}

func (ex *Exec) get(fr *frame, v ssa.Value) Value {
	switch x := v.(type) {
	case *ssa.Const:
		return ex.constValue(x)
	case *ssa.Global:
		return PtrV{ex.globalCell(x)}
	case *ssa.Function:
		return FuncV{fn: x}
	case *ssa.Builtin:
		return FuncV{builtin: "builtin:" + x.Name()}
	case *ssa.FreeVar:
		for i, fv := range fr.fn.FreeVars {
			if fv == x {
				return fr.env[i]
			}
		}
		panic("free var not found")
	}
	r, ok := fr.locals[v]
	if !ok {
		panic(fmt.Sprintf("value %s (%T) not computed in %s", v.Name(), v, fr.fn))
	}
	return r
}

func typeBits(t types.Type) (int, bool, bool) {
	b, ok := t.Underlying().(*types.Basic)
	if !ok || b.Info()&types.IsInteger == 0 {
		return 0, false, false
	}
	switch b.Kind() {
	case types.Int8:
		return 8, true, true
	case types.Int16:
		return 16, true, true
	case types.Int32:
		return 32, true, true
	case types.Int64, types.Int, types.UntypedInt, types.UntypedRune:
		return 64, true, true
	case types.Uint8:
		return 8, false, true
	case types.Uint16:
		return 16, false, true
	case types.Uint32:
		return 32, false, true
	case types.Uint64, types.Uint, types.Uintptr:
		return 64, false, true
	}
	return 0, false, false
}

func isString(t types.Type) bool {
	b, ok := t.Underlying().(*types.Basic)
	return ok && b.Info()&types.IsString != 0
}
func isBool(t types.Type) bool {
	b, ok := t.Underlying().(*types.Basic)
	return ok && b.Info()&types.IsBoolean != 0
}
func isFloat(t types.Type) bool {
	b, ok := t.Underlying().(*types.Basic)
	return ok && b.Info()&types.IsFloat != 0
}

func (ex *Exec) site(fn *ssa.Function, pos token.Pos) string {
	p := ex.prog.Fset.Position(pos)
	f := p.Filename
	if strings.HasPrefix(f, ex.eng.repoDir+"/") {
		f = f[len(ex.eng.repoDir)+1:]
	} else if i := strings.Index(f, "/pkg/mod/"); i >= 0 {
		f = f[i+9:]
	}
	if fn != nil {
		return fmt.Sprintf("%s (%s:%d)", fn.String(), f, p.Line)
	}
	return fmt.Sprintf("%s:%d", f, p.Line)
}

func (ex *Exec) raise(fr *frame, pos token.Pos, msg string) {
	var fn *ssa.Function
	if fr != nil {
		fn = fr.fn
	}
	st := append([]string(nil), ex.callStack...)
	panic(&goPanic{msg: msg, site: ex.site(fn, pos), stack: st})
}

// instrPos finds a useful position for an instruction.
func instrPos(in ssa.Instruction) token.Pos {
	if p := in.Pos(); p.IsValid() {
		return p
	}
	// fall back to any operand with position / enclosing function
	if v, ok := in.(ssa.Value); ok {
		if refs := v.Referrers(); refs != nil {
			for _, r := range *refs {
				if r.Pos().IsValid() {
					return r.Pos()
				}
			}
		}
	}
	for _, op := range in.Operands(nil) {
		if *op != nil && (*op).Pos().IsValid() {
			return (*op).Pos()
		}
	}
	return in.Parent().Pos()
}

// callFunction runs fn to completion and returns its result.
func (ex *Exec) callFunction(fn *ssa.Function, args []Value, env []Value) (result Value) {
	if fn.Pkg != nil {
		ex.eng.buildPkg(fn.Pkg)
	} else if o := fn.Origin(); o != nil && o.Pkg != nil {
		ex.eng.buildPkg(o.Pkg)
	}
	if fn.Blocks == nil {
		ex.unsupported("call to function without body: " + fn.String())
	}
	ex.depth++
	if ex.depth > 400 {
		ex.unsupported("call depth > 400 (recursion?) at " + fn.String())
	}
	ex.h.noteFunc(fn)
	ex.callStack = append(ex.callStack, fn.String())
	fr := &frame{fn: fn, locals: make(map[ssa.Value]Value, 16), env: env}
	for i, p := range fn.Params {
		if i < len(args) {
			fr.locals[p] = args[i]
		}
	}
	defer func() {
		ex.depth--
		ex.callStack = ex.callStack[:len(ex.callStack)-1]
		if r := recover(); r != nil {
			gp, ok := r.(*goPanic)
			if !ok {
				if _, isEnd := r.(pathEnd); !isEnd && ex.lastInstr == "" && ex.curInstr != nil {
					ex.lastInstr = fmt.Sprintf("%s: %s", ex.site(ex.curFn, instrPos(ex.curInstr)), ex.curInstr.String())
				}
				panic(r)
			}
			// run deferred calls while panicking
			fr.panicking = gp
			ex.runDefers(fr)
			if fr.panicking != nil {
				panic(fr.panicking)
			}
			// recovered: result is named results' current values
			result = ex.recoveredResult(fr)
		}
	}()
	fr.block = fn.Blocks[0]
	for {
		done := ex.runBlock(fr)
		if done {
			return fr.result
		}
	}
}

func (ex *Exec) recoveredResult(fr *frame) Value {
	// After recover the function returns the current values of its named results.
	sig := fr.fn.Signature
	n := sig.Results().Len()
	if n == 0 {
		return nil
	}
	// ssa keeps named results in Allocs listed in fn.Locals? Use the Recover block if present.
	if fr.fn.Recover != nil {
		fr.block = fr.fn.Recover
		fr.prev = nil
		for {
			if ex.runBlock(fr) {
				return fr.result
			}
		}
	}
	if n == 1 {
		return ex.zero(sig.Results().At(0).Type())
	}
	return ex.zero(sig.Results())
}

func (ex *Exec) runDefers(fr *frame) {
	for len(fr.defers) > 0 {
		d := fr.defers[len(fr.defers)-1]
		fr.defers = fr.defers[:len(fr.defers)-1]
		saved := ex.panicking
		ex.panicking = fr.panicking
		ex.invoke(fr, d.call, d.fn, d.args, token.NoPos)
		fr.panicking = ex.panicking
		ex.panicking = saved
	}
}

func (ex *Exec) runBlock(fr *frame) bool {
	b := fr.block
	// phis first (parallel assignment)
	nphi := 0
	var phiVals []Value
	for _, in := range b.Instrs {
		phi, ok := in.(*ssa.Phi)
		if !ok {
			break
		}
		nphi++
		idx := -1
		for i, p := range b.Preds {
			if p == fr.prev {
				idx = i
				break
			}
		}
		if idx < 0 {
			panic("phi: predecessor not found")
		}
		phiVals = append(phiVals, ex.get(fr, phi.Edges[idx]))
	}
	for i := 0; i < nphi; i++ {
		fr.locals[b.Instrs[i].(*ssa.Phi)] = phiVals[i]
	}
	for _, in := range b.Instrs[nphi:] {
		ex.steps++
		ex.curInstr, ex.curFn = in, fr.fn
		if ex.steps > ex.eng.maxSteps {
			panic(pathEnd{"inconclusive", fmt.Sprintf("step budget %d exhausted", ex.eng.maxSteps)})
		}
		switch x := in.(type) {
		case *ssa.If:
			c := asTerm(ex.get(fr, x.Cond))
			fr.prev = b
			if ex.branch(c) {
				fr.block = b.Succs[0]
			} else {
				fr.block = b.Succs[1]
			}
			return false
		case *ssa.Jump:
			fr.prev = b
			fr.block = b.Succs[0]
			return false
		case *ssa.Return:
			switch len(x.Results) {
			case 0:
				fr.result = nil
			case 1:
				fr.result = ex.get(fr, x.Results[0])
			default:
				t := make(TupleV, len(x.Results))
				for i, r := range x.Results {
					t[i] = ex.get(fr, r)
				}
				fr.result = t
			}
			return true
		case *ssa.Panic:
			v := ex.get(fr, x.X)
			msg := ex.describePanicValue(v)
			st := append([]string(nil), ex.callStack...)
			panic(&goPanic{val: v, msg: "panic: " + msg, site: ex.site(fr.fn, instrPos(x)), stack: st})
		case *ssa.RunDefers:
			ex.runDefers(fr)
		case *ssa.Defer:
			fnv, args := ex.prepareCall(fr, &x.Call)
			fr.defers = append(fr.defers, deferred{fn: fnv, args: args, call: &x.Call})
		case *ssa.Go:
			ex.unsupported("go statement")
		case *ssa.Store:
			p := ex.get(fr, x.Addr).(PtrV)
			if p.c == nil {
				ex.raise(fr, instrPos(x), "nil pointer dereference (store)")
			}
			ex.store(p.c, ex.get(fr, x.Val))
		case *ssa.MapUpdate:
			m := ex.get(fr, x.Map).(MapV)
			if m.m == nil {
				ex.raise(fr, instrPos(x), "assignment to entry in nil map")
			}
			ex.mapUpdate(m.m, ex.get(fr, x.Key), ex.get(fr, x.Value))
		case *ssa.DebugRef:
		case *ssa.Send:
			ex.unsupported("channel send")
		case ssa.Value:
			fr.locals[x] = ex.evalValueInstr(fr, in)
		default:
			ex.unsupported(fmt.Sprintf("instruction %T", in))
		}
	}
	panic("block without terminator")
}

func (ex *Exec) describePanicValue(v Value) string {
	switch x := v.(type) {
	case IfaceV:
		if x.t == nil {
			return "nil"
		}
		if t, ok := x.v.(*Term); ok {
			return trunc(t.SMT(), 200)
		}
		// error value: try Error()
		if m := ex.lookupMethod(x.t, nil, "Error"); m != nil {
			func() {
				defer func() { recover() }()
			}()
		}
		return x.t.String()
	}
	return fmt.Sprintf("%T", v)
}

func (ex *Exec) evalValueInstr(fr *frame, in ssa.Instruction) Value {
	switch x := in.(type) {
	case *ssa.Alloc:
		t := x.Type().Underlying().(*types.Pointer).Elem()
		return PtrV{ex.newCell(t)}
	case *ssa.BinOp:
		return ex.binop(fr, x, x.Op, ex.get(fr, x.X), ex.get(fr, x.Y), x.X.Type(), x.Type())
	case *ssa.UnOp:
		return ex.unop(fr, x)
	case *ssa.Call:
		fnv, args := ex.prepareCall(fr, &x.Call)
		return ex.invoke(fr, &x.Call, fnv, args, instrPos(x))
	case *ssa.ChangeInterface:
		return ex.get(fr, x.X)
	case *ssa.ChangeType:
		return ex.get(fr, x.X)
	case *ssa.Convert:
		return ex.convert(fr, x, ex.get(fr, x.X), x.X.Type(), x.Type())
	case *ssa.MakeInterface:
		return IfaceV{t: x.X.Type(), v: ex.get(fr, x.X)}
	case *ssa.MakeClosure:
		env := make([]Value, len(x.Bindings))
		for i, b := range x.Bindings {
			env[i] = ex.get(fr, b)
		}
		return FuncV{fn: x.Fn.(*ssa.Function), env: env}
	case *ssa.MakeMap:
		mt := x.Type().Underlying().(*types.Map)
		ex.mapSeq++
		return MapV{&MapObj{keyT: mt.Key(), valT: mt.Elem(), id: ex.mapSeq}}
	case *ssa.MakeSlice:
		n := ex.concretize(asTerm(ex.get(fr, x.Len)), "make len")
		c := ex.concretize(asTerm(ex.get(fr, x.Cap)), "make cap")
		if n < 0 || c < n {
			ex.raise(fr, instrPos(x), "makeslice: len out of range")
		}
		if c > 1<<16 {
			c = n // do not allocate huge capacities
			if c > 1<<16 {
				ex.unsupported("make slice > 65536")
			}
		}
		et := x.Type().Underlying().(*types.Slice).Elem()
		arr := ex.newCell(types.NewArray(et, int64(c)))
		return SliceV{arr: arr, off: 0, len: n, cap: c}
	case *ssa.MakeChan:
		return PtrV{ex.newCell(types.Typ[types.Int])}
	case *ssa.Slice:
		return ex.sliceOp(fr, x)
	case *ssa.FieldAddr:
		p := ex.get(fr, x.X).(PtrV)
		if p.c == nil {
			ex.raise(fr, instrPos(x), "nil pointer dereference (field "+fieldName(x.X.Type(), x.Field)+")")
		}
		return PtrV{p.c.subs[x.Field]}
	case *ssa.Field:
		return ex.get(fr, x.X).(StructV).fields[x.Field]
	case *ssa.IndexAddr:
		return ex.indexAddr(fr, x)
	case *ssa.Index:
		return ex.indexOp(fr, x)
	case *ssa.Lookup:
		return ex.lookup(fr, x)
	case *ssa.Range:
		return ex.rangeStart(fr, x)
	case *ssa.Next:
		return ex.rangeNext(fr, x)
	case *ssa.TypeAssert:
		return ex.typeAssert(fr, x)
	case *ssa.Extract:
		return ex.get(fr, x.Tuple).(TupleV)[x.Index]
	case *ssa.Select:
		ex.unsupported("select")
	case *ssa.SliceToArrayPointer:
		ex.unsupported("slice to array pointer")
	case *ssa.MultiConvert:
		ex.unsupported("multiconvert")
	}
	ex.unsupported(fmt.Sprintf("value instruction %T", in))
	return nil
}

func fieldName(t types.Type, i int) string {
	if p, ok := t.Underlying().(*types.Pointer); ok {
		t = p.Elem()
	}
	if s, ok := t.Underlying().(*types.Struct); ok && i < s.NumFields() {
		return s.Field(i).Name()
	}
	return fmt.Sprint(i)
}

// ---- operators ----

func (ex *Exec) unop(fr *frame, x *ssa.UnOp) Value {
	v := ex.get(fr, x.X)
	switch x.Op {
	case token.MUL:
		p := v.(PtrV)
		if p.c == nil {
			ex.raise(fr, instrPos(x), "nil pointer dereference (load)")
		}
		return ex.load(p.c)
	case token.NOT:
		return mkNot(asTerm(v))
	case token.SUB:
		if f, ok := v.(FloatV); ok {
			if f.it != nil {
				return FloatV{it: mkSub(mkInt(0), f.it)}
			}
			return FloatV{f: -f.f}
		}
		bits, signed, _ := typeBits(x.Type())
		return mkWrap(mkNeg(asTerm(v)), bits, signed)
	case token.XOR:
		t := asTerm(v)
		bits, signed, _ := typeBits(x.Type())
		// ^x = -x-1 (two's complement) for signed; for unsigned 2^k-1-x
		if signed {
			return mkWrap(mkSub(mkNeg(t), mkInt(1)), bits, signed)
		}
		_, hi := intRange(bits, false)
		return mkSub(mkIntBig(hi), t)
	case token.ARROW:
		ex.unsupported("channel receive")
	}
	ex.unsupported("unop " + x.Op.String())
	return nil
}

func (ex *Exec) valEq(a, b Value) *Term {
	switch x := a.(type) {
	case *Term:
		y := b.(*Term)
		if x.sort == SStr && len(ex.jsonTok) > 0 {
			na, oka := ex.jsonTok[x]
			nb, okb := ex.jsonTok[y]
			if oka && okb {
				return ex.jnodeEq(na, nb)
			}
			if (oka && y.op == "c" && len(y.s) < 2) || (okb && x.op == "c" && len(x.s) < 2) {
				return tFalse
			}
		}
		return mkEq(x, y)
	case FloatV:
		return floatEq(x, b.(FloatV))
	case PtrV:
		switch y := b.(type) {
		case PtrV:
			return mkBool(x.c == y.c)
		}
	case IfaceV:
		y, ok := b.(IfaceV)
		if !ok {
			break
		}
		if x.t == nil || y.t == nil {
			return mkBool(x.t == nil && y.t == nil)
		}
		if !types.Identical(x.t, y.t) {
			return tFalse
		}
		return ex.valEq(x.v, y.v)
	case StructV:
		y := b.(StructV)
		r := tTrue
		for i := range x.fields {
			r = mkAnd(r, ex.valEq(x.fields[i], y.fields[i]))
		}
		return r
	case ArrayV:
		y := b.(ArrayV)
		r := tTrue
		for i := range x.elems {
			r = mkAnd(r, ex.valEq(x.elems[i], y.elems[i]))
		}
		return r
	case MapV:
		if y, ok := b.(MapV); ok {
			if x.m == nil || y.m == nil {
				return mkBool(x.m == nil && y.m == nil)
			}
			return mkBool(x.m == y.m)
		}
	case SliceV:
		if y, ok := b.(SliceV); ok {
			xn, _ := isNilValue(x)
			yn, _ := isNilValue(y)
			if xn || yn {
				return mkBool(xn && yn)
			}
		}
	case FuncV:
		if y, ok := b.(FuncV); ok {
			xn, _ := isNilValue(x)
			yn, _ := isNilValue(y)
			if xn || yn {
				return mkBool(xn && yn)
			}
		}
	}
	ex.unsupported(fmt.Sprintf("equality of %T and %T", a, b))
	return nil
}

func (ex *Exec) binop(fr *frame, in ssa.Instruction, op token.Token, a, b Value, opT, resT types.Type) Value {
	if op == token.EQL {
		return ex.valEq(a, b)
	}
	if op == token.NEQ {
		return mkNot(ex.valEq(a, b))
	}
	if fa, ok := a.(FloatV); ok {
		fb, ok := b.(FloatV)
		if !ok {
			ex.unsupported("float op with non-float")
		}
		if fa.it != nil || fb.it != nil {
			ia, oka := fa.intTerm()
			ib, okb := fb.intTerm()
			if !oka || !okb {
				ex.unsupported("float arithmetic mixing a symbolic integer-valued float with a non-integral constant")
			}
			switch op {
			case token.ADD:
				return FloatV{it: mkAdd(ia, ib)}
			case token.SUB:
				return FloatV{it: mkSub(ia, ib)}
			case token.LSS:
				return mkLt(ia, ib)
			case token.LEQ:
				return mkLe(ia, ib)
			case token.GTR:
				return mkLt(ib, ia)
			case token.GEQ:
				return mkLe(ib, ia)
			case token.EQL:
				return mkEq(ia, ib)
			}
			ex.unsupported("float operator " + op.String() + " on a symbolic float")
		}
		switch op {
		case token.ADD:
			return FloatV{f: fa.f + fb.f}
		case token.SUB:
			return FloatV{f: fa.f - fb.f}
		case token.MUL:
			return FloatV{f: fa.f * fb.f}
		case token.QUO:
			return FloatV{f: fa.f / fb.f}
		case token.LSS:
			return mkBool(fa.f < fb.f)
		case token.LEQ:
			return mkBool(fa.f <= fb.f)
		case token.GTR:
			return mkBool(fa.f > fb.f)
		case token.GEQ:
			return mkBool(fa.f >= fb.f)
		}
		ex.unsupported("float op " + op.String())
	}
	x, y := asTerm(a), asTerm(b)
	if isString(opT) {
		switch op {
		case token.ADD:
			return mkConcat(x, y)
		case token.LSS:
			return mkStrLt(x, y)
		case token.GTR:
			return mkStrLt(y, x)
		case token.LEQ:
			return mkNot(mkStrLt(y, x))
		case token.GEQ:
			return mkNot(mkStrLt(x, y))
		}
		ex.unsupported("string op " + op.String())
	}
	switch op {
	case token.LSS:
		return mkLt(x, y)
	case token.LEQ:
		return mkLe(x, y)
	case token.GTR:
		return mkGt(x, y)
	case token.GEQ:
		return mkGe(x, y)
	}
	bits, signed, ok := typeBits(resT)
	if !ok {
		ex.unsupported("binop " + op.String() + " on " + resT.String())
	}
	switch op {
	case token.ADD:
		return mkWrap(mkAdd(x, y), bits, signed)
	case token.SUB:
		return mkWrap(mkSub(x, y), bits, signed)
	case token.MUL:
		return mkWrap(mkMul(x, y), bits, signed)
	case token.QUO, token.REM:
		if ex.branch(mkEq(y, mkInt(0))) {
			ex.raise(fr, instrPos(in), "integer divide by zero")
		}
		if op == token.QUO {
			return mkWrap(mkQuo(x, y), bits, signed)
		}
		return mkRem(x, y)
	case token.AND, token.OR, token.XOR, token.AND_NOT, token.SHL, token.SHR:
		xv, ok1 := x.constInt()
		yv, ok2 := y.constInt()
		if ok1 && ok2 {
			var r int64
			switch op {
			case token.AND:
				r = xv & yv
			case token.OR:
				r = xv | yv
			case token.XOR:
				r = xv ^ yv
			case token.AND_NOT:
				r = xv &^ yv
			case token.SHL:
				if yv >= 64 {
					r = 0
				} else {
					return mkWrap(mkIntBig(new(big.Int).Lsh(big.NewInt(xv), uint(yv))), bits, signed)
				}
			case token.SHR:
				if yv >= 64 {
					if xv < 0 {
						r = -1
					}
				} else {
					r = xv >> uint(yv)
				}
			}
			return mkWrap(mkInt(r), bits, signed)
		}
		if ok2 && op == token.SHL && yv < 62 {
			return mkWrap(mkMul(x, mkIntBig(pow2(uint(yv)))), bits, signed)
		}
		if ok2 && op == token.SHR && yv < 62 && x.lo != nil && x.lo.Sign() >= 0 {
			return mkQuo(x, mkIntBig(pow2(uint(yv))))
		}
		if ok2 && op == token.AND && x.lo != nil && x.lo.Sign() >= 0 {
			// x & (2^k-1) = x mod 2^k
			m := big.NewInt(yv + 1)
			if yv >= 0 && new(big.Int).And(m, big.NewInt(yv)).Sign() == 0 {
				return mkRem(x, mkIntBig(m))
			}
		}
		ex.unsupported("bitwise op " + op.String() + " on symbolic operands")
	}
	ex.unsupported("binop " + op.String())
	return nil
}

func (ex *Exec) convert(fr *frame, in ssa.Instruction, v Value, from, to types.Type) Value {
	fu, tu := from.Underlying(), to.Underlying()
	// string <-> []byte
	if isString(from) {
		if sl, ok := tu.(*types.Slice); ok {
			if b, ok := sl.Elem().Underlying().(*types.Basic); ok && b.Kind() == types.Uint8 {
				return SliceV{str: asTerm(v)}
			}
			ex.unsupported("string to " + to.String())
		}
		if isString(to) {
			return v
		}
	}
	if sl, ok := fu.(*types.Slice); ok && isString(to) {
		s := v.(SliceV)
		if s.str != nil {
			return s.str
		}
		if b, ok := sl.Elem().Underlying().(*types.Basic); ok && b.Kind() == types.Uint8 {
			// concrete bytes -> string
			var sb strings.Builder
			for i := 0; i < s.len; i++ {
				c, ok := asTerm(ex.load(s.arr.subs[s.off+i])).constInt()
				if !ok {
					ex.unsupported("symbolic []byte to string")
				}
				sb.WriteByte(byte(c))
			}
			return mkStr(sb.String())
		}
		ex.unsupported("slice to string")
	}
	if _, _, ok := typeBits(from); ok && isString(to) {
		c, ok := asTerm(v).constInt()
		if !ok {
			ex.unsupported("symbolic rune to string")
		}
		return mkStr(string(rune(c)))
	}
	if f, ok := v.(FloatV); ok {
		if f.it != nil {
			if isFloat(to) {
				return f
			}
			if bits, signed, ok := typeBits(to); ok {
				return mkWrap(f.it, bits, signed)
			}
		}
		if isFloat(to) {
			if b := tu.(*types.Basic); b.Kind() == types.Float32 {
				return FloatV{f: float64(float32(f.f))}
			}
			return f
		}
		if bits, signed, ok := typeBits(to); ok {
			if f.f != f.f {
				ex.unsupported("conversion of an opaque (symbolic) float to an integer")
			}
			return mkWrap(mkInt(int64(f.f)), bits, signed)
		}
	}
	if isFloat(to) {
		if c, ok := asTerm(v).constInt(); ok {
			return FloatV{f: float64(c)}
		}
		// exact while |v| < 2^53; the integers of the harnesses are far below
		return FloatV{it: asTerm(v)}
	}
	if bits, signed, ok := typeBits(to); ok {
		if _, _, ok := typeBits(from); ok {
			return mkWrap(asTerm(v), bits, signed)
		}
	}
	if _, ok := tu.(*types.Pointer); ok {
		return v // unsafe.Pointer conversions
	}
	if b, ok := tu.(*types.Basic); ok && b.Kind() == types.UnsafePointer {
		return v
	}
	ex.unsupported("convert " + from.String() + " to " + to.String())
	return nil
}

func (ex *Exec) sliceOp(fr *frame, x *ssa.Slice) Value {
	v := ex.get(fr, x.X)
	var lo, hi, max *Term
	if x.Low != nil {
		lo = asTerm(ex.get(fr, x.Low))
	}
	if x.High != nil {
		hi = asTerm(ex.get(fr, x.High))
	}
	if x.Max != nil {
		max = asTerm(ex.get(fr, x.Max))
	}
	if isString(x.X.Type()) {
		s := asTerm(v)
		n := mkStrLen(s)
		if lo == nil {
			lo = mkInt(0)
		}
		if hi == nil {
			hi = n
		}
		bad := mkOr(mkOr(mkLt(lo, mkInt(0)), mkLt(hi, lo)), mkGt(hi, n))
		if ex.branch(bad) {
			ex.raise(fr, instrPos(x), "slice bounds out of range (string)")
		}
		return mkSubstr(s, lo, mkSub(hi, lo))
	}
	var arr *Cell
	var off, ln, cp int
	nilSlice := false
	switch s := v.(type) {
	case SliceV:
		if s.str != nil {
			ex.unsupported("slicing a string-backed []byte")
		}
		arr, off, ln, cp = s.arr, s.off, s.len, s.cap
		nilSlice = s.arr == nil && !s.nonNil
	case PtrV:
		if s.c == nil {
			ex.raise(fr, instrPos(x), "nil pointer dereference (slice of array pointer)")
		}
		arr, off, ln, cp = s.c, 0, len(s.c.subs), len(s.c.subs)
	default:
		ex.unsupported(fmt.Sprintf("slice of %T", v))
	}
	l, h, m := 0, ln, cp
	if lo != nil {
		l = ex.concretizeIdx(lo, 0, cp)
	}
	if hi != nil {
		h = ex.concretizeIdx(hi, 0, cp)
	}
	if max != nil {
		m = ex.concretizeIdx(max, 0, cp)
	}
	if l < 0 || h < l || m < h || m > cp {
		ex.raise(fr, instrPos(x), fmt.Sprintf("slice bounds out of range [%d:%d:%d] with capacity %d", l, h, m, cp))
	}
	if nilSlice {
		return SliceV{}
	}
	if arr == nil {
		return SliceV{nonNil: true}
	}
	return SliceV{arr: arr, off: off + l, len: h - l, cap: m - l}
}

// concretizeIdx forks an index term over [lo,hi] plus an out-of-range representative.
func (ex *Exec) concretizeIdx(t *Term, lo, hi int) int {
	if v, ok := t.constInt(); ok {
		return int(v)
	}
	for v := lo; v <= hi; v++ {
		if ex.branch(mkEq(t, mkInt(int64(v)))) {
			return v
		}
	}
	// remaining: out of range
	if ex.branch(mkLt(t, mkInt(int64(lo)))) {
		return lo - 1
	}
	return hi + 1
}

func (ex *Exec) indexAddr(fr *frame, x *ssa.IndexAddr) Value {
	v := ex.get(fr, x.X)
	idx := asTerm(ex.get(fr, x.Index))
	var arr *Cell
	var off, ln int
	switch s := v.(type) {
	case SliceV:
		if s.str != nil {
			ex.unsupported("indexing a string-backed []byte")
		}
		arr, off, ln = s.arr, s.off, s.len
	case PtrV:
		if s.c == nil {
			ex.raise(fr, instrPos(x), "nil pointer dereference (index of array pointer)")
		}
		arr, off, ln = s.c, 0, len(s.c.subs)
	default:
		ex.unsupported(fmt.Sprintf("indexaddr of %T", v))
	}
	i := ex.concretizeIdx(idx, 0, ln-1)
	if i < 0 || i >= ln {
		ex.raise(fr, instrPos(x), fmt.Sprintf("index out of range [%s] with length %d", trunc(idx.SMT(), 60), ln))
	}
	return PtrV{arr.subs[off+i]}
}

func (ex *Exec) indexOp(fr *frame, x *ssa.Index) Value {
	v := ex.get(fr, x.X)
	idx := asTerm(ex.get(fr, x.Index))
	if isString(x.X.Type()) {
		s := asTerm(v)
		n := mkStrLen(s)
		if ex.branch(mkOr(mkLt(idx, mkInt(0)), mkGe(idx, n))) {
			ex.raise(fr, instrPos(x), "index out of range (string)")
		}
		return mkToCode(mkStrAt(s, idx))
	}
	a, ok := v.(ArrayV)
	if !ok {
		ex.unsupported(fmt.Sprintf("index of %T", v))
	}
	i := ex.concretizeIdx(idx, 0, len(a.elems)-1)
	if i < 0 || i >= len(a.elems) {
		ex.raise(fr, instrPos(x), "index out of range (array)")
	}
	return a.elems[i]
}

// ---- maps ----

// keyEq returns the term "k1 == k2" for map keys.
func (ex *Exec) keyEq(a, b Value) *Term { return ex.valEq(a, b) }

func isConstKey(v Value) bool {
	switch x := v.(type) {
	case *Term:
		return x.op == "c"
	case StructV:
		for _, f := range x.fields {
			if !isConstKey(f) {
				return false
			}
		}
		return true
	case IfaceV:
		if x.t == nil {
			return true
		}
		return isConstKey(x.v)
	case PtrV:
		return true
	}
	return false
}

// mapFind returns the index of the entry equal to key, forking on symbolic equalities; -1 if absent.
func (ex *Exec) mapFind(m *MapObj, key Value) int {
	for i, k := range m.keys {
		if ex.branch(ex.keyEq(k, key)) {
			return i
		}
	}
	return -1
}

func (ex *Exec) mapUpdate(m *MapObj, key, val Value) {
	if ex.guardedMaps != nil {
		ex.guardMapAccess(m, true, key, val)
	}
	i := ex.mapFind(m, key)
	if i >= 0 {
		m.vals[i] = val
		return
	}
	m.keys = append(m.keys, key)
	m.vals = append(m.vals, val)
}

func (ex *Exec) mapDelete(m *MapObj, key Value) {
	if ex.guardedMaps != nil {
		ex.guardMapAccess(m, true)
	}
	i := ex.mapFind(m, key)
	if i >= 0 {
		m.keys = append(m.keys[:i:i], m.keys[i+1:]...)
		m.vals = append(m.vals[:i:i], m.vals[i+1:]...)
	}
}

func (ex *Exec) lookup(fr *frame, x *ssa.Lookup) Value {
	v := ex.get(fr, x.X)
	key := ex.get(fr, x.Index)
	if isString(x.X.Type()) {
		s := asTerm(v)
		idx := asTerm(key)
		n := mkStrLen(s)
		if ex.branch(mkOr(mkLt(idx, mkInt(0)), mkGe(idx, n))) {
			ex.raise(fr, instrPos(x), "index out of range (string)")
		}
		return mkToCode(mkStrAt(s, idx))
	}
	m := v.(MapV)
	mt := x.X.Type().Underlying().(*types.Map)
	var res Value
	found := false
	if m.m != nil && ex.guardedMaps != nil {
		ex.guardMapAccess(m.m, false)
	}
	if m.m != nil {
		// scalar-valued maps with symbolic keys: build an ite chain instead of forking
		if kt, ok := key.(*Term); ok && !allConstKeys(m.m, kt) && scalarVals(m.m) && len(m.m.keys) > 0 && !ex.anyToken(m.m.vals) {
			var rv *Term = asTerm(ex.zero(mt.Elem()))
			okT := tFalse
			for i := len(m.m.keys) - 1; i >= 0; i-- {
				c := ex.keyEq(m.m.keys[i], key)
				rv = mkIte(c, m.m.vals[i].(*Term), rv)
				okT = mkOr(c, okT)
			}
			if x.CommaOk {
				return TupleV{rv, okT}
			}
			return rv
		}
		if i := ex.mapFind(m.m, key); i >= 0 {
			res, found = m.m.vals[i], true
		}
	}
	if !found {
		res = ex.zero(mt.Elem())
	}
	if x.CommaOk {
		return TupleV{res, mkBool(found)}
	}
	return res
}

func allConstKeys(m *MapObj, k *Term) bool {
	if k.op != "c" {
		return false
	}
	for _, x := range m.keys {
		if !isConstKey(x) {
			return false
		}
	}
	return true
}

func scalarVals(m *MapObj) bool {
	for _, v := range m.vals {
		if _, ok := v.(*Term); !ok {
			return false
		}
	}
	return true
}

type rangeIter struct {
	m    *MapObj
	keys []Value
	vals []Value
	pos  int
	str  string
	isS  bool
}

func (ex *Exec) rangeStart(fr *frame, x *ssa.Range) Value {
	v := ex.get(fr, x.X)
	if isString(x.X.Type()) {
		s := asTerm(v)
		if s.op != "c" {
			ex.unsupported("range over symbolic string")
		}
		return NativeV{&rangeIter{str: s.s, isS: true}}
	}
	m := v.(MapV)
	it := &rangeIter{}
	if m.m != nil {
		if ex.guardedMaps != nil {
			ex.guardMapAccess(m.m, false)
		}
		it.m = m.m
		it.keys = append([]Value(nil), m.m.keys...)
		it.vals = append([]Value(nil), m.m.vals...)
		if ex.eng.reverseMaps {
			for i, j := 0, len(it.keys)-1; i < j; i, j = i+1, j-1 {
				it.keys[i], it.keys[j] = it.keys[j], it.keys[i]
				it.vals[i], it.vals[j] = it.vals[j], it.vals[i]
			}
		}
	}
	return NativeV{it}
}

func (ex *Exec) rangeNext(fr *frame, x *ssa.Next) Value {
	it := ex.get(fr, x.Iter).(NativeV).v.(*rangeIter)
	if it.isS {
		if it.pos >= len(it.str) {
			return TupleV{tFalse, mkInt(0), mkInt(0)}
		}
		for i, r := range it.str[it.pos:] {
			_ = i
			p := it.pos
			it.pos += len(string(r))
			return TupleV{tTrue, mkInt(int64(p)), mkInt(int64(r))}
		}
	}
	tt := x.Type().(*types.Tuple)
	for it.pos < len(it.keys) {
		k, v := it.keys[it.pos], it.vals[it.pos]
		it.pos++
		// entry may have been deleted during iteration: look it up concretely by identity
		present := false
		for i, mk := range it.m.keys {
			if sameValue(mk, k) {
				v = it.m.vals[i]
				present = true
				break
			}
		}
		if !present {
			continue
		}
		return TupleV{tTrue, k, v}
	}
	return TupleV{tFalse, ex.zero(tt.At(1).Type()), ex.zero(tt.At(2).Type())}
}

func sameValue(a, b Value) bool {
	switch x := a.(type) {
	case *Term:
		y, ok := b.(*Term)
		return ok && sameTerm(x, y)
	case PtrV:
		y, ok := b.(PtrV)
		return ok && x.c == y.c
	case StructV:
		y, ok := b.(StructV)
		if !ok || len(x.fields) != len(y.fields) {
			return false
		}
		for i := range x.fields {
			if !sameValue(x.fields[i], y.fields[i]) {
				return false
			}
		}
		return true
	case IfaceV:
		y, ok := b.(IfaceV)
		if !ok {
			return false
		}
		if x.t == nil || y.t == nil {
			return x.t == nil && y.t == nil
		}
		return types.Identical(x.t, y.t) && sameValue(x.v, y.v)
	}
	return false
}

// ---- type assertions ----

func (ex *Exec) typeAssert(fr *frame, x *ssa.TypeAssert) Value {
	v := ex.get(fr, x.X).(IfaceV)
	ok := false
	var res Value
	if v.t != nil {
		if types.IsInterface(x.AssertedType) {
			it := x.AssertedType.Underlying().(*types.Interface)
			if types.Implements(v.t, it) {
				ok = true
				res = v
			}
		} else if types.Identical(v.t, x.AssertedType) {
			ok = true
			res = v.v
		}
	}
	if x.CommaOk {
		if !ok {
			res = ex.zero(x.AssertedType)
		}
		return TupleV{res, mkBool(ok)}
	}
	if !ok {
		dyn := "nil"
		if v.t != nil {
			dyn = v.t.String()
		}
		ex.raise(fr, instrPos(x), "interface conversion: interface is "+dyn+", not "+x.AssertedType.String())
	}
	return res
}

// ---- calls ----

func (ex *Exec) prepareCall(fr *frame, c *ssa.CallCommon) (Value, []Value) {
	args := make([]Value, 0, len(c.Args)+1)
	if c.IsInvoke() {
		recv := ex.get(fr, c.Value)
		args = append(args, recv)
		for _, a := range c.Args {
			args = append(args, ex.get(fr, a))
		}
		return nil, args
	}
	fnv := ex.get(fr, c.Value)
	for _, a := range c.Args {
		args = append(args, ex.get(fr, a))
	}
	return fnv, args
}

func (ex *Exec) invoke(fr *frame, c *ssa.CallCommon, fnv Value, args []Value, pos token.Pos) Value {
	if c.IsInvoke() {
		recv, ok := args[0].(IfaceV)
		if !ok {
			ex.unsupported(fmt.Sprintf("invoke on %T", args[0]))
		}
		if recv.t == nil {
			ex.raise(fr, pos, "nil pointer dereference (method "+c.Method.Name()+" on nil interface)")
		}
		if nv, ok := recv.v.(NativeV); ok {
			return ex.invokeNative(fr, nv, c.Method.Name(), args[1:], pos)
		}
		m := ex.lookupMethod(recv.t, c.Method.Pkg(), c.Method.Name())
		if m == nil {
			ex.unsupported("method " + c.Method.Name() + " not found on " + recv.t.String())
		}
		a2 := append([]Value{recv.v}, args[1:]...)
		return ex.callFn(fr, FuncV{fn: m}, a2, pos)
	}
	return ex.callFn(fr, fnv.(FuncV), args, pos)
}

func (ex *Exec) callFn(fr *frame, f FuncV, args []Value, pos token.Pos) Value {
	if f.builtin != "" {
		return ex.callBuiltin(fr, f, args, pos)
	}
	if f.fn == nil {
		ex.raise(fr, pos, "call of nil function")
	}
	name := f.fn.String()
	if f.fn.Origin() != nil {
		name = f.fn.Origin().String()
	}
	if st, ok := ex.stubs[name]; ok && !ex.inStub(name) {
		ex.h.stubCalls[name]++
		return ex.callFn(fr, st, args, pos)
	}
	if ic := ex.eng.lookupIntercept(f.fn, name); ic != nil {
		return ic(ex, fr, f.fn, args, pos)
	}
	return ex.callFunction(f.fn, args, f.env)
}

func (ex *Exec) inStub(name string) bool { return false }

func (ex *Exec) callBuiltin(fr *frame, f FuncV, args []Value, pos token.Pos) Value {
	switch f.builtin {
	case "builtin:len":
		switch x := args[0].(type) {
		case *Term:
			return mkStrLen(x)
		case SliceV:
			if x.str != nil {
				return mkStrLen(x.str)
			}
			return mkInt(int64(x.len))
		case MapV:
			if x.m == nil {
				return mkInt(0)
			}
			if ex.guardedMaps != nil {
				ex.guardMapAccess(x.m, false)
			}
			// keys may alias symbolically; count distinct entries (entries are kept distinct by construction)
			return mkInt(int64(len(x.m.keys)))
		case ArrayV:
			return mkInt(int64(len(x.elems)))
		case PtrV:
			if x.c == nil {
				return mkInt(0)
			}
			return mkInt(int64(len(x.c.subs)))
		}
	case "builtin:cap":
		switch x := args[0].(type) {
		case SliceV:
			return mkInt(int64(x.cap))
		case ArrayV:
			return mkInt(int64(len(x.elems)))
		}
	case "builtin:append":
		return ex.appendOp(args[0].(SliceV), args[1])
	case "builtin:copy":
		dst := args[0].(SliceV)
		n := 0
		switch src := args[1].(type) {
		case SliceV:
			if src.str != nil {
				ex.unsupported("copy from string-backed bytes")
			}
			n = dst.len
			if src.len < n {
				n = src.len
			}
			tmp := make([]Value, n)
			for i := 0; i < n; i++ {
				tmp[i] = ex.load(src.arr.subs[src.off+i])
			}
			for i := 0; i < n; i++ {
				ex.store(dst.arr.subs[dst.off+i], tmp[i])
			}
		default:
			ex.unsupported("copy from string")
		}
		return mkInt(int64(n))
	case "builtin:delete":
		m := args[0].(MapV)
		if m.m != nil {
			ex.mapDelete(m.m, args[1])
		}
		return nil
	case "builtin:panic":
		ex.raise(fr, pos, "panic")
	case "builtin:recover":
		if ex.panicking != nil {
			p := ex.panicking
			ex.panicking = nil
			if p.val != nil {
				return p.val
			}
			return IfaceV{t: types.Typ[types.String], v: mkStr(p.msg)}
		}
		return IfaceV{}
	case "builtin:print", "builtin:println":
		return nil
	case "builtin:min", "builtin:max":
		r := asTerm(args[0])
		for _, a := range args[1:] {
			t := asTerm(a)
			if f.builtin == "builtin:min" {
				r = mkIte(mkLt(t, r), t, r)
			} else {
				r = mkIte(mkGt(t, r), t, r)
			}
		}
		return r
	}
	if h, ok := pseudoBuiltins[f.builtin]; ok {
		return h(ex, fr, f, args, pos)
	}
	ex.unsupported("builtin " + f.builtin)
	return nil
}

func (ex *Exec) sliceElems(s SliceV) []Value {
	out := make([]Value, s.len)
	for i := 0; i < s.len; i++ {
		out[i] = ex.load(s.arr.subs[s.off+i])
	}
	return out
}

func (ex *Exec) mkSlice(elemT types.Type, elems []Value) SliceV {
	arr := ex.newCell(types.NewArray(elemT, int64(len(elems))))
	for i, e := range elems {
		ex.store(arr.subs[i], e)
	}
	return SliceV{arr: arr, len: len(elems), cap: len(elems), nonNil: true}
}

func (ex *Exec) appendOp(dst SliceV, srcV Value) Value {
	var add []Value
	switch src := srcV.(type) {
	case SliceV:
		if src.str != nil {
			if dst.arr == nil && dst.str == nil {
				return SliceV{str: src.str}
			}
			if dst.str != nil {
				return SliceV{str: mkConcat(dst.str, src.str)}
			}
			ex.unsupported("append string-backed bytes to concrete slice")
		}
		add = ex.sliceElems(src)
	case *Term:
		// append([]byte, string...)
		if dst.arr == nil {
			if dst.str != nil {
				return SliceV{str: mkConcat(dst.str, src)}
			}
			return SliceV{str: src}
		}
		ex.unsupported("append string to concrete []byte")
	default:
		ex.unsupported(fmt.Sprintf("append of %T", srcV))
	}
	if dst.str != nil {
		ex.unsupported("append to string-backed bytes")
	}
	if len(add) == 0 {
		return dst
	}
	if dst.arr != nil && dst.len+len(add) <= dst.cap {
		for i, e := range add {
			ex.store(dst.arr.subs[dst.off+dst.len+i], e)
		}
		return SliceV{arr: dst.arr, off: dst.off, len: dst.len + len(add), cap: dst.cap}
	}
	// grow: new backing array
	var et types.Type
	if dst.arr != nil {
		et = dst.arr.typ.Underlying().(*types.Array).Elem()
	}
	if et == nil {
		// need element type: take it from the first added element's cell type; caller passes typed slices, so
		// recover from src
		if s, ok := srcV.(SliceV); ok && s.arr != nil {
			et = s.arr.typ.Underlying().(*types.Array).Elem()
		}
	}
	if et == nil {
		ex.unsupported("append: unknown element type")
	}
	newCap := (dst.len + len(add)) * 2
	arr := ex.newCell(types.NewArray(et, int64(newCap)))
	for i := 0; i < dst.len; i++ {
		ex.store(arr.subs[i], ex.load(dst.arr.subs[dst.off+i]))
	}
	for i, e := range add {
		ex.store(arr.subs[dst.len+i], e)
	}
	return SliceV{arr: arr, off: 0, len: dst.len + len(add), cap: newCap}
}

// ---- globals ----

func (ex *Exec) globalCell(g *ssa.Global) *Cell {
	if c, ok := ex.globals[g]; ok {
		return c
	}
	t := g.Type().Underlying().(*types.Pointer).Elem()
	c := ex.newCell(t)
	ex.globals[g] = c
	ex.initGlobal(g, c)
	return c
}

// initGlobal runs the slice of the package initializer that computes g.
// globals whose initialisers are reflection-driven registries; the functions reading them are intercepted
var skipGlobalInit = map[string]bool{
	"k8s.io/apimachinery/pkg/api/equality.Semantic": true,
}

func (ex *Exec) initGlobal(g *ssa.Global, c *Cell) {
	pkg := g.Pkg
	if pkg == nil || skipGlobalInit[g.String()] {
		return
	}
	if g.String() == "k8s.io/apimachinery/pkg/runtime.DefaultUnstructuredConverter" {
		// the converter is reflection-driven; its methods are intercepted (luaboundary.go), the value only has to be
		// a non-nil *unstructuredConverter
		if tn := pkg.Type("unstructuredConverter"); tn != nil {
			cell := ex.newCell(tn.Type())
			c.val = IfaceV{t: types.NewPointer(tn.Type()), v: PtrV{cell}}
		}
		return
	}
	ex.eng.buildPkg(pkg)
	initFn := pkg.Func("init")
	if initFn == nil || initFn.Blocks == nil {
		return
	}
	// flag.XxxVar(&g, name, default, usage) in an init function sets the default value of g
	for name, m := range pkg.Members {
		f, ok := m.(*ssa.Function)
		if !ok || !strings.HasPrefix(name, "init#") || f.Blocks == nil {
			continue
		}
		for _, b := range f.Blocks {
			for _, in := range b.Instrs {
				call, ok := in.(*ssa.Call)
				if !ok || len(call.Call.Args) < 3 || call.Call.Args[0] != ssa.Value(g) {
					continue
				}
				callee := call.Call.StaticCallee()
				if callee == nil || callee.Pkg == nil || callee.Pkg.Pkg.Path() != "flag" || !strings.HasSuffix(callee.Name(), "Var") {
					continue
				}
				if cst, ok := call.Call.Args[2].(*ssa.Const); ok {
					ex.store(c, ex.constValue(cst))
				}
			}
		}
	}
	slice := ex.eng.initSlice(initFn, g)
	if len(slice) == 0 {
		return
	}
	saved := ex.callStack
	ex.callStack = append(ex.callStack, "init:"+g.String())
	fr := &frame{fn: initFn, locals: map[ssa.Value]Value{}}
	for _, in := range slice {
		switch x := in.(type) {
		case *ssa.Store:
			p := ex.get(fr, x.Addr).(PtrV)
			ex.store(p.c, ex.get(fr, x.Val))
		case *ssa.MapUpdate:
			m := ex.get(fr, x.Map).(MapV)
			ex.mapUpdate(m.m, ex.get(fr, x.Key), ex.get(fr, x.Value))
		case ssa.Value:
			fr.locals[x] = ex.evalValueInstr(fr, in)
		}
	}
	ex.callStack = saved
}

// initSlice computes (and caches) the instructions of init that contribute to global g.
func (e *Engine) initSlice(initFn *ssa.Function, g *ssa.Global) []ssa.Instruction {
	e.mu.Lock()
	defer e.mu.Unlock()
	if s, ok := e.initSlices[g]; ok {
		return s
	}
	in := map[ssa.Instruction]bool{}
	vals := map[ssa.Value]bool{g: true}
	var all []ssa.Instruction
	for _, b := range initFn.Blocks {
		all = append(all, b.Instrs...)
	}
	changed := true
	for changed {
		changed = false
		for _, ins := range all {
			if in[ins] {
				continue
			}
			take := false
			switch x := ins.(type) {
			case *ssa.Store:
				if vals[x.Addr] {
					take = true
				}
			case *ssa.MapUpdate:
				if vals[x.Map] {
					take = true
				}
			case *ssa.IndexAddr:
				if vals[x.X] {
					take = true
				}
			case *ssa.FieldAddr:
				if vals[x.X] {
					take = true
				}
			case *ssa.Call:
				// a call that receives a sliced address as argument may initialise it; rare, ignore
			}
			if v, ok := ins.(ssa.Value); ok && vals[v] {
				take = true
			}
			if take {
				in[ins] = true
				changed = true
				if v, ok := ins.(ssa.Value); ok {
					vals[v] = true
				}
				for _, op := range ins.Operands(nil) {
					if *op == nil {
						continue
					}
					switch (*op).(type) {
					case *ssa.Global, *ssa.Const, *ssa.Function, *ssa.Builtin:
						continue
					}
					if !vals[*op] {
						vals[*op] = true
					}
				}
			}
		}
	}
	var out []ssa.Instruction
	for _, ins := range all {
		if !in[ins] {
			continue
		}
		switch ins.(type) {
		case *ssa.If, *ssa.Jump, *ssa.Return, *ssa.Phi:
			// control flow inside an initializer: not supported, leave global zero-valued and flag it
			e.initSlices[g] = nil
			return nil
		}
		out = append(out, ins)
	}
	// the base global itself must not pull in every store: keep stores to g, and FieldAddr/IndexAddr of g.
	e.initSlices[g] = out
	return out
}

// sortedKeys helper
func sortedKeys(m map[string]int) []string {
	ks := make([]string, 0, len(m))
	for k := range m {
		ks = append(ks, k)
	}
	sort.Strings(ks)
	return ks
}

// lookupMethod returns the method named name of type t (nil if t has no such method).
func (ex *Exec) lookupMethod(t types.Type, pkg *types.Package, name string) *ssa.Function {
	ex.eng.buildMu.Lock()
	defer ex.eng.buildMu.Unlock()
	sel := ex.prog.MethodSets.MethodSet(t).Lookup(pkg, name)
	if sel == nil && pkg == nil {
		// unexported lookups need the package; exported ones do not
		return nil
	}
	if sel == nil {
		return nil
	}
	return ex.prog.MethodValue(sel)
}

func (ex *Exec) anyToken(vals []Value) bool {
	if len(ex.jsonTok) == 0 && len(ex.jsonEsc) == 0 {
		return false
	}
	for _, v := range vals {
		if t, ok := v.(*Term); ok {
			if _, ok := ex.jsonTok[t]; ok {
				return true
			}
			if _, ok := ex.jsonEsc[t]; ok {
				return true
			}
		}
	}
	return false
}
