package main

// Terms: a small SMT-LIB2 term language over Bool / Int / String with constant
// folding.  Go machine integers are encoded in Int with explicit wrap
// (DESIGN.md §2.3); interval bounds are tracked on every Int term so that the
// wrap is only emitted where an overflow is actually possible.

import (
	"fmt"
	"math/big"
	"strings"
)

type Sort int

const (
	SBool Sort = iota
	SInt
	SStr
)

func (s Sort) String() string {
	switch s {
	case SBool:
		return "Bool"
	case SInt:
		return "Int"
	}
	return "String"
}

type Term struct {
	op   string // "c" const, "v" var, otherwise SMT operator / defined fun
	sort Sort
	args []*Term
	b    bool
	i    *big.Int
	s    string // string const or var name
	// interval for Int terms (nil = unbounded on that side)
	lo, hi *big.Int
	size   int
}

func (t *Term) IsConst() bool { return t.op == "c" }

var (
	tTrue  = &Term{op: "c", sort: SBool, b: true, size: 1}
	tFalse = &Term{op: "c", sort: SBool, b: false, size: 1}
)

func mkBool(b bool) *Term {
	if b {
		return tTrue
	}
	return tFalse
}

func mkIntBig(i *big.Int) *Term {
	c := new(big.Int).Set(i)
	return &Term{op: "c", sort: SInt, i: c, lo: c, hi: c, size: 1}
}
func mkInt(i int64) *Term { return mkIntBig(big.NewInt(i)) }
func mkStr(s string) *Term {
	return &Term{op: "c", sort: SStr, s: s, size: 1}
}
func mkVar(name string, sort Sort) *Term {
	return &Term{op: "v", sort: sort, s: name, size: 1}
}
func mkVarBounded(name string, lo, hi *big.Int) *Term {
	return &Term{op: "v", sort: SInt, s: name, lo: lo, hi: hi, size: 1}
}

func mk(op string, sort Sort, args ...*Term) *Term {
	sz := 1
	for _, a := range args {
		sz += a.size
	}
	return &Term{op: op, sort: sort, args: args, size: sz}
}

func (t *Term) constInt() (int64, bool) {
	if t.op == "c" && t.sort == SInt && t.i.IsInt64() {
		return t.i.Int64(), true
	}
	return 0, false
}

func sameTerm(a, b *Term) bool {
	if a == b {
		return true
	}
	if a.op != b.op || a.sort != b.sort || len(a.args) != len(b.args) {
		return false
	}
	switch a.op {
	case "c":
		switch a.sort {
		case SBool:
			return a.b == b.b
		case SInt:
			return a.i.Cmp(b.i) == 0
		default:
			return a.s == b.s
		}
	case "v":
		return a.s == b.s
	}
	if a.size != b.size || a.size > 200 {
		return false
	}
	for i := range a.args {
		if !sameTerm(a.args[i], b.args[i]) {
			return false
		}
	}
	return true
}

// ---------- boolean ----------

func mkNot(a *Term) *Term {
	if a.op == "c" {
		return mkBool(!a.b)
	}
	if a.op == "not" {
		return a.args[0]
	}
	return mk("not", SBool, a)
}

func mkAnd(a, b *Term) *Term {
	if a.op == "c" {
		if a.b {
			return b
		}
		return tFalse
	}
	if b.op == "c" {
		if b.b {
			return a
		}
		return tFalse
	}
	if sameTerm(a, b) {
		return a
	}
	return mk("and", SBool, a, b)
}

func mkOr(a, b *Term) *Term {
	if a.op == "c" {
		if a.b {
			return tTrue
		}
		return b
	}
	if b.op == "c" {
		if b.b {
			return tTrue
		}
		return a
	}
	if sameTerm(a, b) {
		return a
	}
	return mk("or", SBool, a, b)
}

func mkImplies(a, b *Term) *Term { return mkOr(mkNot(a), b) }

func mkIte(c, a, b *Term) *Term {
	if c.op == "c" {
		if c.b {
			return a
		}
		return b
	}
	if sameTerm(a, b) {
		return a
	}
	if a.sort == SBool {
		if a.op == "c" && b.op == "c" {
			if a.b {
				return c
			}
			return mkNot(c)
		}
	}
	t := mk("ite", a.sort, c, a, b)
	if a.sort == SInt {
		if a.lo != nil && b.lo != nil {
			t.lo = minBig(a.lo, b.lo)
		}
		if a.hi != nil && b.hi != nil {
			t.hi = maxBig(a.hi, b.hi)
		}
	}
	return t
}

func mkEq(a, b *Term) *Term {
	if a.sort != b.sort {
		panic(fmt.Sprintf("mkEq sort mismatch %v %v: %s vs %s", a.sort, b.sort, a.SMT(), b.SMT()))
	}
	if a.op == "c" && b.op == "c" {
		switch a.sort {
		case SBool:
			return mkBool(a.b == b.b)
		case SInt:
			return mkBool(a.i.Cmp(b.i) == 0)
		default:
			return mkBool(a.s == b.s)
		}
	}
	if sameTerm(a, b) {
		return tTrue
	}
	if a.sort == SInt {
		// disjoint intervals
		if a.hi != nil && b.lo != nil && a.hi.Cmp(b.lo) < 0 {
			return tFalse
		}
		if b.hi != nil && a.lo != nil && b.hi.Cmp(a.lo) < 0 {
			return tFalse
		}
	}
	if a.sort == SBool {
		if a.op == "c" {
			if a.b {
				return b
			}
			return mkNot(b)
		}
		if b.op == "c" {
			if b.b {
				return a
			}
			return mkNot(a)
		}
	}
	if a.sort == SStr {
		return strEq(a, b)
	}
	return mk("=", SBool, a, b)
}

// strEqQuick decides some string equalities syntactically (constant prefixes).
func strEqQuick(a, b *Term) (bool, bool) {
	pa, ra := constPrefix(a)
	pb, rb := constPrefix(b)
	n := len(pa)
	if len(pb) < n {
		n = len(pb)
	}
	if pa[:n] != pb[:n] {
		return false, true
	}
	if !ra && !rb {
		return pa == pb, true
	}
	if !ra && len(pb) > len(pa) {
		return false, true
	}
	if !rb && len(pa) > len(pb) {
		return false, true
	}
	return false, false
}

// constPrefix returns the constant prefix of a string term and whether there is a non-constant rest.
func constPrefix(t *Term) (string, bool) {
	if t.op == "c" {
		return t.s, false
	}
	if t.op == "str.++" {
		p := ""
		for i, a := range t.args {
			if a.op == "c" {
				p += a.s
				continue
			}
			if a.op == "str.++" {
				q, r := constPrefix(a)
				p += q
				if !r && i < len(t.args) {
					continue
				}
			}
			return p, true
		}
		return p, false
	}
	return "", true
}

// ---------- integers ----------

func minBig(a, b *big.Int) *big.Int {
	if a.Cmp(b) < 0 {
		return a
	}
	return b
}
func maxBig(a, b *big.Int) *big.Int {
	if a.Cmp(b) > 0 {
		return a
	}
	return b
}

func mkAdd(a, b *Term) *Term {
	if a.op == "c" && b.op == "c" {
		return mkIntBig(new(big.Int).Add(a.i, b.i))
	}
	if a.op == "c" && a.i.Sign() == 0 {
		return b
	}
	if b.op == "c" && b.i.Sign() == 0 {
		return a
	}
	t := mk("+", SInt, a, b)
	if a.lo != nil && b.lo != nil {
		t.lo = new(big.Int).Add(a.lo, b.lo)
	}
	if a.hi != nil && b.hi != nil {
		t.hi = new(big.Int).Add(a.hi, b.hi)
	}
	return t
}

func mkNeg(a *Term) *Term {
	if a.op == "c" {
		return mkIntBig(new(big.Int).Neg(a.i))
	}
	t := mk("-", SInt, a)
	if a.hi != nil {
		t.lo = new(big.Int).Neg(a.hi)
	}
	if a.lo != nil {
		t.hi = new(big.Int).Neg(a.lo)
	}
	return t
}

func mkSub(a, b *Term) *Term {
	if a.op == "c" && b.op == "c" {
		return mkIntBig(new(big.Int).Sub(a.i, b.i))
	}
	if b.op == "c" && b.i.Sign() == 0 {
		return a
	}
	if sameTerm(a, b) {
		return mkInt(0)
	}
	t := mk("-", SInt, a, b)
	if a.lo != nil && b.hi != nil {
		t.lo = new(big.Int).Sub(a.lo, b.hi)
	}
	if a.hi != nil && b.lo != nil {
		t.hi = new(big.Int).Sub(a.hi, b.lo)
	}
	return t
}

func mkMul(a, b *Term) *Term {
	if a.op == "c" && b.op == "c" {
		return mkIntBig(new(big.Int).Mul(a.i, b.i))
	}
	if a.op == "c" && a.i.Cmp(big.NewInt(1)) == 0 {
		return b
	}
	if b.op == "c" && b.i.Cmp(big.NewInt(1)) == 0 {
		return a
	}
	if (a.op == "c" && a.i.Sign() == 0) || (b.op == "c" && b.i.Sign() == 0) {
		return mkInt(0)
	}
	t := mk("*", SInt, a, b)
	if a.lo != nil && a.hi != nil && b.lo != nil && b.hi != nil {
		c := []*big.Int{new(big.Int).Mul(a.lo, b.lo), new(big.Int).Mul(a.lo, b.hi), new(big.Int).Mul(a.hi, b.lo), new(big.Int).Mul(a.hi, b.hi)}
		lo, hi := c[0], c[0]
		for _, x := range c[1:] {
			lo = minBig(lo, x)
			hi = maxBig(hi, x)
		}
		t.lo, t.hi = lo, hi
	}
	return t
}

// Go truncated division / remainder (divisor known non-zero on this path).
func mkQuo(a, b *Term) *Term {
	if a.op == "c" && b.op == "c" && b.i.Sign() != 0 {
		return mkIntBig(new(big.Int).Quo(a.i, b.i))
	}
	if b.op == "c" && b.i.Cmp(big.NewInt(1)) == 0 {
		return a
	}
	var t *Term
	if a.lo != nil && a.lo.Sign() >= 0 && b.lo != nil && b.lo.Sign() > 0 {
		t = mk("div", SInt, a, b)
	} else {
		t = mk("tdiv", SInt, a, b)
	}
	if a.lo != nil && a.hi != nil {
		m := maxBig(new(big.Int).Abs(a.lo), new(big.Int).Abs(a.hi))
		t.lo, t.hi = new(big.Int).Neg(m), m
		if a.lo.Sign() >= 0 && b.lo != nil && b.lo.Sign() > 0 {
			t.lo = big.NewInt(0)
			if b.op == "c" {
				t.hi = new(big.Int).Quo(a.hi, b.i)
				t.lo = new(big.Int).Quo(a.lo, b.i)
			}
		}
	}
	return t
}

func mkRem(a, b *Term) *Term {
	if a.op == "c" && b.op == "c" && b.i.Sign() != 0 {
		return mkIntBig(new(big.Int).Rem(a.i, b.i))
	}
	var t *Term
	if a.lo != nil && a.lo.Sign() >= 0 && b.lo != nil && b.lo.Sign() > 0 {
		t = mk("mod", SInt, a, b)
		t.lo = big.NewInt(0)
		if b.hi != nil {
			t.hi = new(big.Int).Sub(b.hi, big.NewInt(1))
		}
	} else {
		t = mk("tmod", SInt, a, b)
		if b.lo != nil && b.hi != nil {
			m := maxBig(new(big.Int).Abs(b.lo), new(big.Int).Abs(b.hi))
			t.lo, t.hi = new(big.Int).Neg(m), m
		}
	}
	return t
}

func cmpFold(op string, a, b *Term) (*Term, bool) {
	if a.op == "c" && b.op == "c" {
		c := a.i.Cmp(b.i)
		switch op {
		case "<":
			return mkBool(c < 0), true
		case "<=":
			return mkBool(c <= 0), true
		case ">":
			return mkBool(c > 0), true
		case ">=":
			return mkBool(c >= 0), true
		}
	}
	// interval reasoning
	switch op {
	case "<":
		if a.hi != nil && b.lo != nil && a.hi.Cmp(b.lo) < 0 {
			return tTrue, true
		}
		if a.lo != nil && b.hi != nil && a.lo.Cmp(b.hi) >= 0 {
			return tFalse, true
		}
	case "<=":
		if a.hi != nil && b.lo != nil && a.hi.Cmp(b.lo) <= 0 {
			return tTrue, true
		}
		if a.lo != nil && b.hi != nil && a.lo.Cmp(b.hi) > 0 {
			return tFalse, true
		}
	}
	return nil, false
}

func mkLt(a, b *Term) *Term {
	if t, ok := cmpFold("<", a, b); ok {
		return t
	}
	return mk("<", SBool, a, b)
}
func mkLe(a, b *Term) *Term {
	if t, ok := cmpFold("<=", a, b); ok {
		return t
	}
	return mk("<=", SBool, a, b)
}
func mkGt(a, b *Term) *Term { return mkLt(b, a) }
func mkGe(a, b *Term) *Term { return mkLe(b, a) }

var (
	two = big.NewInt(2)
)

func pow2(k uint) *big.Int { return new(big.Int).Lsh(big.NewInt(1), k) }

// intRange returns the value range of a Go integer kind.
func intRange(bits int, signed bool) (*big.Int, *big.Int) {
	if signed {
		lo := new(big.Int).Neg(pow2(uint(bits - 1)))
		hi := new(big.Int).Sub(pow2(uint(bits-1)), big.NewInt(1))
		return lo, hi
	}
	return big.NewInt(0), new(big.Int).Sub(pow2(uint(bits)), big.NewInt(1))
}

// mkWrap reduces t to the range of the given machine integer type (two's complement wrap).
func mkWrap(t *Term, bits int, signed bool) *Term {
	lo, hi := intRange(bits, signed)
	if t.lo != nil && t.hi != nil && t.lo.Cmp(lo) >= 0 && t.hi.Cmp(hi) <= 0 {
		return t
	}
	if t.op == "c" {
		m := pow2(uint(bits))
		v := new(big.Int).Mod(t.i, m) // Euclidean, in [0,m)
		if signed && v.Cmp(hi) > 0 {
			v.Sub(v, m)
		}
		return mkIntBig(v)
	}
	name := fmt.Sprintf("wrap%s%d", map[bool]string{true: "s", false: "u"}[signed], bits)
	w := mk(name, SInt, t)
	w.lo, w.hi = lo, hi
	return w
}

// ---------- strings ----------

func mkConcat(a, b *Term) *Term {
	if a.op == "c" && b.op == "c" {
		return mkStr(a.s + b.s)
	}
	if a.op == "c" && a.s == "" {
		return b
	}
	if b.op == "c" && b.s == "" {
		return a
	}
	var args []*Term
	add := func(t *Term) {
		if t.op == "str.++" {
			for _, x := range t.args {
				if len(args) > 0 && args[len(args)-1].op == "c" && x.op == "c" {
					args[len(args)-1] = mkStr(args[len(args)-1].s + x.s)
				} else {
					args = append(args, x)
				}
			}
			return
		}
		if len(args) > 0 && args[len(args)-1].op == "c" && t.op == "c" {
			args[len(args)-1] = mkStr(args[len(args)-1].s + t.s)
			return
		}
		args = append(args, t)
	}
	add(a)
	add(b)
	return mk("str.++", SStr, args...)
}

func mkStrLen(a *Term) *Term {
	if a.op == "c" {
		return mkInt(int64(len(a.s)))
	}
	t := mk("str.len", SInt, a)
	t.lo = big.NewInt(0)
	if a.op == "str.++" {
		n := int64(0)
		for _, x := range a.args {
			if x.op == "c" {
				n += int64(len(x.s))
			}
		}
		t.lo = big.NewInt(n)
	}
	return t
}

func mkPrefixOf(pre, s *Term) *Term {
	if pre.op == "c" && s.op == "c" {
		return mkBool(strings.HasPrefix(s.s, pre.s))
	}
	if pre.op == "c" && pre.s == "" {
		return tTrue
	}
	if pre.op == "c" {
		p, rest := constPrefix(s)
		if len(p) >= len(pre.s) {
			return mkBool(strings.HasPrefix(p, pre.s))
		}
		if !strings.HasPrefix(pre.s, p) {
			return tFalse
		}
		if !rest {
			return tFalse
		}
	}
	return mk("str.prefixof", SBool, pre, s)
}

func constSuffix(t *Term) (string, bool) {
	if t.op == "c" {
		return t.s, false
	}
	if t.op == "str.++" {
		last := t.args[len(t.args)-1]
		if last.op == "c" {
			return last.s, true
		}
	}
	return "", true
}

func mkSuffixOf(suf, s *Term) *Term {
	if suf.op == "c" && s.op == "c" {
		return mkBool(strings.HasSuffix(s.s, suf.s))
	}
	if suf.op == "c" && suf.s == "" {
		return tTrue
	}
	if suf.op == "c" {
		p, _ := constSuffix(s)
		if len(p) >= len(suf.s) {
			return mkBool(strings.HasSuffix(p, suf.s))
		}
		if !strings.HasSuffix(suf.s, p) {
			return tFalse
		}
	}
	return mk("str.suffixof", SBool, suf, s)
}

func mkContains(s, sub *Term) *Term {
	if sub.op == "c" && s.op == "c" {
		return mkBool(strings.Contains(s.s, sub.s))
	}
	if sub.op == "c" && sub.s == "" {
		return tTrue
	}
	return mk("str.contains", SBool, s, sub)
}

// mkDropLast removes the last k bytes of s (k <= len(s) is the caller's obligation).
func mkDropLast(s *Term, k int) *Term {
	if s.op == "c" {
		if k <= len(s.s) {
			return mkStr(s.s[:len(s.s)-k])
		}
		return mkStr("")
	}
	if s.op == "str.++" {
		last := s.args[len(s.args)-1]
		if last.op == "c" && len(last.s) >= k {
			rest := s.args[:len(s.args)-1]
			var r *Term = mkStr("")
			for _, a := range rest {
				r = mkConcat(r, a)
			}
			return mkConcat(r, mkStr(last.s[:len(last.s)-k]))
		}
	}
	return mk("str.substr", SStr, s, mkInt(0), mkSub(mkStrLen(s), mkInt(int64(k))))
}

func mkSubstr(s, off, n *Term) *Term {
	if s.op == "c" && off.op == "c" && n.op == "c" {
		o, l := off.i.Int64(), n.i.Int64()
		if o < 0 || o > int64(len(s.s)) || l <= 0 {
			return mkStr("")
		}
		e := o + l
		if e > int64(len(s.s)) {
			e = int64(len(s.s))
		}
		return mkStr(s.s[o:e])
	}
	return mk("str.substr", SStr, s, off, n)
}

func mkIndexOf(s, sub, from *Term) *Term {
	if s.op == "c" && sub.op == "c" && from.op == "c" {
		f := from.i.Int64()
		if f < 0 || f > int64(len(s.s)) {
			return mkInt(-1)
		}
		i := strings.Index(s.s[f:], sub.s)
		if i < 0 {
			return mkInt(-1)
		}
		return mkInt(int64(i) + f)
	}
	t := mk("str.indexof", SInt, s, sub, from)
	t.lo = big.NewInt(-1)
	return t
}

func mkStrReplace(s, old, new *Term) *Term {
	if s.op == "c" && old.op == "c" && new.op == "c" {
		return mkStr(strings.Replace(s.s, old.s, new.s, 1))
	}
	return mk("str.replace", SStr, s, old, new)
}

// mkFromInt renders a (possibly negative) integer as Go's %d / strconv.Itoa does.
func mkFromInt(a *Term) *Term {
	if a.op == "c" {
		return mkStr(a.i.String())
	}
	if a.lo != nil && a.lo.Sign() >= 0 {
		return mk("str.from_int", SStr, a)
	}
	return mkIte(mkLt(a, mkInt(0)), mkConcat(mkStr("-"), mk("str.from_int", SStr, mkNeg(a))), mk("str.from_int", SStr, a))
}

// mkToIntNat: SMT str.to_int: -1 unless s is a non-empty digit string.
func mkToIntNat(s *Term) *Term {
	if s.op == "c" {
		if s.s == "" {
			return mkInt(-1)
		}
		for _, c := range s.s {
			if c < '0' || c > '9' {
				return mkInt(-1)
			}
		}
		v, _ := new(big.Int).SetString(s.s, 10)
		return mkIntBig(v)
	}
	if s.op == "str.from_int" && s.args[0].lo != nil && s.args[0].lo.Sign() >= 0 {
		return s.args[0]
	}
	t := mk("str.to_int", SInt, s)
	t.lo = big.NewInt(-1)
	return t
}

func mkStrLt(a, b *Term) *Term {
	if a.op == "c" && b.op == "c" {
		return mkBool(a.s < b.s)
	}
	return mk("str.<", SBool, a, b)
}

func mkStrAt(s, i *Term) *Term {
	if s.op == "c" && i.op == "c" {
		k := i.i.Int64()
		if k >= 0 && k < int64(len(s.s)) {
			return mkStr(s.s[k : k+1])
		}
		return mkStr("")
	}
	return mk("str.at", SStr, s, i)
}

func mkToCode(s *Term) *Term {
	if s.op == "c" {
		if len(s.s) == 1 {
			return mkInt(int64(s.s[0]))
		}
		return mkInt(-1)
	}
	t := mk("str.to_code", SInt, s)
	t.lo = big.NewInt(-1)
	t.hi = big.NewInt(255)
	return t
}

// ---------- printing ----------

func smtStr(s string) string {
	var sb strings.Builder
	sb.WriteByte('"')
	for i := 0; i < len(s); i++ {
		c := s[i]
		switch {
		case c == '"':
			sb.WriteString(`""`)
		case c == '\\':
			sb.WriteString(`\u{5c}`)
		case c >= 32 && c < 127:
			sb.WriteByte(c)
		default:
			fmt.Fprintf(&sb, `\u{%x}`, c)
		}
	}
	sb.WriteByte('"')
	return sb.String()
}

func smtInt(i *big.Int) string {
	if i.Sign() < 0 {
		return "(- " + new(big.Int).Neg(i).String() + ")"
	}
	return i.String()
}

func (t *Term) write(sb *strings.Builder) {
	switch t.op {
	case "c":
		switch t.sort {
		case SBool:
			if t.b {
				sb.WriteString("true")
			} else {
				sb.WriteString("false")
			}
		case SInt:
			sb.WriteString(smtInt(t.i))
		default:
			sb.WriteString(smtStr(t.s))
		}
	case "v":
		sb.WriteString(smtSym(t.s))
	default:
		sb.WriteByte('(')
		sb.WriteString(t.op)
		for _, a := range t.args {
			sb.WriteByte(' ')
			a.write(sb)
		}
		sb.WriteByte(')')
	}
}

func smtSym(s string) string { return "|" + s + "|" }

func (t *Term) SMT() string {
	var sb strings.Builder
	t.write(&sb)
	return sb.String()
}

func (t *Term) String() string { return t.SMT() }

// vars collects the free variables of t.
func (t *Term) vars(m map[string]Sort) {
	if t.op == "v" {
		m[t.s] = t.sort
		return
	}
	for _, a := range t.args {
		a.vars(m)
	}
}

// ---------- evaluation under a model ----------

type Model map[string]*Term // var name -> const term

func evalTerm(t *Term, m Model) *Term {
	switch t.op {
	case "c":
		return t
	case "v":
		if c, ok := m[t.s]; ok {
			return c
		}
		switch t.sort {
		case SBool:
			return tFalse
		case SInt:
			if t.lo != nil && t.lo.Sign() > 0 {
				return mkIntBig(t.lo)
			}
			return mkInt(0)
		default:
			return mkStr("")
		}
	}
	args := make([]*Term, len(t.args))
	for i, a := range t.args {
		// short-circuit ite to avoid evaluating partial ops
		if t.op == "ite" && i > 0 {
			break
		}
		args[i] = evalTerm(a, m)
	}
	bi := func(i int) *big.Int { return args[i].i }
	switch t.op {
	case "not":
		return mkBool(!args[0].b)
	case "and":
		r := true
		for _, a := range args {
			r = r && a.b
		}
		return mkBool(r)
	case "or":
		r := false
		for _, a := range args {
			r = r || a.b
		}
		return mkBool(r)
	case "ite":
		if args[0].b {
			return evalTerm(t.args[1], m)
		}
		return evalTerm(t.args[2], m)
	case "=":
		return mkEq(args[0], args[1])
	case "+":
		return mkAdd(args[0], args[1])
	case "-":
		if len(args) == 1 {
			return mkNeg(args[0])
		}
		return mkSub(args[0], args[1])
	case "*":
		return mkMul(args[0], args[1])
	case "div":
		if bi(1).Sign() == 0 {
			return mkInt(0)
		}
		q := new(big.Int)
		r := new(big.Int)
		q.DivMod(bi(0), bi(1), r) // Euclidean
		return mkIntBig(q)
	case "mod":
		if bi(1).Sign() == 0 {
			return args[0]
		}
		return mkIntBig(new(big.Int).Mod(bi(0), bi(1)))
	case "tdiv":
		if bi(1).Sign() == 0 {
			return mkInt(0)
		}
		return mkIntBig(new(big.Int).Quo(bi(0), bi(1)))
	case "tmod":
		if bi(1).Sign() == 0 {
			return mkInt(0)
		}
		return mkIntBig(new(big.Int).Rem(bi(0), bi(1)))
	case "<":
		return mkBool(bi(0).Cmp(bi(1)) < 0)
	case "<=":
		return mkBool(bi(0).Cmp(bi(1)) <= 0)
	case "str.++":
		s := ""
		for _, a := range args {
			s += a.s
		}
		return mkStr(s)
	case "str.len":
		return mkStrLen(args[0])
	case "str.prefixof":
		return mkPrefixOf(args[0], args[1])
	case "str.suffixof":
		return mkSuffixOf(args[0], args[1])
	case "str.contains":
		return mkContains(args[0], args[1])
	case "str.substr":
		return mkSubstr(args[0], args[1], args[2])
	case "str.indexof":
		return mkIndexOf(args[0], args[1], args[2])
	case "str.replace":
		return mkStrReplace(args[0], args[1], args[2])
	case "str.from_int":
		if bi(0).Sign() < 0 {
			return mkStr("")
		}
		return mkStr(bi(0).String())
	case "str.to_int":
		return mkToIntNat(args[0])
	case "str.<":
		return mkStrLt(args[0], args[1])
	case "str.at":
		return mkStrAt(args[0], args[1])
	case "str.to_code":
		return mkToCode(args[0])
	}
	if strings.HasPrefix(t.op, "wrap") {
		signed := t.op[4] == 's'
		var bits int
		fmt.Sscanf(t.op[5:], "%d", &bits)
		return mkWrap(args[0], bits, signed)
	}
	if strings.HasPrefix(t.op, "uf_") {
		// uninterpreted functions cannot be evaluated without the solver's interpretation
		return nil
	}
	panic("evalTerm: unknown op " + t.op)
}

const smtPreamble = `
(set-option :produce-models true)
(define-fun tdiv ((a Int) (b Int)) Int (ite (>= a 0) (ite (> b 0) (div a b) (- (div a (- b)))) (ite (> b 0) (- (div (- a) b)) (div (- a) (- b)))))
(define-fun tmod ((a Int) (b Int)) Int (- a (* b (tdiv a b))))
(define-fun wraps8 ((x Int)) Int (- (mod (+ x 128) 256) 128))
(define-fun wraps16 ((x Int)) Int (- (mod (+ x 32768) 65536) 32768))
(define-fun wraps32 ((x Int)) Int (- (mod (+ x 2147483648) 4294967296) 2147483648))
(define-fun wraps64 ((x Int)) Int (- (mod (+ x 9223372036854775808) 18446744073709551616) 9223372036854775808))
(define-fun wrapu8 ((x Int)) Int (mod x 256))
(define-fun wrapu16 ((x Int)) Int (mod x 65536))
(define-fun wrapu32 ((x Int)) Int (mod x 4294967296))
(define-fun wrapu64 ((x Int)) Int (mod x 18446744073709551616))
`

// ---------- string equality simplification ----------

func strParts(t *Term) []*Term {
	if t.op == "str.++" {
		var out []*Term
		for _, a := range t.args {
			out = append(out, strParts(a)...)
		}
		return out
	}
	if t.op == "c" && t.s == "" {
		return nil
	}
	return []*Term{t}
}

func joinParts(ps []*Term) *Term {
	var r *Term = mkStr("")
	for _, p := range ps {
		r = mkConcat(r, p)
	}
	return r
}

// intOfFromInt recognises renderings of an integer (see mkFromInt) and returns the integer term.
func intOfFromInt(s *Term) (*Term, bool) {
	if s.op == "str.from_int" && s.args[0].lo != nil && s.args[0].lo.Sign() >= 0 {
		return s.args[0], true
	}
	if s.op == "ite" && s.args[2].op == "str.from_int" && s.args[0].op == "<" && sameTerm(s.args[0].args[0], s.args[2].args[0]) {
		if z, ok := s.args[0].args[1].constInt(); ok && z == 0 {
			return s.args[2].args[0], true
		}
	}
	return nil, false
}

func canonicalInt(s string) (*big.Int, bool) {
	if s == "" {
		return nil, false
	}
	body := s
	if s[0] == '-' {
		body = s[1:]
		if body == "" || body == "0" {
			return nil, false
		}
	}
	if len(body) > 1 && body[0] == '0' {
		return nil, false
	}
	for _, c := range body {
		if c < '0' || c > '9' {
			return nil, false
		}
	}
	v, ok := new(big.Int).SetString(s, 10)
	return v, ok
}

func strEq(a, b *Term) *Term {
	pa, pb := strParts(a), strParts(b)
	// strip common constant prefix
	for len(pa) > 0 && len(pb) > 0 {
		x, y := pa[0], pb[0]
		if x.op == "c" && y.op == "c" {
			n := len(x.s)
			if len(y.s) < n {
				n = len(y.s)
			}
			if x.s[:n] != y.s[:n] {
				return tFalse
			}
			if len(x.s) == n {
				pa = pa[1:]
			} else {
				pa = append([]*Term{mkStr(x.s[n:])}, pa[1:]...)
			}
			if len(y.s) == n {
				pb = pb[1:]
			} else {
				pb = append([]*Term{mkStr(y.s[n:])}, pb[1:]...)
			}
			continue
		}
		if sameTerm(x, y) {
			pa, pb = pa[1:], pb[1:]
			continue
		}
		break
	}
	// strip common constant suffix
	for len(pa) > 0 && len(pb) > 0 {
		x, y := pa[len(pa)-1], pb[len(pb)-1]
		if x.op == "c" && y.op == "c" {
			n := len(x.s)
			if len(y.s) < n {
				n = len(y.s)
			}
			if x.s[len(x.s)-n:] != y.s[len(y.s)-n:] {
				return tFalse
			}
			if len(x.s) == n {
				pa = pa[:len(pa)-1]
			} else {
				pa = append(append([]*Term(nil), pa[:len(pa)-1]...), mkStr(x.s[:len(x.s)-n]))
			}
			if len(y.s) == n {
				pb = pb[:len(pb)-1]
			} else {
				pb = append(append([]*Term(nil), pb[:len(pb)-1]...), mkStr(y.s[:len(y.s)-n]))
			}
			continue
		}
		if sameTerm(x, y) {
			pa, pb = pa[:len(pa)-1], pb[:len(pb)-1]
			continue
		}
		break
	}
	if len(pa) == 0 && len(pb) == 0 {
		return tTrue
	}
	if len(pa) == 0 || len(pb) == 0 {
		rest := pa
		if len(pa) == 0 {
			rest = pb
		}
		// rest must be empty
		for _, p := range rest {
			if p.op == "c" && p.s != "" {
				return tFalse
			}
			if _, ok := intOfFromInt(p); ok {
				return tFalse
			}
		}
		r := tTrue
		for _, p := range rest {
			r = mkAnd(r, mk("=", SBool, p, mkStr("")))
		}
		return r
	}
	if len(pa) == 1 && len(pb) == 1 {
		x, y := pa[0], pb[0]
		ix, okx := intOfFromInt(x)
		iy, oky := intOfFromInt(y)
		if okx && oky {
			return mkEq(ix, iy)
		}
		if okx && y.op == "c" {
			if v, ok := canonicalInt(y.s); ok {
				return mkEq(ix, mkIntBig(v))
			}
			return tFalse
		}
		if oky && x.op == "c" {
			if v, ok := canonicalInt(x.s); ok {
				return mkEq(iy, mkIntBig(v))
			}
			return tFalse
		}
	}
	return mk("=", SBool, joinParts(pa), joinParts(pb))
}
