package main

// time model (DESIGN.md §2.3): time.Time carries one Int (ns) in its ext field; wall = 0, loc = nil.

import (
	"math"
	"math/big"

	"golang.org/x/tools/go/ssa"
)

func timeNs(v Value) *Term { return asTerm(v.(StructV).fields[1]) }

func mkTime(ns *Term) Value {
	return StructV{fields: []Value{mkInt(0), ns, PtrV{}}}
}

func (ex *Exec) now() *Term {
	lo := new(big.Int).Mul(big.NewInt(1700000000), big.NewInt(1000000000))
	hi := new(big.Int).Mul(big.NewInt(4000000000), big.NewInt(1000000000))
	if ex.timeNow == nil {
		ex.timeNow = ex.freshInt("now", lo, hi)
		return ex.timeNow
	}
	// later instants: strictly increasing (nanosecond clock), less than a millisecond later (native replays run
	// within milliseconds; harnesses place timestamps on a whole-second grid relative to now)
	d := ex.freshInt("dt", big.NewInt(1), big.NewInt(999999))
	t := mkAdd(ex.timeNow, d)
	ex.timeNow = t
	return t
}

func init() {
	add := func(name string, f interceptFn) { interceptTable[name] = f }
	add("time.Now", func(ex *Exec, fr *frame, fn *ssa.Function, args []Value, pos tokenPos) Value { return mkTime(ex.now()) })
	add("time.Since", func(ex *Exec, fr *frame, fn *ssa.Function, args []Value, pos tokenPos) Value {
		return mkSub(ex.now(), timeNs(args[0]))
	})
	add("time.Until", func(ex *Exec, fr *frame, fn *ssa.Function, args []Value, pos tokenPos) Value {
		return mkSub(timeNs(args[0]), ex.now())
	})
	add("(time.Time).Add", func(ex *Exec, fr *frame, fn *ssa.Function, args []Value, pos tokenPos) Value {
		return mkTime(mkAdd(timeNs(args[0]), asTerm(args[1])))
	})
	add("(time.Time).Sub", func(ex *Exec, fr *frame, fn *ssa.Function, args []Value, pos tokenPos) Value {
		return mkSub(timeNs(args[0]), timeNs(args[1]))
	})
	add("(time.Time).Before", func(ex *Exec, fr *frame, fn *ssa.Function, args []Value, pos tokenPos) Value {
		return mkLt(timeNs(args[0]), timeNs(args[1]))
	})
	add("(time.Time).After", func(ex *Exec, fr *frame, fn *ssa.Function, args []Value, pos tokenPos) Value {
		return mkGt(timeNs(args[0]), timeNs(args[1]))
	})
	add("(time.Time).Equal", func(ex *Exec, fr *frame, fn *ssa.Function, args []Value, pos tokenPos) Value {
		return mkEq(timeNs(args[0]), timeNs(args[1]))
	})
	add("(time.Time).IsZero", func(ex *Exec, fr *frame, fn *ssa.Function, args []Value, pos tokenPos) Value {
		return mkEq(timeNs(args[0]), mkInt(0))
	})
	add("(time.Time).Unix", func(ex *Exec, fr *frame, fn *ssa.Function, args []Value, pos tokenPos) Value {
		return mkQuo(timeNs(args[0]), mkInt(1000000000))
	})
	add("(time.Time).UnixNano", func(ex *Exec, fr *frame, fn *ssa.Function, args []Value, pos tokenPos) Value {
		return timeNs(args[0])
	})
	add("(time.Time).String", func(ex *Exec, fr *frame, fn *ssa.Function, args []Value, pos tokenPos) Value {
		return ex.fresh("timestr", SStr)
	})
	add("(time.Time).Format", func(ex *Exec, fr *frame, fn *ssa.Function, args []Value, pos tokenPos) Value {
		return ex.fresh("timefmt", SStr)
	})
	add("(time.Time).UTC", func(ex *Exec, fr *frame, fn *ssa.Function, args []Value, pos tokenPos) Value { return args[0] })
	add("(time.Time).Local", func(ex *Exec, fr *frame, fn *ssa.Function, args []Value, pos tokenPos) Value { return args[0] })
	add("(time.Time).Truncate", func(ex *Exec, fr *frame, fn *ssa.Function, args []Value, pos tokenPos) Value { return args[0] })
	add("(time.Duration).String", func(ex *Exec, fr *frame, fn *ssa.Function, args []Value, pos tokenPos) Value {
		return ex.fresh("durstr", SStr)
	})
	add("(time.Duration).Seconds", func(ex *Exec, fr *frame, fn *ssa.Function, args []Value, pos tokenPos) Value {
		if c, ok := asTerm(args[0]).constInt(); ok {
			return FloatV{f: float64(c) / 1e9}
		}
		// symbolic durations are only ever rendered in log messages: an opaque NaN marks the value as unusable
		return FloatV{f: math.NaN()}
	})
	add("time.Sleep", icZero)
	add("time.After", func(ex *Exec, fr *frame, fn *ssa.Function, args []Value, pos tokenPos) Value {
		ex.unsupported("time.After (channel)")
		return nil
	})
}
