package main

// Symbolic interpreter for the shipped Lua traffic-routing scripts (DESIGN.md §2.6), over the AST produced by
// gopher-lua's own parser. Tables have a concrete shape (keys are constants or symbolic strings compared by
// forking), scalars are SMT terms; numbers are integers or exact rationals (math.floor turns them back into
// integers) — floating-point rounding of the real VM is outside the claim.

import (
	"github.com/yuin/gopher-lua/pm"
	"math"
	"fmt"
	"math/big"
	"strconv"
	"strings"

	"github.com/yuin/gopher-lua/ast"
	"github.com/yuin/gopher-lua/parse"
)

type LVal interface{}

type LNilV struct{}
type LBoolV struct{ t *Term }
type LNumV struct{ t *Term }           // integer valued
// LRatV: the float64 result of ONE division of two integers, kept as the exact quotient num/den (den > 0 on the
// path).  For |num| < 2^53 the rounding of that single division cannot move the value across an integer, so floor,
// ceil and comparisons against integers are decided exactly on the quotient.  Any further arithmetic on such a value
// is float-sensitive and goes through LFltV.
type LRatV struct{ num, den *Term }

// LFltV: a concrete float64 (Lua number that is not known to be an integer).  Symbolic operands of float-sensitive
// arithmetic are first concretised by case split over their interval (concretize).
type LFltV struct{ f float64 }
type LStrV struct{ t *Term }
type LTableV struct {
	keys []LVal
	vals []LVal
	id   int
}
type LFuncV struct {
	fn      *ast.FunctionExpr
	env     *luaScope
	builtin string
}

type luaScope struct {
	vars   map[string]*LVal
	parent *luaScope
}

func (s *luaScope) lookup(name string) *LVal {
	for sc := s; sc != nil; sc = sc.parent {
		if v, ok := sc.vars[name]; ok {
			return v
		}
	}
	return nil
}

type luaInterp struct {
	ex      *Exec
	globals *luaScope
	tableID int
	steps   int
}

type luaReturn struct{ vals []LVal }
type luaBreak struct{}
type luaError struct{ msg string }

func (li *luaInterp) fail(msg string) { panic(luaError{msg}) }

func (li *luaInterp) newTable() *LTableV {
	li.tableID++
	return &LTableV{id: li.tableID}
}

// ---- running a chunk ----

// runLua executes script with the global obj; returns the chunk's return values or an error message.
// newLuaState: an interpreter with empty globals (lua.NewState with SkipOpenLibs); libraries come with openLib.
func (ex *Exec) newLuaState() *luaInterp {
	return &luaInterp{ex: ex, globals: &luaScope{vars: map[string]*LVal{}}}
}

// openLib makes the modelled part of a standard library available in the state's globals.
func (li *luaInterp) openLib(lib string) {
	set := func(lib string, names ...string) {
		t := li.newTable()
		for _, name := range names {
			t.keys = append(t.keys, LStrV{mkStr(name)})
			t.vals = append(t.vals, &LFuncV{builtin: lib + "." + name})
		}
		var v LVal = t
		li.globals.vars[lib] = &v
	}
	switch lib {
	case "base":
		for _, b := range []string{"ipairs", "pairs", "next", "tostring", "tonumber", "type", "print", "error"} {
			var v LVal = &LFuncV{builtin: b}
			li.globals.vars[b] = &v
		}
	case "string":
		set("string", "format", "find", "sub", "len", "lower", "upper", "gsub", "match")
	case "table":
		set("table", "insert", "remove", "concat")
	case "math":
		set("math", "floor", "ceil", "max", "min", "abs")
	}
}

// runLua executes script in a fresh state with the standard libraries and the global obj.
func (ex *Exec) runLua(script string, obj LVal) (ret []LVal, errMsg string) {
	li := ex.newLuaState()
	for _, lib := range []string{"base", "string", "table", "math"} {
		li.openLib(lib)
	}
	li.globals.vars["obj"] = &obj
	return li.run(script)
}

// run executes a chunk in the state (globals persist in it); returns the chunk's return values or an error message.
func (li *luaInterp) run(script string) (ret []LVal, errMsg string) {
	chunk, err := parse.Parse(strings.NewReader(script), "script")
	if err != nil {
		return nil, "lua parse error: " + err.Error()
	}
	defer func() {
		if r := recover(); r != nil {
			switch x := r.(type) {
			case luaReturn:
				ret = x.vals
			case luaError:
				errMsg = x.msg
			default:
				panic(r)
			}
		}
	}()
	li.block(chunk, &luaScope{vars: map[string]*LVal{}, parent: li.globals})
	return nil, ""
}

func (li *luaInterp) block(stmts []ast.Stmt, sc *luaScope) {
	for _, s := range stmts {
		li.stmt(s, sc)
	}
}

func (li *luaInterp) truthy(v LVal) bool {
	switch x := v.(type) {
	case LNilV:
		return false
	case LBoolV:
		return li.ex.branch(x.t)
	case nil:
		return false
	}
	return true
}

func (li *luaInterp) stmt(s ast.Stmt, sc *luaScope) {
	li.steps++
	if li.steps > 200000 {
		li.ex.unsupported("lua step budget")
	}
	switch x := s.(type) {
	case *ast.AssignStmt:
		vals := li.exprList(x.Rhs, sc, len(x.Lhs))
		for i, lhs := range x.Lhs {
			li.assign(lhs, vals[i], sc)
		}
	case *ast.LocalAssignStmt:
		vals := li.exprList(x.Exprs, sc, len(x.Names))
		for i, n := range x.Names {
			v := vals[i]
			sc.vars[n] = &v
		}
	case *ast.FuncCallStmt:
		li.expr(x.Expr, sc, true)
	case *ast.DoBlockStmt:
		li.block(x.Stmts, &luaScope{vars: map[string]*LVal{}, parent: sc})
	case *ast.IfStmt:
		if li.truthy(li.expr1(x.Condition, sc)) {
			li.block(x.Then, &luaScope{vars: map[string]*LVal{}, parent: sc})
		} else if x.Else != nil {
			li.block(x.Else, &luaScope{vars: map[string]*LVal{}, parent: sc})
		}
	case *ast.WhileStmt:
		for n := 0; li.truthy(li.expr1(x.Condition, sc)); n++ {
			if n > 64 {
				panic(pathEnd{"inconclusive", "lua while loop exceeded the unwinding bound 64"})
			}
			if li.loopBody(x.Stmts, &luaScope{vars: map[string]*LVal{}, parent: sc}) {
				break
			}
		}
	case *ast.NumberForStmt:
		init := li.num(li.expr1(x.Init, sc))
		limit := li.num(li.expr1(x.Limit, sc))
		step := mkInt(1)
		if x.Step != nil {
			step = li.num(li.expr1(x.Step, sc))
		}
		sv, ok := step.constInt()
		if !ok || sv == 0 {
			li.ex.unsupported("lua numeric for with symbolic step")
		}
		i := init
		for n := 0; ; n++ {
			if n > 64 {
				panic(pathEnd{"inconclusive", "lua for loop exceeded the unwinding bound 64"})
			}
			var cond *Term
			if sv > 0 {
				cond = mkLe(i, limit)
			} else {
				cond = mkGe(i, limit)
			}
			if !li.ex.branch(cond) {
				break
			}
			inner := &luaScope{vars: map[string]*LVal{}, parent: sc}
			var iv LVal = LNumV{i}
			inner.vars[x.Name] = &iv
			if li.loopBody(x.Stmts, inner) {
				break
			}
			i = mkAdd(i, step)
		}
	case *ast.GenericForStmt:
		li.genericFor(x, sc)
	case *ast.FuncDefStmt:
		fv := &LFuncV{fn: x.Func, env: sc}
		if x.Name.Func != nil {
			li.assign(x.Name.Func, fv, sc)
		} else {
			li.ex.unsupported("lua method definition")
		}
	case *ast.ReturnStmt:
		panic(luaReturn{li.exprList(x.Exprs, sc, -1)})
	case *ast.BreakStmt:
		panic(luaBreak{})
	case *ast.RepeatStmt:
		li.ex.unsupported("lua repeat")
	default:
		li.ex.unsupported(fmt.Sprintf("lua statement %T", s))
	}
}

// loopBody runs one iteration; reports whether the loop was left by break.
func (li *luaInterp) loopBody(stmts []ast.Stmt, sc *luaScope) (broke bool) {
	defer func() {
		if r := recover(); r != nil {
			if _, ok := r.(luaBreak); ok {
				broke = true
				return
			}
			panic(r)
		}
	}()
	li.block(stmts, sc)
	return false
}

func (li *luaInterp) genericFor(x *ast.GenericForStmt, sc *luaScope) {
	// only `for k, v in ipairs(t)` / `pairs(t)` are supported (the iterator protocol is not modelled)
	if len(x.Exprs) != 1 {
		li.ex.unsupported("lua generic for with explicit iterator")
	}
	call, ok := x.Exprs[0].(*ast.FuncCallExpr)
	if !ok {
		li.ex.unsupported("lua generic for over a non-call")
	}
	id, ok := call.Func.(*ast.IdentExpr)
	if !ok || (id.Value != "ipairs" && id.Value != "pairs") || len(call.Args) != 1 {
		li.ex.unsupported("lua generic for over something else than ipairs/pairs")
	}
	tv := li.expr1(call.Args[0], sc)
	t, ok := tv.(*LTableV)
	if !ok {
		li.fail("bad argument #1 to '" + id.Value + "' (table expected)")
	}
	bind := func(k, v LVal) bool {
		inner := &luaScope{vars: map[string]*LVal{}, parent: sc}
		if len(x.Names) > 0 {
			inner.vars[x.Names[0]] = &k
		}
		if len(x.Names) > 1 {
			inner.vars[x.Names[1]] = &v
		}
		return li.loopBody(x.Stmts, inner)
	}
	if id.Value == "ipairs" {
		for i := int64(1); ; i++ {
			v := li.rawGet(t, LNumV{mkInt(i)})
			if _, isNil := v.(LNilV); isNil {
				return
			}
			if bind(LNumV{mkInt(i)}, v) {
				return
			}
			if i > 64 {
				panic(pathEnd{"inconclusive", "lua ipairs exceeded the unwinding bound 64"})
			}
		}
	}
	keys := append([]LVal(nil), t.keys...)
	vals := append([]LVal(nil), t.vals...)
	for i := range keys {
		if bind(keys[i], vals[i]) {
			return
		}
	}
}

func (li *luaInterp) assign(lhs ast.Expr, v LVal, sc *luaScope) {
	switch x := lhs.(type) {
	case *ast.IdentExpr:
		if p := sc.lookup(x.Value); p != nil {
			*p = v
			return
		}
		li.globals.vars[x.Value] = &v
	case *ast.AttrGetExpr:
		obj := li.expr1(x.Object, sc)
		t, ok := obj.(*LTableV)
		if !ok {
			li.fail("attempt to index a non-table value")
		}
		li.rawSet(t, li.expr1(x.Key, sc), v)
	default:
		li.ex.unsupported(fmt.Sprintf("lua assignment target %T", lhs))
	}
}

// ---- tables ----

func (li *luaInterp) keyEq(a, b LVal) *Term {
	switch x := a.(type) {
	case LStrV:
		if y, ok := b.(LStrV); ok {
			return mkEq(x.t, y.t)
		}
	case LNumV:
		if y, ok := b.(LNumV); ok {
			return mkEq(x.t, y.t)
		}
	case LBoolV:
		if y, ok := b.(LBoolV); ok {
			return mkEq(x.t, y.t)
		}
	}
	return tFalse
}

func (li *luaInterp) find(t *LTableV, k LVal) int {
	for i, kk := range t.keys {
		if li.ex.branch(li.keyEq(kk, k)) {
			return i
		}
	}
	return -1
}

func (li *luaInterp) rawGet(t *LTableV, k LVal) LVal {
	if i := li.find(t, k); i >= 0 {
		return t.vals[i]
	}
	return LNilV{}
}

func (li *luaInterp) rawSet(t *LTableV, k, v LVal) {
	if _, isNil := k.(LNilV); isNil {
		li.fail("table index is nil")
	}
	i := li.find(t, k)
	if _, del := v.(LNilV); del {
		if i >= 0 {
			t.keys = append(t.keys[:i:i], t.keys[i+1:]...)
			t.vals = append(t.vals[:i:i], t.vals[i+1:]...)
		}
		return
	}
	if i >= 0 {
		t.vals[i] = v
		return
	}
	t.keys = append(t.keys, k)
	t.vals = append(t.vals, v)
}

// length: the border n with t[n] ~= nil and t[n+1] == nil (array part)
func (li *luaInterp) length(t *LTableV) int64 {
	n := int64(0)
	for {
		v := li.rawGet(t, LNumV{mkInt(n + 1)})
		if _, isNil := v.(LNilV); isNil {
			return n
		}
		n++
		if n > 1024 {
			li.ex.unsupported("lua table too long")
		}
	}
}

// ---- expressions ----

func (li *luaInterp) exprList(es []ast.Expr, sc *luaScope, want int) []LVal {
	var out []LVal
	for i, e := range es {
		if i == len(es)-1 {
			out = append(out, li.expr(e, sc, true)...)
		} else {
			out = append(out, li.expr1(e, sc))
		}
	}
	if want >= 0 {
		for len(out) < want {
			out = append(out, LNilV{})
		}
		out = out[:want]
	}
	return out
}

func (li *luaInterp) expr1(e ast.Expr, sc *luaScope) LVal {
	vs := li.expr(e, sc, false)
	if len(vs) == 0 {
		return LNilV{}
	}
	return vs[0]
}

func (li *luaInterp) num(v LVal) *Term {
	switch x := v.(type) {
	case LNumV:
		return x.t
	case LStrV:
		// string coerced to number
		if x.t.op == "c" {
			if n, err := strconv.ParseInt(strings.TrimSpace(x.t.s), 10, 64); err == nil {
				return mkInt(n)
			}
		}
		if n, ok := invFromInt(x.t); ok {
			return n
		}
	}
	li.fail(fmt.Sprintf("attempt to perform arithmetic on a %s value", luaTypeName(v)))
	return nil
}

func luaTypeName(v LVal) string {
	switch v.(type) {
	case LNilV, nil:
		return "nil"
	case LBoolV:
		return "boolean"
	case LNumV, LRatV, LFltV:
		return "number"
	case LStrV:
		return "string"
	case *LTableV:
		return "table"
	case *LFuncV:
		return "function"
	}
	return "userdata"
}

func (li *luaInterp) tostr(v LVal) *Term {
	switch x := v.(type) {
	case LStrV:
		return x.t
	case LNumV:
		return mkFromInt(x.t)
	case LBoolV:
		return mkIte(x.t, mkStr("true"), mkStr("false"))
	case LNilV:
		return mkStr("nil")
	case LRatV, LFltV:
		// gopher-lua formats numbers with %.14g
		if w, ok := wrapFloat(li.toFloat(v)).(LNumV); ok {
			return mkFromInt(w.t)
		}
		return mkStr(fmt.Sprintf("%.14g", li.toFloat(v)))
	}
	li.ex.unsupported("lua tostring of " + luaTypeName(v))
	return nil
}

func (li *luaInterp) valEq(a, b LVal) *Term {
	switch x := a.(type) {
	case LNilV:
		_, ok := b.(LNilV)
		return mkBool(ok)
	case LStrV:
		if y, ok := b.(LStrV); ok {
			return mkEq(x.t, y.t)
		}
		return tFalse
	case LNumV:
		switch y := b.(type) {
		case LNumV:
			return mkEq(x.t, y.t)
		case LRatV:
			return mkEq(mkMul(x.t, y.den), y.num)
		}
		return tFalse
	case LFltV:
		y, ok := b.(LFltV)
		return mkBool(ok && x.f == y.f)
	case LRatV:
		switch y := b.(type) {
		case LNumV:
			return mkEq(x.num, mkMul(y.t, x.den))
		case LRatV:
			return mkEq(mkMul(x.num, y.den), mkMul(y.num, x.den))
		}
		return tFalse
	case LBoolV:
		if y, ok := b.(LBoolV); ok {
			return mkEq(x.t, y.t)
		}
		return tFalse
	case *LTableV:
		y, ok := b.(*LTableV)
		return mkBool(ok && x == y)
	case *LFuncV:
		y, ok := b.(*LFuncV)
		return mkBool(ok && x == y)
	}
	return tFalse
}

func (li *luaInterp) expr(e ast.Expr, sc *luaScope, multi bool) []LVal {
	switch x := e.(type) {
	case *ast.TrueExpr:
		return []LVal{LBoolV{tTrue}}
	case *ast.FalseExpr:
		return []LVal{LBoolV{tFalse}}
	case *ast.NilExpr:
		return []LVal{LNilV{}}
	case *ast.NumberExpr:
		if n, err := strconv.ParseInt(x.Value, 0, 64); err == nil {
			return []LVal{LNumV{mkInt(n)}}
		}
		f, err := strconv.ParseFloat(x.Value, 64)
		if err != nil || f != float64(int64(f)) {
			li.ex.unsupported("lua non-integer number literal " + x.Value)
		}
		return []LVal{LNumV{mkInt(int64(f))}}
	case *ast.StringExpr:
		return []LVal{LStrV{mkStr(x.Value)}}
	case *ast.IdentExpr:
		if p := sc.lookup(x.Value); p != nil {
			return []LVal{*p}
		}
		return []LVal{LNilV{}}
	case *ast.AttrGetExpr:
		obj := li.expr1(x.Object, sc)
		k := li.expr1(x.Key, sc)
		switch t := obj.(type) {
		case *LTableV:
			return []LVal{li.rawGet(t, k)}
		case LStrV:
			// string methods via the string library
			st := (*li.globals.vars["string"]).(*LTableV)
			return []LVal{li.rawGet(st, k)}
		}
		li.fail(fmt.Sprintf("attempt to index a %s value", luaTypeName(obj)))
	case *ast.TableExpr:
		t := li.newTable()
		idx := int64(1)
		for _, f := range x.Fields {
			if f.Key == nil {
				vs := []LVal{li.expr1(f.Value, sc)}
				for _, v := range vs {
					li.rawSet(t, LNumV{mkInt(idx)}, v)
					idx++
				}
				continue
			}
			li.rawSet(t, li.expr1(f.Key, sc), li.expr1(f.Value, sc))
		}
		return []LVal{t}
	case *ast.FuncCallExpr:
		vs := li.call(x, sc)
		if !multi && len(vs) > 1 {
			return vs[:1]
		}
		return vs
	case *ast.LogicalOpExpr:
		l := li.expr1(x.Lhs, sc)
		if x.Operator == "and" {
			if !li.truthy(l) {
				return []LVal{l}
			}
			return []LVal{li.expr1(x.Rhs, sc)}
		}
		if li.truthy(l) {
			return []LVal{l}
		}
		return []LVal{li.expr1(x.Rhs, sc)}
	case *ast.RelationalOpExpr:
		l, r := li.expr1(x.Lhs, sc), li.expr1(x.Rhs, sc)
		switch x.Operator {
		case "==":
			return []LVal{LBoolV{li.valEq(l, r)}}
		case "~=":
			return []LVal{LBoolV{mkNot(li.valEq(l, r))}}
		}
		if ls, ok := l.(LStrV); ok {
			rs, ok := r.(LStrV)
			if !ok {
				li.fail("attempt to compare string with " + luaTypeName(r))
			}
			switch x.Operator {
			case "<":
				return []LVal{LBoolV{mkStrLt(ls.t, rs.t)}}
			case ">":
				return []LVal{LBoolV{mkStrLt(rs.t, ls.t)}}
			case "<=":
				return []LVal{LBoolV{mkNot(mkStrLt(rs.t, ls.t))}}
			default:
				return []LVal{LBoolV{mkNot(mkStrLt(ls.t, rs.t))}}
			}
		}
		ln, ld := li.ratio(l)
		rn, rd := li.ratio(r)
		a, b := mkMul(ln, rd), mkMul(rn, ld)
		switch x.Operator {
		case "<":
			return []LVal{LBoolV{mkLt(a, b)}}
		case ">":
			return []LVal{LBoolV{mkGt(a, b)}}
		case "<=":
			return []LVal{LBoolV{mkLe(a, b)}}
		default:
			return []LVal{LBoolV{mkGe(a, b)}}
		}
	case *ast.StringConcatOpExpr:
		return []LVal{LStrV{mkConcat(li.tostr(li.expr1(x.Lhs, sc)), li.tostr(li.expr1(x.Rhs, sc)))}}
	case *ast.ArithmeticOpExpr:
		l, r := li.expr1(x.Lhs, sc), li.expr1(x.Rhs, sc)
		return []LVal{li.arith(x.Operator, l, r)}
	case *ast.UnaryMinusOpExpr:
		return []LVal{li.arith("-", LNumV{mkInt(0)}, li.expr1(x.Expr, sc))}
	case *ast.UnaryNotOpExpr:
		v := li.expr1(x.Expr, sc)
		switch b := v.(type) {
		case LNilV:
			return []LVal{LBoolV{tTrue}}
		case LBoolV:
			return []LVal{LBoolV{mkNot(b.t)}}
		}
		return []LVal{LBoolV{tFalse}}
	case *ast.UnaryLenOpExpr:
		v := li.expr1(x.Expr, sc)
		switch t := v.(type) {
		case *LTableV:
			return []LVal{LNumV{mkInt(li.length(t))}}
		case LStrV:
			return []LVal{LNumV{mkStrLen(t.t)}}
		}
		li.fail("attempt to get length of a " + luaTypeName(v) + " value")
	case *ast.FunctionExpr:
		return []LVal{&LFuncV{fn: x, env: sc}}
	case *ast.Comma3Expr:
		li.ex.unsupported("lua varargs")
	}
	li.ex.unsupported(fmt.Sprintf("lua expression %T", e))
	return nil
}

func (li *luaInterp) ratio(v LVal) (*Term, *Term) {
	if r, ok := v.(LRatV); ok {
		return r.num, r.den
	}
	if _, ok := v.(LFltV); ok {
		li.ex.unsupported("lua operation on a non-integral float that is only modelled for + - * / % floor ceil abs tostring")
	}
	return li.num(v), mkInt(1)
}

// concretize forks the path over the values of an integer term with a small known interval (<= 256 values).
func (li *luaInterp) concretize(t *Term) int64 {
	if c, ok := t.constInt(); ok {
		return c
	}
	if t.lo == nil || t.hi == nil || !t.lo.IsInt64() || !t.hi.IsInt64() || t.hi.Int64()-t.lo.Int64() > 256 {
		li.ex.unsupported("lua float arithmetic on a symbolic number without a small known range (float64 rounding is only modelled by case split)")
	}
	for k := t.lo.Int64(); k < t.hi.Int64(); k++ {
		if li.ex.branch(mkEq(t, mkInt(k))) {
			return k
		}
	}
	return t.hi.Int64()
}

func (li *luaInterp) isFloaty(v LVal) bool {
	switch v.(type) {
	case LRatV, LFltV:
		return true
	}
	return false
}

// toFloat gives the float64 the Lua VM holds for v (concretising symbolic parts).
func (li *luaInterp) toFloat(v LVal) float64 {
	switch x := v.(type) {
	case LFltV:
		return x.f
	case LRatV:
		return float64(li.concretize(x.num)) / float64(li.concretize(x.den))
	}
	return float64(li.concretize(li.num(v)))
}

func wrapFloat(f float64) LVal {
	if f == math.Trunc(f) && math.Abs(f) < 1e15 {
		return LNumV{mkInt(int64(f))}
	}
	return LFltV{f}
}

// divExact: num/c as an integer term when that is syntactically evident.
func divExact(num *Term, c int64) (*Term, bool) {
	if c == 1 {
		return num, true
	}
	if k, ok := num.constInt(); ok {
		if k%c == 0 {
			return mkInt(k / c), true
		}
		return nil, false
	}
	if num.op == "*" && len(num.args) == 2 {
		for i := 0; i < 2; i++ {
			if k, ok := num.args[i].constInt(); ok && k%c == 0 {
				return mkMul(mkInt(k/c), num.args[1-i]), true
			}
		}
	}
	return nil, false
}

func (li *luaInterp) arith(op string, l, r LVal) LVal {
	if li.isFloaty(l) || li.isFloaty(r) {
		// float-sensitive: evaluate in float64 exactly as the VM does
		a, b := li.toFloat(l), li.toFloat(r)
		switch op {
		case "+":
			return wrapFloat(a + b)
		case "-":
			return wrapFloat(a - b)
		case "*":
			return wrapFloat(a * b)
		case "/":
			if b == 0 {
				li.ex.unsupported("lua division by zero (inf/nan)")
			}
			return wrapFloat(a / b)
		case "%":
			if b == 0 {
				li.ex.unsupported("lua modulo by zero")
			}
			return wrapFloat(a - math.Floor(a/b)*b)
		}
		li.ex.unsupported("lua arithmetic operator " + op + " on floats")
	}
	ln, ld := li.ratio(l)
	rn, rd := li.ratio(r)
	one := func(t *Term) bool { c, ok := t.constInt(); return ok && c == 1 }
	mk := func(n, d *Term) LVal {
		if one(d) {
			return LNumV{n}
		}
		return LRatV{n, d}
	}
	switch op {
	case "+":
		return mk(mkAdd(mkMul(ln, rd), mkMul(rn, ld)), mkMul(ld, rd))
	case "-":
		return mk(mkSub(mkMul(ln, rd), mkMul(rn, ld)), mkMul(ld, rd))
	case "*":
		return mk(mkMul(ln, rn), mkMul(ld, rd))
	case "/":
		// (ln/ld) / (rn/rd) = ln*rd / (ld*rn); keep the denominator positive
		den := mkMul(ld, rn)
		num := mkMul(ln, rd)
		if li.ex.branch(mkEq(den, mkInt(0))) {
			li.ex.unsupported("lua division by zero (inf/nan)")
		}
		if li.ex.branch(mkLt(den, mkInt(0))) {
			num, den = mkNeg(num), mkNeg(den)
		}
		if c, ok := den.constInt(); ok {
			if q, ok := divExact(num, c); ok {
				return LNumV{q}
			}
		}
		if nc, ok := num.constInt(); ok {
			if dc, ok := den.constInt(); ok {
				return wrapFloat(float64(nc) / float64(dc))
			}
		}
		return LRatV{num, den}
	case "%":
		if !one(ld) || !one(rd) {
			li.ex.unsupported("lua modulo on fractions")
		}
		if li.ex.branch(mkEq(rn, mkInt(0))) {
			li.ex.unsupported("lua modulo by zero")
		}
		// Lua: a - floor(a/b)*b
		return LNumV{mkSub(ln, mkMul(floorDiv(ln, rn), rn))}
	}
	li.ex.unsupported("lua arithmetic operator " + op)
	return nil
}

// floorDiv: mathematical floor of a/b for b != 0 (SMT div is Euclidean: adjust for negative b).
func floorDiv(a, b *Term) *Term {
	if bc, ok := b.constInt(); ok && bc > 0 {
		d := mk("div", SInt, a, b)
		if a.lo != nil && a.hi != nil {
			d.lo = new(big.Int).Div(new(big.Int).Sub(a.lo, big.NewInt(bc-1)), big.NewInt(bc))
			d.hi = new(big.Int).Div(a.hi, big.NewInt(bc))
			if a.lo.Sign() >= 0 {
				d.lo = big.NewInt(0)
			}
		}
		if ac, ok := a.constInt(); ok {
			q := new(big.Int)
			q.Div(big.NewInt(ac), big.NewInt(bc)) // Euclidean == floor for positive divisor
			return mkIntBig(q)
		}
		return d
	}
	// general: ite(b>0, div(a,b), div(-a,-b))
	return mkIte(mkGt(b, mkInt(0)), mk("div", SInt, a, b), mk("div", SInt, mkNeg(a), mkNeg(b)))
}

// ---- calls ----

func (li *luaInterp) call(x *ast.FuncCallExpr, sc *luaScope) []LVal {
	var fv LVal
	var args []LVal
	if x.Receiver != nil {
		recv := li.expr1(x.Receiver, sc)
		switch t := recv.(type) {
		case *LTableV:
			fv = li.rawGet(t, LStrV{mkStr(x.Method)})
		case LStrV:
			fv = li.rawGet((*li.globals.vars["string"]).(*LTableV), LStrV{mkStr(x.Method)})
		default:
			li.fail("attempt to call a method on a " + luaTypeName(recv) + " value")
		}
		args = append(args, recv)
	} else {
		fv = li.expr1(x.Func, sc)
	}
	args = append(args, li.exprList(x.Args, sc, -1)...)
	f, ok := fv.(*LFuncV)
	if !ok {
		li.fail("attempt to call a " + luaTypeName(fv) + " value")
	}
	return li.apply(f, args)
}

func (li *luaInterp) apply(f *LFuncV, args []LVal) (ret []LVal) {
	if f.builtin != "" {
		return li.builtin(f.builtin, args)
	}
	inner := &luaScope{vars: map[string]*LVal{}, parent: f.env}
	for i, n := range f.fn.ParList.Names {
		var v LVal = LNilV{}
		if i < len(args) {
			v = args[i]
		}
		inner.vars[n] = &v
	}
	defer func() {
		if r := recover(); r != nil {
			if rv, ok := r.(luaReturn); ok {
				ret = rv.vals
				return
			}
			panic(r)
		}
	}()
	li.block(f.fn.Stmts, inner)
	return nil
}

func (li *luaInterp) argTable(name string, args []LVal, i int) *LTableV {
	if i >= len(args) {
		li.fail(fmt.Sprintf("bad argument #%d to '%s' (table expected, got no value)", i+1, name))
	}
	t, ok := args[i].(*LTableV)
	if !ok {
		li.fail(fmt.Sprintf("bad argument #%d to '%s' (table expected, got %s)", i+1, name, luaTypeName(args[i])))
	}
	return t
}

func (li *luaInterp) builtin(name string, args []LVal) []LVal {
	arg := func(i int) LVal {
		if i < len(args) {
			return args[i]
		}
		return LNilV{}
	}
	switch name {
	case "next":
		t := li.argTable("next", args, 0)
		if _, first := arg(1).(LNilV); !first {
			li.ex.unsupported("lua next with a key")
		}
		if len(t.keys) == 0 {
			return []LVal{LNilV{}}
		}
		return []LVal{t.keys[0], t.vals[0]}
	case "tostring":
		return []LVal{LStrV{li.tostr(arg(0))}}
	case "tonumber":
		switch v := arg(0).(type) {
		case LNumV, LRatV, LFltV:
			return []LVal{v}
		case LStrV:
			if n, ok := invFromInt(v.t); ok {
				return []LVal{LNumV{n}}
			}
			if v.t.op == "c" {
				if n, err := strconv.ParseInt(strings.TrimSpace(v.t.s), 10, 64); err == nil {
					return []LVal{LNumV{mkInt(n)}}
				}
				return []LVal{LNilV{}}
			}
			li.ex.unsupported("lua tonumber of a symbolic string")
		}
		return []LVal{LNilV{}}
	case "type":
		return []LVal{LStrV{mkStr(luaTypeName(arg(0)))}}
	case "print":
		return nil
	case "error":
		li.fail("error: " + trunc(li.tostr(arg(0)).SMT(), 100))
	case "table.insert":
		t := li.argTable("insert", args, 0)
		n := li.length(t)
		if len(args) == 2 {
			li.rawSet(t, LNumV{mkInt(n + 1)}, args[1])
			return nil
		}
		pos, ok := li.num(arg(1)).constInt()
		if !ok {
			li.ex.unsupported("lua table.insert at a symbolic position")
		}
		for i := n; i >= pos; i-- {
			li.rawSet(t, LNumV{mkInt(i + 1)}, li.rawGet(t, LNumV{mkInt(i)}))
		}
		li.rawSet(t, LNumV{mkInt(pos)}, arg(2))
		return nil
	case "table.remove":
		t := li.argTable("remove", args, 0)
		n := li.length(t)
		if n == 0 {
			return []LVal{LNilV{}}
		}
		pos := n
		if len(args) > 1 {
			p, ok := li.num(arg(1)).constInt()
			if !ok {
				li.ex.unsupported("lua table.remove at a symbolic position")
			}
			pos = p
		}
		v := li.rawGet(t, LNumV{mkInt(pos)})
		for i := pos; i < n; i++ {
			li.rawSet(t, LNumV{mkInt(i)}, li.rawGet(t, LNumV{mkInt(i + 1)}))
		}
		li.rawSet(t, LNumV{mkInt(n)}, LNilV{})
		return []LVal{v}
	case "math.floor":
		if f, ok := arg(0).(LFltV); ok {
			return []LVal{wrapFloat(math.Floor(f.f))}
		}
		n, d := li.ratio(arg(0))
		return []LVal{LNumV{floorDiv(n, d)}}
	case "math.ceil":
		if f, ok := arg(0).(LFltV); ok {
			return []LVal{wrapFloat(math.Ceil(f.f))}
		}
		n, d := li.ratio(arg(0))
		return []LVal{LNumV{mkNeg(floorDiv(mkNeg(n), d))}}
	case "math.abs":
		if f, ok := arg(0).(LFltV); ok {
			return []LVal{wrapFloat(math.Abs(f.f))}
		}
		n, d := li.ratio(arg(0))
		if c, ok := d.constInt(); !ok || c != 1 {
			li.ex.unsupported("lua math.abs of a fraction")
		}
		return []LVal{LNumV{mkIte(mkLt(n, mkInt(0)), mkNeg(n), n)}}
	case "math.max", "math.min":
		r := li.num(arg(0))
		for _, a := range args[1:] {
			t := li.num(a)
			if name == "math.max" {
				r = mkIte(mkGt(t, r), t, r)
			} else {
				r = mkIte(mkLt(t, r), t, r)
			}
		}
		return []LVal{LNumV{r}}
	case "string.len":
		return []LVal{LNumV{mkStrLen(li.tostr(arg(0)))}}
	case "string.lower", "string.upper":
		s := li.tostr(arg(0))
		if s.op != "c" {
			li.ex.unsupported("lua " + name + " on a symbolic string")
		}
		if name == "string.lower" {
			return []LVal{LStrV{mkStr(strings.ToLower(s.s))}}
		}
		return []LVal{LStrV{mkStr(strings.ToUpper(s.s))}}
	case "string.sub":
		s := li.tostr(arg(0))
		i := li.num(arg(1))
		n := mkStrLen(s)
		j := n
		if len(args) > 2 {
			j = li.num(arg(2))
		}
		// only non-negative positions (negative ones count from the end: not used by the shipped scripts)
		if li.ex.branch(mkOr(mkLt(i, mkInt(0)), mkLt(j, mkInt(0)))) {
			li.ex.unsupported("lua string.sub with negative positions")
		}
		i = mkIte(mkLt(i, mkInt(1)), mkInt(1), i)
		j = mkIte(mkGt(j, n), n, j)
		return []LVal{LStrV{mkIte(mkGt(i, j), mkStr(""), mkSubstr(s, mkSub(i, mkInt(1)), mkAdd(mkSub(j, i), mkInt(1))))}}
	case "string.find":
		s, pat := li.tostr(arg(0)), li.tostr(arg(1))
		init := mkInt(1)
		if _, isNil := arg(2).(LNilV); !isNil {
			init = li.num(arg(2))
		}
		plain := false
		if b, ok := arg(3).(LBoolV); ok && b.t == tTrue {
			plain = true
		}
		if c, ok := init.constInt(); !ok || c != 1 {
			li.ex.unsupported("lua string.find with init != 1")
		}
		if !plain {
			if pat.op != "c" {
				li.ex.unsupported("lua string.find with a symbolic pattern")
			}
			if strings.ContainsAny(pat.s, "^$()%.[]*+-?") {
				// a real Lua pattern: decided by gopher-lua's own matcher when the subject is concrete
				if s.op != "c" {
					li.ex.unsupported("lua string.find with a pattern on a symbolic subject")
				}
				mds, err := pm.Find(pat.s, []byte(s.s), 0, 1)
				if err != nil {
					li.ex.unsupported("lua string.find: malformed pattern: " + err.Error())
				}
				if len(mds) == 0 {
					return []LVal{LNilV{}}
				}
				if mds[0].CaptureLength() > 2 {
					li.ex.unsupported("lua string.find with captures")
				}
				return []LVal{LNumV{mkInt(int64(mds[0].Capture(0) + 1))}, LNumV{mkInt(int64(mds[0].Capture(1)))}}
			}
		}
		idx := mkIndexOf(s, pat, mkInt(0))
		if li.ex.branch(mkLt(idx, mkInt(0))) {
			return []LVal{LNilV{}}
		}
		return []LVal{LNumV{mkAdd(idx, mkInt(1))}, LNumV{mkAdd(idx, mkStrLen(pat))}}
	case "string.match":
		// decided by gopher-lua's own pattern matcher on concrete subject and pattern
		s, pat := li.tostr(arg(0)), li.tostr(arg(1))
		if _, isNil := arg(2).(LNilV); !isNil {
			if c, ok := li.num(arg(2)).constInt(); !ok || c != 1 {
				li.ex.unsupported("lua string.match with init != 1")
			}
		}
		if s.op != "c" || pat.op != "c" {
			li.ex.unsupported("lua string.match on a symbolic subject or pattern")
		}
		mds, err := pm.Find(pat.s, []byte(s.s), 0, 1)
		if err != nil {
			li.ex.unsupported("lua string.match: malformed pattern: " + err.Error())
		}
		if len(mds) == 0 {
			return []LVal{LNilV{}}
		}
		md := mds[0]
		if md.CaptureLength() <= 2 {
			return []LVal{LStrV{mkStr(s.s[md.Capture(0):md.Capture(1)])}}
		}
		var out []LVal
		for i := 2; i+1 < md.CaptureLength(); i += 2 {
			if md.IsPosCapture(i) {
				li.ex.unsupported("lua string.match with a position capture")
			}
			out = append(out, LStrV{mkStr(s.s[md.Capture(i):md.Capture(i+1)])})
		}
		return out
	case "string.format":
		f := li.tostr(arg(0))
		if f.op != "c" {
			li.ex.unsupported("lua string.format with a symbolic format")
		}
		var r *Term = mkStr("")
		ai := 1
		for i := 0; i < len(f.s); i++ {
			if f.s[i] != '%' || i+1 >= len(f.s) {
				r = mkConcat(r, mkStr(f.s[i:i+1]))
				continue
			}
			i++
			switch f.s[i] {
			case '%':
				r = mkConcat(r, mkStr("%"))
			case 's':
				r = mkConcat(r, li.tostr(arg(ai)))
				ai++
			case 'd':
				r = mkConcat(r, mkFromInt(li.num(arg(ai))))
				ai++
			default:
				li.ex.unsupported("lua string.format verb %" + f.s[i:i+1])
			}
		}
		return []LVal{LStrV{r}}
	case "ipairs", "pairs":
		li.ex.unsupported("lua " + name + " outside a for loop")
	}
	li.ex.unsupported("lua builtin " + name)
	return nil
}
