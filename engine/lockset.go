package main

// Lock discipline (Eraser-style lockset check, decided per symbolic path).
//
// Execution is single-threaded, so a data race cannot be *observed* by the executor.  What it can decide, for every
// path of a function, is the discipline whose violation is the race: state declared guarded by a mutex
// (verifrt.GuardedBy) is only read while that mutex is held (read- or write-locked) and only written while it is
// write-locked.  sync.(RW)Mutex Lock/Unlock/RLock/RUnlock keep a per-mutex hold count on the path; every load/store of
// a guarded cell and every lookup/range/len/update/delete of a guarded map is an obligation.  A path (its condition is
// satisfiable by construction, the solver supplies the witness) on which an access happens without the lock is a
// violation of kind "unguarded"; it is confirmed natively under the Go race detector (rt.GuardedBy starts a goroutine
// that keeps touching the same state under the lock).
//
// Guarded state = everything reachable from the declared root through struct fields, maps, slices and pointers to
// types declared in the repository module (pointers to foreign types — *time.Location — are shared immutable data and
// are not followed); values stored into guarded state later become guarded too.

import (
	"go/types"
	"strings"

	"golang.org/x/tools/go/ssa"
)

type lockHold struct{ w, r int }

type guardRec struct {
	mu    *Cell
	label string
}

func (ex *Exec) lockOf(v Value, fr *frame, pos tokenPos) (*Cell, *lockHold) {
	p, ok := v.(PtrV)
	if !ok || p.c == nil {
		ex.raise(fr, pos, "nil pointer dereference (mutex)")
	}
	if ex.locks == nil {
		ex.locks = map[*Cell]*lockHold{}
	}
	h := ex.locks[p.c]
	if h == nil {
		h = &lockHold{}
		ex.locks[p.c] = h
	}
	return p.c, h
}

func (ex *Exec) muGuarded(c *Cell) bool {
	for _, g := range ex.guards {
		if g.mu == c {
			return true
		}
	}
	for _, g := range ex.guardedMaps {
		if g.mu == c {
			return true
		}
	}
	return false
}

func init() {
	add := func(name string, f interceptFn) { interceptTable[name] = f }
	lock := func(write bool) interceptFn {
		return func(ex *Exec, fr *frame, fn *ssa.Function, args []Value, pos tokenPos) Value {
			c, h := ex.lockOf(args[0], fr, pos)
			if (h.w > 0 || (write && h.r > 0)) && ex.muGuarded(c) {
				// the goroutine would block on itself for ever
				ex.raise(fr, pos, "sync: lock of a mutex this goroutine already holds (self-deadlock)")
			}
			if write {
				h.w++
			} else {
				h.r++
			}
			return nil
		}
	}
	unlock := func(write bool) interceptFn {
		return func(ex *Exec, fr *frame, fn *ssa.Function, args []Value, pos tokenPos) Value {
			c, h := ex.lockOf(args[0], fr, pos)
			n := &h.r
			if write {
				n = &h.w
			}
			if *n == 0 {
				if ex.muGuarded(c) {
					ex.raise(fr, pos, "fatal error: sync: unlock of unlocked mutex")
				}
				return nil
			}
			*n--
			return nil
		}
	}
	add("(*sync.Mutex).Lock", lock(true))
	add("(*sync.Mutex).Unlock", unlock(true))
	add("(*sync.RWMutex).Lock", lock(true))
	add("(*sync.RWMutex).Unlock", unlock(true))
	add("(*sync.RWMutex).RLock", lock(false))
	add("(*sync.RWMutex).RUnlock", unlock(false))
	tryLock := func(ex *Exec, fr *frame, fn *ssa.Function, args []Value, pos tokenPos) Value {
		_, h := ex.lockOf(args[0], fr, pos)
		if h.w > 0 || h.r > 0 {
			return tFalse
		}
		h.w++
		return tTrue
	}
	add("(*sync.Mutex).TryLock", tryLock)
	add("(*sync.RWMutex).TryLock", tryLock)
	add(rtPkg+".GuardedBy", func(ex *Exec, fr *frame, fn *ssa.Function, args []Value, pos tokenPos) Value {
		label := constStr(ex, args[0], "guard label")
		mu, ok := args[1].(IfaceV)
		if !ok || mu.t == nil {
			ex.unsupported("GuardedBy: mutex must be a non-nil *sync.Mutex / *sync.RWMutex")
		}
		mp, ok := mu.v.(PtrV)
		if !ok || mp.c == nil {
			ex.unsupported("GuardedBy: mutex must be a non-nil pointer")
		}
		if ex.guards == nil {
			ex.guards = map[*Cell]*guardRec{}
			ex.guardedMaps = map[*MapObj]*guardRec{}
		}
		g := &guardRec{mu: mp.c, label: label}
		ex.h.usesGuard = true
		ex.guardWalk(args[2], g, true)
		delete(ex.guards, mp.c)
		return nil
	})
	add(rtPkg+".EndGuard", func(ex *Exec, fr *frame, fn *ssa.Function, args []Value, pos tokenPos) Value {
		for _, h := range ex.locks {
			if h.w != 0 || h.r != 0 {
				ex.h.stats.Asserts++
				ex.h.assertLabels["lock.releasedOnReturn"]++
				_, vals, _ := ex.satModel()
				ex.h.addViolation(&Violation{Harness: ex.h.Name, Kind: "assert", Label: "lock.releasedOnReturn", Site: ex.site(fr.fn, pos), Values: vals, Path: ex.h.stats.Paths + 1, Stack: lastN(ex.callStack, 6)})
			}
		}
		ex.guards, ex.guardedMaps = nil, nil
		return nil
	})
}

func (ex *Exec) inRepoModule(t types.Type) bool {
	switch x := t.(type) {
	case *types.Named:
		if x.Obj() == nil || x.Obj().Pkg() == nil {
			return false
		}
		return strings.HasPrefix(x.Obj().Pkg().Path(), repoMod)
	case *types.Alias:
		return ex.inRepoModule(types.Unalias(x))
	}
	// unnamed composite
	return true
}

// guardWalk marks everything reachable from v as guarded by g.  top: follow the first pointer whatever its type.
func (ex *Exec) guardWalk(v Value, g *guardRec, top bool) {
	switch x := v.(type) {
	case PtrV:
		if x.c == nil {
			return
		}
		if !top && !ex.inRepoModule(x.c.typ) {
			return
		}
		ex.guardCell(x.c, g)
	case IfaceV:
		if x.t != nil {
			ex.guardWalk(x.v, g, top)
		}
	case StructV:
		for _, f := range x.fields {
			ex.guardWalk(f, g, false)
		}
	case ArrayV:
		for _, f := range x.elems {
			ex.guardWalk(f, g, false)
		}
	case SliceV:
		if x.arr != nil {
			ex.guardCell(x.arr, g)
		}
	case MapV:
		if x.m == nil {
			return
		}
		if _, seen := ex.guardedMaps[x.m]; seen {
			return
		}
		ex.guardedMaps[x.m] = g
		for i := range x.m.keys {
			ex.guardWalk(x.m.keys[i], g, false)
			ex.guardWalk(x.m.vals[i], g, false)
		}
	}
}

func (ex *Exec) guardCell(c *Cell, g *guardRec) {
	if c == g.mu {
		return
	}
	if _, seen := ex.guards[c]; seen {
		return
	}
	ex.guards[c] = g
	if c.subs != nil {
		for _, s := range c.subs {
			ex.guardCell(s, g)
		}
		return
	}
	if c.val != nil {
		ex.guardWalk(c.val, g, false)
	}
}

func (ex *Exec) guardAccess(g *guardRec, write bool) {
	h := ex.locks[g.mu]
	held := h != nil && (h.w > 0 || (!write && h.r > 0))
	label := g.label + ".readUnderLock"
	if write {
		label = g.label + ".writeUnderWriteLock"
	}
	if ex.replaying() {
		return
	}
	hr := ex.h
	hr.stats.Asserts++
	hr.assertLabels[label]++
	if held {
		hr.stats.TrivialTrue++
		hr.stats.Discharged++
		return
	}
	res, vals, _ := ex.satModel()
	if res != "sat" {
		// the path condition is kept satisfiable by branch(); anything else is a solver hiccup
		hr.inconclusive = append(hr.inconclusive, "lock discipline "+label+": path condition not confirmed satisfiable ("+res+")")
		return
	}
	var fn *ssa.Function = ex.curFn
	pos := tokenPos(0)
	if ex.curInstr != nil {
		pos = instrPos(ex.curInstr)
	}
	hr.addViolation(&Violation{Harness: hr.Name, Kind: "unguarded", Label: label, Site: ex.site(fn, pos), Values: vals, Path: hr.stats.Paths + 1, Stack: lastN(ex.callStack, 6), Notes: append([]string(nil), ex.pathNotes...)})
}

// guardCellAccess is called from load/store.
func (ex *Exec) guardCellAccess(c *Cell, write bool, v Value) {
	g := ex.guards[c]
	if g == nil {
		return
	}
	ex.guardAccess(g, write)
	if write && v != nil {
		ex.guardWalk(v, g, false)
	}
}

// guardMapAccess is called from the map primitives.
func (ex *Exec) guardMapAccess(m *MapObj, write bool, vals ...Value) {
	g := ex.guardedMaps[m]
	if g == nil {
		return
	}
	ex.guardAccess(g, write)
	for _, v := range vals {
		ex.guardWalk(v, g, false)
	}
}
