package main

// Native-replay support for verifrt.Stub: the source file that declares a
// stubbed function is copied with a guard inserted at the top of the function
// body that dispatches to the harness-registered replacement (DESIGN.md §5.2).

import (
	"fmt"
	"go/ast"
	"go/token"
	"go/types"
	"strconv"
	"os"
	"path/filepath"
	"regexp"
	"sort"
	"strings"

	"golang.org/x/tools/go/ssa"
)

var stubRe = regexp.MustCompile(`verifrt\.Stub\(\s*"([^"]+)"`)

func (e *Engine) stubNames() []string {
	seen := map[string]bool{}
	for _, real := range e.overlayReal {
		b, err := os.ReadFile(real)
		if err != nil {
			continue
		}
		for _, m := range stubRe.FindAllStringSubmatch(string(b), -1) {
			seen[m[1]] = true
		}
	}
	// every string constant of a harness file that names a function of the repository is a stub candidate
	// (a guard on a function that no harness stubs is inert)
	for _, p := range e.allPkgs() {
		for i, f := range p.Syntax {
			if i >= len(p.CompiledGoFiles) {
				continue
			}
			if _, isHarness := e.overlay[p.CompiledGoFiles[i]]; !isHarness {
				continue
			}
			ast.Inspect(f, func(n ast.Node) bool {
				lit, ok := n.(*ast.BasicLit)
				if !ok || lit.Kind != token.STRING {
					return true
				}
				v, err := strconv.Unquote(lit.Value)
				if err != nil || !strings.Contains(v, repoMod) {
					return true
				}
				if fn := e.findFunc(v); fn != nil && fn.String() == v {
					seen[v] = true
				}
				return true
			})
		}
	}
	var out []string
	for k := range seen {
		out = append(out, k)
	}
	sort.Strings(out)
	return out
}

func (e *Engine) findFunc(name string) *ssa.Function {
	// name forms: "pkg/path.Func" or "(*pkg/path.T).Method" or "(pkg/path.T).Method"
	if strings.HasPrefix(name, "(") {
		i := strings.Index(name, ").")
		if i < 0 {
			return nil
		}
		recv := name[1:i]
		meth := name[i+2:]
		ptr := strings.HasPrefix(recv, "*")
		recv = strings.TrimPrefix(recv, "*")
		j := strings.LastIndex(recv, ".")
		if j < 0 {
			return nil
		}
		p := e.ssaPkgs[recv[:j]]
		if p == nil {
			return nil
		}
		t := p.Type(recv[j+1:])
		if t == nil {
			return nil
		}
		var T types.Type = t.Type()
		if ptr {
			T = types.NewPointer(T)
		}
		sel := e.prog.MethodSets.MethodSet(T).Lookup(p.Pkg, meth)
		if sel == nil {
			return nil
		}
		return e.prog.MethodValue(sel)
	}
	j := strings.LastIndex(name, ".")
	if j < 0 {
		return nil
	}
	p := e.ssaPkgs[name[:j]]
	if p == nil {
		return nil
	}
	return p.Func(name[j+1:])
}

type insertion struct {
	off  int
	text string
}

func (e *Engine) rewriteStubs(tmp string, repl map[string]string) error {
	names := e.stubNames()
	if len(names) == 0 {
		return nil
	}
	byFile := map[string][]insertion{}
	extraImports := map[string]map[string]string{} // file -> path -> alias
	for _, name := range names {
		fn := e.findFunc(name)
		if fn == nil {
			return fmt.Errorf("stub target %q not found", name)
		}
		if fn.String() != name {
			return fmt.Errorf("stub name %q resolves to %q; use the exact ssa name", name, fn.String())
		}
		decl, ok := fn.Syntax().(*ast.FuncDecl)
		if !ok || decl.Body == nil {
			return fmt.Errorf("stub target %q has no source body", name)
		}
		pos := e.prog.Fset.Position(decl.Body.Lbrace)
		file := pos.Filename
		// find the ast.File for import names
		af := e.astFileFor(file)
		if af == nil {
			return fmt.Errorf("stub target %q: syntax file not found", name)
		}
		imports := map[string]string{}
		for _, im := range af.Imports {
			path := strings.Trim(im.Path.Value, `"`)
			if im.Name != nil {
				imports[path] = im.Name.Name
			} else {
				imports[path] = ""
			}
		}
		if extraImports[file] == nil {
			extraImports[file] = map[string]string{}
		}
		// parameter / receiver names shadow package names inside the function body, where the guard is inserted
		shadowed := map[string]bool{}
		if decl.Recv != nil {
			for _, f := range decl.Recv.List {
				for _, n := range f.Names {
					shadowed[n.Name] = true
				}
			}
		}
		for _, f := range decl.Type.Params.List {
			for _, n := range f.Names {
				shadowed[n.Name] = true
			}
		}
		qual := func(p *types.Package) string {
			if p == fn.Pkg.Pkg {
				return ""
			}
			if n, ok := imports[p.Path()]; ok && n != "_" && n != "." {
				if n == "" {
					n = p.Name()
				}
				if !shadowed[n] {
					return n
				}
			}
			if a, ok := extraImports[file][p.Path()]; ok {
				return a
			}
			a := fmt.Sprintf("vimp%d", len(extraImports[file]))
			extraImports[file][p.Path()] = a
			return a
		}
		sig := fn.Signature
		var ptypes, pnames []string
		if decl.Recv != nil && len(decl.Recv.List) == 1 {
			if len(decl.Recv.List[0].Names) != 1 || decl.Recv.List[0].Names[0].Name == "_" {
				return fmt.Errorf("stub target %q: unnamed receiver", name)
			}
			pnames = append(pnames, decl.Recv.List[0].Names[0].Name)
			ptypes = append(ptypes, types.TypeString(sig.Recv().Type(), qual))
		}
		idx := 0
		for _, f := range decl.Type.Params.List {
			if len(f.Names) == 0 {
				return fmt.Errorf("stub target %q: unnamed parameter", name)
			}
			for _, n := range f.Names {
				if n.Name == "_" {
					return fmt.Errorf("stub target %q: blank parameter", name)
				}
				pt := sig.Params().At(idx).Type()
				ts := types.TypeString(pt, qual)
				arg := n.Name
				if sig.Variadic() && idx == sig.Params().Len()-1 {
					ts = "..." + types.TypeString(pt.(*types.Slice).Elem(), qual)
					arg += "..."
				}
				ptypes = append(ptypes, ts)
				pnames = append(pnames, arg)
				idx++
			}
		}
		var rtypes []string
		for i := 0; i < sig.Results().Len(); i++ {
			rtypes = append(rtypes, types.TypeString(sig.Results().At(i).Type(), qual))
		}
		ftype := "func(" + strings.Join(ptypes, ", ") + ")"
		if len(rtypes) > 0 {
			ftype += " (" + strings.Join(rtypes, ", ") + ")"
		}
		call := fmt.Sprintf("vstub.(%s)(%s)", ftype, strings.Join(pnames, ", "))
		var guard string
		if len(rtypes) > 0 {
			guard = fmt.Sprintf(" if vstub, ok := verifrt.Stubs[%q]; ok { return %s };", name, call)
		} else {
			guard = fmt.Sprintf(" if vstub, ok := verifrt.Stubs[%q]; ok { %s; return };", name, call)
		}
		byFile[file] = append(byFile[file], insertion{off: pos.Offset + 1, text: guard})
	}
	for file, ins := range byFile {
		src, err := os.ReadFile(file)
		if ov, ok := e.overlay[file]; ok {
			src, err = ov, nil
		}
		if err != nil {
			return err
		}
		af := e.astFileFor(file)
		// import insertion right after the package clause name
		pkgEnd := e.prog.Fset.Position(af.Name.End()).Offset
		imp := "; import verifrt \"" + rtPkg + "\""
		for path, alias := range extraImports[file] {
			imp += fmt.Sprintf("; import %s %q", alias, path)
		}
		ins = append(ins, insertion{off: pkgEnd, text: imp})
		sort.Slice(ins, func(i, j int) bool { return ins[i].off > ins[j].off })
		out := string(src)
		for _, in := range ins {
			out = out[:in.off] + in.text + out[in.off:]
		}
		dst := filepath.Join(tmp, "stub_"+strings.ReplaceAll(strings.TrimPrefix(file, e.repoDir+"/"), "/", "_"))
		if err := os.WriteFile(dst, []byte(out), 0644); err != nil {
			return err
		}
		repl[file] = dst
	}
	return nil
}

func (e *Engine) astFileFor(file string) *ast.File {
	if e.astFiles == nil {
		e.astFiles = map[string]*ast.File{}
		for _, p := range e.allPkgs() {
			for i, f := range p.Syntax {
				if i < len(p.CompiledGoFiles) {
					e.astFiles[p.CompiledGoFiles[i]] = f
				}
			}
		}
	}
	return e.astFiles[file]
}
