#!/bin/bash
# usage: verify_seed.sh <prop> <n>   (uses the scratch worktree /tmp/wt/<prop>, artifacts in _seeded/<n>)
# Confirms: patch applies, builds, existing suite passes with it (test/e2e needs a cluster and is excluded,
# as in BASELINE), demo fails with the patch and passes without. On success copies to /verif/seeded/<prop>-<n>/.
export GOFLAGS=-mod=mod GOPROXY=off GOSUMDB=off GOTOOLCHAIN=local
P=$1; N=$2; WT=${3:-/tmp/wt/$P}; S=$WT/_seeded/$N
cd $WT || exit 2
git checkout -q -- . ; 
DEMODIR=$(cat $S/demo_dir.txt | tr -d '\n ')
log=/tmp/wt/verify-$P-$N.log; : > $log
fail() { echo "SEED $P-$N REJECTED: $1" | tee -a $log; git checkout -q -- .; rm -f $WT/$DEMODIR/zz_demo_test.go; exit 1; }
git apply --check $S/patch.diff || fail "patch does not apply"
# demo passes without patch
cp $S/demo_test.go $WT/$DEMODIR/zz_demo_test.go
go test -vet=off -count=1 ./$DEMODIR >> $log 2>&1 || fail "demo does not pass on original code"
git apply $S/patch.diff
go build ./... >> $log 2>&1 || fail "does not build"
go test -vet=off -count=1 ./$DEMODIR >> $log 2>&1 && fail "demo does not fail with patch"
rm -f $WT/$DEMODIR/zz_demo_test.go
go test -vet=off -count=1 $(go list ./... | grep -v test/e2e) >> $log 2>&1 || fail "existing suite fails with patch"
git checkout -q -- .
D=/verif/seeded/$P-$N; mkdir -p $D
cp $S/patch.diff $S/demo_test.go $D/
python3 - "$P" "$N" "$DEMODIR" "$S/notes.txt" "$D/meta.json" <<'PY'
import sys, json
p,n,d,notes,out=sys.argv[1:]
json.dump({"id":f"{p}-{n}","breaks_property":p,"demo_dir":d,"needs_to_manifest_and_notes":open(notes).read(),
 "confirmed_by":"tools/verify_seed.sh: patch applies; go build ./...; existing suite (all packages except test/e2e, which needs a cluster) passes with the patch; demo test passes on the original tree and fails with the patch",
 "detected_by":None},open(out,'w'),indent=1)
PY
echo "SEED $P-$N OK" | tee -a $log
