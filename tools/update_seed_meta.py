#!/usr/bin/env python3
"""Fill `detected_by` in seeded/*/meta.json from the seed-run logs (/tmp/seedrun-<seed>-<prop>.log, written by
tools/run_seed_copy.sh) and list the seeds not detected by their own property's check."""
import glob, json, os, re
missed = []
for d in sorted(glob.glob('/verif/seeded/*/')):
    sid = os.path.basename(d.rstrip('/'))
    mp = d + 'meta.json'
    if not os.path.exists(mp):
        continue
    m = json.load(open(mp))
    prop = m.get('breaks_property', sid.split('-')[0])
    log = '/tmp/seedrun-%s-%s.log' % (sid, prop)
    if os.path.exists(log):
        txt = open(log).read()
        hits = re.findall(r'harness=(\S+) kind=(\S+) label=(\S*)', txt)
        if 'exit=1' in txt and hits:
            seen, out = set(), []
            for h, k, l in hits:
                if (h, l) not in seen:
                    seen.add((h, l)); out.append('%s (%s)' % (h, l or k))
            m['detected_by'] = '%s: %s' % (prop, '; '.join(out[:4]))
            m.pop('not_detected_reason', None)
            json.dump(m, open(mp, 'w'), indent=1)
    if not m.get('detected_by'):
        missed.append((sid, m.get('not_detected_reason', '')))
for s, r in missed:
    print('NOT DETECTED', s, r[:120])
print(len(glob.glob('/verif/seeded/*/meta.json')), 'seeds,', len(missed), 'not detected by own property')
