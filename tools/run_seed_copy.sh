#!/bin/bash
# usage: run_seed_copy.sh <seed-id> <prop> [extra engine args]
# Applies the seeded patch to a scratch COPY of /repo (so /repo stays untouched and other checks can run), runs the
# check against the copy with evidence/replays redirected to scratch, removes the copy.
S=$1; P=$2; shift 2
export GOFLAGS=-mod=mod GOPROXY=off GOSUMDB=off GOTOOLCHAIN=local
C=$(mktemp -d /tmp/repo-seed-XXXXXX)
rsync -a --exclude .git /repo/ $C/
cd $C || exit 2
git apply /verif/seeded/$S/patch.diff 2>/dev/null || patch -p1 -s < /verif/seeded/$S/patch.diff || { echo "SEED $S: patch does not apply"; rm -rf $C; exit 2; }
cd /verif && VERIF_OUT=$C/_out ./bin/verif-engine -repo $C -prop $P -tier quick "$@" > /tmp/seedrun-$S-$P.log 2>&1; rc=$?
echo "SEED $S vs $P: exit=$rc $(grep -c '^VIOLATION' /tmp/seedrun-$S-$P.log) violation line(s)"; grep -A1 "^VIOLATION" /tmp/seedrun-$S-$P.log | grep harness | cut -c1-220 | head -5; grep "^INCONCLUSIVE" /tmp/seedrun-$S-$P.log | cut -c1-250 | head -3
rm -rf $C
