#!/usr/bin/env python3
# Lists every harness function per property with the first sentence of its doc comment (for DESIGN.md 12.4).
import re, glob, collections
out = collections.defaultdict(list)
for f in sorted(glob.glob('/verif/harness/**/*.go', recursive=True)):
    src = open(f).read().split('\n')
    pkg = f.split('/verif/harness/')[1].rsplit('/', 1)[0]
    for i, l in enumerate(src):
        m = re.match(r'func (Verif(C\d\d)_\w+)\(\)', l)
        if not m:
            continue
        j = i - 1
        doc = []
        while j >= 0 and src[j].startswith('//'):
            doc.insert(0, src[j][2:].strip()); j -= 1
        d = ' '.join(doc)
        d = re.sub(r'^' + m.group(1) + r':?\s*', '', d)
        out[m.group(2)].append((m.group(1), pkg, d[:260]))
for p in sorted(out):
    print(f'**{p}**')
    for n, pkg, d in out[p]:
        print(f'* `{n}` ({pkg})' + (f' — {d}' if d else ''))
    print()
