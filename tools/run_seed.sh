#!/bin/bash
# usage: run_seed.sh <seed-id> <prop> [extra check args]  — applies the seeded patch to /repo, runs the check, reverts.
S=$1; P=$2; shift 2
cd /repo || exit 2
if [ -n "$(git status --porcelain)" ]; then echo "repo dirty"; exit 2; fi
git apply /verif/seeded/$S/patch.diff 2>/dev/null || git apply -3 /verif/seeded/$S/patch.diff 2>/dev/null || { echo "SEED $S: patch does not apply to current HEAD"; git checkout -q -- .; exit 2; }
cd /verif && ./check $P "$@" > /tmp/seedrun-$S-$P.log 2>&1; rc=$?
cd /repo && git checkout -q -- . && git reset -q
echo "SEED $S vs $P: exit=$rc $(grep -c '^VIOLATION' /tmp/seedrun-$S-$P.log) violation line(s)"; grep -A1 "^VIOLATION" /tmp/seedrun-$S-$P.log | grep harness | cut -c1-220 | head -5; grep "^INCONCLUSIVE" /tmp/seedrun-$S-$P.log | cut -c1-250 | head -3
