#!/bin/bash
# usage: seed_intake.sh <prop> <n> [worktree]  — verify a delivered seed, then run the property's quick check on a copy with it.
P=$1; N=$2; WT=${3:-/tmp/wt/$P-$N}
cd /verif
tools/verify_seed.sh $P $N $WT 2>&1 | grep "^SEED" || { echo "SEED $P-$N verification produced no verdict"; exit 1; }
[ -f /verif/seeded/$P-$N/patch.diff ] || exit 1
tools/run_seed_copy.sh $P-$N $P 2>&1 | grep -E "SEED|label|INCONCL" | cut -c1-230
