#!/bin/bash
# usage: solver_diff.sh [props...]   — runs the quick tier of each property with z3 (4.8.12), z3-new (5.1.0) and cvc5
# into scratch output directories and compares what was decided: paths, obligations, discharged, violations, exit.
# The encoding is the same; a disagreement between solvers on any query shows up as a different count or exit code.
cd /verif; [ -x bin/verif-engine ] || ./check C08 -only __none__ >/dev/null 2>&1
PROPS="$@"; [ -z "$PROPS" ] && PROPS="C01 C08 C11 C12 C17 C20"
rc=0
for p in $PROPS; do
  ref=""
  for sv in z3 z3-new cvc5; do
    out=$(mktemp -d /tmp/sdiff-XXXXXX)
    line=$(VERIF_OUT=$out timeout 3600 ./bin/verif-engine -prop $p -tier quick -solver $sv 2>&1 | grep "^property=$p" | tail -n 1)
    rm -rf $out
    key=$(echo "$line" | sed -E 's/ queries=[0-9]+ solver_s=[0-9.]+//; s/ wall_s=[0-9.]+//')
    echo "$sv: $line"
    if [ -z "$ref" ]; then ref="$key"; elif [ "$key" != "$ref" ]; then echo "SOLVER-DISAGREEMENT property=$p solver=$sv"; rc=1; fi
  done
done
exit $rc
