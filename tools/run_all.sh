#!/bin/bash
# usage: run_all.sh <quick|thorough> [props...]  — runs ./check for every property sequentially, prints one line each.
T=${1:-quick}; shift
cd /verif
PROPS="$@"
[ -z "$PROPS" ] && PROPS=$(python3 -c "
import json;c=json.load(open('checks.json'));print(' '.join(sorted(c)))")
for p in $PROPS; do
  s=$(date +%s)
  ./check $p --tier $T > /tmp/runall-$T-$p.log 2>&1; rc=$?
  echo "$p tier=$T exit=$rc wall=$(( $(date +%s) - s ))s $(grep -c '^VIOLATION' /tmp/runall-$T-$p.log) violations $(grep -c '^INCONCLUSIVE' /tmp/runall-$T-$p.log) inconclusive $(grep -c '^KNOWN-FINDING' /tmp/runall-$T-$p.log) known"
done
