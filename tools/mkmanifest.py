#!/usr/bin/env python3
# Regenerates /verif/MANIFEST.json from checks.json (claimed properties) + the texts below.
import json, os
V = '/verif'
checks = json.load(open(f'{V}/checks.json'))
TEXT = {
 'C01': ("Bounded symbolic model checking of the real batch-size arithmetic and workload-knob writers: every CalculateBatchContext/UpgradeBatch path is executed symbolically over all replica counts and plans within the bounds and the exposure bound is discharged by the SMT solver; the executor batch gate and the Rollout-side batchPartition writer are checked as one-step transition obligations from an arbitrary persisted state.",
         "History/schedule quantification is reduced to one-step obligations from an arbitrary persisted state plus the paper argument in DESIGN.md section 6 C01; workload controllers behave as documented (A3)."),
 'C13': ("Bounded symbolic model checking of the real buildDesiredHTTPRoute (weight, match and finalise branches) over all HTTPRoute shapes within the bounds with symbolic names/weights/headers; weight split, narrowness of generated matches, untouched foreign rules/backends, fixed point and restore are SMT obligations; counterexamples are replayed natively before being reported.",
         "Shape bounds in evidence.bounds; stored rules have >=1 match (CRD default); at most one canary ref per rule (reachability invariant, itself asserted); EnsureRoutes/Finalise client plumbing outside."),
 'C20': ("Bounded symbolic model checking of the real ConvertTo/ConvertFrom code for Rollout and BatchRelease: every optional block nil/present within the factor groups, all leaf strings and integers symbolic; no-panic/no-error on schema-admitted shapes and meaning-preserving round trips are SMT obligations over all leaf values; models replayed natively.",
         "Shape space explored per factor group (blocks, steps, routing, annotations/metadata) with the other groups at a fixed maximal shape; lists <= 2; style annotation from 8 spellings; DisableGenerateCanaryService is not named by the property and not asserted."),
}
NA = {
 'C16': "quantifies over arbitrary Lua programs executed by the third-party gopher-lua VM (interpreter, coroutines, wall-clock deadline) and over OS-level isolation; an SSA->SMT encoder of the repository code cannot reach it, and the sandbox configuration has no symbolic input (DESIGN.md section 9)",
}
props = [json.loads(l)['id'] for l in open(f'{V}/properties.jsonl')]
claimed = [p for p in props if p in checks and p in TEXT and checks[p].get('registered', True)]
m = {
 "version": 1,
 "setup_cmd": "cd /verif/engine && GOFLAGS=-mod=mod GOPROXY=off GOSUMDB=off GOTOOLCHAIN=local go build -o /verif/bin/verif-engine . && cd /repo && GOFLAGS=-mod=mod GOPROXY=off GOSUMDB=off GOTOOLCHAIN=local go build ./... ",
 "hooks": {"guard": "verif", "enable": "no source hooks in /repo: harnesses and the verifrt runtime are injected through go/packages overlays (engine) and go test -overlay (native replay)", "baseline_off_cmd": "cd /repo && GOFLAGS=-mod=mod GOPROXY=off go test -vet=off -count=1 -timeout 25m $(go list ./... | grep -v /test/e2e)", "source_commits": [], "add_only": True},
 "engines": [{"name": "ssa-smt", "path": "/verif/engine", "serves_properties": claimed, "kind_free_text": "own go/ssa -> SMT-LIB2 bounded symbolic executor (path-forking, Int encoding with explicit machine-integer wrap, SMT strings), z3 4.8.12 as the deciding step over one persistent pipe, native replay of every counterexample and of sampled passing models (translator validation) through go test -overlay"}],
 "checks": [],
 "not_applicable": [],
 "notes": "Exit codes of ./check: 0 all obligations discharged within the bounds; 1 a natively replayed violation not listed in known_findings.json (VIOLATION line); 3 inconclusive (unsupported construct reached, solver unknown/timeout, bound exhausted, replay mismatch) - never reported as success. Fixed defects are listed in known_findings.json as kind=fixed and suppress nothing."
}
for p in claimed:
    lvl, note = TEXT[p]
    m["checks"].append({
      "property_id": p,
      "quick_cmd": f"./check {p} --tier quick",
      "thorough_cmd": f"./check {p} --tier thorough",
      "evidence_file": f"/verif/evidence/{p}.json",
      "replay_cmd_template": f"./check {p} --replay {{path}}",
      "engine": "ssa-smt",
      "level_claimed": {"category": "model_checking", "text": lvl, "design_ref": f"DESIGN.md section 6 {p}"},
      "level_note": note + " Bounds: " + checks[p].get('bounds','') + " Outside the claim: " + checks[p].get('outside',''),
      "technique": "bounded symbolic execution of the real Go code (go/ssa -> SMT-LIB2), z3 decides every obligation over all values within the bounds; counterexamples replayed natively",
    })
for p in props:
    if p not in claimed:
        m["not_applicable"].append({"property_id": p, "reason": NA.get(p, "check not built yet in this round (engine serves it by design, see DESIGN.md section 6); not claimed until its harness runs clean")})
json.dump(m, open(f'{V}/MANIFEST.json','w'), indent=1)
print("claimed:", claimed)
