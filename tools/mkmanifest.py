#!/usr/bin/env python3
# Regenerates /verif/MANIFEST.json from checks.json (claimed properties) + the texts below.
import json, os
V = '/verif'
checks = json.load(open(f'{V}/checks.json'))
TEXT = {
 'C01': ("Bounded symbolic model checking of the real batch-size arithmetic and workload-knob writers: every CalculateBatchContext/UpgradeBatch path is executed symbolically over all replica counts and plans within the bounds and the exposure bound is discharged by the SMT solver; the executor batch gate and the Rollout-side batchPartition writer are checked as one-step transition obligations from an arbitrary persisted state.",
         "History/schedule quantification is reduced to one-step obligations from an arbitrary persisted state plus the paper argument in DESIGN.md section 6 C01; workload controllers behave as documented (A3). Covered: CalculateBatchContext+UpgradeBatch of all seven styles (exposure bound, never moving back), the executor gate (never beyond batchPartition). The Rollout-side writer of batchPartition is covered by C02's runBatchRelease stub contract only."),
 'C02': ("Bounded symbolic model checking of the real per-step state machines: one reconcile of (*canaryReleaseManager).runCanary and (*blueGreenReleaseManager).runCanary (with doCanaryUpgrade/Paused/Jump) is executed symbolically from an arbitrary persisted status cursor, with the traffic-routing manager and runBatchRelease replaced by stubs returning arbitrary results; the transition relation (index moves only from Ready by one; Upgrade leaves only when the BatchRelease is current, observed, Ready and at the step's batch; TrafficRouting leaves only when routing reported verified; Paused leaves only with a duration or the 100%-last-step rule; paused rollouts make no progress; dispatch of rollback/plan-edit/supersession) is discharged by the solver over all paths.",
         "Histories/crash points are reduced to one step from an arbitrary persisted state (DESIGN.md section 3): nothing but the persisted status is remembered. Collaborators are stubs with arbitrary outcomes (listed in evidence.stubs_used); status is persisted only when the step returns no error (C06)."),
 'C03': ("The ordering half of the property on the same symbolic step relation as C02: DoTrafficRouting is invoked only in the TrafficRouting sub-state, that sub-state is entered only after the step's upgrade was reported ready by a current BatchRelease, and a first step with traffic pins the stable Service (PatchStableService returned done) before runBatchRelease is called.",
         "The exact share written to each provider is C13 (Gateway API), C14 (Ingress) and C15 (custom); Manager.DoTrafficRouting's own pre-conditions are stubbed here."),
 'C04': ("Bounded symbolic model checking of the clean-up ordering code: nextCanaryTask/nextBlueGreenTask unrolled to END for a symbolic finalise reason (every string), doCanaryFinalising (both managers) and doProgressingReset from an arbitrary persisted finalising cursor with every task stubbed to an arbitrary (retry, error); routes are withdrawn before the canary Service is removed, the stable Service is un-pinned before stable pods are replaced, each task runs only after the previous one reported completion, and a partition-style step that replaces all stable pods restores the stable Service first.",
         "What a gateway controller does with a Service without endpoints is outside (A3); Manager.FinalisingTrafficRouting internals are stubbed."),
 'C07': ("Bounded symbolic model checking of the arithmetic half of the property for all seven workload styles: assuming the workload controller converged to the knob written by UpgradeBatch, the controller's own IsBatchReady accepts (no wait on a target it can never reach), and IsBatchReady reports ready whenever all of its conditions hold (no spurious wait).",
         "End-to-end termination (delivery of watch events, wall-clock requeues) is not encoded: only the step-level sufficient conditions are decided, the composition is argued in DESIGN.md section 6 C07."),
 'C09': ("Two-stage bounded symbolic model checking: (1) validateRolloutSpec / validateRolloutUpdate / validateRolloutConflict are executed on symbolic Rollouts (nil, integer, percent and malformed replicas/traffic, 0..2 routings) and every accepted object satisfies the structural promises; (2) a Rollout satisfying exactly those promises, with any int32 in the user-editable nextStepIndex and any sub-state, goes through handleNormalRolling/runCanary/doCanaryJump, handleRolloutPlanChanged/recalculateCanaryStep and newTrafficRoutingContext under a no-panic obligation.",
         "Admission plumbing (Handle, decoder) and CRD schema validation are outside; assume-guarantee split between the two stages."),
 'C10': ("Bounded symbolic model checking of doProgressingInRolling's dispatch (rollback-directly, paused, rollback-in-batches, supersession, plan edit, normal) against an independent restatement of the conditions, over every combination of workload flags, strategy, workload kind and traffic routing; rollback enters Cancelling and nothing else; supersession restores the gateway before the BatchRelease is removed (canary) or is refused without touching anything (blue-green); cancellation ends Succeeded=False only after clean-up is done. Task orders are C04.",
         "Collaborators stubbed with arbitrary outcomes; one-step reduction as C02."),
 'C11': ("Bounded symbolic model checking of one executor round (syncStatusBeforeExecuting + executeBatchReleasePlan + progressBatches, with a control.Interface stub returning arbitrary results) from an arbitrary persisted BatchRelease status satisfying a stated, inductive invariant; of BatchContext.IsBatchReady against an independent reference; and of Finalize (blue-green Deployment/CloneSet, canary stable Deployment) on first attempt and on retry with the API server's view of the workload symbolic.",
         "Known finding (listed in known_findings.json): blue-green Deployment Finalize retry waits on an empty object. Control planes other than the three Finalize implementations are stubbed at control.Interface."),
 'C13': ("Bounded symbolic model checking of the real buildDesiredHTTPRoute (weight, match and finalise branches) over all HTTPRoute shapes within the bounds with symbolic names/weights/headers; weight split, narrowness of generated matches, untouched foreign rules/backends, fixed point and restore are SMT obligations; counterexamples are replayed natively before being reported.",
         "Shape bounds in evidence.bounds; stored rules have >=1 match (CRD default); at most one canary ref per rule (reachability invariant, itself asserted); EnsureRoutes/Finalise client plumbing outside."),
 'C20': ("Bounded symbolic model checking of the real ConvertTo/ConvertFrom code for Rollout and BatchRelease: every optional block nil/present within the factor groups, all leaf strings and integers symbolic; no-panic/no-error on schema-admitted shapes and meaning-preserving round trips are SMT obligations over all leaf values; models replayed natively.",
         "Shape space explored per factor group (blocks, steps, routing, annotations/metadata) with the other groups at a fixed maximal shape; lists <= 2; style annotation from 8 spellings; DisableGenerateCanaryService is not named by the property and not asserted."),
}
NA = {
 'C16': "quantifies over arbitrary Lua programs executed by the third-party gopher-lua VM (interpreter, coroutines, wall-clock deadline) and over OS-level isolation; an SSA->SMT encoder of the repository code cannot reach it, and the sandbox configuration has no symbolic input (DESIGN.md section 9)",
}
props = [json.loads(l)['id'] for l in open(f'{V}/properties.jsonl')]
claimed = [p for p in props if p in checks and p in TEXT and checks[p].get('registered', True)]
m = {
 "version": 1,
 "setup_cmd": "cd /verif/engine && GOFLAGS=-mod=mod GOPROXY=off GOSUMDB=off GOTOOLCHAIN=local go build -o /verif/bin/verif-engine . && cd /repo && GOFLAGS=-mod=mod GOPROXY=off GOSUMDB=off GOTOOLCHAIN=local go build ./... ",
 "hooks": {"guard": "verif", "enable": "no source hooks in /repo: harnesses and the verifrt runtime are injected through go/packages overlays (engine) and go test -overlay (native replay)", "baseline_off_cmd": "cd /repo && GOFLAGS=-mod=mod GOPROXY=off go test -vet=off -count=1 -timeout 25m $(go list ./... | grep -v /test/e2e)", "source_commits": [], "add_only": True},
 "engines": [{"name": "ssa-smt", "path": "/verif/engine", "serves_properties": claimed, "kind_free_text": "own go/ssa -> SMT-LIB2 bounded symbolic executor (path-forking, Int encoding with explicit machine-integer wrap, SMT strings), z3 4.8.12 as the deciding step over one persistent pipe, native replay of every counterexample and of sampled passing models (translator validation) through go test -overlay"}],
 "checks": [],
 "not_applicable": [],
 "notes": "Exit codes of ./check: 0 all obligations discharged within the bounds; 1 a natively replayed violation not listed in known_findings.json (VIOLATION line); 3 inconclusive (unsupported construct reached, solver unknown/timeout, bound exhausted, replay mismatch) - never reported as success. Fixed defects are listed in known_findings.json as kind=fixed and suppress nothing."
}
for p in claimed:
    lvl, note = TEXT[p]
    m["checks"].append({
      "property_id": p,
      "quick_cmd": f"./check {p} --tier quick",
      "thorough_cmd": f"./check {p} --tier thorough",
      "evidence_file": f"/verif/evidence/{p}.json",
      "replay_cmd_template": f"./check {p} --replay {{path}}",
      "engine": "ssa-smt",
      "level_claimed": {"category": "model_checking", "text": lvl, "design_ref": f"DESIGN.md section 6 {p}"},
      "level_note": note + " Bounds: " + checks[p].get('bounds','') + " Outside the claim: " + checks[p].get('outside',''),
      "technique": "bounded symbolic execution of the real Go code (go/ssa -> SMT-LIB2), z3 decides every obligation over all values within the bounds; counterexamples replayed natively",
    })
for p in props:
    if p not in claimed:
        m["not_applicable"].append({"property_id": p, "reason": NA.get(p, "check not built yet in this round (engine serves it by design, see DESIGN.md section 6); not claimed until its harness runs clean")})
json.dump(m, open(f'{V}/MANIFEST.json','w'), indent=1)
print("claimed:", claimed)
