#!/usr/bin/env python3
# usage: mkprompt.py <prop> <n> "<target hint>"  -> writes /tmp/wt/prompt-<prop>-<n>.txt for a seed sub-agent working in /tmp/wt/<prop>-<n>
import json, sys, glob
pid, n, target = sys.argv[1], sys.argv[2], sys.argv[3]
props = {json.loads(l)['id']: json.loads(l) for l in open('/verif/properties.jsonl')}
d = props[pid]
earlier = []
for p in sorted(glob.glob('/verif/seeded/%s-*/meta.json' % pid)):
    m = json.load(open(p))
    txt = ' '.join(l.strip() for l in m['needs_to_manifest_and_notes'].split('\n') if l.strip() and not l.strip().upper().startswith('SEED '))
    earlier.append('(%s) %s' % (m['id'], txt[:300]))
wt = '/tmp/wt/%s-%s' % (pid, n)
t = f'''You are helping evaluate a verification effort for the Go project openkruise/rollouts (a Kubernetes controller for canary / blue-green / batch releases). Your job: produce ONE realistic code change (the kind of slip a maintainer could make in an ordinary refactor or feature patch) that BREAKS the semantic property below while the project still compiles and its existing unit tests still pass.

Work ONLY in the scratch git worktree {wt} (it is a checkout of the project; do not touch /repo or /verif, and do not read anything under /verif). The sandbox is offline; always export GOFLAGS=-mod=mod GOPROXY=off GOSUMDB=off GOTOOLCHAIN=local before go commands. Other jobs share this machine: run at most one `go test` at a time and pass -p 4 to go test.

PROPERTY {pid} — {d['title']}
Statement: {d['statement']}
Quantified over: {d['quantifier']['text']}
Relevant files: {', '.join(d['anchors']['files'])}

WHERE TO SEED: put your change in this part of the code (it is one of the mechanisms the property rests on): {target}
Earlier seeded changes for this property already exist; yours must differ from all of them in location and mechanism: {' '.join(earlier)}

Requirements:
1. The change must be small (a few lines), plausible (wrong variable, dropped guard, off-by-one, swapped order, inverted condition, lost negation, wrong rounding, stale value...), and must make the production code genuinely violate the property on some inputs/histories. Do not touch test files, and do not make changes that merely crash everything. If the named location turns out to be unsuitable (every plausible slip there is caught by the existing tests), pick the closest other location the property depends on and say so in notes.txt.
2. `go build ./...` must succeed and the existing suite must still pass with the change: go test -p 4 -vet=off -count=1 $(go list ./... | grep -v test/e2e)   (test/e2e needs a live cluster and is excluded). This takes several minutes; run it.
3. Write a demo Go test (package-internal test in the most relevant package) named TestDemo... that PASSES on the original code and FAILS with your change, demonstrating the property violation through the real code.
4. Deliver these files in {wt}/_seeded/{n}/ :
   - patch.diff   : `git diff` of the production change only (must apply with `git apply` on the clean worktree)
   - demo_test.go : the demo test file (it will be copied into the demo directory as zz_demo_test.go)
   - demo_dir.txt : the package directory (relative to the repo root) where demo_test.go belongs, e.g. pkg/controller/rollout
   - notes.txt    : what you changed, why it breaks the property, what inputs/histories are needed for it to manifest, and the exact commands you ran with their outcomes
5. Leave the worktree clean at the end (git checkout -- . ; remove your demo test from the package dir), keeping only the _seeded/{n} directory.
Report briefly what you changed and the outcome of the commands.'''
open('/tmp/wt/prompt-%s-%s.txt' % (pid, n), 'w').write(t)
print('/tmp/wt/prompt-%s-%s.txt' % (pid, n))
