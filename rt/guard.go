package verifrt

// Lock discipline, native side.  Under the engine GuardedBy declares everything reachable from root as guarded by mu
// and every access without the lock is a violation (engine/lockset.go).  Natively the same call, when the replay is
// run under the Go race detector (VERIF_RACE=1), starts a goroutine that keeps touching that state under the lock — a
// write of every field and map under the write lock, and for a RWMutex a read of everything under the read lock — so
// that an access made without the lock by the code under test is reported by the detector as a data race.  EndGuard
// stops the goroutine (with a happens-before edge) before the harness reads the state for its own assertions.

import (
	"os"
	"reflect"
	"strings"
	"sync"
	"time"
	"unsafe"
)

var (
	guardStop chan struct{}
	guardDone chan struct{}
)

var muType, rwmuType = reflect.TypeOf(sync.Mutex{}), reflect.TypeOf(sync.RWMutex{})

const repoModule = "github.com/openkruise/rollouts"

func GuardedBy(label string, mu interface{}, root interface{}) {
	if os.Getenv("VERIF_RACE") == "" || guardStop != nil {
		return
	}
	guardStop, guardDone = make(chan struct{}), make(chan struct{})
	stop, done := guardStop, guardDone
	var wl sync.Locker
	var rl sync.Locker
	switch m := mu.(type) {
	case *sync.RWMutex:
		wl, rl = m, m.RLocker()
	case *sync.Mutex:
		wl = m
	default:
		panic("GuardedBy: unsupported mutex type")
	}
	rv := reflect.ValueOf(root)
	go func() {
		defer close(done)
		var sink int
		for {
			select {
			case <-stop:
				return
			default:
			}
			wl.Lock()
			touch(rv, true, true, &sink, map[unsafe.Pointer]bool{})
			wl.Unlock()
			if rl != nil {
				rl.Lock()
				touch(rv, false, true, &sink, map[unsafe.Pointer]bool{})
				rl.Unlock()
			}
			time.Sleep(20 * time.Microsecond)
		}
	}()
	// let the toucher run first; Sleep creates no happens-before edge
	time.Sleep(3 * time.Millisecond)
}

func EndGuard() {
	if guardStop == nil {
		return
	}
	close(guardStop)
	<-guardDone
	guardStop, guardDone = nil, nil
}

func settable(v reflect.Value) reflect.Value {
	if v.CanSet() {
		return v
	}
	if v.CanAddr() {
		return reflect.NewAt(v.Type(), unsafe.Pointer(v.UnsafeAddr())).Elem()
	}
	return v
}

func inRepo(t reflect.Type) bool {
	return t.PkgPath() == "" || strings.HasPrefix(t.PkgPath(), repoModule)
}

// touch reads (write=false) or rewrites in place (write=true) everything reachable from v by the same rule the
// engine uses: struct fields, maps, slices, pointers to repository types (the first pointer whatever its type).
func touch(v reflect.Value, write, top bool, sink *int, seen map[unsafe.Pointer]bool) {
	switch v.Kind() {
	case reflect.Interface:
		if !v.IsNil() {
			touch(v.Elem(), write, top, sink, seen)
		}
	case reflect.Ptr:
		if v.IsNil() || (!top && !inRepo(v.Type().Elem())) {
			return
		}
		p := unsafe.Pointer(v.Pointer())
		if seen[p] {
			return
		}
		seen[p] = true
		touch(v.Elem(), write, false, sink, seen)
	case reflect.Struct:
		if v.Type() == muType || v.Type() == rwmuType {
			return
		}
		if !inRepo(v.Type()) {
			touchLeaf(v, write, sink)
			return
		}
		for i := 0; i < v.NumField(); i++ {
			f := settable(v.Field(i))
			touch(f, write, false, sink, seen)
		}
	case reflect.Map:
		touchLeaf(v, write, sink)
		if v.IsNil() {
			return
		}
		if write {
			// a map write (the runtime annotates it as a write of the whole map)
			k := reflect.New(v.Type().Key()).Elem()
			if old := v.MapIndex(k); old.IsValid() {
				v.SetMapIndex(k, old)
			} else {
				v.SetMapIndex(k, reflect.New(v.Type().Elem()).Elem())
				v.SetMapIndex(k, reflect.Value{})
			}
		}
		it := v.MapRange()
		for it.Next() {
			*sink++
			touch(it.Value(), write, false, sink, seen)
		}
	case reflect.Slice:
		touchLeaf(v, write, sink)
		for i := 0; i < v.Len(); i++ {
			touch(settable(v.Index(i)), write, false, sink, seen)
		}
	default:
		touchLeaf(v, write, sink)
	}
}

func touchLeaf(v reflect.Value, write bool, sink *int) {
	if !v.CanAddr() {
		return
	}
	v = settable(v)
	tmp := reflect.New(v.Type()).Elem()
	tmp.Set(v) // read
	*sink++
	if write {
		v.Set(tmp)
	}
}
