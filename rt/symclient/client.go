// Package symclient is the stub API client of the /verif harnesses (DESIGN.md §4.2):
// Get/List return harness-supplied objects, every write is appended to a log.
package symclient

import (
	"context"
	"errors"
	"fmt"

	kruiseappsv1alpha1 "github.com/openkruise/kruise-api/apps/v1alpha1"
	kruiseappsv1beta1 "github.com/openkruise/kruise-api/apps/v1beta1"
	rolloutv1alpha1 "github.com/openkruise/rollouts/api/v1alpha1"
	"github.com/openkruise/rollouts/api/v1beta1"
	"github.com/openkruise/rollouts/pkg/verifrt"
	apps "k8s.io/api/apps/v1"
	autoscalingv2 "k8s.io/api/autoscaling/v2"
	corev1 "k8s.io/api/core/v1"
	netv1 "k8s.io/api/networking/v1"
	apierrors "k8s.io/apimachinery/pkg/api/errors"
	"k8s.io/apimachinery/pkg/api/meta"
	"k8s.io/apimachinery/pkg/apis/meta/v1/unstructured"
	"k8s.io/apimachinery/pkg/runtime"
	"k8s.io/apimachinery/pkg/runtime/schema"
	"sigs.k8s.io/controller-runtime/pkg/client"
	gatewayv1beta1 "sigs.k8s.io/gateway-api/apis/v1beta1"
)

type Write struct {
	Verb string // create | update | patch | delete | status-update | status-patch
	Kind string
	Obj  client.Object
	Body string // raw patch body, when available
}

type Client struct {
	Objects []client.Object // the store: at most one object per (kind, namespace, name)
	Log     []Write
	// Faults: when set every call may fail with an arbitrary injected error (one fresh boolean per call).
	Faults bool
	// Conflicts: when set Update may fail with a Conflict error.
	Conflicts bool
	// ListFn fills a list; nil means "empty list".
	ListFn func(list client.ObjectList, opts []client.ListOption) error
	// NotFoundOnWrite: writes to objects absent from the store return NotFound.
	NotFoundOnWrite bool
	// ApplyFn is called after a write has been logged (to apply it to the store).
	ApplyFn func(w Write)
	Calls   int
}

var ErrInjected = errors.New("injected API error")

func KindOf(obj runtime.Object) string {
	switch o := obj.(type) {
	case *apps.Deployment:
		return "Deployment"
	case *apps.ReplicaSet:
		return "ReplicaSet"
	case *apps.StatefulSet:
		return "StatefulSet"
	case *kruiseappsv1alpha1.CloneSet:
		return "CloneSet"
	case *kruiseappsv1alpha1.DaemonSet:
		return "DaemonSet"
	case *kruiseappsv1beta1.StatefulSet:
		return "AdvancedStatefulSet"
	case *corev1.Service:
		return "Service"
	case *corev1.Pod:
		return "Pod"
	case *corev1.ConfigMap:
		return "ConfigMap"
	case *netv1.Ingress:
		return "Ingress"
	case *gatewayv1beta1.HTTPRoute:
		return "HTTPRoute"
	case *v1beta1.Rollout:
		return "Rollout"
	case *v1beta1.BatchRelease:
		return "BatchRelease"
	case *rolloutv1alpha1.Rollout:
		return "RolloutV1alpha1"
	case *rolloutv1alpha1.TrafficRouting:
		return "TrafficRouting"
	case *autoscalingv2.HorizontalPodAutoscaler:
		return "HPA"
	case *unstructured.Unstructured:
		return "Unstructured:" + o.GetKind()
	}
	panic(fmt.Sprintf("symclient: unsupported object type %T", obj))
}

// CopyInto deep-copies src into dst (same concrete type).
func CopyInto(src, dst client.Object) { copyInto(src, dst) }

func copyInto(src, dst client.Object) {
	switch s := src.(type) {
	case *apps.Deployment:
		s.DeepCopyInto(dst.(*apps.Deployment))
	case *apps.ReplicaSet:
		s.DeepCopyInto(dst.(*apps.ReplicaSet))
	case *apps.StatefulSet:
		s.DeepCopyInto(dst.(*apps.StatefulSet))
	case *kruiseappsv1alpha1.CloneSet:
		s.DeepCopyInto(dst.(*kruiseappsv1alpha1.CloneSet))
	case *kruiseappsv1alpha1.DaemonSet:
		s.DeepCopyInto(dst.(*kruiseappsv1alpha1.DaemonSet))
	case *kruiseappsv1beta1.StatefulSet:
		s.DeepCopyInto(dst.(*kruiseappsv1beta1.StatefulSet))
	case *corev1.Service:
		s.DeepCopyInto(dst.(*corev1.Service))
	case *corev1.Pod:
		s.DeepCopyInto(dst.(*corev1.Pod))
	case *corev1.ConfigMap:
		s.DeepCopyInto(dst.(*corev1.ConfigMap))
	case *netv1.Ingress:
		s.DeepCopyInto(dst.(*netv1.Ingress))
	case *gatewayv1beta1.HTTPRoute:
		s.DeepCopyInto(dst.(*gatewayv1beta1.HTTPRoute))
	case *v1beta1.Rollout:
		s.DeepCopyInto(dst.(*v1beta1.Rollout))
	case *v1beta1.BatchRelease:
		s.DeepCopyInto(dst.(*v1beta1.BatchRelease))
	case *rolloutv1alpha1.Rollout:
		s.DeepCopyInto(dst.(*rolloutv1alpha1.Rollout))
	case *rolloutv1alpha1.TrafficRouting:
		s.DeepCopyInto(dst.(*rolloutv1alpha1.TrafficRouting))
	case *autoscalingv2.HorizontalPodAutoscaler:
		s.DeepCopyInto(dst.(*autoscalingv2.HorizontalPodAutoscaler))
	case *unstructured.Unstructured:
		s.DeepCopyInto(dst.(*unstructured.Unstructured))
	default:
		panic(fmt.Sprintf("symclient: unsupported object type %T", src))
	}
}

func gr(kind string) schema.GroupResource { return schema.GroupResource{Group: "verif", Resource: kind} }

// Find returns the stored object of the same kind and key, or nil.
func (c *Client) Find(kind, namespace, name string) client.Object {
	for _, o := range c.Objects {
		if KindOf(o) == kind && o.GetNamespace() == namespace && o.GetName() == name {
			return o
		}
	}
	return nil
}

func (c *Client) fault(what string) bool {
	c.Calls++
	return c.Faults && verifrt.Bool("fault."+what)
}

func (c *Client) Get(ctx context.Context, key client.ObjectKey, obj client.Object, opts ...client.GetOption) error {
	if c.fault("get") {
		return ErrInjected
	}
	kind := KindOf(obj)
	s := c.Find(kind, key.Namespace, key.Name)
	if s == nil {
		return apierrors.NewNotFound(gr(kind), key.Name)
	}
	copyInto(s, obj)
	return nil
}

func (c *Client) List(ctx context.Context, list client.ObjectList, opts ...client.ListOption) error {
	if c.fault("list") {
		return ErrInjected
	}
	if c.ListFn != nil {
		return c.ListFn(list, opts)
	}
	return nil
}

func (c *Client) write(verb string, obj client.Object, body string) error {
	kind := KindOf(obj)
	if c.fault(verb) {
		return ErrInjected
	}
	if verb != "create" && c.NotFoundOnWrite && c.Find(kind, obj.GetNamespace(), obj.GetName()) == nil {
		return apierrors.NewNotFound(gr(kind), obj.GetName())
	}
	if verb == "create" && c.Find(kind, obj.GetNamespace(), obj.GetName()) != nil {
		return apierrors.NewAlreadyExists(gr(kind), obj.GetName())
	}
	if (verb == "update" || verb == "status-update") && c.Conflicts && verifrt.Bool("conflict."+verb) {
		return apierrors.NewConflict(gr(kind), obj.GetName(), ErrInjected)
	}
	w := Write{Verb: verb, Kind: kind, Obj: obj, Body: body}
	c.Log = append(c.Log, w)
	if c.ApplyFn != nil {
		c.ApplyFn(w)
	}
	return nil
}

func (c *Client) Create(ctx context.Context, obj client.Object, opts ...client.CreateOption) error {
	return c.write("create", obj, "")
}

func (c *Client) Delete(ctx context.Context, obj client.Object, opts ...client.DeleteOption) error {
	return c.write("delete", obj, "")
}

func (c *Client) Update(ctx context.Context, obj client.Object, opts ...client.UpdateOption) error {
	return c.write("update", obj, "")
}

func patchBody(obj client.Object, patch client.Patch) string {
	// only raw patches carry a body that can be produced without reflection-driven diffing
	if patch.Type() == "" {
		return ""
	}
	b, err := patch.Data(obj)
	if err != nil {
		return ""
	}
	return string(b)
}

func (c *Client) Patch(ctx context.Context, obj client.Object, patch client.Patch, opts ...client.PatchOption) error {
	return c.write("patch", obj, patchBody(obj, patch))
}

func (c *Client) DeleteAllOf(ctx context.Context, obj client.Object, opts ...client.DeleteAllOfOption) error {
	return c.write("delete-all", obj, "")
}

type statusWriter struct{ c *Client }

func (s statusWriter) Create(ctx context.Context, obj client.Object, sub client.Object, opts ...client.SubResourceCreateOption) error {
	return s.c.write("status-create", obj, "")
}
func (s statusWriter) Update(ctx context.Context, obj client.Object, opts ...client.SubResourceUpdateOption) error {
	return s.c.write("status-update", obj, "")
}
func (s statusWriter) Patch(ctx context.Context, obj client.Object, patch client.Patch, opts ...client.SubResourcePatchOption) error {
	return s.c.write("status-patch", obj, patchBody(obj, patch))
}

func (c *Client) Status() client.SubResourceWriter { return statusWriter{c} }

func (c *Client) SubResource(subResource string) client.SubResourceClient {
	panic("symclient: SubResource not supported")
}
func (c *Client) Scheme() *runtime.Scheme   { return nil }
func (c *Client) RESTMapper() meta.RESTMapper { return nil }

// ApplyToStore is an ApplyFn that makes the store follow create / update / delete writes (deep copies).
func (c *Client) ApplyToStore(w Write) {
	idx := -1
	for i, o := range c.Objects {
		if KindOf(o) == w.Kind && o.GetNamespace() == w.Obj.GetNamespace() && o.GetName() == w.Obj.GetName() {
			idx = i
		}
	}
	switch w.Verb {
	case "create", "update":
		cp := w.Obj.DeepCopyObject().(client.Object)
		if idx >= 0 {
			c.Objects[idx] = cp
		} else {
			c.Objects = append(c.Objects, cp)
		}
	case "delete":
		if idx >= 0 {
			c.Objects = append(c.Objects[:idx:idx], c.Objects[idx+1:]...)
		}
	}
}

// Writes returns the logged writes of the given verb prefix and kind ("" = any).
func (c *Client) Writes(verb, kind string) []Write {
	var out []Write
	for _, w := range c.Log {
		if (verb == "" || w.Verb == verb) && (kind == "" || w.Kind == kind) {
			out = append(out, w)
		}
	}
	return out
}
