// Package verifrt is the harness-side API of the /verif symbolic checker.
//
// Under the engine every function here is intercepted (fresh SMT symbols, path
// constraints, proof obligations).  Compiled natively — this file — the same
// calls read their values from a replay file (VERIF_REPLAY), so a solver model
// can be replayed against the real build.
package verifrt

import (
	"encoding/json"
	"fmt"
	"os"
	"reflect"
	"strconv"
	"strings"
)

type replayFile struct {
	Harness string            `json:"harness"`
	Values  map[string]string `json:"values"`
	Bounds  map[string]int    `json:"bounds"`
	Tier    string            `json:"tier"`
}

type Result struct {
	Failed   []string          `json:"failed"`   // labels of failed assertions, in order
	Panic    string            `json:"panic"`    // non-empty if the harness panicked
	Observed map[string]string `json:"observed"` // Observe() values
	Covers   []string          `json:"covers"`
	AssumeViolated []string    `json:"assume_violated"`
}

var (
	rp      replayFile
	occ     = map[string]int{}
	Res     = Result{Observed: map[string]string{}}
	Stubs   = map[string]interface{}{}
	obsOcc  = map[string]int{}
	assumeN int
)

// Load reads the replay file named by VERIF_REPLAY.
func Load() {
	p := os.Getenv("VERIF_REPLAY")
	if p == "" {
		return
	}
	b, err := os.ReadFile(p)
	if err != nil {
		panic(err)
	}
	if err := json.Unmarshal(b, &rp); err != nil {
		panic(err)
	}
	occ = map[string]int{}
	obsOcc = map[string]int{}
	Res = Result{Observed: map[string]string{}}
	Stubs = map[string]interface{}{}
}

// Save writes the native outcome next to the replay file.
func Save() {
	p := os.Getenv("VERIF_REPLAY_OUT")
	if p == "" {
		return
	}
	b, _ := json.MarshalIndent(Res, "", " ")
	os.WriteFile(p, b, 0644)
}

// Run executes a harness natively, recording a panic.
func Run(f func()) {
	Load()
	defer Save()
	defer func() {
		if r := recover(); r != nil {
			if _, ok := r.(assumeStop); ok {
				return
			}
			Res.Panic = fmt.Sprint(r)
			if Res.Panic == "" {
				Res.Panic = "panic"
			}
		}
	}()
	f()
}

type assumeStop struct{}

func key(name string) string {
	occ[name]++
	return name + "#" + strconv.Itoa(occ[name])
}

func raw(name string) (string, bool) {
	v, ok := rp.Values[key(name)]
	return v, ok
}

func Symbolic() bool { return false }

func Bool(name string) bool {
	v, _ := raw(name)
	return v == "true"
}

func Int(name string) int {
	v, _ := raw(name)
	n, _ := strconv.ParseInt(v, 10, 64)
	return int(n)
}

func Int32(name string) int32 {
	v, _ := raw(name)
	n, _ := strconv.ParseInt(v, 10, 64)
	return int32(n)
}

func Int64(name string) int64 {
	v, _ := raw(name)
	n, _ := strconv.ParseInt(v, 10, 64)
	return n
}

// IntRange is Int plus Assume(lo <= v && v <= hi).
func IntRange(name string, lo, hi int) int {
	v := Int(name)
	Assume(lo <= v && v <= hi)
	return v
}

func String(name string) string {
	v, _ := raw(name)
	return v
}

// RepoFile returns the text of a file of the repository under test (path relative to its root), e.g. a shipped Lua
// script: the real artefact is the input of the check in both modes.
func RepoFile(rel string) string {
	root := os.Getenv("VERIF_REPO")
	if root == "" {
		root = "/repo"
	}
	b, err := os.ReadFile(root + "/" + rel)
	if err != nil {
		panic(err)
	}
	return string(b)
}

// Concrete returns v; under the engine the exploration forks over every feasible value of v so that the result is a
// constant on each path (use it for small-range shape parameters such as list lengths and cursors).
func Concrete(v int) int { return v }

// Bound returns the tier-dependent concrete bound of that name.
func Bound(name string, quick, thorough int) int {
	if v, ok := rp.Bounds[name]; ok {
		return v
	}
	if rp.Tier == "thorough" || (rp.Tier == "" && os.Getenv("VERIF_TIER") == "thorough") {
		return thorough
	}
	return quick
}

func Assume(c bool) {
	assumeN++
	if !c {
		Res.AssumeViolated = append(Res.AssumeViolated, strconv.Itoa(assumeN))
		panic(assumeStop{})
	}
}

func Assert(c bool, label string) {
	if !c {
		Res.Failed = append(Res.Failed, label)
	}
}

func Fail(label string) { Res.Failed = append(Res.Failed, label) }

func Cover(label string) { Res.Covers = append(Res.Covers, label) }

// Observe records a scalar for translator validation.
func Observe(name string, v interface{}) {
	obsOcc[name]++
	Res.Observed[name+"#"+strconv.Itoa(obsOcc[name])] = fmt.Sprint(v)
}

// NoPanic runs f and reports whether it panicked.
func NoPanic(f func()) (panicked bool) {
	defer func() {
		if r := recover(); r != nil {
			if _, ok := r.(assumeStop); ok {
				panic(r)
			}
			panicked = true
			Res.Observed["panic:"+strconv.Itoa(len(Res.Observed))] = fmt.Sprint(r)
		}
	}()
	f()
	return false
}

// Stub replaces the named function (ssa full name, e.g.
// "(*github.com/openkruise/rollouts/pkg/trafficrouting.Manager).DoTrafficRouting")
// by f for this harness.
func Stub(name string, f interface{}) { Stubs[name] = f }

// non-forking boolean connectives
func Implies(a, b bool) bool { return !a || b }
func And(a ...bool) bool {
	for _, x := range a {
		if !x {
			return false
		}
	}
	return true
}
func Or(a ...bool) bool {
	for _, x := range a {
		if x {
			return true
		}
	}
	return false
}
func IteInt(c bool, a, b int) int {
	if c {
		return a
	}
	return b
}
func IteStr(c bool, a, b string) string {
	if c {
		return a
	}
	return b
}

// JSONGet returns the value found at path in the JSON document doc: the string
// itself for strings, the literal text for numbers / booleans / null, and
// "{...}" / "[...]" for containers. ok is false if the path is absent.
func JSONGet(doc string, path ...string) (string, bool) {
	var v interface{}
	d := json.NewDecoder(strings.NewReader(doc))
	d.UseNumber()
	if err := d.Decode(&v); err != nil {
		return "", false
	}
	for _, p := range path {
		switch x := v.(type) {
		case map[string]interface{}:
			y, ok := x[p]
			if !ok {
				return "", false
			}
			v = y
		case []interface{}:
			i, err := strconv.Atoi(p)
			if err != nil || i < 0 || i >= len(x) {
				return "", false
			}
			v = x[i]
		default:
			return "", false
		}
	}
	switch x := v.(type) {
	case string:
		return x, true
	case json.Number:
		return x.String(), true
	case bool:
		return strconv.FormatBool(x), true
	case nil:
		return "null", true
	case map[string]interface{}:
		return "{...}", true
	default:
		return "[...]", true
	}
}

// IsNilInterface reports whether v is nil or holds a nil pointer/map/slice.
func IsNil(v interface{}) bool {
	if v == nil {
		return true
	}
	rv := reflect.ValueOf(v)
	switch rv.Kind() {
	case reflect.Ptr, reflect.Map, reflect.Slice, reflect.Interface, reflect.Func:
		return rv.IsNil()
	}
	return false
}
