// Package vh holds harness helpers shared by the per-package /verif harnesses.
package vh

import (
	"fmt"

	"github.com/openkruise/rollouts/api/v1beta1"
	"github.com/openkruise/rollouts/pkg/verifrt"
	metav1 "k8s.io/apimachinery/pkg/apis/meta/v1"
	"k8s.io/apimachinery/pkg/util/intstr"
)

func MaxR() int { return verifrt.Bound("R", 100000, 2000000000) }

// PlanEntry: an int or "p%" batch size, plus its reference value on `total` pods (independent arithmetic).
func PlanEntry(name string, total int) (intstr.IntOrString, int, bool) {
	if verifrt.Bool(name + ".isPercent") {
		p := verifrt.IntRange(name+".percent", 0, 100)
		ref := (p*total + 99) / 100
		return intstr.FromString(fmt.Sprintf("%d%%", p)), ref, true
	}
	n := verifrt.IntRange(name+".int", 0, MaxR())
	ref := n
	if ref > total {
		ref = total
	}
	return intstr.FromInt(n), ref, false
}

// Release builds a BatchRelease with 1..2 batches and a current batch; returns the reference planned size of the
// current batch computed on `total` pods and whether it is a percentage.
func Release(total int, noNeed *int32) (*v1beta1.BatchRelease, int, bool) {
	release := &v1beta1.BatchRelease{ObjectMeta: metav1.ObjectMeta{Namespace: "ns", Name: "br", UID: "uid-1"}}
	release.Status.CanaryStatus.NoNeedUpdateReplicas = noNeed
	nb := verifrt.IntRange("nBatches", 1, 2)
	cur := verifrt.IntRange("currentBatch", 0, 1)
	verifrt.Assume(cur < nb)
	ref, isPct := 0, false
	for i := 0; i < nb; i++ {
		e, r, pct := PlanEntry("batch", total)
		release.Spec.ReleasePlan.Batches = append(release.Spec.ReleasePlan.Batches, v1beta1.ReleaseBatch{CanaryReplicas: e})
		if i == cur {
			ref, isPct = r, pct
		}
	}
	release.Status.CanaryStatus.CurrentBatch = int32(cur)
	return release, ref, isPct
}

// NoNeed returns a symbolic no-need-update count in [1,R] (nil when with is false).
func NoNeed(with bool, R int) (*int32, int) {
	if !with {
		return nil, 0
	}
	N := verifrt.IntRange("noNeedUpdate", 1, MaxR())
	verifrt.Assume(N <= R)
	n32 := int32(N)
	return &n32, N
}

func Slack(isPct bool, R int) int {
	if isPct {
		return (R + 99) / 100
	}
	return 0
}
